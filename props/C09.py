"""C09 — accounting bracketing and monotone usage counters (internal/aaa/{accounting,component}.go)."""

ID = "C09"
HARNESSES = [dict(name="aaa", pkg="./internal/aaa/", test="TestVerifC09", timeout=900,
                  files=[("internal/aaa/zz_verif_c09_test.go", "harness/C09/zz_verif_c09_test.go")]),
             # the same harness built with the race detector, for the histories marked "Sr" (forced-overlap groups
             # of Released / tick notifications); a reported data race fails the run (no-failing-input-found)
             dict(name="aaa_race", pkg="./internal/aaa/", test="TestVerifC09", timeout=900, race=True,
                  files=[("internal/aaa/zz_verif_c09_test.go", "harness/C09/zz_verif_c09_test.go")])]


HARNESSES.append(
    # wire part: the real RADIUS Provider against a loopback accounting server that decodes every request
    dict(name="radius", pkg="./plugins/auth/radius/", test="TestVerifC09W", timeout=600,
         files=[("plugins/auth/radius/zz_verif_c09w_test.go", "harness/C09/zz_verif_c09w_test.go")]))


def route(case):
    if case.startswith("W "):
        return "radius"
    return "aaa_race" if case.startswith("Sr ") else "aaa"
# Model variants: "repaired" = /repo HEAD plus ordered per-session delivery of the provider calls (the one finding still
# open, no patch); "head" = /repo HEAD.  Everything else is fixed in /repo (7e92d8e, e0693a6, d70a5ae, 9b87063, d95fed1,
# 7faf7f9, 5478db8, 4de5a6b, a967234): a regression to any of those matches neither variant and is reported as a VIOLATION.
VARIANTS = ["repaired", "head"]
FLAGS = {"repaired": "", "head": "o"}
SIG = {"o": "start-stop-interim-sent-from-unordered-goroutines"}
# the model driver receives the implementation's line: for a session whose uint64 cumulative has wrapped (outside the
# property's domain) the implementation's counter VALUES are taken as they are from that operation on (ocaml: mask_line)
MODEL_NEEDS_IMPL = True
RULE = ("One case = one history of the real AAA component with 1-4 sessions (two of them share an interim bucket; 6% of "
        "the histories have 5-7 sessions crowded in one bucket, with releases between ticks); "
        "IPoE, PPPoE and l2gw payloads; l2gw sessions read the l2gw stats segment - access and handoff entry - on a tick, "
        "with entries missing / segment unavailable / segment restarted): lifecycle-active (repeated), restored (same or renumbered interface), released "
        "(repeated, before any start), bucket ticks (own bucket, foreign bucket, per-session Accounting-Response "
        "failures), process restart (new component over the same opdb, loadAcctSessions), orphan prune before/after "
        "the deadline. Dataplane readings per interface follow named classes: monotone growth, equal, reset to 0 / to "
        "a smaller value / of a single counter, reading missing, snapshot unavailable, duplicate index, values at "
        "2^32 and 2^63..2^64-1 (u64 wrap). A degenerate stream adds histories starting with released/tick/restart. "
        "Compared exactly: every Start/Interim/Stop call with its four counters and success flag, the final cache / "
        "bucket / checkpoint state, and the per-session verdict of the property (bracketing, stops, monotone) computed "
        "independently in Go on the observed calls. Forced-overlap histories: a group of notifications (duplicated "
        "Released, Released + tick, Released + one Active/Restored) is delivered from one goroutine each while the "
        "stats source blocks every handler at its snapshot read until all handlers of the group have reached it or "
        "returned; groups of Released/tick have a schedule-independent outcome and are compared exactly (also under "
        "the race detector), groups with Active/Restored are judged by the Start/Stop counts every interleaving "
        "allows; each such history is run 5 times and must repeat. Asynchronous delivery: histories in which StartAccounting calls are held back inside the provider fake "
        "(H,S) while ticks / releases / further announcements happen, then let through (U); compared exactly: the order "
        "in which calls ARRIVE at the provider; verdict bits brk / mono / snt (every value sent) / ord (strict bracket) "
        "are computed in Go on the arrival stream. Interims in flight: UpdateAccounting calls are recorded on receipt but their response is held back (H,I) "
        "while the session is released (with / without a dataplane reading), re-announced or pruned; the response is then "
        "delivered (acknowledged / failed); compared exactly: every call with its counters, in particular the Stop issued "
        "while an Interim is unanswered. Wire part: the real RADIUS Provider (Start/Update/StopAccounting over a real radiusConn) against a loopback "
        "UDP accounting server; counters at and around 2^32, 2^33, 2^40, 2^63, 2^64-1 for every status type, sessions "
        "growing through those boundaries; compared: attributes 40/42/43/52/53/47/48 of every Accounting-Request and the "
        "monotone monitor on the 64-bit values the server reconstructs. Non-trivial: at least one Interim and a Stop or "
        "a restart (wire: a counter >= 2^32). "
        "Distinct: by case text.")
TRUSTED = ["goroutines spawned by one notification (Start/Stop/Update calls, checkpoint Put/Delete) are awaited before "
           "the next notification is delivered: reordering by the scheduler is outside the model",
           "in-memory opdb fake and scripted stats snapshot in the harness"]
ASSUMPTIONS = ["per-session independence: session ids are distinct strings; the component-level model is the product of "
               "per-session machines (C09_component_is_product)",
               "monotonicity is claimed while the u64 cumulative does not wrap (lrun_wraps = false) and while the orphan "
               "prune deadline does not pass for a live session (no_prune)",
               "orderings between goroutines of one notification and the next are not explored; only the forced overlap of the "
               "handlers of one group is"]

POOL = [("s7", 7), ("s10", 7), ("s2", 0), ("s3", 11)]
CROWD = [("s7", 7), ("s10", 7), ("s29", 7), ("s36", 7), ("s47", 7), ("s54", 7), ("s58", 7)]    # one crowded bucket
# interface / stats-entry indexes: small ones, and ones that differ from 5 only above bit 8 / bit 16 (a key truncated to 8 or 16
# bits would alias them), and the largest uint32
IFX = [5, 6, 8, 9, 261, 65541, 4294967295]
BIG = [2 ** 32 - 1, 2 ** 32, 2 ** 32 + 12345, 2 ** 63, 2 ** 64 - 1, 2 ** 64 - 1000]


def snap_tok(items):
    """items: interface table, or (interface table, l2gw segment)"""
    l2 = None
    if isinstance(items, tuple):
        items, l2 = items

    def one(t):
        if t is None:
            return "-"
        if not t:
            return "e"
        return "+".join(":".join(str(x) for x in it) for it in t)
    return one(items) if l2 is None else one(items) + "|" + one(l2)


class Plane:
    """scripted dataplane: four counters per interface index, evolving by reading classes"""

    def __init__(self, rng, big):
        self.rng = rng
        self.c = {i: [0, 0, 0, 0] for i in IFX}
        self.g = {i: [0, 0] for i in IFX}          # l2gw stats segment: entry index -> [bytes, packets]
        self.l2gw = False                          # the case has an l2gw session: snapshots carry the segment
        self.big = big
        self.classes = []

    def evolve(self):
        rng = self.rng
        for i in IFX:
            r = rng.random()
            c = self.c[i]
            if r < 0.55:
                k = "grow"
                for j in range(4):
                    c[j] += rng.choice([0, 1, 7, 100, 1500, 10 ** 6]) if j < 2 else rng.choice([0, 1, 3, 50])
            elif r < 0.65:
                k = "equal"
            elif r < 0.75:
                k = "reset0"
                self.c[i] = [0, 0, 0, 0]
            elif r < 0.87:
                k = "reset_smaller"
                self.c[i] = [rng.randint(0, x) for x in c]
            elif r < 0.93:
                k = "reset_one"
                j = rng.randrange(4)
                c[j] = rng.randint(0, c[j])
            elif self.big and r < 0.97:
                k = "big"
                j = rng.randrange(4)
                c[j] = rng.choice(BIG)
            else:
                k = "jump"
                for j in range(4):
                    c[j] += rng.choice([2 ** 31, 2 ** 32, 5 * 10 ** 9]) if j < 2 else 10 ** 6
            for j in range(4):
                c[j] %= 2 ** 64
            self.classes.append(k)
        for i in IFX:
            r = rng.random()
            g = self.g[i]
            if r < 0.6:
                g[0] += rng.choice([0, 64, 1500, 10 ** 6])
                g[1] += rng.choice([0, 1, 10])
            elif r < 0.7:
                pass
            elif r < 0.8:
                self.g[i] = [0, 0]
                self.classes.append("l2gw_reset0")
            elif r < 0.92:
                self.g[i] = [rng.randint(0, g[0]), rng.randint(0, g[1])]
                self.classes.append("l2gw_reset_smaller")
            elif self.big:
                g[rng.randrange(2)] = rng.choice(BIG)
            self.g[i] = [x % 2 ** 64 for x in self.g[i]]

    def snapshot(self):
        ifs = self.if_snapshot()
        if not self.l2gw and self.rng.random() < 0.97:
            return ifs
        rng = self.rng
        r = rng.random()
        if r < 0.08:
            return (ifs, None)
        if r < 0.12:
            return (ifs, [])
        seg = []
        for i in IFX:
            if rng.random() < 0.15:
                self.classes.append("l2gw_entry_missing")
                continue
            seg.append([i] + list(self.g[i]))
        return (ifs, seg)

    def if_snapshot(self):
        rng = self.rng
        r = rng.random()
        if r < 0.06:
            self.classes.append("unavailable")
            return None
        if r < 0.10:
            self.classes.append("empty")
            return []
        items = []
        for i in IFX:
            if rng.random() < 0.12:
                self.classes.append("missing")
                continue
            items.append([i] + list(self.c[i]))
        if items and rng.random() < 0.05:
            self.classes.append("duplicate_index")
            d = list(rng.choice(items))
            d[1:] = [rng.randint(0, 2000) for _ in range(4)]
            items.insert(rng.randrange(len(items) + 1), d)
        return items


def gen_one(rng, nops, big, degenerate=False, crowd=False):
    k = rng.choice([1, 1, 2, 2, 3, 4])
    sess = POOL[:k] if rng.random() < 0.7 else rng.sample(POOL, k)
    if crowd:
        k = rng.choice([5, 6, 7])
        sess = rng.sample(CROWD, k)
    tys = [rng.choice("iippggt") for _ in sess]
    head = ["S", str(k)] + ["%s:%d:%s" % (sid, b, t) for (sid, b), t in zip(sess, tys)]
    pl = Plane(rng, big)
    pl.l2gw = "g" in tys
    cur = {j: rng.choice(IFX) for j in range(k)}
    hof = {j: rng.choice(IFX) for j in range(k)}

    def ann(kind, j):
        if tys[j] == "g" or rng.random() < 0.1:
            return "%s,%d,%d,%d" % (kind, j, cur[j], hof[j])
        return "%s,%d,%d" % (kind, j, cur[j])
    ops = []
    if degenerate:
        ops.append(rng.choice(["X,0,e", "T,%d,0,e" % sess[0][1], "B", "P,1", "R,0,5", "X,0,-"]))
    for _ in range(nops):
        r = rng.random()
        j = rng.randrange(k)
        if r < 0.14:
            ops.append(ann("A", j))
            if rng.random() < 0.3:
                ops.append(ann("A", j))
        elif r < 0.24:
            if rng.random() < 0.5:
                cur[j] = rng.choice(IFX)          # renumbered
                if rng.random() < 0.5:
                    hof[j] = rng.choice(IFX)
            ops.append(ann("R", j))
            if rng.random() < 0.2:
                ops.append(ann("R", j))
        elif r < 0.33:
            pl.evolve()
            ops.append("X,%d,%s" % (j, snap_tok(pl.snapshot())))
            if rng.random() < 0.3:
                ops.append("X,%d,%s" % (j, snap_tok(pl.snapshot())))
        elif r < 0.82:
            pl.evolve()
            b = sess[j][1] if rng.random() < 0.9 else rng.choice([0, 3, 7, 11])
            mask = 0
            if rng.random() < 0.25:
                mask = rng.randrange(1, 1 << k)
            ops.append("T,%d,%d,%s" % (b, mask, snap_tok(pl.snapshot())))
        elif r < 0.92:
            ops.append("B")
            if rng.random() < 0.6:
                # the usual restore cycle: every session is re-announced, mostly by Restored
                for jj in range(k):
                    if rng.random() < 0.8:
                        if rng.random() < 0.3:
                            cur[jj] = rng.choice(IFX)
                        ops.append(ann("R" if rng.random() < 0.8 else "A", jj))
        else:
            ops.append("P,%d" % rng.choice([0, 1, 1]))
    return " ".join(head + ops), pl.classes


WIRE_EDGES = [0, 1, 2 ** 31, 2 ** 32 - 1, 2 ** 32, 2 ** 32 + 1, 2 ** 32 + 2000000, 2 ** 33 - 1, 2 ** 33, 2 ** 33 + 5,
              3 * 2 ** 32, 2 ** 40 - 1, 2 ** 40, 2 ** 40 + 2 ** 32, 2 ** 48, 2 ** 63, 2 ** 64 - 2 ** 32, 2 ** 64 - 1]


def gen_wire(rng):
    """one accounting session as sent by the provider: Start, Interims, Stop (sometimes out of shape), octet
    counters growing through the 2^32 / 2^33 / 2^40 boundaries, packets below (rarely above) 2^32"""
    recs = []
    r = rng.random()
    shape = "SIE" if r < 0.7 else rng.choice(["IE", "SE", "SI", "E", "I", "SIESIE", "S"])
    cur = [0, 0, 0, 0]
    if rng.random() < 0.5:
        cur[0] = rng.choice(WIRE_EDGES[:12])
    if rng.random() < 0.5:
        cur[1] = rng.choice(WIRE_EDGES[:12])

    def grow():
        for j in (0, 1):
            m = rng.random()
            if m < 0.35:
                nxt = [e for e in WIRE_EDGES if e >= cur[j]]
                cur[j] = rng.choice(nxt[:4]) if nxt else cur[j]
            elif m < 0.8:
                cur[j] = min(2 ** 64 - 1, cur[j] + rng.choice([0, 1, 1500, 2000000, 2 ** 31, 2 ** 32, 2 ** 32 - 1, 2 ** 36]))
            elif m < 0.85:
                cur[j] = rng.randint(0, cur[j])            # a decrease handed to the provider must stay visible
        for j in (2, 3):
            m = rng.random()
            if m < 0.9:
                cur[j] = min(2 ** 32 - 1, cur[j] + rng.choice([0, 1, 1000, 2 ** 20, 2 ** 31]))
            elif m < 0.95:
                cur[j] = rng.choice([2 ** 32 - 1, 2 ** 32, 2 ** 33 + 7])      # beyond what RADIUS can carry
    for ch in shape:
        if ch == "S":
            # the only caller of StartAccounting passes zero counters: a Start carries no usage
            recs.append("S,0,0,0,0")
        elif ch == "I":
            for _ in range(rng.choice([1, 2, 3, 5])):
                grow()
                recs.append("I,%d,%d,%d,%d" % tuple(cur))
        else:
            grow()
            recs.append("E,%d,%d,%d,%d" % tuple(cur))
            cur[:] = [0, 0, 0, 0]
    return "W " + " ".join(recs)


def gen_hold(rng):
    """delayed Start goroutines: H,S ; announcements ; ticks / releases while the Start is still on its way ; U"""
    k = rng.choice([1, 1, 2])
    sess = rng.sample(POOL, k)
    tys = [rng.choice("iipgt") for _ in sess]
    head = ["S", str(k)] + ["%s:%d:%s" % (sid, b, t) for (sid, b), t in zip(sess, tys)]
    pl = Plane(rng, False)
    pl.l2gw = "g" in tys
    ifx = {x: rng.choice(IFX) for x in range(k)}
    ops = []
    if rng.random() < 0.3:
        ops.append("A,%d,%d,%d" % (0, ifx[0], rng.choice(IFX)))
    ops.append("H,S")
    for _ in range(rng.choice([2, 3, 4, 6])):
        x = rng.randrange(k)
        r = rng.random()
        pl.evolve()
        if r < 0.35:
            ops.append("A,%d,%d,%d" % (x, ifx[x], rng.choice(IFX)))
        elif r < 0.65:
            ops.append("T,%d,%d,%s" % (sess[x][1], rng.choice([0, 0, 1 << x]), snap_tok(pl.snapshot())))
        elif r < 0.9:
            ops.append("X,%d,%s" % (x, snap_tok(pl.snapshot())))
        else:
            ops.append("R,%d,%d,%d" % (x, ifx[x], rng.choice(IFX)))
    if rng.random() < 0.3:
        ops.append("H,-")
    ops.append("U")
    for _ in range(rng.randrange(0, 3)):
        x = rng.randrange(k)
        pl.evolve()
        ops.append(rng.choice(["T,%d,0,%s" % (sess[x][1], snap_tok(pl.snapshot())), "A,%d,%d,%d" % (x, ifx[x], ifx[x]),
                               "X,%d,%s" % (x, snap_tok(pl.snapshot()))]))
    if rng.random() < 0.5:
        ops.append("U")
    return " ".join(head + ops)


def gen_inflight(rng):
    """Interims in flight: H,I ; a tick (the Interim reaches the backend, its response is outstanding) ; then, while it
    is unanswered: release (with / without a dataplane reading, counters restarted), re-announcement, prune ; U delivers
    the response (acknowledged or failed) ; suffix.  No second tick of the same bucket and no restart while unanswered."""
    k = rng.choice([1, 1, 2])
    sess = rng.sample(POOL, k)
    tys = [rng.choice("iipgt") for _ in sess]
    head = ["S", str(k)] + ["%s:%d:%s" % (sid, b, t) for (sid, b), t in zip(sess, tys)]
    pl = Plane(rng, False)
    pl.l2gw = "g" in tys
    ifx = {x: rng.choice(IFX) for x in range(k)}
    ops = []
    for x in range(k):
        ops.append(("A,%d,%d,%d" if rng.random() < 0.8 else "R,%d,%d,%d") % (x, ifx[x], rng.choice(IFX)))
    for _ in range(rng.randrange(0, 3)):
        pl.evolve()
        x = rng.randrange(k)
        ops.append("T,%d,%d,%s" % (sess[x][1], rng.choice([0, 0, 1 << x]), snap_tok(pl.snapshot())))
    if rng.random() < 0.15:
        ops.append("B")
        ops += ["R,%d,%d,%d" % (x, ifx[x], rng.choice(IFX)) for x in range(k)]
    ops.append("H,I")
    j = rng.randrange(k)
    pl.evolve()
    released_pending = set()       # sessions of the ticked bucket (all have an unanswered Interim) released since
    fmask = rng.choice([0, 0, 0, 1 << j])
    ops.append("T,%d,%d,%s" % (sess[j][1], fmask, snap_tok(pl.snapshot())))
    for _ in range(rng.choice([1, 1, 2, 3])):
        x = rng.randrange(k)
        r = rng.random()
        if x in released_pending and 0.55 <= r < 0.9:
            # the model keeps ONE detached object per session: after the release of the session whose Interim is
            # unanswered it is not announced again before the response is delivered
            r = 0.95
        if fmask and r >= 0.55 and sess[x][1] == sess[j][1]:
            # a FAILED late response checkpoints the cached entry as it is then; the model wrote that checkpoint at send
            # time, so the entry must not be re-announced (interface renumbered) in between
            r = 0.95
        if r < 0.55:
            m = rng.random()
            if m < 0.4:
                sn = rng.choice(["e", "-", "e|e"])            # no usable reading at release (interface already gone)
            else:
                pl.evolve()
                sn = snap_tok(pl.snapshot())
            ops.append("X,%d,%s" % (x, sn))
            if sess[x][1] == sess[j][1]:
                released_pending.add(x)
        elif r < 0.75:
            ops.append("A,%d,%d,%d" % (x, ifx[x], rng.choice(IFX)))
        elif r < 0.9:
            ops.append("R,%d,%d,%d" % (x, rng.choice(IFX), rng.choice(IFX)))
        else:
            ops.append("P,%d" % rng.choice([0, 1]))
    ops.append("U")
    ops.append("H,-")
    for _ in range(rng.randrange(0, 3)):
        pl.evolve()
        x = rng.randrange(k)
        ops.append(rng.choice(["T,%d,0,%s" % (sess[x][1], snap_tok(pl.snapshot())), "A,%d,%d,%d" % (x, ifx[x], ifx[x]),
                               "X,%d,%s" % (x, rng.choice(["e", snap_tok(pl.snapshot())]))]))
    # after the late response: a restart, then what the checkpoints left behind lead to (restore, prune, repeated release)
    if rng.random() < 0.45:
        ops.append("B")
        for _ in range(rng.choice([1, 2, 3])):
            x = rng.randrange(k)
            r = rng.random()
            if r < 0.35:
                ops.append("P,1")
            elif r < 0.6:
                ops.append("X,%d,e" % x)
            elif r < 0.8:
                ops.append("R,%d,%d,%d" % (x, ifx[x], rng.choice(IFX)))
            else:
                pl.evolve()
                ops.append("T,%d,0,%s" % (sess[x][1], snap_tok(pl.snapshot())))
    return " ".join(head + ops)


def gen_restart_unanswered(rng):
    """the process restarts while an Interim is unanswered (H,I T ... B, the response is never delivered), then the
    session is restored / re-announced and reports again - with readings missing, restarted or continuing"""
    k = rng.choice([1, 1, 2])
    sess = rng.sample(POOL, k)
    tys = [rng.choice("iipgt") for _ in sess]
    head = ["S", str(k)] + ["%s:%d:%s" % (sid, b, t) for (sid, b), t in zip(sess, tys)]
    pl = Plane(rng, False)
    pl.l2gw = "g" in tys
    ifx = {x: rng.choice(IFX) for x in range(k)}
    ops = [("A,%d,%d,%d" if rng.random() < 0.8 else "R,%d,%d,%d") % (x, ifx[x], rng.choice(IFX)) for x in range(k)]
    for _ in range(rng.randrange(0, 3)):
        pl.evolve()
        x = rng.randrange(k)
        ops.append("T,%d,%d,%s" % (sess[x][1], rng.choice([0, 0, 1 << x]), snap_tok(pl.snapshot())))
    j = rng.randrange(k)
    pl.evolve()
    ops += ["H,I", "T,%d,0,%s" % (sess[j][1], snap_tok(pl.snapshot())), "H,-", "B"]
    for x in range(k):
        if rng.random() < 0.85:
            ops.append(("R,%d,%d,%d" if rng.random() < 0.8 else "A,%d,%d,%d") % (x, ifx[x], rng.choice(IFX)))
    for _ in range(rng.choice([1, 2, 3])):
        x = rng.randrange(k)
        m = rng.random()
        if m < 0.35:
            sn = rng.choice(["e", "-", "e|e"])
        else:
            if rng.random() < 0.5:
                pl.evolve()
            sn = snap_tok(pl.snapshot())
        ops.append(rng.choice(["T,%d,0,%s" % (sess[x][1], sn), "X,%d,%s" % (x, sn)]))
    return " ".join(head + ops)


def gen_conc(rng, racy):
    """history = sequential prefix, one forced-overlap group, (deterministic groups only) a sequential suffix.
    Deterministic group: 2-4 duplicated Released of one session, optionally Released of other sessions and one tick.
    The tick's bucket never holds two sessions of the case when one of them is released in the group: removing an
    id from the middle of a bucket slice while a tick iterates its stale copy is schedule dependent (see notes).
    Racy group (last op): Released x1-3 plus exactly one Active or Restored of the same session."""
    k = rng.choice([1, 1, 2, 3])
    sess = rng.sample(POOL, k)
    tys = [rng.choice("iippg") for _ in sess]
    head = ["S", str(k)] + ["%s:%d:%s" % (sid, b, t) for (sid, b), t in zip(sess, tys)]
    pl = Plane(rng, False)
    pl.l2gw = "g" in tys
    ops = []
    j = rng.randrange(k)
    ifx = {x: rng.choice(IFX) for x in range(k)}
    for x in range(k):
        r = rng.random()
        if r < 0.7:
            ops.append("A,%d,%d" % (x, ifx[x]))
        elif r < 0.9:
            ops.append("R,%d,%d" % (x, ifx[x]))
    for _ in range(rng.randrange(0, 4)):
        pl.evolve()
        x = rng.randrange(k)
        ops.append("T,%d,%d,%s" % (sess[x][1], rng.choice([0, 0, 0, 1 << x]), snap_tok(pl.snapshot())))
    if rng.random() < 0.15:
        ops.append("B")
        if rng.random() < 0.7:
            ops.append("R,%d,%d" % (j, ifx[j]))
    pl.evolve()
    members = ["X,%d" % j] * rng.choice([2, 2, 3, 4])
    if racy:
        members = ["X,%d" % j] * rng.choice([1, 2, 3])
        members.append(rng.choice(["A,%d,%d", "R,%d,%d"]) % (j, rng.choice(IFX)))
    else:
        released = {j}
        for x in range(k):
            if x != j and rng.random() < 0.4:
                members += ["X,%d" % x] * rng.choice([1, 2])
                released.add(x)
        if rng.random() < 0.5:
            ok = [b for b in (0, 3, 7, 11)
                  if not any(sess[x][1] == b and sum(1 for y in range(k) if sess[y][1] == b) > 1 for x in released)]
            if ok:
                members.append("T,%d,%d" % (rng.choice(ok), 0))
    rng.shuffle(members)
    ops.append("C/%s/%s" % (snap_tok(pl.snapshot()), "/".join(members)))
    if not racy:
        for _ in range(rng.randrange(0, 3)):
            pl.evolve()
            x = rng.randrange(k)
            ops.append(rng.choice(["T,%d,0,%s" % (sess[x][1], snap_tok(pl.snapshot())), "A,%d,%d" % (x, ifx[x]),
                                   "X,%d,%s" % (x, snap_tok(pl.snapshot()))]))
    return " ".join(head + ops)


def gen_cases(rng, tier, budget):
    n = budget or (2500 if tier == "quick" else 40000)
    cases = []
    # the DESIGN.md section 6 history and its neighbours, always
    base = "S 1 s7:7:i A,0,5"
    for seq in ([400, 1000, 5, 20], [1000, 5], [7, 7, 7], [10, 0, 10, 0, 10], [2 ** 32 - 1, 2 ** 32, 3], [2 ** 64 - 1, 1, 2 ** 64 - 1]):
        ops = " ".join("T,7,0,5:%d:%d:%d:%d" % (x, x // 2, x // 100, x // 200) for x in seq)
        cases.append("%s %s X,0,5:%d:0:0:0" % (base, ops, seq[-1] // 2))
    cases += ["S 1 s7:7:i A,0,5 X,0,e X,0,e", "S 1 s7:7:p X,0,e", "S 1 s7:7:i R,0,5 X,0,- X,0,-",
              "S 1 s7:7:i A,0,5 A,0,5 A,0,6 R,0,5 R,0,5 A,0,5 X,0,e",
              "S 1 s7:7:i A,0,5 T,7,0,5:400:40:4:1 B A,0,5 T,7,0,5:500:50:5:2 X,0,e",
              "S 1 s7:7:i A,0,5 T,7,0,5:400:40:4:1 B R,0,6 T,7,0,6:3:3:3:3 B R,0,5 X,0,5:1:1:1:1",
              "S 1 s7:7:i A,0,5 T,7,0,5:400:40:4:1 B P,1 R,0,5 T,7,0,5:3:3:3:3",
              "S 1 s7:7:i R,0,5 T,7,1,5:9:9:9:9 B A,0,5 T,7,0,5:10:10:10:10 X,0,e",
              "S 2 s7:7:i s10:7:p A,0,5 A,1,5 T,7,2,5:10:20:30:40 T,7,1,5:5:50:5:50 X,1,5:1:1:1:1 T,7,0,5:2:2:2:2 X,0,e"]
    cases += ["S 1 s7:7:g A,0,3,4 T,7,0,-|3:500:5+4:900:9 T,7,0,-|3:40:1+4:60:2 B R,0,3,4 T,7,0,e|4:100:3 X,0,3:7:7:7:7|3:1:1",
              "S 2 s7:7:g s10:7:i A,0,3,4 A,1,3 T,7,0,3:10:20:30:40|- T,7,0,3:11:21:31:41|e T,7,0,3:12:22:32:42|4:9:9 B A,0,3,4 X,0,- X,1,3:1:1:1:1",
              "S 1 s2:0:g R,0,1,2 T,0,0,e|1:5:1+2:6:2 B T,0,0,e|1:7:1 R,0,1,2 X,0,1:9:9:9:9|1:50:5"]
    for i in range(n):
        r = rng.random()
        nops = rng.choice([3, 5, 8, 12, 18, 25]) if tier == "quick" else rng.choice([3, 6, 10, 16, 24, 40])
        c, _ = gen_one(rng, nops, big=(r < 0.15), degenerate=(0.15 <= r < 0.25), crowd=(0.25 <= r < 0.31))
        cases.append(c)
    # forced-overlap histories (each is run 5 times by the harness and must give the same line every time)
    conc = ["S 1 s7:7:i A,0,5 T,7,0,5:10:1:1:1 C/5:20:2:2:2/X,0/X,0 A,0,5",
            "S 1 s7:7:i A,0,5 C/5:20:2:2:2/X,0/X,0/T,7,0",
            "S 2 s7:7:i s2:0:p A,0,5 A,1,6 C/5:20:2:2:2+6:7:7:7:7/X,0/X,0/X,1/T,0,0 T,7,0,5:30:3:3:3",
            "S 1 s7:7:p R,0,5 C/-/X,0/X,0/X,0/X,0 X,0,e"]
    nc = 120 if tier == "quick" else 1500
    for i in range(nc):
        conc.append(gen_conc(rng, False))
    cases += conc
    cases += ["Sr" + c[1:] for c in conc[:(64 if tier == "quick" else 500)]]     # the same, under the race detector
    cases += ["S 1 s7:7:i A,0,5 C/5:20:2:2:2/X,0/A,0,5/X,0", "S 1 s7:7:i A,0,5 C/e/X,0/R,0,6/X,0/X,0", "S 1 s7:7:i C/e/X,0/A,0,5"]
    for i in range(40 if tier == "quick" else 500):
        cases.append(gen_conc(rng, True))
    # asynchronous delivery: delayed Start goroutines
    cases += ["S 1 s7:7:i H,S A,0,5 X,0,5:9:9:9:9 U", "S 1 s7:7:i H,S A,0,5 T,7,0,5:400:4:4:4 X,0,5:500:5:5:5 U H,- A,0,5",
              "S 1 s7:7:i H,S A,0,5 T,7,0,5:400:4:4:4 U T,7,0,5:500:5:5:5 X,0,e"]
    for i in range(120 if tier == "quick" else 2000):
        cases.append(gen_hold(rng))
    # Interims in flight (sent, response outstanding) while the session is released / re-announced
    cases += ["S 1 s7:7:i A,0,5 T,7,0,5:500000:1:1:1 H,I T,7,0,5:1500000:2:2:2 X,0,e U",
              "S 1 s7:7:i A,0,5 T,7,0,5:500000:1:1:1 H,I T,7,1,5:1500000:2:2:2 X,0,5:7:7:7:7 U",
              "S 1 s7:7:i R,0,5 H,I T,7,0,5:1500000:2:2:2 X,0,- U H,- A,0,5 T,7,0,5:3:3:3:3 X,0,e",
              "S 1 s7:7:i A,0,5 H,I T,7,0,5:1500000:2:2:2 U H,- T,7,0,e X,0,e"]
    cases += ["S 1 s7:7:i A,0,5 H,I T,7,0,5:100:1:1:1 X,0,e U H,- B P,1", "S 1 s7:7:i A,0,5 H,I T,7,1,5:100:1:1:1 X,0,e U H,- B X,0,e",
              "S 1 s7:7:i A,0,5 H,I T,7,0,5:100:1:1:1 X,0,5:300:3:3:3 U", "S 1 s7:7:i A,0,5 H,I T,7,0,5:100:1:1:1 X,0,e A,0,6 U H,- T,7,0,6:5:5:5:5"]
    # PPP-over-L2TP sessions (LNS): announce, interims, release, repeats, restart + restore
    cases += ["S 1 s7:7:t A,0,5 T,7,0,5:100:1:1:1+0:9:9:9:9 X,0,5:200:2:2:2 X,0,e",
              "S 2 s7:7:t s10:7:i A,0,5 A,1,6 T,7,0,5:100:1:1:1+6:50:5:5:5+0:9:9:9:9 X,0,e T,7,0,5:1:1:1:1+6:60:6:6:6 X,1,e",
              "S 1 s7:7:t A,0,5 A,0,5 T,7,1,5:100:1:1:1 B R,0,5 T,7,0,5:3:1:1:1 X,0,e"]
    # interface indexes that differ only above bit 8 / bit 16: every session must read its own interface
    for a_, b_ in ((5, 261), (5, 65541), (261, 65541), (5, 4294967295)):
        cases.append("S 2 s7:7:i s10:7:p A,0,%d A,1,%d T,7,0,%d:100:1:1:1+%d:7:7:7:7 T,7,0,%d:200:2:2:2+%d:9:9:9:9 X,0,%d:300:3:3:3+%d:11:11:11:11 X,1,%d:300:3:3:3+%d:12:12:12:12"
                     % (a_, b_, a_, b_, a_, b_, a_, b_, a_, b_))
        cases.append("S 1 s7:7:g A,0,%d,%d T,7,0,e|%d:100:1+%d:7:1 T,7,0,e|%d:200:2+%d:9:2 X,0,e|%d:300:3+%d:11:3" % (a_, b_, a_, b_, a_, b_, a_, b_))
    # one counter wraps (its true total reaches 2^64) while the other three go on: only that counter is outside the domain
    big = 2 ** 64 - 1
    for q in range(4):
        for typ in "ip":
            a = [10, 20, 5, 6]; b = [30, 40, 7, 8]; c = [50, 60, 9, 11]; d = [70, 80, 12, 13]
            a[q] = big; b[q] = 7; c[q] = 9
            rd = lambda v: "5:%d:%d:%d:%d" % tuple(v)
            cases.append("S 1 s7:7:%s A,0,5 T,7,0,%s T,7,0,%s T,7,0,%s X,0,%s" % (typ, rd(a), rd(b), rd(c), rd(d)))
            cases.append("S 1 s7:7:%s A,0,5 T,7,0,%s T,7,1,%s B R,0,5 T,7,0,%s X,0,e" % (typ, rd(a), rd(b), rd(c)))
            cases.append("S 1 s7:7:%s A,0,5 T,7,0,%s X,0,%s A,0,5 T,7,0,%s T,7,0,%s X,0,%s" % (typ, rd(a), rd(b), rd(c), rd(d), rd(d)))
    # a restart while an Interim is unanswered
    cases += ["S 1 s7:7:i A,0,5 T,7,0,5:7:1:1:1 H,I T,7,0,5:100:1:1:1 H,- B R,0,5 X,0,e",
              "S 1 s7:7:i A,0,5 H,I T,7,0,5:100:1:1:1 H,- B R,0,5 T,7,0,5:3:1:1:1 X,0,e"]
    for i in range(80 if tier == "quick" else 1500):
        cases.append(gen_restart_unanswered(rng))
    # the checkpoint write of a processed response is still on its way (H,IW: held before the store) when the session is
    # released; UW lets it land after the releaser's delete
    for ok in (0, 1):
        for typ in "ipg":
            for tail in ("", " H,- B P,1", " H,- B X,0,e", " H,- B R,0,5,5 T,7,0,5:200:2:2:2 X,0,e"):
                cases.append("S 1 s7:7:%s A,0,5,6 H,I T,7,%d,5:100:1:1:1|5:100:1+6:50:1 H,IW U X,0,e UW%s" % (typ, ok, tail))
    cases.append("S 1 s7:7:i A,0,5 H,I T,7,0,5:100:1:1:1 H,IW U UW X,0,e")
    cases.append("S 2 s7:7:i s10:7:p A,0,5 A,1,6 H,I T,7,2,5:100:1:1:1+6:7:7:7:7 H,IW U X,0,e X,1,e UW H,- B P,1")
    for i in range(220 if tier == "quick" else 3500):
        cases.append(gen_inflight(rng))
    # wire part
    g = 2 ** 32
    cases += ["W S,0,0,0,0 I,3000000000,4000000000,3000000,4000000 I,%d,%d,4295967,8589939 E,%d,%d,4296967,8589943" % (
                  g + 1000000, 2 * g + 5000, g + 2000000, 2 * g + 9000),
              "W S,0,0,0,0 E,%d,%d,1,1" % (g, g), "W S,0,0,0,0 I,%d,%d,6,6 E,%d,%d,7,7" % (g + 1, 2 ** 40, 2 ** 33, 2 ** 40 + g),
              "W I,%d,0,0,0 E,%d,0,0,0" % (g - 1, g)]
    for st in "IE":
        for e in WIRE_EDGES:
            cases.append("W %s,%d,%d,%d,%d" % (st, e, (e * 3) % 2 ** 64, e % 2 ** 32, 7))
    for i in range(250 if tier == "quick" else 5000):
        cases.append(gen_wire(rng))
    return [to_classes(c) for c in cases]


CLASS_OF_BUCKET = {"7": "0", "0": "1", "11": "2", "3": "z"}


def to_classes(case):
    """The generators above think in concrete ids/bucket numbers (s7,s10,... in bucket 7; s2 in 0; s3 in 11; bucket 3
    empty).  The case handed to the harness names only the CO-LOCATION CLASS of each session (which bucket number an
    id hashes to is the implementation's free choice): header <class>:<type>, ticks T,<class|z>,..."""
    t = case.split()
    if t[0] not in ("S", "Sr"):
        return case
    k = int(t[1])
    out = t[:2]
    for h in t[2:2 + k]:
        _, b, ty = h.split(":")
        out.append(CLASS_OF_BUCKET[b] + ":" + ty)
    for op in t[2 + k:]:
        if op.startswith("C/"):
            g = op.split("/")
            g = g[:2] + [(",".join(["T", CLASS_OF_BUCKET[m.split(",")[1]]] + m.split(",")[2:]) if m.startswith("T,") else m)
                         for m in g[2:]]
            out.append("/".join(g))
        elif op.startswith("T,"):
            a = op.split(",")
            out.append(",".join(["T", CLASS_OF_BUCKET[a[1]]] + a[2:]))
        else:
            out.append(op)
    return " ".join(out)


def parts(line):
    p = line.split(" ; ")
    return p + [""] * (3 - len(p))


def nontrivial(case, out):
    if case.startswith("W "):
        return any(int(r.split(",")[1]) >= 2 ** 32 or int(r.split(",")[2]) >= 2 ** 32 for r in case.split()[1:])
    calls = parts(out)[0]
    if " C/" in case:
        return "E" in calls or "{ok}" in calls
    return ("I" in calls) and ("E" in calls or " B" in case)


def classify_wire(case, impl, model):
    ir, _, im = impl.partition(" ; ")
    mr, _, mm = model.partition(" ; ")
    if not im.startswith("mono="):
        return "G", "wire harness did not complete the case: impl=%r" % impl[:300]
    recs = case.split()[1:]
    k = next((i for i, (x, y) in enumerate(zip(ir.split(), mr.split())) if x != y), None)
    diff = ""
    if k is not None:
        diff = ("record #%d (%s) on the wire status:octets-in:octets-out:gigawords-in:gigawords-out:packets-in:packets-out "
                "impl=%s proved=%s" % (k, recs[k] if k < len(recs) else "?", ir.split()[k], mr.split()[k]))
    if im == "mono=0" and mm == "mono=1":
        return "P", "usage counters decoded from the RADIUS Accounting-Requests went backwards; " + diff
    return "P", "the counters on the wire do not decode to the values handed to the provider; " + diff


def classify(case, impl, model):
    if case.startswith("W "):
        return classify_wire(case, impl, model)
    ic, idump, iv = parts(impl)[:3]
    mc, mdump, mv = parts(model)[:3]
    if "UNEXCUSED" in model and impl == model.replace("UNEXCUSED", ""):
        return "P", ("the accounting stream of the real code violates the property and no recorded finding or stated "
                     "hypothesis excuses it (verdict bits brk stp mono snt ord, excuses W/P/D): %s" % parts(impl)[2])
    names = ["a second Start inside one bracket", "a Stop that answers no open accounting (or a second Stop)",
             "reported counters went below the last acknowledged report",
             "input octets went below an earlier report of the bracket", "output octets went below an earlier report of the bracket",
             "input packets went below an earlier report of the bracket", "output packets went below an earlier report of the bracket",
             "calls outside a bracket (Interim/Stop with no Start and no restore before, or a Start inside a bracket)"]
    bad = []
    for tok in iv.split():
        sid, _, bits = tok.partition("=")
        for b, nm in zip(bits[:8], names):
            if b == "0":
                bad.append("%s: %s" % (sid, nm))
    mbad = "0" in "".join(t.partition("=")[2][:8] for t in mv.split())
    diff = ""
    if ic != mc:
        ig, mg = ic.split("] "), mc.split("] ")
        k = next((i for i, (x, y) in enumerate(zip(ig, mg)) if x != y), min(len(ig), len(mg)))
        diff = "accounting calls differ from the proved behaviour at op #%d: impl=%s] model=%s]" % (
            k, ig[k].rstrip("]") if k < len(ig) else "?", mg[k].rstrip("]") if k < len(mg) else "?")
    elif idump != mdump:
        diff = "component state differs after the history: impl=%r model=%r" % (idump, mdump)
    import re
    if impl.startswith("NONDETERMINISTIC") or "{BAD" in ic:
        broken = "{BAD" in impl or re.search(r"v\d+=[01]*0", impl)
        txt = ("concurrently delivered notifications (forced overlap): " +
               ("the calls break the bracket (more Stops/Starts than any interleaving of the handlers allows, or a "
                "verdict bit is 0)" if broken else "the outcome depends on the schedule") + ": impl=%r" % impl[:400])
        return ("P" if broken else "G"), txt
    if not ic.startswith("["):
        return "G", "harness did not complete the history (panic / hang / bad case): impl=%r model=%r" % (impl[:200], model[:200])
    # a bit that is 0 in the implementation where the model (theorem) says 1 is a violation of the property by itself
    worse = []
    for ti, tm in zip(iv.split(), mv.split()):
        sid, _, bi = ti.partition("=")
        _, _, bm = tm.partition("=")
        for q, (x, y) in enumerate(zip(bi[:8], bm[:8])):
            if x == "0" and y == "1":
                worse.append("%s: %s" % (sid, names[q]))
    if worse:
        return "P", "accounting stream violates the property (" + "; ".join(sorted(set(worse))) + ")" + ("; " + diff if diff else "")
    if bad and not mbad:
        return "P", "accounting stream violates the property (" + "; ".join(sorted(set(bad))) + ")" + (
            "; " + diff if diff else "")
    if ic != mc:
        return "P", diff
    return "G", diff or "outputs differ: impl=%r model=%r" % (impl[:200], model[:200])


def signature(case, impl, models):
    match = [v for v in VARIANTS if models.get(v) == impl]
    if not match:
        return None
    v = min(match, key=lambda x: len(FLAGS[x]))
    f = FLAGS[v]
    return SIG[f[0]] if f else None


def shrink(case):
    t = case.split()
    if t[0] == "W":
        recs = t[1:]
        for i in range(len(recs)):
            if len(recs) > 1:
                yield "W " + " ".join(recs[:i] + recs[i + 1:])
        for i, r in enumerate(recs):
            a = r.split(",")
            for q in range(1, 5):
                for nv in ("0", str(int(a[q]) // 2), str(2 ** 32) if int(a[q]) > 2 ** 32 else a[q]):
                    if nv != a[q]:
                        yield "W " + " ".join(recs[:i] + [",".join(a[:q] + [nv] + a[q + 1:])] + recs[i + 1:])
        return
    k = int(t[1])
    head, ops = t[:2 + k], t[2 + k:]
    for i in range(len(ops)):
        yield " ".join(head + ops[:i] + ops[i + 1:])
    # drop the last session when no op names it
    if k > 1:
        used = set()
        for o in ops:
            a = o.split(",")
            if a[0] in "ARX":
                used.add(int(a[1]))
        if (k - 1) not in used:
            ops2 = []
            for o in ops:
                a = o.split(",")
                if a[0] == "T":
                    a[2] = str(int(a[2]) & ((1 << (k - 1)) - 1))
                ops2.append(",".join(a))
            yield " ".join(["S", str(k - 1)] + head[2:2 + k - 1] + ops2)
    for i, o in enumerate(ops):
        if o.startswith("C/"):
            g = o.split("/")
            if len(g) > 4:
                for j in range(2, len(g)):
                    yield " ".join(head + ops[:i] + ["/".join(g[:j] + g[j + 1:])] + ops[i + 1:])
            continue
        a = o.split(",")
        if a[0] == "T" and a[2] != "0":
            yield " ".join(head + ops[:i] + [",".join([a[0], a[1], "0", a[3]])] + ops[i + 1:])
        if a[0] in "TX" and "|" in a[-1]:
            yield " ".join(head + ops[:i] + [",".join(a[:-1] + [a[-1].split("|")[0]])] + ops[i + 1:])
            continue
        if a[0] in "TX" and a[-1] not in ("-", "e"):
            items = a[-1].split("+")
            if len(items) > 1:
                for j in range(len(items)):
                    yield " ".join(head + ops[:i] + [",".join(a[:-1] + ["+".join(items[:j] + items[j + 1:])])] + ops[i + 1:])
            for j, it in enumerate(items):
                f = it.split(":")
                for q in range(1, 5):
                    if f[q] != "0":
                        for nv in ("0", str(int(f[q]) // 2)):
                            if nv != f[q]:
                                g = f[:q] + [nv] + f[q + 1:]
                                yield " ".join(head + ops[:i] + [",".join(a[:-1] + ["+".join(items[:j] + [":".join(g)] + items[j + 1:])])] + ops[i + 1:])


def distribution(cases, impl):
    d = {"ops": {}, "calls": {"S": 0, "I_ok": 0, "I_fail": 0, "E": 0}, "sessions": {}, "history_len": {},
         "histories_with_reading_reset": 0, "histories_with_restart": 0,
         "snapshots": {"unavailable": 0, "empty": 0, "items": 0}}
    for c, o in zip(cases, impl):
        t = c.split()
        if t[0] == "W":
            w = d.setdefault("wire", {"cases": 0, "records": {"S": 0, "I": 0, "E": 0}, "octets_ge_2^32": 0, "octets_ge_2^40": 0,
                                      "packets_ge_2^32": 0, "stop_ge_2^32": 0, "mono0": 0})
            w["cases"] += 1
            for r in t[1:]:
                a = r.split(",")
                w["records"][a[0]] += 1
                v = [int(x) for x in a[1:]]
                w["octets_ge_2^32"] += max(v[:2]) >= 2 ** 32
                w["octets_ge_2^40"] += max(v[:2]) >= 2 ** 40
                w["packets_ge_2^32"] += max(v[2:]) >= 2 ** 32
                w["stop_ge_2^32"] += a[0] == "E" and max(v[:2]) >= 2 ** 32
            w["mono0"] += (o or "").endswith("mono=0")
            continue
        k = int(t[1])
        d["sessions"][k] = d["sessions"].get(k, 0) + 1
        for x in t[2:2 + k]:
            ty = {"i": "ipoe", "p": "pppoe", "g": "l2gw"}.get(x.split(":")[-1], "?")
            d.setdefault("access_types", {})[ty] = d.setdefault("access_types", {}).get(ty, 0) + 1
        ops = t[2 + k:]
        b = min(len(ops) // 5 * 5, 40)
        d["history_len"][b] = d["history_len"].get(b, 0) + 1
        seen = {}
        reset = False
        for op in ops:
            if op.startswith("C/"):
                g = op.split("/")
                kind = "C_racy" if any(m[0] in "AR" for m in g[2:]) else "C_deterministic"
                if t[0] == "Sr":
                    kind += "_under_race_detector"
                d["ops"][kind] = d["ops"].get(kind, 0) + 1
                d["ops"]["C_members"] = d["ops"].get("C_members", 0) + len(g) - 2
                continue
            a = op.split(",")
            d["ops"][a[0]] = d["ops"].get(a[0], 0) + 1
            if a[0] in ("T", "X"):
                s = a[-1]
                if "|" in s:
                    s, seg = s.split("|")
                    d["snapshots"]["l2gw_segment_" + ("unavailable" if seg == "-" else "empty" if seg == "e" else "items")] = \
                        d["snapshots"].get("l2gw_segment_" + ("unavailable" if seg == "-" else "empty" if seg == "e" else "items"), 0) + 1
                if s == "-":
                    d["snapshots"]["unavailable"] += 1
                elif s == "e":
                    d["snapshots"]["empty"] += 1
                else:
                    for it in s.split("+"):
                        f = [int(x) for x in it.split(":")]
                        d["snapshots"]["items"] += 1
                        if f[0] in seen and any(x < y for x, y in zip(f[1:], seen[f[0]])):
                            reset = True
                        seen[f[0]] = f[1:]
        d["histories_with_reading_reset"] += reset
        d["histories_with_restart"] += ("B" in ops)
        calls, _, verd = parts(o or "")[:3]
        for tok in calls.replace("[", " ").replace("]", " ").split():
            if tok[0] == "S":
                d["calls"]["S"] += 1
            elif tok[0] == "E":
                d["calls"]["E"] += 1
            elif tok[0] == "I":
                d["calls"]["I_ok" if tok.endswith(":k") else "I_fail"] += 1
        for x in verd.split():
            bits, exc = x.partition("=")[2][:8], x.partition("=")[2][8:]
            d["verdict_vectors"] = d.get("verdict_vectors", 0) + 1
            for nm, bt in zip(("brk", "stp", "mono", "snt_in_octets", "snt_out_octets", "snt_in_packets", "snt_out_packets", "ord"), bits):
                if bt == "0":
                    # excuse: P = dropped by an orphan prune (known finding), D = a Start was held back (known finding),
                    # otherwise W = a uint64 cumulative wrapped (the model marks anything else UNEXCUSED = VIOLATION)
                    e = "G" if "G" in exc else "Q" if "Q" in exc else "P" if "P" in exc else "D" if "D" in exc else "W"
                    z = d.setdefault("verdict_bits_zero_by_bit_and_excuse", {})
                    z[nm + ":" + e] = z.get(nm + ":" + e, 0) + 1
    return d
