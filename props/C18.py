"""C18 — upgrades are all-or-nothing and always restorable (pkg/upgrade runner/swap/snapshot/journal/stage)."""
import itertools

ID = "C18"
HARNESSES = [dict(name="upgrade", pkg="./pkg/upgrade/", test="TestVerifC18", timeout=900,
                  files=[("pkg/upgrade/zz_verif_c18_test.go", "harness/C18/zz_verif_c18_test.go")])]
VARIANTS = ["repaired"]   # = /repo HEAD (six repairs committed); any old behaviour matches nothing = VIOLATION
MODEL_NEEDS_IMPL = True   # only for one may-reject input class: an archive that repeats a member name (see ocaml/C18_run.ml)
RULE = ("history cases: an installed tree of 5 artifact paths (absent / regular incl. empty, modes incl. setuid, setgid, "
        "sticky, 0 / symlink to a regular file outside the artifact dirs, to another artifact path, chains through "
        "auxiliary symlinks, loops, to a directory, dangling / directory) plus 5 auxiliary nodes outside the artifact dirs; "
        "tarballs additionally with duplicate member names (longer / shorter wrong body first or last), a member listed "
        "twice in the manifest, empty members; observed per operation: lstat kind/content/mode of artifact and auxiliary "
        "nodes, the bytes each artifact path RESOLVES to, tree / version / resolved-content monitors; initial version then 1-6 operations: apply of a freshly built signed tarball (1-4 artifacts, "
        "mode strings valid/empty/invalid, restart classes; predecessor none/right/wrong/malformed; signature ok/flipped "
        "byte/missing/wrong key/garbage; tamper none/digest mismatch/swapped members/../ , deep ../, absolute, symlink, "
        "hardlink members/missing source/tier B/no manifest/duplicate path; pre-hook none/bad digest/missing; "
        "ExpectedFrom; ForceRetry) with faults: any subset of the 16 external-command failures (8 in the apply flow, 8 in "
        "the rollback flow), the process dying at any of 36 labelled points (every Reporter stage after the journal is "
        "written, every command, the swap-failure / auto-rollback / health warnings, and between WriteCurrentManifest "
        "and the completed-phase write), swap failure at artifact i forced "
        "through the filesystem (one-shot or persistent obstacle at <dir>/.<base>.new), restore failure likewise, five "
        "health outcomes for each daemon start; version ids map to 16 confusable version strings (proper prefixes / suffixes "
        "of each other, 0.13.1 vs 0.13.10 vs 0.13.01, case, leading v, leading / trailing blank, +dirty and git-describe "
        "suffixes) and every ordered (installed, declared predecessor) pair is enumerated; explicit rollback with the same fault classes; operator edits; obstacle "
        "removal.  A systematic block enumerates every single fault/crash label x {rollback, failing rollback + "
        "rollback}.  name cases: every string of length <= 6 over {'.','/','a','\\\\'} plus structured and random names "
        "through safeTarEntryPath.  Non-trivial: a history in which at least one apply wrote the journal, or an accepted "
        "name.  Distinct: by case text.")
TRUSTED = ["the process dying is simulated by a panic raised from the injected Commander/Reporter; deferred clean-ups "
           "(staging removal, drop-in removal) still run, they do not touch artifacts, journal, snapshots or current-manifest",
           "file ownership (uid/gid) is not modelled: the harness runs as one user and manifests use uid/gid -1"]
ASSUMPTIONS = ["rename(2) within a directory is atomic and the journal/snapshot files written before a crash are durable",
               "the signature primitives (crypto/ecdsa, sha256) are correct: admission facts enter the model as booleans"]

NP = 5
NVER = 16   # version ids; the harness maps them to confusable strings (prefix / suffix / case / blank / +build / leading v)
APPLY_FAIL = [1, 2, 3, 4, 5, 6, 7, 8, 36]   # 36 = saveCurrentManifest (after Snapshot) fails
RB_FAIL = [11, 12, 13, 14, 15, 16, 17, 18]
CRASH_A = [25, 26, 27, 28, 29, 30, 31, 32, 35, 35, 33, 34, 1, 2, 3, 4, 5, 7, 8, 51, 52, 53]
CRASH_R = [41, 42, 43, 44, 45, 11, 12, 13, 14, 15, 17, 18]
MODES = ["0755", "0644", "755", "600", "4755", "e", "0750", "0"]
FMODES = ["755", "644", "600", "4755", "2755", "1777", "6755", "750", "0", "444"]
TAMS = ["dig0", "dig1", "swapm", "dotdot", "deepdot", "abs", "symlink", "hardlink", "nosrc", "tierb", "nomanifest",
        "dupl", "dups", "duplr", "dupsr", "dupman", "dupl", "dupman"]
AUX = [100, 101, 102, 103, 104]   # node ids of files outside the artifact directories (symlink targets)
SIGS = ["flip", "none", "wkey", "garb", "flip1", "flip3", "flip5", "flip7", "flip9"]   # flipN: one bit at N/9 of the archive
HEALTH = ["failed", "degraded", "invalid", "stale", "stalep"]   # stale / stalep: right state, version string off by a suffix / a prefix


def link_target(rng, p):
    """symlink target node: file outside the artifact dirs, another artifact path, or nothing (dangling)"""
    r = rng.random()
    if r < 0.5:
        return rng.choice(AUX)
    if r < 0.8:
        return rng.choice([q for q in range(NP) if q != p] + [p] * (rng.random() < 0.1))
    return 70 + p


def fspec(rng, p):
    r = rng.random()
    if r < 0.18:
        return None
    if r < 0.62:
        own = rng.choice(["", "", "@1001-1002", "@0-7", "@65534-65534"])
        return "r%d.%s%s" % (0 if rng.random() < 0.04 else 10 + p, rng.choice(FMODES), own)
    if r < 0.92:
        return "s%d" % link_target(rng, p)
    return "d"


def init_fs(rng):
    items = []
    for p in range(NP):
        s = fspec(rng, p)
        if s:
            items.append("%d:%s" % (p, s))
    for k, a in enumerate(AUX):
        r = rng.random()
        if r < 0.6:
            items.append("%d:r%d.%s" % (a, 50 + k, rng.choice(["644", "755", "600"])))
        elif r < 0.8:      # chains: auxiliary symlink to another auxiliary file or to an artifact path
            items.append("%d:s%d" % (a, rng.choice([x for x in AUX if x != a] + list(range(NP)))))
    return ",".join(items) if items else "-"


def mk_apply(to, arts, prev="-", sig="ok", tam="none", hook="n", exp="-", force=0, fail=(), crash=None,
             ha="ok", hr="ok", ob=(), rob=()):
    return ("apply to=%d prev=%s sig=%s tam=%s hook=%s exp=%s force=%d arts=%s fail=%s crash=%s ha=%s hr=%s ob=%s rob=%s" % (
        to, prev, sig, tam, hook, exp, force,
        ",".join(":".join(map(str, a)) for a in arts),
        ",".join(map(str, fail)) if fail else "-", crash if crash else "-", ha, hr,
        ",".join("%d:%s" % o for o in ob) if ob else "-", ",".join("%d:%s" % o for o in rob) if rob else "-"))


def mk_rollback(fail=(), crash=None, hr="ok", rob=()):
    return "rollback fail=%s crash=%s hr=%s rob=%s" % (
        ",".join(map(str, fail)) if fail else "-", crash if crash else "-", hr,
        ",".join("%d:%s" % o for o in rob) if rob else "-")


def rand_arts(rng, gen):
    n = rng.choice([1, 2, 2, 3, 3, 4])
    ps = rng.sample(range(NP), n)
    if rng.random() < 0.02 and n >= 2:
        ps[1] = ps[0]
    arts = []
    for p in ps:
        m = "b" if rng.random() < 0.05 else rng.choice(MODES)
        a = (p, 0 if rng.random() < 0.04 else 20 + 10 * gen + p, m, rng.choice("oovbn"))
        if rng.random() < 0.3:
            a = a + rng.choice([(0, 0), (1234, -1), (-1, 4321), (1001, 1002), (65534, 7)])
        arts.append(a)
    return arts


def rand_faults(rng, arts, heavy):
    kw = {}
    r = rng.random()
    if r < (0.6 if heavy else 0.35):
        k = rng.choice([1, 1, 2, 3])
        kw["fail"] = sorted(set(rng.choice(APPLY_FAIL + RB_FAIL) for _ in range(k)))
    if rng.random() < (0.3 if heavy else 0.15):
        kw["crash"] = rng.choice(CRASH_A + CRASH_R)
    if rng.random() < 0.25:
        kw["ha"] = rng.choice(HEALTH)
    if rng.random() < 0.2:
        kw["hr"] = rng.choice(HEALTH)
    if rng.random() < (0.45 if heavy else 0.2):
        k = rng.choice([1, 1, 2])
        kw["ob"] = [(rng.choice(arts)[0], rng.choice(["o", "o", "s", "f%s" % rng.choice(FMODES), "f%s" % rng.choice(FMODES),
                                                      "l%d" % rng.choice(AUX + list(range(NP)) + [77])]))
                    for _ in range(k)]
        if len(set(p for p, _ in kw["ob"])) < len(kw["ob"]):
            kw["ob"] = kw["ob"][:1]
    if rng.random() < 0.15:
        kw["rob"] = [(rng.choice(arts)[0], rng.choice(["o", "s", "f%s" % rng.choice(FMODES), "l%d" % rng.choice(AUX + list(range(NP)))]))]
    return kw


def rand_rollback(rng):
    kw = {}
    if rng.random() < 0.3:
        kw["fail"] = [rng.choice(RB_FAIL)]
    if rng.random() < 0.15:
        kw["crash"] = rng.choice(CRASH_R)
    if rng.random() < 0.15:
        kw["hr"] = rng.choice(HEALTH)
    if rng.random() < 0.12:
        kw["rob"] = [(rng.randrange(NP), rng.choice(["o", "s", "f%s" % rng.choice(FMODES)]))]
    return mk_rollback(**kw)


def rand_history(rng):
    ops = []
    v0 = 63 if rng.random() < 0.04 else rng.randrange(NVER)   # 63 = never-upgraded box, no current-manifest.yaml
    guess = v0     # what the generator believes is installed (only steers the mix; the model decides)
    prevs = []
    gen = 0
    nops = rng.choice([1, 2, 2, 3, 3, 4, 5, 6])
    heavy = rng.random() < 0.6
    for _ in range(nops):
        r = rng.random()
        if r < 0.55 or not ops:
            gen += 1
            arts = rand_arts(rng, gen)
            kw = rand_faults(rng, arts, heavy)
            to = rng.choice([v for v in range(NVER) if v != guess]) if rng.random() < 0.93 else guess
            pr = rng.random()
            if pr < 0.50:
                kw["prev"] = "-"
            elif pr < 0.75:
                kw["prev"] = "%do" % guess
            elif pr < 0.90:
                kw["prev"] = "%do" % rng.choice([v for v in range(NVER) if v != guess])
            else:
                kw["prev"] = "%d%s" % (guess, rng.choice("fhg"))
            if rng.random() < 0.12:
                kw["sig"] = rng.choice(SIGS)
            if rng.random() < 0.18:
                kw["tam"] = rng.choice(TAMS)
                if kw["tam"] == "dupman" and len(arts) >= 2:
                    arts[1] = (arts[1][0], arts[0][1]) + tuple(arts[1][2:])
            if rng.random() < 0.1:
                kw["hook"] = rng.choice("hmp")
            if rng.random() < 0.08:
                kw["exp"] = str(rng.choice([guess, guess, rng.randrange(NVER)]))
            if rng.random() < 0.22:
                kw["force"] = 1
            ops.append(mk_apply(to, arts, **kw))
            clean = not any(k in kw for k in ("fail", "crash", "ha", "ob", "sig", "tam", "hook")) and kw["prev"][-1] in "-o"
            if clean:
                prevs.append(guess)
                guess = to
        elif r < 0.85:
            ops.append(rand_rollback(rng))
            if prevs:
                guess = prevs.pop()
        elif r < 0.88:
            gen += 1
            arts = rand_arts(rng, gen)
            kw = {}
            if rng.random() < 0.3:
                kw["sig"] = rng.choice(SIGS)
            if rng.random() < 0.4:
                kw["tam"] = rng.choice(TAMS)
                if kw["tam"] == "dupman" and len(arts) >= 2:
                    arts[1] = (arts[1][0], arts[0][1]) + tuple(arts[1][2:])
            ops.append(mk_apply(rng.randrange(NVER), arts, **kw).replace("apply ", "plan ", 1))
        elif r < 0.93:
            ops.append("clear")
        else:
            p = rng.choice(list(range(NP)) * 2 + AUX)
            s = rng.choice(["x", "r%d.%s" % (90 + p % 100, rng.choice(FMODES)), "s%d" % (80 + p % 100),
                            "s%d" % rng.choice(AUX + list(range(NP)))])
            ops.append("edit p=%d f=%s" % (p, s))
    return "h %d %s ; %s" % (v0, init_fs(rng), " ; ".join(ops))


def systematic():
    """every single fault / crash label on a fixed 3-artifact upgrade, followed by rollbacks"""
    out = []
    fs0 = "0:r10.755,1:r11.4755,2:s72,3:r13.600"
    arts = [(0, 20, "0755", "o"), (1, 21, "e", "v"), (4, 24, "0644", "n"), (2, 22, "600", "b")]
    tails = [[mk_rollback()], [mk_rollback(fail=[12]), mk_rollback()], [mk_rollback(rob=[(0, "s")]), "clear", mk_rollback()],
             [mk_rollback(crash=44), mk_rollback()]]
    variants = []
    for l in APPLY_FAIL + RB_FAIL:
        variants.append(dict(fail=[l]))
        variants.append(dict(fail=[l], ha="failed"))
    for l in CRASH_A:
        variants.append(dict(crash=l))
    for l in CRASH_R + [52, 53]:
        variants.append(dict(crash=l, ha="degraded"))
        variants.append(dict(crash=l, fail=[8]))
    for i, a in enumerate(arts):
        for k in "os":
            variants.append(dict(ob=[(a[0], k)]))
            variants.append(dict(ob=[(a[0], k)], crash=51))
            variants.append(dict(ob=[(a[0], k)], fail=[12]))
            variants.append(dict(ob=[(a[0], k)], rob=[(arts[0][0], "o")]))
    for h in HEALTH:
        variants.append(dict(ha=h))
        variants.append(dict(ha=h, hr=h))
    for i in range(len(arts)):
        bad = [a if j != i else (a[0], a[1], "b", a[3]) for j, a in enumerate(arts)]
        variants.append(dict(_arts=bad))
        variants.append(dict(_arts=bad, crash=51))
    variants.append({})
    for n, kw in enumerate(variants):
        kw = dict(kw)
        a = kw.pop("_arts", arts)
        for t in (tails if n % 3 == 0 else [tails[n % len(tails)]]):
            out.append("h 1 %s ; %s ; %s" % (fs0, mk_apply(2, a, **kw), " ; ".join(t)))
    # admission: every tamper / signature / predecessor class against an installed tree, then a clean upgrade + rollback
    a2 = [(0, 20, "0755", "o"), (1, 21, "0644", "n")]
    for tam in TAMS:
        out.append("h 1 %s ; %s ; %s" % (fs0, mk_apply(2, a2, tam=tam), mk_apply(2, a2)))
        out.append("h 1 %s ; %s ; %s" % (fs0, mk_apply(2, a2, tam=tam, sig="none"), mk_rollback()))
    for sig in SIGS:
        out.append("h 1 %s ; %s ; %s" % (fs0, mk_apply(2, a2, sig=sig), mk_apply(2, a2)))
    for pv in ["2o", "1f", "1h", "1g", "1o", "0o"]:
        out.append("h 1 %s ; %s ; %s" % (fs0, mk_apply(2, a2, prev=pv), mk_rollback()))
    # interrupted upgrade, then ForceRetry: the baseline stays the tree before the FIRST attempt
    a2f = [(0, 20, "0755", "o"), (1, 21, "0644", "n")]
    firsts = [dict(ob=[(1, "o")], fail=[12]), dict(ob=[(1, "o")], crash=51), dict(ob=[(0, "s")], fail=[11]), dict(crash=30),
              dict(fail=[8, 12]), dict(ha="failed", fail=[18]), dict(crash=35), dict(crash=25), dict(fail=[36]), dict(crash=26),
              dict(fail=[2])]
    seconds = [(a2f, dict(ha="failed")), (a2f, dict()), (a2f, dict(ob=[(0, "o")])), (a2f, dict(crash=25)), (a2f, dict(crash=29)),
               (a2f[:1], dict(fail=[8])), ([(0, 30, "0755", "v"), (2, 32, "0644", "n")], dict(ha="failed")),
               ([(1, 31, "0644", "v")], dict(fail=[8, 12]))]
    for f1 in firsts:
        for arts2, f2 in seconds:
            out.append("h 1 %s ; %s ; %s ; clear ; %s ; %s" % (fs0, mk_apply(2, a2f, **f1), mk_apply(2, arts2, force=1, **f2),
                                                             mk_rollback(), mk_apply(2, a2f)))
        out.append("h 1 %s ; %s ; %s ; %s ; %s" % (fs0, mk_apply(2, a2f, **f1), mk_rollback(), mk_rollback(fail=[18]), mk_rollback()))
        out.append("h 1 %s ; %s ; %s ; %s ; %s ; clear ; %s" % (fs0, mk_apply(2, a2f, **f1), mk_apply(2, a2f, force=1, crash=25),
                                                                mk_apply(2, a2f, force=1, ob=[(1, "o")], fail=[12]),
                                                                mk_apply(3, a2f, force=1, ha="failed"), mk_rollback()))
    # ForceRetry with every strict-subset / superset / disjoint tarball, no faults: success must not leave a path at the
    # interrupted upgrade's version
    a3f = [(0, 20, "0755", "o"), (1, 21, "0644", "n"), (3, 23, "0600", "v")]
    subsets = [[a3f[0]], [a3f[1]], [a3f[2]], a3f[:2], a3f[1:], [a3f[0], a3f[2]], a3f, a3f + [(4, 24, "0644", "n")], [(4, 24, "0644", "n")]]
    for f1 in (dict(ob=[(1, "o")], fail=[12]), dict(fail=[8, 12]), dict(ha="failed", fail=[18]), dict(crash=35), dict(crash=30),
               dict(ob=[(3, "s")], crash=51)):
        for sub in subsets:
            sub2 = [(p, c + 10, m, rc) for (p, c, m, rc) in sub]
            out.append("h 1 %s ; %s ; clear ; %s ; %s" % (fs0, mk_apply(2, a3f, **f1), mk_apply(5, sub2, force=1), mk_rollback()))
    # a stale regular staging file (swap killed between write and rename) at each artifact x manifest mode class x what follows
    for sm in ("4755", "600", "0", "644"):
        for am in ("e", "0755", "b"):
            ast = [(0, 20, am, "o"), (1, 21, "e", "n")]
            for kw in (dict(), dict(ha="failed"), dict(fail=[8, 12]), dict(crash=30)):
                out.append("h 1 %s ; %s ; %s ; %s" % (fs0, mk_apply(2, ast, ob=[(0, "f" + sm)], **kw), mk_rollback(rob=[(1, "f" + sm)]),
                                                      mk_apply(2, ast)))
    # a stale SYMLINK at the staging name (to a file outside, to another artifact, to a missing outside file, dangling, to a
    # directory): must be discarded, never written through, never installed
    fsl = "0:r10.755,1:r11.4755,2:d,3:r13.600,100:r50.644,101:s100"
    for tgt in (100, 101, 102, 3, 2, 77, 0):
        for am in ("e", "0755"):
            asl = [(0, 20, am, "o"), (1, 21, "e", "n")]
            for kw in (dict(), dict(ha="failed"), dict(fail=[8, 12])):
                out.append("h 1 %s ; %s ; %s ; %s" % (fsl, mk_apply(2, asl, ob=[(0, "l%d" % tgt)], **kw),
                                                      mk_rollback(rob=[(1, "l%d" % tgt)]), mk_apply(2, asl)))
    # ForceRetry after the process died at EVERY labelled point of the apply flow and of the auto-rollback: the same
    # tarball, no further faults, must complete; a rollback afterwards must bring back the tree before the first attempt
    av = [(0, 20, "0755", "o"), (1, 21, "0644", "v"), (3, 23, "e", "n")]      # needs_vpp: the VPP labels are reached
    for l in CRASH_A:
        out.append("h 1 %s ; %s ; %s ; %s" % (fs0, mk_apply(2, av, crash=l, ha="failed" if l in (52, 53) else "ok"),
                                              mk_apply(2, av, force=1), mk_rollback()))
    for l in CRASH_R + [52]:
        out.append("h 1 %s ; %s ; %s ; %s" % (fs0, mk_apply(2, av, crash=l, ha="failed"), mk_apply(2, av, force=1), mk_rollback()))
        out.append("h 1 %s ; %s ; %s ; %s ; %s" % (fs0, mk_apply(2, av), mk_rollback(crash=l), mk_apply(2, av, force=1), mk_rollback()))
    for l in APPLY_FAIL:
        out.append("h 1 %s ; %s ; %s ; %s" % (fs0, mk_apply(2, av, fail=[l, 12]), mk_apply(2, av, force=1), mk_rollback()))
    # the process dies INSIDE Snapshot after k backups (same disk state: Snapshot fails at artifact k, a directory sits there)
    # while metadata of an earlier, rolled-back upgrade from the same version is still in rollback/<from>; the operator has
    # edited files in between.  rollback must refuse; removing the directory + ForceRetry must take a fresh snapshot
    for k in range(3):
        pk = av[k][0]
        out.append("h 1 %s ; %s ; edit p=%d f=d ; edit p=%d f=r9%d.600 ; %s ; %s ; edit p=%d f=x ; %s ; %s" % (
            fs0, mk_apply(2, av, ha="failed"), pk, av[(k + 1) % 3][0], k, mk_apply(2, av), mk_rollback(), pk,
            mk_apply(2, av, force=1), mk_rollback()))
    # Plan (dry run) with every tamper / signature class, on a clean box and in the middle of an interrupted upgrade
    ap = [(0, 20, "0755", "o"), (1, 21, "0644", "n")]
    for tam in ["none"] + sorted(set(TAMS)):
        for sig in ["ok"] + SIGS:
            pl = mk_apply(2, ap, tam=tam, sig=sig).replace("apply ", "plan ", 1)
            out.append("h 1 %s ; %s ; %s" % (fs0, pl, mk_apply(2, ap)))
            if sig in ("ok", "none"):
                out.append("h 1 %s ; %s ; %s ; %s" % (fs0, mk_apply(2, ap, ob=[(1, "s")], fail=[12]), pl, mk_rollback(rob=[])))
    # an upgrade that keeps the BYTES of an artifact and changes only its MODE (and one that changes both, side by side):
    # mode restoration is checked on its own — a restore that skips "unchanged" files, or compares bytes only, shows here
    fsm = "0:r10.755,1:r11.4755,3:r13.600,4:r14.1777"
    same = [(0, 10, "0700", "o"), (1, 11, "0644", "n"), (3, 13, "e", "v"), (4, 14, "0755", "n")]     # same bytes, other modes
    mixed = [(0, 10, "0700", "o"), (1, 21, "0644", "n"), (3, 13, "0600", "v"), (4, 24, "1777", "n")]  # 3: nothing changes at all
    for arts_m in (same, mixed):
        for kw in (dict(), dict(ha="failed"), dict(fail=[8]), dict(fail=[3]), dict(fail=[8, 12]), dict(crash=30), dict(crash=35),
                   dict(ob=[(3, "s")], crash=51), dict(ob=[(1, "s")], fail=[12]), dict(ob=[(4, "o")])):
            out.append("h 1 %s ; %s ; clear ; %s ; %s" % (fsm, mk_apply(2, arts_m, **kw), mk_rollback(), mk_rollback()))
            out.append("h 1 %s ; %s ; clear ; %s ; %s" % (fsm, mk_apply(2, arts_m, **kw), mk_apply(2, arts_m, force=1), mk_rollback()))
        out.append("h 1 %s ; %s ; %s ; %s" % (fsm, mk_apply(2, arts_m), mk_rollback(rob=[(1, "s")]), mk_rollback()))
        out.append("h 1 %s ; %s ; %s ; clear ; %s" % (fsm, mk_apply(2, arts_m), mk_rollback(rob=[(0, "s")], crash=44), mk_rollback()))
    # keys that differ in exactly one component: node 0 = inst/a0 and node 3 = inst/sub/a0 share the BASENAME, nodes 0,1,2
    # share the DIRECTORY; tarball members m0 / bin/m / plugins/m share basenames across directories.  Owners: files owned by
    # three different uid/gid pairs, manifests asking for root, for other ids, for uid only / gid only, for nothing.
    fso = "0:r10.755@1001-1002,1:r11.4755@0-7,3:r13.600@65534-65534,2:s72@1001-7"
    own_sets = [[(0, 20, "0755", "o", 0, 0), (3, 23, "0644", "n", 1234, 4321), (1, 21, "e", "v", -1, 7)],
                [(3, 23, "0755", "o", 1001, -1), (0, 20, "0644", "n"), (2, 22, "600", "n", 65534, 65534)],
                [(0, 10, "0755", "o", 1234, 1234), (3, 13, "600", "n", 0, 0)]]       # same bytes, same mode, other owner
    for arts_o in own_sets:
        for kw in (dict(), dict(ha="failed"), dict(fail=[8, 12]), dict(crash=30), dict(ob=[(arts_o[1][0], "s")], crash=51),
                   dict(ob=[(arts_o[1][0], "o")]), dict(crash=35)):
            out.append("h 1 %s ; %s ; clear ; %s ; %s" % (fso, mk_apply(2, arts_o, **kw), mk_rollback(), mk_apply(2, arts_o, hook="p")))
    # never-upgraded box (no current-manifest.yaml: version discovered from the binary = id 63)
    out.append("h 63 %s ; %s ; %s ; %s" % (fs0, mk_apply(2, a2f, prev="63o"), mk_rollback(), mk_apply(2, a2f, prev="63o", ha="failed")))
    out.append("h 63 %s ; %s ; %s ; %s" % (fs0, mk_apply(2, a2f, fail=[36]), mk_rollback(), mk_apply(2, a2f, force=1)))
    out.append("h 63 %s ; %s ; %s" % (fs0, mk_apply(2, a2f, prev="1o"), mk_apply(2, a2f, crash=35)))
    # installed artifacts of every kind x what happens after the swap loop: what the path RESOLVES to must come back
    kinds = {"reg": "0:r10.4755", "link-out": "0:s100,100:r50.644", "link-art": "0:s3,3:r13.600",
             "link-art-in-tarball": "0:s1,1:r11.644", "chain": "0:s101,101:s100,100:r50.755", "chain-art": "0:s101,101:s3,3:r13.644",
             "dangling": "0:s70", "absent": "1:r11.644", "loop": "0:s2,2:s0", "link-dir": "0:s2,2:d", "dir": "0:d",
             "link-empty": "0:s100,100:r0.644"}
    al = [(0, 20, "0755", "o"), (1, 21, "0644", "n")]
    for k, fsk in kinds.items():
        for kw in (dict(ha="failed"), dict(fail=[8]), dict(fail=[3]), dict(ob=[(1, "o")]), dict(crash=30), dict(crash=35), dict()):
            arts_k = al if k != "link-dir" else [(0, 20, "0755", "v"), (1, 21, "0644", "n")]
            out.append("h 1 %s ; %s ; %s ; %s" % (fsk, mk_apply(2, arts_k, **kw), mk_rollback(), mk_rollback()))
    # duplicate member names (both orders, longer / shorter), a member listed twice in the manifest, empty member
    for tam in ("dupl", "dups", "duplr", "dupsr", "dupman"):
        for c0 in (20, 0):
            ad = [(0, c0, "0755", "o"), (1, c0 if tam == "dupman" else 21, "0644", "n")]
            out.append("h 1 %s ; %s ; %s" % (fs0, mk_apply(2, ad, tam=tam), mk_rollback()))
            out.append("h 1 %s ; %s" % (fs0, mk_apply(2, ad[:1], tam=tam, ha="failed")))
    # predecessor / ExpectedFrom comparison is exact: every ordered pair of the confusable version strings
    a1 = [(0, 20, "0755", "o")]
    for c in range(NVER):
        out.append("h %d %s ; %s ; %s" % (c, fs0, mk_apply((c + 1) % NVER, a1, prev="%do" % c), mk_rollback()))
        for pv in range(NVER):
            if pv != c:
                out.append("h %d %s ; %s" % (c, fs0, mk_apply((c + 5) % NVER if (c + 5) % NVER != pv else (c + 6) % NVER, a1, prev="%do" % pv)))
        out.append("h %d %s ; %s ; %s" % (c, fs0, mk_apply((c + 1) % NVER, a1, exp=str((c + 3) % NVER)),
                                          mk_apply((c + 1) % NVER, a1, exp=str(c))))
        for e in range(NVER):
            if e != c:
                out.append("h %d %s ; %s" % (c, fs0, mk_apply((c + 1) % NVER, a1, exp=str(e))))
    # chains: upgrade, roll back, then a tarball that names the rolled-back-from version as predecessor
    a3 = [(0, 30, "0755", "o"), (3, 33, "0644", "n")]
    out.append("h 1 %s ; %s ; %s ; %s" % (fs0, mk_apply(2, a2), mk_rollback(), mk_apply(3, a3, prev="2o")))
    out.append("h 1 %s ; %s ; %s ; %s" % (fs0, mk_apply(2, a2), mk_rollback(), mk_apply(2, a2, prev="1o")))
    out.append("h 1 %s ; %s ; %s ; %s ; %s" % (fs0, mk_apply(2, a2), mk_apply(3, a3, prev="2o"), mk_rollback(), mk_rollback()))
    out.append("h 1 %s ; %s ; %s ; %s" % (fs0, mk_apply(2, a2, crash=29), mk_apply(2, a2), mk_apply(2, a2, force=1, ha="failed")))
    # death between WriteCurrentManifest and the "completed" phase write (label 35) and every way out of it
    out.append("h 1 %s ; %s ; %s ; %s" % (fs0, mk_apply(2, a2, crash=35), mk_rollback(), mk_apply(2, a2, prev="1o")))
    out.append("h 1 %s ; %s ; %s ; %s" % (fs0, mk_apply(2, a2, crash=35), mk_rollback(), mk_apply(3, a3, prev="2o")))
    out.append("h 1 %s ; %s ; %s ; %s ; %s" % (fs0, mk_apply(2, a2, crash=35), mk_apply(3, a3, prev="2o"),
                                               mk_apply(3, a3, prev="2o", force=1), mk_rollback()))
    out.append("h 1 %s ; %s ; %s ; %s" % (fs0, mk_apply(2, a2, crash=35), mk_apply(3, a3, prev="1o", force=1), mk_rollback()))
    out.append("h 1 %s ; %s ; %s ; %s ; %s" % (fs0, mk_apply(2, a2, crash=35), mk_rollback(fail=[18]), mk_rollback(crash=43),
                                               mk_rollback()))
    out.append("h 1 %s ; %s ; %s ; %s" % (fs0, mk_apply(2, a2, crash=35), mk_apply(3, a3, force=1, ha="failed"), mk_rollback()))
    return out


def hexs(b):
    return b.hex() if b else "-"


NAME_STRUCT = [b"", b".", b"..", b"/", b"//", b"../x", b"a/../..", b"a/../../b", b"./../a", b"a/./b", b"a//b", b"/abs/x",
               b"..\\x", b"a/..\\x", b"...", b"..a", b"a/..", b"a/b/../../..", b"a/b/../../../c", b"\\..\\x", b"x/../..\\y",
               b"manifest.yaml", b"plugins/p.so", b"./manifest.yaml", b"a/" + b"../" * 20 + b"etc/passwd", b"..//x", b"./..",
               b"\x00/..", b"a\n/../..", b".. /x", b" ../x", b"..\xc0\xaf", b"a/b/c/d/e/../../../../../../f"]


def gen_cases(rng, tier, budget):
    cases = list(systematic())
    n = (budget or 1600) if tier == "quick" else (budget or 30000)
    for _ in range(n):
        cases.append(rand_history(rng))
    L = 6 if tier == "quick" else 7
    for k in range(0, L + 1):
        for t in itertools.product(b"./a\\", repeat=k):
            cases.append("name " + hexs(bytes(t)))
    for s in NAME_STRUCT:
        cases.append("name " + hexs(s))
    for _ in range(400 if tier == "quick" else 4000):
        k = rng.randint(1, 14)
        cases.append("name " + hexs(bytes(rng.choice(b"../a\\b. ") for _ in range(k))))
    return cases


def segs(line):
    return line.split(" | ")


def fields(seg):
    t = seg.split()
    d = {"res": t[0] if t else ""}
    for x in t[1:]:
        if "=" in x:
            k, v = x.split("=", 1)
            d[k] = v
    return d


def ops_of(case):
    t = case.split(" ; ")
    return t[1:]


def nontrivial(case, out):
    if case.startswith("name"):
        return out.startswith("ok")
    return any(fields(s).get("j", "none") != "none" for s in segs(out))


def inadmissible(op):
    if not op.startswith(("apply", "plan")):
        return False
    kv = dict(x.split("=", 1) for x in op.split()[1:])
    return kv["sig"] != "ok" or kv["tam"] != "none" or (kv["prev"] != "-" and kv["prev"][-1] != "o")


def classify(case, impl, model):
    if case.startswith("name"):
        if "ESCAPES" in impl:
            return "P", "accepted member name joins to a path outside the staging directory: %r" % impl
        if impl.startswith("ok") and model == "rej":
            return "P", "member name accepted by safeTarEntryPath that the model rejects: impl=%r" % impl
        return "G", "safeTarEntryPath differs: impl=%r model=%r" % (impl, model)
    si, sm, ops = segs(impl), segs(model), ops_of(case)
    if "own=BAD" in impl:
        k = [i for i, s_ in enumerate(si) if "own=BAD" in s_][0]
        return "P", ("op #%d is reported as %s but an artifact is not OWNED (uid/gid) as the manifest says / as before the upgrade: "
                     "impl=%r" % (k, fields(si[k])["res"], si[k]))
    if "!commit-order" in impl:
        return "P", ("ApplyOne no longer lands current-manifest.yaml before the journal's completed phase (renames observed "
                     "between stage 12 and 13); a death between the two now leaves a state the label-35 cases do not "
                     "cover: impl=%r" % [s for s in si if "!commit-order" in s][0])
    if "STALE" in impl and "STALE" not in model:
        k = [i for i, s in enumerate(si) if "STALE" in s][0]
        return "P", ("op #%d (%s) is reported as %s but current-manifest does not name the version of the installed "
                     "artifacts: impl=%r model=%r" % (k, ops[k].split()[0] if k < len(ops) else "?", fields(si[k])["res"],
                                                      si[k], sm[k] if k < len(sm) else ""))
    for k, (a, b) in enumerate(zip(si, sm)):
        fa, fb = fields(a), fields(b)
        if fa.get("rm") == "MIXED" and fb.get("rm") != "MIXED":
            return "P", ("op #%d is reported as %s but an artifact path no longer RESOLVES to its pre-upgrade bytes "
                         "(kind / mode / link target may all look restored): impl=%r model=%r" % (k, fa["res"], a, b))
    if "MIXED" in impl and "MIXED" not in model:
        k = [i for i, s in enumerate(si) if "MIXED" in s][0]
        return "P", ("op #%d (%s) is reported as %s but the artifacts are a mixture / not the pre-upgrade state: impl=%r model=%r"
                     % (k, ops[k].split()[0] if k < len(ops) else "?", fields(si[k])["res"], si[k], sm[k] if k < len(sm) else ""))
    for k, (a, b) in enumerate(zip(si, sm)):
        if a != b:
            fa, fb = fields(a), fields(b)
            if k < len(ops) and ops[k].startswith("plan"):
                prev = fields(si[k - 1]) if k else fb      # the model's plan segment carries the unchanged state
                if "staging-left-behind" in a or any(fa.get(x) != prev.get(x) for x in ("j", "cur", "sn", "fs", "ax")):
                    return "P", "Plan (the dry run) changed installed state or left its staging directory behind at op #%d: impl=%r model=%r" % (k, a, b)
            if k < len(ops) and inadmissible(ops[k]):
                prev = fields(si[k - 1]) if k else None
                if prev is None or any(fa.get(x) != prev.get(x) for x in ("j", "cur", "sn", "fs")):
                    return "P", "inadmissible tarball changed installed state at op #%d: impl=%r model=%r" % (k, a, b)
            if k < len(ops) and ops[k].startswith("apply") and fb.get("res") == "err" and fa.get("res") != "err":
                kv = dict(x.split("=", 1) for x in ops[k].split()[1:])
                before = fields(sm[k - 1]).get("cur") if k else case.split()[1]
                why = ("declared predecessor id %s is not the installed version id %s (version strings are compared "
                       "exactly; ids map to confusable strings, see harness vf18Versions)" % (kv["prev"][:-1], before)
                       if kv["prev"] != "-" and kv["prev"][-1] == "o" and kv["prev"][:-1] != before else
                       "the model refuses / fails it before any mutation")
                return "P", ("apply at op #%d must leave the installed state untouched (%s) but the implementation went on: "
                             "impl=%r model=%r" % (k, why, a, b))
            if fa.get("res") in ("ok", "rb:ok", "err:rolledback") and (fa.get("rv") != fb.get("rv") or fa.get("ax") != fb.get("ax")):
                return "P", ("op #%d reported %s but what the artifact paths resolve to / the files outside the artifact "
                             "directories differ from the model: impl=%r model=%r" % (k, fa.get("res"), a, b))
            if fa.get("res") in ("ok", "rb:ok", "err:rolledback") and fa.get("fs") != fb.get("fs"):
                return "P", ("op #%d reported %s but the artifact tree differs from the all-new / restored tree: impl=%r model=%r"
                             % (k, fa.get("res"), a, b))
            return "G", "first difference at op #%d: impl=%r model=%r" % (k, a, b)
    return "G", "outputs differ in length: impl=%r model=%r" % (impl, model)


def shrink(case):
    if case.startswith("name"):
        h = case.split()[1]
        b = bytes.fromhex("" if h == "-" else h)
        for i in range(len(b)):
            yield "name " + hexs(b[:i] + b[i + 1:])
        return
    parts = case.split(" ; ")
    head, ops = parts[0], parts[1:]
    for i in range(len(ops)):
        yield " ; ".join([head] + ops[:i] + ops[i + 1:])
    h = head.split()
    items = [] if h[2] == "-" else h[2].split(",")
    for i in range(len(items)):
        r = items[:i] + items[i + 1:]
        yield " ; ".join(["h %s %s" % (h[1], ",".join(r) if r else "-")] + ops)
    for i, it in enumerate(items):
        if it.split(":")[1].startswith("r") and not it.endswith(".644"):
            r = items[:i] + [it.rsplit(".", 1)[0] + ".644"] + items[i + 1:]
            yield " ; ".join(["h %s %s" % (h[1], ",".join(r))] + ops)
    defaults = {"prev": "-", "sig": "ok", "tam": "none", "hook": "n", "exp": "-", "force": "0", "fail": "-", "crash": "-",
                "ha": "ok", "hr": "ok", "ob": "-", "rob": "-"}
    for i, o in enumerate(ops):
        t = o.split()
        if t[0] not in ("apply", "rollback"):
            continue
        for j, x in enumerate(t[1:], 1):
            k, v = x.split("=", 1)
            if k in defaults and v != defaults[k]:
                if "," in v:
                    vs = v.split(",")
                    for q in range(len(vs)):
                        yield " ; ".join([head] + ops[:i] + [" ".join(t[:j] + [k + "=" + ",".join(vs[:q] + vs[q + 1:])] + t[j + 1:])] + ops[i + 1:])
                yield " ; ".join([head] + ops[:i] + [" ".join(t[:j] + [k + "=" + defaults[k]] + t[j + 1:])] + ops[i + 1:])
            if k == "arts" and "," in v:
                vs = v.split(",")
                for q in range(len(vs)):
                    yield " ; ".join([head] + ops[:i] + [" ".join(t[:j] + ["arts=" + ",".join(vs[:q] + vs[q + 1:])] + t[j + 1:])] + ops[i + 1:])


def distribution(cases, impl):
    d = {"artifacts_with_uid_gid": 0, "monitor_own": {}, "same_bytes_other_mode_artifacts": 0, "stale_staging_files": 0, "histories": 0, "names": 0, "names_accepted": 0, "ops": {}, "results": {}, "end_phase": {}, "monitor": {},
         "tamper": {}, "sig": {}, "fail_labels_requested": {}, "crash_labels_requested": {}, "crash_labels_fired": {},
         "with_obstacle": 0, "force": 0, "phases_seen": {}}

    def inc(m, k):
        m[k] = m.get(k, 0) + 1
    for c, o in zip(cases, impl):
        if c.startswith("name"):
            d["names"] += 1
            d["names_accepted"] += (o or "").startswith("ok")
            continue
        d["histories"] += 1
        ops = ops_of(c)
        for op, s in zip(ops, segs(o or "")):
            t = op.split()
            inc(d["ops"], t[0])
            f = fields(s)
            inc(d["results"], f["res"])
            inc(d["monitor"], f.get("mon", "?"))
            inc(d["monitor_own"], f.get("own", "?"))
            inc(d.setdefault("monitor_ver", {}), f.get("ver", "?"))
            inc(d.setdefault("monitor_rm", {}), f.get("rm", "?"))
            if t[0] in ("apply", "rollback"):
                kv = dict(x.split("=", 1) for x in t[1:])
                if t[0] == "apply":
                    inc(d["tamper"], kv["tam"])
                    init = dict(x.split(":", 1) for x in c.split()[2].split(",")) if c.split()[2] != "-" else {}
                    d["artifacts_with_uid_gid"] += sum(1 for a in kv["arts"].split(",") if a.count(":") >= 5)
                    for a in kv["arts"].split(","):
                        pa, ca, ma = a.split(":")[:3]
                        cur0 = init.get(pa, "").split("@")[0]
                        if cur0.startswith("r") and cur0[1:].split(".")[0] == ca and ma not in ("b",) and \
                                cur0.split(".")[1].lstrip("0") != (ma if ma != "e" else "644").lstrip("0"):
                            d["same_bytes_other_mode_artifacts"] += 1
                    inc(d["sig"], kv["sig"])
                    d["force"] += kv["force"] == "1"
                    d["with_obstacle"] += kv["ob"] != "-"
                d["stale_staging_files"] += (kv.get("ob", "") + kv.get("rob", "")).count(":f")
                d["stale_staging_symlinks"] = d.get("stale_staging_symlinks", 0) + (kv.get("ob", "") + kv.get("rob", "")).count(":l")
                for l in kv["fail"].split(","):
                    if l != "-":
                        inc(d["fail_labels_requested"], l)
                if kv["crash"] != "-":
                    inc(d["crash_labels_requested"], kv["crash"])
                    if f["res"] == "crash":
                        inc(d["crash_labels_fired"], kv["crash"])
            inc(d["phases_seen"], f.get("j", "?").split(":")[0])
        last = fields(segs(o or "")[-1]).get("j", "?")
        inc(d["end_phase"], last.split(":")[0])
    return d
