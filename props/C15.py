"""C15 — CGNAT port blocks are exclusive, in range and traceable
(internal/cgnat/pool.go, mapping.go, component.go; pkg/config/cgnat)."""
import re

ID = "C15"
HARNESSES = [dict(name="cgnat", pkg="./internal/cgnat/", test="TestVerifC15", timeout=900,
                  files=[("internal/cgnat/zz_verif_c15_test.go", "harness/C15/zz_verif_c15_test.go")])]
MODEL_NEEDS_IMPL = True
# The model has one switch per defect that was found; all ten are fixed in /repo, so only the repaired model (= /repo
# HEAD) is tried and a regression to any of them is a VIOLATION:
# R restore unvalidated 285c7b2, A reverse Add duplicate 7d1d0b3, D duplicate outside address 3b1c45d, S synced rollback
# 0cedd79, V inside VRF 0 53e73c2, X pools sharing an outside address 1fd8c60, L late add completion 8d8ac1d,
# C port geometry unchecked by Validate 0e7517a, G preserved mapping not released 2953f22,
# Q restore-window queue drops releases f92bf5a.
# The driver still understands "def:<letters>" (historical _refuted replays, triage by hand).
VARIANTS = ["repaired"]
DEFECT_NAMES = {"R": "restore-unvalidated", "A": "reverse-add-duplicate", "D": "duplicate-outside-address",
                "S": "synced-rollback-keeps-reverse-entries", "V": "inside-vrf-zero",
                "X": "pool-outside-overlap", "L": "late-add-completion",
                "C": "config-port-geometry-unchecked", "G": "preserved-mapping-not-released",
                "Q": "queue-overflow-drops-release"}
RULE = ("Four kinds of history. ev: the real Component with its restore-window queue open: lifecycle (active / released / other state) x (IPoE / PPPoE / other access), programmed and restored events and foreign payloads go through the subscribed entry points, restore steps run directly, Z = drainQueue, further events follow; three cases per run overflow the 4096-event bound with a release among the overflowing events.  Three further kinds.  mp: two pools on one PoolManager (outside addresses disjoint, overlapping or equal), cgnat.Config.Validate first, then <=40 pool calls addressed to either pool, dumps with the cross-pool overlap monitor.  comp histories contain up to two process restarts (B: fresh pool manager and component over the same opdb, restoreFromOpDB over all persisted records, decoded from the JSON the component itself wrote) and dumps of the persisted records (b); Subscribers are (VRF, full 32-bit inside address) and come from a pool whose members differ from 10.0.0.5 in exactly one address byte (1st, 2nd, 3rd or 4th) or only in the VRF; a deterministic block of four cases (one per case kind) gives each of them its own block, releases them one by one and sweeps the reverse index; keys are printed in full and a share of the activations leaves the dataplane add in flight (L) and completes it later (K ok/failed) in any order relative to the other events.  pool: <=70 calls of AllocateBlock/GetOrAllocate/ReleaseBlocks/RestoreMapping/"
        "RestoreMappingIfAbsent on one PoolManager over <=7 subscribers (two VRFs); comp: <=45 events driven through "
        "the real Component (handleSessionActivate with and without an HA-synced record, handleSessionRelease, "
        "restoreFromOpDB with one persisted mapping in the session-present and the degraded branch), each with a fault "
        "pattern for the southbound fake: dataplane add ok/failed, every dataplane delete ok/failed and completing "
        "at once or later (pending callbacks fired newest-first by a C event), bulk reprogram ok / per-mapping error "
        "/ transport error.  After EVERY comp event the reverse index is swept.  Configurations go through cgnat.Config.Validate first in every case kind (a rejected one ends the case); they include a reversed port range, a bound above 65535 and a block size derived as 0.  One case per run sweeps all 65536 ports of a default-range pool.  Geometries: 1-4 public addresses given as literals and /30 /31 prefixes, or four literals that differ only in the 3rd / 2nd / 1st byte (sometimes duplicated), "
        "0-2 exclusions, port ranges of 77..64512 ports with block sizes 4..1024 giving 0,4,8,16,64,65,125,126,128 "
        "blocks per address (one word, word boundary, two words), block size from subscriber-ratio, defaults for "
        "every unset field, limit 1-4, paired/arbitrary pooling.  About a third of the histories are 'clean' (no restores, no duplicate addresses, one live session per subscriber), so that the contract proper is compared exactly even while recorded defects are unfixed.  Restore arguments come from named classes: free "
        "aligned block, block owned by self / by another subscriber, unaligned, below/above the range, wrong end, "
        "index past the last block but inside the bitmap word, foreign address, excluded address.  Every history "
        "is interleaved with dumps (subscriber block lists, bitmap words, GetPoolStats, and the property evaluated on "
        "GetAllMappings: OVERLAP/RANGE/LIMIT/SPAN) and, for comp, reverse sweeps of every (address, port) over the "
        "port range +-20 (or windows at both ends of a large range) compared with the ownership ledger.  Which free "
        "block an allocation returns is taken from the implementation and checked for admissibility.  Non-trivial: "
        "at least one successful allocation and at least three different kinds of operation.  Distinct: by case text.")
TRUSTED = ["Go map iteration order is projected away (subscribers sorted by key in dumps)",
           "byIP of the reverse index is modelled as one insertion-ordered list instead of one slice per address",
           "the dataplane, opdb, event bus, config manager and session provider are harness fakes; the dataplane fake "
           "completes add calls synchronously (ok or failed) and delete calls synchronously or later"]
ASSUMPTIONS = ["port-range start <= end <= 65535 (cgnat.Config.Validate does not check this; a reversed range makes "
               "ConfigurePool allocate a 2^32-port bitmap)",
               "one pool; ConfigurePool is not called again during a history",
               "IPv4 outside addresses; exclusions written in canonical dotted form",
               "component level: dataplane ADD callbacks complete before the next event (an add that is still in "
               "flight while another event for the same inside address is handled is outside the model: exactness "
               "then depends on one-live-session-per-inside-address and on restore running before events, see notes)"]

BASE = 1681915904  # 100.64.0.0

# Subscriber k = inside VRF * 2^32 + the 32-bit inside address.  The pool below contains addresses that differ from
# 10.0.0.5 ONLY in the 1st, only in the 2nd, only in the 3rd, only in the 4th byte, and the same addresses in two more
# VRFs: a key that drops any part of (VRF, address) makes two of them one subscriber.
SB = (10 << 24) + 5                       # 10.0.0.5
V1, V2 = 1 << 32, 2 << 32
SUBS = [SB, SB + 1, SB + (1 << 8), SB + (1 << 16), SB + (1 << 24), SB + V1, SB + V2, SB + (1 << 8) + V1,
        SB + (1 << 16) + V2, (192 << 24) + (168 << 16) + 5, 5]
TWINS = [SB, SB + 1, SB + (1 << 8), SB + (1 << 16), SB + (1 << 24), SB + V1]   # pairwise one-component apart from SB

GEOMS = [  # (range, bs, ratio, weight)
    ("1024-1151", 16, 0, 10), ("1024-1151", 32, 0, 5), ("1024-1151", 64, 0, 3), ("1024-1151", 0, 8, 2),
    ("1024-1100", 16, 0, 3), ("1024-2047", 8, 0, 4), ("1000-1999", 8, 0, 4), ("2000-2259", 4, 0, 4),
    ("def", 512, 0, 3), ("def", 0, 0, 2), ("0-65535", 1024, 0, 3), ("1024-1151", 256, 0, 1),
    ("60000-65535", 512, 0, 2), ("0-127", 16, 0, 2), ("65400-65535", 16, 0, 2), ("1024-1151", 0, 200, 1),
    # configurations Config.Validate must reject: reversed range (block size kept large so that the wrapped 2^32-port
    # bitmap stays small), a bound above 65535 (parsePortRange falls back to the default), block size 0 from the ratio
    ("2000-1000", 40000, 0, 0.2), ("1151-1024", 65535, 0, 0.2), ("5000-4999", 50000, 0, 0.2),
    ("1024-70000", 512, 0, 0.4), ("0-127", 0, 129, 0.4),
]


def geom_params(g):
    rng_, bs, ratio = g[0], g[1], g[2]
    ps, pe = (1024, 65535) if rng_ == "def" else tuple(int(x) for x in rng_.split("-"))
    if ps > 65535 or pe > 65535:
        ps, pe = 1024, 65535
    usable = (pe - ps + 1) % (1 << 32)
    ebs = bs if bs > 0 else ((usable // ratio) % 65536 if ratio > 0 else 512)
    total = usable // ebs if ebs > 0 else 0
    return ps, pe, ebs, min(total, 70)


def gen_cfg(rng, allow_dup=True):
    g = rng.choices(GEOMS, weights=[x[3] for x in GEOMS])[0]
    ps, pe, ebs, total = geom_params(g)
    shape = rng.choice(["1", "2", "3", "/31", "/30", "/31+1", "1+/31", "spread", "spread3"])
    outs = {"1": [str(BASE + 1)], "2": [str(BASE + 1), str(BASE + 2)], "3": [str(BASE + 5), str(BASE + 1), str(BASE + 9)],
            "/31": ["%d/31" % (BASE + 1)], "/30": ["%d/30" % (BASE + 2)], "/31+1": ["%d/31" % BASE, str(BASE + 7)],
            "1+/31": [str(BASE + 9), "%d/31" % (BASE + 2)],
            # public addresses that differ only in the 3rd, only in the 2nd, only in the 1st byte
            "spread": [str(BASE + 1), str(BASE + 1 + (1 << 8)), str(BASE + 1 + (1 << 16)), str(BASE + 1 + (1 << 24))],
            "spread3": [str(BASE + 1 + (1 << 24)), str(BASE + 1 + (1 << 16)), str(BASE + 1)]}[shape]
    ips = []
    for o in outs:
        if "/" in o:
            ip, l = o.split("/")
            size = 1 << (32 - int(l))
            b = (int(ip) // size) * size
            ips += list(range(b, b + size))
        else:
            ips.append(int(o))
    if allow_dup and rng.random() < 0.06:
        outs = outs + [str(rng.choice(ips))]
    excl = []
    r = rng.random()
    if r < 0.25:
        excl = [rng.choice(ips)]
    elif r < 0.30:
        excl = [ips[0], BASE + 77]
    elif r < 0.33:
        excl = list(ips)
    mx = rng.choice([0, 1, 1, 2, 2, 3, 3, 4])
    pooling = rng.choice([0, 1, 1, 2, 2])
    toks = ["bs=%d" % g[1], "ratio=%d" % g[2], "range=%s" % g[0], "max=%d" % mx, "pooling=%d" % pooling,
            "out=%s" % ",".join(outs), "excl=%s" % (",".join(str(x) for x in excl) if excl else "-")]
    return toks, dict(ps=ps, pe=pe, bs=ebs, total=total, ips=ips, excl=excl)


def restore_arg(rng, gp):
    """(ip, start, end) from a named class"""
    ps, pe, bs, total, ips = gp["ps"], gp["pe"], gp["bs"], gp["total"], gp["ips"]
    bs = max(bs, 1)
    ip = rng.choice(ips)
    idx = rng.randrange(0, max(1, min(total, rng.choice([3, 6, 70])))) if total > 0 else 0
    start = ps + idx * bs
    end = start + bs - 1
    cls = rng.choices(["good", "good", "good", "unaligned", "below", "above", "wrongend", "phantom", "foreign",
                       "excluded", "lastblock"], weights=[6, 6, 6, 3, 2, 2, 2, 2, 2, 2, 2])[0]
    if cls == "unaligned":
        start += rng.randrange(1, bs) if bs > 1 else 1
        end = start + bs - 1
    elif cls == "below":
        start = (ps - bs * rng.choice([1, 2])) % 65536
        end = (start + bs - 1) % 65536
    elif cls == "above":
        start = ps + total * bs + bs * rng.choice([0, 1, 40])
        end = start + bs - 1
    elif cls == "wrongend":
        end = start + rng.choice([0, bs, 2 * bs - 1, bs - 2])
    elif cls == "phantom":
        start = ps + (total + rng.randrange(0, 5)) * bs
        end = start + bs - 1
    elif cls == "foreign":
        ip = BASE + 200 + rng.randrange(3)
    elif cls == "excluded" and gp["excl"]:
        ip = rng.choice(gp["excl"])
    elif cls == "lastblock" and total > 0:
        start = ps + (total - 1) * bs
        end = start + bs - 1
    return ip, start % 65536, max(0, end) % 65536, cls


def sweep_ops(gp):
    ps, pe, bs = gp["ps"], gp["pe"], max(gp["bs"], 1)
    if pe < ps:
        ps, pe = pe, ps
    if pe - ps <= 1100:
        return ["w:%d:%d" % (max(0, ps - 20), min(65535, pe + 20))]
    return ["w:%d:%d" % (max(0, ps - 5), min(65535, ps + 3 * bs + 5)),
            "w:%d:%d" % (max(0, pe - 2 * bs - 3), min(65535, pe + 5))]


def gen_pool_case(rng, nmax):
    clean = rng.random() < 0.35      # no restores, no duplicate addresses: exercises the contract proper
    toks, gp = gen_cfg(rng, allow_dup=not clean)
    subs = rng.sample(SUBS, rng.randint(2, 7))
    ops = []
    n = rng.randint(5, nmax)
    heavy_restore = rng.random() < 0.3
    for i in range(n):
        r = rng.random()
        k = rng.choice(subs)
        if clean and 0.60 <= r < 0.90:
            r = rng.choice([0.1, 0.4, 0.5, 0.95])
        if r < 0.32:
            ops.append("a:%d" % k)
        elif r < 0.45:
            ops.append("g:%d" % k)
        elif r < 0.60:
            ops.append("r:%d" % k)
        elif r < (0.90 if heavy_restore else 0.78):
            ip, s, e, _ = restore_arg(rng, gp)
            ops.append("%s:%d:%d:%d:%d" % (rng.choice("RII"), k, ip, s, e))
            if rng.random() < 0.25:      # the same mapping again, possibly for another subscriber
                ops.append("%s:%d:%d:%d:%d" % (rng.choice("RI"), rng.choice([k, k, rng.choice(subs)]), ip, s, e))
        else:
            ops.append("d")
    ops.append("d")
    return "pool " + " ".join(toks) + " | " + " ".join(ops)


def del_pattern(rng):
    r = rng.random()
    if r < 0.45:
        return ""
    return ":" + "".join(rng.choice("offOOF") for _ in range(rng.randint(1, 4)))


def gen_comp_case(rng, nmax):
    clean = rng.random() < 0.35      # one live session per subscriber, no restores, no duplicate addresses
    toks, gp = gen_cfg(rng, allow_dup=not clean)
    subs = rng.sample(SUBS, rng.randint(2, 6))
    if clean:
        subs = [k for k in subs if k < V1] or [SB]
    live = {}
    inflight = []
    restarts = [0]          # sid -> k
    nxt = [1]
    ops = []
    sw = sweep_ops(gp)

    def new_sid():
        nxt[0] += 1
        return nxt[0]

    def ev(tok):
        ops.append(tok)
        ops.extend(sw)                 # full reverse sweep after every event
    n = rng.randint(4, nmax)
    for i in range(n):
        r = rng.random()
        if clean:
            if 0.52 <= r < 0.80:
                r = rng.choice([0.1, 0.1, 0.4, 0.85, 0.95])
            if r < 0.34:
                free = [k for k in subs if k not in live.values()]
                if not free:
                    r = 0.4
                else:
                    sid, k = new_sid(), rng.choice(free)
                    ok = 0 if rng.random() < 0.2 else 1
                    ev("A:%d:%d:%d" % (sid, k, ok))
                    if ok:
                        live[sid] = k
                    continue
            if r < 0.52 and not live:
                r = 0.85
        if r < 0.34:
            k = rng.choice(subs)
            if live and rng.random() < 0.15:
                sid = rng.choice(list(live))
                k = live[sid]
            else:
                sid = new_sid()
            if rng.random() < 0.3:
                ev("L:%d:%d" % (sid, k))
                inflight.append(sid)
            else:
                ev("A:%d:%d:%d" % (sid, k, 0 if rng.random() < 0.15 else 1))
            live.setdefault(sid, k)
        elif r < 0.52:
            if live and rng.random() < 0.85:
                sid = rng.choice(list(live))
                k = live.pop(sid)
                if rng.random() < 0.05:
                    k = rng.choice(subs)
            else:
                sid, k = new_sid(), rng.choice(subs)
            ev("X:%d:%d%s" % (sid, k, del_pattern(rng)))
        elif r < 0.72:
            mk = rng.choice(subs)
            ip, s, e, _ = restore_arg(rng, gp)
            kind = rng.choice("PDD")
            sid = new_sid() if rng.random() < 0.8 or not live else rng.choice(list(live))
            bulk = rng.choice([0, 0, 0, 1, 2]) if kind == "P" else 0
            ev("%s:%d:%d:%d:%d:%d%s" % (kind, sid, mk, ip, s, e, (":%d" % bulk) if kind == "P" else ""))
            if (kind == "P" and bulk == 0) or (kind == "D" and rng.random() < 0.7):
                live.setdefault(sid, mk)      # a preserved (degraded) session is released later like any other
            if rng.random() < 0.3:       # re-entered restore of the same record
                k2 = rng.choice("PD")
                ev("%s:%d:%d:%d:%d:%d%s" % (k2, sid, mk, ip, s, e, ":0" if k2 == "P" else ""))
        elif r < 0.82:
            k = rng.choice(subs)
            mk = k if rng.random() < 0.85 else rng.choice(subs)
            ip, s, e, _ = restore_arg(rng, gp)
            if rng.random() < 0.4 and not clean:
                # the record names a block the subscriber was given by an earlier (degraded) restore
                ev("D:%d:%d:%d:%d:%d" % (new_sid(), mk, ip, s, e))
            sid = new_sid()
            ok = 0 if rng.random() < 0.35 else 1
            ev("S:%d:%d:%d:%d:%d:%d:%d" % (sid, k, mk, ip, s, e, ok))
            if ok:
                live.setdefault(sid, k)
        elif r < 0.86:
            ops.append("d")
        elif r < 0.88:
            ops.append("b")                     # the persisted records, decoded
        elif r < 0.91 and restarts[0] < 2:
            # process restart over the same opdb: in-flight adds are gone, persisted sessions are restored
            restarts[0] += 1
            ops.append("b")
            ev("B")
            ops += ["d", "b"]
            del inflight[:]
        elif r < 0.95 and inflight:
            sid = inflight.pop(rng.randrange(len(inflight)))
            ev("K:%d:%d" % (sid, 0 if rng.random() < 0.3 else 1))
        else:
            ev("C")
    while inflight:
        ev("K:%d:%d" % (inflight.pop(rng.randrange(len(inflight))), 0 if rng.random() < 0.3 else 1))
    ev("C")
    ops += ["d", "b"]
    return "comp " + " ".join(toks) + " | " + " ".join(ops)


def gen_mp_case(rng, nmax):
    geoms = [("1024-1151", 64), ("1024-1151", 32), ("1024-1151", 16), ("2000-2259", 4)]

    def one(outs):
        g = rng.choice(geoms)
        return ["bs=%d" % g[1], "ratio=0", "range=%s" % g[0], "max=%d" % rng.choice([1, 2, 3]),
                "pooling=%d" % rng.choice([0, 1, 2]), "out=%s" % ",".join(outs), "excl=-"], g
    shape = rng.choice(["disjoint", "disjoint", "equal", "literal-in-prefix", "prefix-in-prefix", "adjacent"])
    o1, o2 = {"disjoint": ([str(BASE + 1)], [str(BASE + 2), str(BASE + 9)]),
              "equal": ([str(BASE + 1)], [str(BASE + 1)]),
              "literal-in-prefix": (["%d/30" % BASE], [str(BASE + 2)]),
              "prefix-in-prefix": (["%d/31" % (BASE + 2)], ["%d/30" % BASE, str(BASE + 9)]),
              "adjacent": (["%d/31" % BASE], ["%d/31" % (BASE + 2)])}[shape]
    if rng.random() < 0.5:
        o1, o2 = o2, o1
    t1, g1 = one(o1)
    t2, g2 = one(o2)
    ops = ["v"]
    for _ in range(rng.randint(4, nmax)):
        r = rng.random()
        p = rng.choice("12")
        k = rng.choice(TWINS)
        if r < 0.5:
            ops.append("a:%s:%d" % (p, k))
        elif r < 0.62:
            ops.append("g:%s:%d" % (p, k))
        elif r < 0.77:
            ops.append("r:%s:%d" % (p, k))
        elif r < 0.87:
            g = g1 if p == "1" else g2
            ps_, bs_ = int(g[0].split("-")[0]), g[1]
            ip = rng.choice([BASE + 1, BASE + 2, BASE + 3])
            st = ps_ + bs_ * rng.randrange(0, 3)
            ops.append("%s:%s:%d:%d:%d:%d" % (rng.choice("RI"), p, k, ip, st, st + bs_ - 1))
        else:
            ops.append("d")
    ops.append("d")
    return "mp " + " ".join(t1) + " || " + " ".join(t2) + " | " + " ".join(ops)


def gen_ev_case(rng, nmax, overflow=False):
    toks, gp = gen_cfg(rng, allow_dup=False)
    subs = rng.sample(SUBS + [SB + 2, SB + 9], rng.randint(3, 7))
    ok = lambda k: 0 if k % 7 == 0 else 1          # outcome of the dataplane add, fixed per subscriber in a case
    nxt = [1]
    known = {}                                       # sid -> k for sessions the component may know
    ops = []
    sw = sweep_ops(gp)

    def new_sid():
        nxt[0] += 1
        return nxt[0]

    def event():
        r = rng.random()
        acc = rng.choice("iiippo")
        if r < 0.40:
            sid, k = new_sid(), rng.choice(subs)
            if known and rng.random() < 0.2:
                sid = rng.choice(list(known))
                k = known[sid]
            known.setdefault(sid, k)
            return "%s:%s:%d:%d:%d" % (rng.choice(["eP", "eP", "eR"]), acc, sid, k, ok(k))
        if r < 0.70:
            if known and rng.random() < 0.8:
                sid = rng.choice(list(known))
                k = known[sid]
                if rng.random() < 0.7:
                    del known[sid]
            else:
                sid, k = new_sid(), rng.choice(subs)
            pat = rng.choice(["", "", ":f", ":of"])
            return "eL:r:%s:%d:%d%s" % (acc, sid, k, pat)
        if r < 0.80:
            return "eL:%s:%s:%d:%d" % (rng.choice("ao"), acc, new_sid(), rng.choice(subs))
        if r < 0.92:
            mk = rng.choice(subs)
            ip, s_, e_, _ = restore_arg(rng, gp)
            sid = new_sid()
            known.setdefault(sid, mk)
            return "%s:%d:%d:%d:%d:%d" % (rng.choice("PD"), sid, mk, ip, s_, e_)
        return "eB"
    nwin = rng.randint(2, nmax // 2)
    if overflow:
        # a restored session whose release arrives when the queue is full
        mk = subs[0]
        bs, ps = max(gp["bs"], 1), gp["ps"]
        ops.append("P:900:%d:%d:%d:%d" % (mk, gp["ips"][0], ps, ps + bs - 1))
        ops.append("F:%d" % rng.choice([4094, 4095, 4096]))
        ops.append("eP:i:901:%d:%d" % (subs[1], ok(subs[1])))
        ops.append("eL:r:i:900:%d" % mk)
        ops.append("eP:i:902:%d:%d" % (subs[2], ok(subs[2])))
        ops.append("eL:r:p:903:%d" % subs[1])
    else:
        for _ in range(nwin):
            ops.append(event())
            if rng.random() < 0.15:
                ops.append("d")
    ops.append("Z")
    ops += sw
    ops.append("d")
    for _ in range(rng.randint(2, nmax // 2)):
        ops.append(event())
        ops += sw
    ops.append("d")
    return "ev " + " ".join(toks) + " | " + " ".join(ops)


def gen_cases(rng, tier, budget):
    npool = (budget or 400) if tier == "quick" else (budget or 5000)
    ncomp = (budget or 300) if tier == "quick" else (budget or 4500)
    cases = []
    # fill-and-drain histories: every block of a small pool is handed out, released and handed out again
    for bs, mx, pooling, outs in [(16, 3, 2, "%d,%d" % (BASE + 1, BASE + 2)), (32, 2, 1, "%d/31" % BASE), (64, 1, 0, str(BASE + 3)),
                                  (16, 4, 1, "%d/31" % BASE)]:
        head = "pool bs=%d ratio=0 range=1024-1151 max=%d pooling=%d out=%s excl=- | " % (bs, mx, pooling, outs)
        ops = []
        for rnd in range(2):
            for k in (TWINS + [SB + V2]):
                ops += ["a:%d" % k] * (mx + 1)
            ops.append("d")
            for k in (TWINS + [SB + V2]):
                ops.append("r:%d" % k)
            ops.append("d")
        cases.append(head + " ".join(ops))
    # a two-word bitmap filled completely (125 and 128 blocks on one address)
    for rg, n in [("1000-1999", 125), ("1024-2047", 128), ("2000-2259", 65)]:
        bs = 8 if n != 65 else 4
        ops = []
        for k in range(1, n + 3):
            ops.append("a:%d" % (SB + k * 257))          # 3rd and 4th byte vary together
        ops += ["d", "r:%d" % (SB + 64 * 257), "r:%d" % (SB + 65 * 257), "r:%d" % (SB + n * 257)] + ["a:%d" % (SB + V1 + j) for j in range(4)] + ["d"]
        cases.append("pool bs=%d ratio=0 range=%s max=1 pooling=1 out=%d excl=- | " % (bs, rg, BASE + 1) + " ".join(ops))
    # every port of the default range swept (64512 ports, 126 blocks per address, interior blocks included)
    cases.append("comp bs=512 ratio=0 range=def max=4 pooling=2 out=%d,%d excl=- | " % (BASE + 1, BASE + 2) +
                 " ".join("A:%d:%d:1" % (k, SB + (k << 16)) for k in range(2, 40)) + " w:0:65535 " +
                 " ".join("X:%d:%d" % (k, SB + (k << 16)) for k in range(5, 30, 3)) + " w:0:65535 d")
    # subscribers that differ in exactly one component of (VRF, b1.b2.b3.b4), in every case kind: each gets its own
    # block, each release frees only its own, lookups name the right one
    tw = TWINS
    geo = "bs=16 ratio=0 range=1024-1151 max=2 pooling=1 out=%d excl=-" % (BASE + 1)
    cases.append("pool " + geo + " | " + " ".join("a:%d" % k for k in tw) + " d " + " ".join("g:%d" % k for k in tw) +
                 " d " + " ".join("r:%d d" % k for k in tw) + " " +
                 " ".join("I:%d:%d:%d:%d" % (k, BASE + 1, 1024 + 16 * i, 1039 + 16 * i) for i, k in enumerate(tw)) + " d " +
                 " ".join("r:%d d" % k for k in reversed(tw)))
    cases.append("comp " + geo + " | " + " ".join("A:%d:%d:1 w:1000:1200" % (i + 2, k) for i, k in enumerate(tw)) + " d b " +
                 " ".join("X:%d:%d w:1000:1200 d" % (i + 2, k) for i, k in enumerate(tw)) + " " +
                 " ".join("D:%d:%d:%d:%d:%d w:1000:1200" % (i + 20, k, BASE + 1, 1024 + 16 * i, 1039 + 16 * i) for i, k in enumerate(tw)) +
                 " d b B d b w:1000:1200 " + " ".join("X:%d:%d w:1000:1200 d" % (i + 20, k) for i, k in enumerate(tw)))
    cases.append("ev " + geo + " | " + " ".join("eP:i:%d:%d:1" % (i + 2, k) for i, k in enumerate(tw)) + " Z w:1000:1200 d " +
                 " ".join("eL:r:i:%d:%d w:1000:1200 d" % (i + 2, k) for i, k in enumerate(tw)))
    cases.append("mp " + geo + " || bs=16 ratio=0 range=1024-1151 max=2 pooling=1 out=%d excl=- | v " % (BASE + 2) +
                 " ".join("a:1:%d a:2:%d" % (k, k) for k in tw) + " d " + " ".join("r:1:%d d" % k for k in tw) + " " +
                 " ".join("r:2:%d d" % k for k in reversed(tw)))
    spread = ",".join(str(BASE + 1 + d) for d in (0, 1 << 8, 1 << 16, 1 << 24))
    geo2 = "bs=64 ratio=0 range=1024-1151 max=1 pooling=1 out=%s excl=-" % spread      # 2 blocks per public address
    ks = [SB + (j << 8) for j in range(9)]
    cases.append("comp " + geo2 + " | " + " ".join("A:%d:%d:1" % (i + 2, k) for i, k in enumerate(ks)) + " w:1000:1200 d b " +
                 " ".join("X:%d:%d w:1000:1200" % (i + 2, k) for i, k in enumerate(ks[::2])) + " d B d w:1000:1200")
    cases.append("pool " + geo2 + " | " + " ".join("a:%d" % k for k in ks) + " d " + " ".join("r:%d d" % k for k in ks[1::2]) +
                 " " + " ".join("a:%d" % (k + V1) for k in ks[:4]) + " d")
    # configuration corner: block size derived as 0 (ConfigurePool divides by it)
    cases.append("pool bs=0 ratio=1 range=0-65535 max=1 pooling=1 out=%d excl=- | a:1 d" % (BASE + 1))
    for _ in range(npool):
        cases.append(gen_pool_case(rng, 70 if tier == "thorough" or rng.random() < 0.3 else 30))
    for _ in range(150 if tier == "quick" else 1500):
        cases.append(gen_mp_case(rng, 40))
    for i in range(170 if tier == "quick" else 1700):
        cases.append(gen_ev_case(rng, 24, overflow=(i < 3 if tier == "quick" else i < 12)))
    for _ in range(ncomp):
        cases.append(gen_comp_case(rng, 30 if tier == "thorough" or rng.random() < 0.3 else 14))
    return cases


# ---------------------------------------------------------------- verdict helpers
def split_ops(case):
    parts = case.split(" | ", 1)
    return parts[0].split(), (parts[1].split() if len(parts) == 2 else [])


FLAG_RE = re.compile(r"flags=([A-Za-z,]+)")


def prop_flags(line):
    """property-level alarms raised by the harness monitors in one output line"""
    fl = set()
    for m in FLAG_RE.finditer(line):
        if m.group(1) != "none":
            fl.update(m.group(1).split(","))
    if "trace=BAD" in line:
        fl.add("TRACE")
    return fl


def _common_ops(a, b):
    n = 0
    for x, y in zip(a.split(" ; "), b.split(" ; ")):
        if x != y:
            break
        n += 1
    return n


_CLOSEST_CALLS = [0]


def _score(impl, line):
    n = 0
    while n < min(len(impl), len(line)) and impl[n] == line[n]:
        n += 1
    return (_common_ops(impl, line), n)


def closest_variant(case, impl, model):
    """The model variant whose answer agrees with the implementation on the longest prefix (operations, then
    characters).  On a tree that still has recorded defects a new fault shows up as a deviation from one of the
    defective variants; describing the mismatch relative to that variant keeps the recorded defects out of the
    description and out of shrinking.  Bounded number of driver invocations per run."""
    import os
    import subprocess
    import tempfile
    best = ("repaired", model)
    _CLOSEST_CALLS[0] += 1
    if _CLOSEST_CALLS[0] > 1500:
        return best
    try:
        exe = os.path.join(os.path.dirname(os.path.dirname(os.path.abspath(__file__))), "build", "bin", "C15_run")
        with tempfile.TemporaryDirectory() as d:
            open(os.path.join(d, "c"), "w").write(case + "\n")
            open(os.path.join(d, "i"), "w").write(impl + "\n")
            out = subprocess.run([exe, os.path.join(d, "c"), os.path.join(d, "i"), "all=" + ",".join(VARIANTS)], stdout=subprocess.PIPE,
                                 text=True, timeout=20).stdout.rstrip("\n")
        lines = out.split(" ### ")
        if len(lines) == len(VARIANTS):
            score = _score(impl, model)
            for v, l in zip(VARIANTS, lines):
                s = _score(impl, l)
                if s > score:
                    best, score = (v, l), s
    except Exception:
        pass
    return best


def classify(case, impl, model):
    v, ref = ("repaired", model) if len(VARIANTS) == 1 else closest_variant(case, impl, model)
    tag = "" if v == "repaired" else " [compared with model variant %s, i.e. besides the recorded defect(s) %s]" % (
        v, "+".join(DEFECT_NAMES[c] for c in v[4:]))
    k, txt = classify1(case, impl, ref)
    return k, txt + tag


def classify1(case, impl, model):
    if "INADMISSIBLE" in model:
        outs = model.split(" ; ")
        i = [j for j, o in enumerate(outs) if "INADMISSIBLE" in o][0]
        ops_ = split_ops(case)[1]
        return "P", "op #%d (%s): the implementation handed out %s, which is not a free aligned in-range block on an " \
                    "admissible address (or made a dataplane add the model does not expect there)" % (
                        i, ops_[i] if i < len(ops_) else "?", outs[i][outs[i].index("INADMISSIBLE") + 13:][:60])
    io, mo = impl.split(" ; "), model.split(" ; ")
    ops = split_ops(case)[1]
    first_glue = None
    # the first operation whose difference is itself a counter-example decides; glue-only differences before it
    # (internal diagnostics such as the index sizes) are remembered but do not hide it
    for j, (a, b) in enumerate(zip(io, mo)):
        if a != b:
            k, txt = classify_op(j, ops[j] if j < len(ops) else "?", a, b)
            if k == "P":
                return k, txt
            if first_glue is None:
                first_glue = txt
    if first_glue is not None:
        return "G", first_glue
    return "G", "output length differs: impl=%d ops model=%d ops; impl tail=%s" % (len(io), len(mo), io[-1][:200])


def classify_op(j, opn, a, b):
    extra = prop_flags(a) - prop_flags(b)
    if extra:
        return "P", "op #%d %s: property monitor on the implementation's own mappings: %s; impl=%s model=%s" % (
            j, opn, ",".join(sorted(extra)), a[:300], b[:300])
    if a.startswith("sw ") or b.startswith("sw "):
        return "P", "op #%d %s: reverse lookup differs from the owner: impl=%s model=%s" % (j, opn, a[:200], b[:200])
    if opn[:1] in ("R", "I") and {a, b} == {"ok", "err"}:
        return "P", "op #%d %s: restore answered %s, the model %s (acceptance of a restored block differs)" % (j, opn, a, b)
    if a.startswith("err") and (b.startswith("ok") or b.startswith("dp")):
        return "P", "op #%d %s: allocation refused (%s) although an admissible free block exists" % (j, opn, a)
    if (a.startswith("ok") or a.startswith("dp")) and (b.startswith("err") or b.startswith("nodp")):
        return "P", "op #%d %s: allocation granted (%s) where the limit/pairing/exhaustion rules refuse it (%s)" % (j, opn, a, b)
    if a.startswith("subs=") and b.startswith("subs="):
        fa, fb = a.split(" "), b.split(" ")
        diff = [x.split("=")[0] for x, y in zip(fa, fb) if x != y]
        kind = "P" if ("subs" in diff or "bits" in diff or "stats" in diff) else "G"
        return kind, "op #%d %s: pool state differs in %s: impl=%s model=%s" % (j, opn, ",".join(diff), a[:300], b[:300])
    return "G", "op #%d %s: impl=%s model=%s" % (j, opn, a[:300], b[:300])


def signature(case, impl, models):
    return None        # no finding is open


def nontrivial(case, out):
    _, ops = split_ops(case)
    kinds = {o.split(":")[0] for o in ops}
    return len(kinds) >= 3 and ("ok new" in out or "dp " in out)


def shrink(case):
    cfg, ops = split_ops(case)

    def emit(c, o):
        return " ".join(c) + " | " + " ".join(o)
    n = len(ops)
    # halves, then chunks, then single ops
    if n > 4:
        for size in (n // 2, n // 4, n // 8):
            if size >= 2:
                for i in range(0, n, size):
                    yield emit(cfg, ops[:i] + ops[i + size:])
    for i in range(n):
        yield emit(cfg, ops[:i] + ops[i + 1:])
    for j, t in enumerate(cfg):
        if t.startswith("excl=") and t != "excl=-":
            yield emit(cfg[:j] + ["excl=-"] + cfg[j + 1:], ops)
        if t.startswith("out=") and "," in t:
            parts = t[4:].split(",")
            for i in range(len(parts)):
                yield emit(cfg[:j] + ["out=" + ",".join(parts[:i] + parts[i + 1:])] + cfg[j + 1:], ops)


def describe(case, impl, model):
    return {"case": case[:500], "implementation": impl[:500], "model": model[:500]}


def distribution(cases, impl):
    d = {"pool_cases": 0, "comp_cases": 0, "mp_cases": 0, "mp_rejected": 0, "restarts": 0, "db_dumps": 0, "db_records_max": 0, "ev_cases": 0, "ev_queued": 0,
         "ev_dropped_max": 0, "ev_drain_adds": 0, "ev_dispatched_direct": 0, "ops": {}, "alloc_ok": 0, "alloc_old": 0, "err_limit": 0, "err_nofree": 0,
         "err_allocfail": 0, "restore_ok": 0, "restore_err": 0, "dp_calls": 0, "panics": 0, "impl_flags": {},
         "blocks_per_addr": {}, "history_len": {"<=10": 0, "11-30": 0, "31-80": 0, ">80": 0},
         "sweep_runs": 0, "max_subscribers_in_dump": 0}
    for c, o in zip(cases, impl):
        cfg, ops = split_ops(c)
        d[{"pool": "pool_cases", "comp": "comp_cases", "ev": "ev_cases"}.get(cfg[0], "mp_cases")] += 1
        n = len(ops)
        d["history_len"]["<=10" if n <= 10 else "11-30" if n <= 30 else "31-80" if n <= 80 else ">80"] += 1
        outs = (o or "").split(" ; ")
        for t, r in zip(ops, outs):
            k = t.split(":")[0]
            d["ops"][k] = d["ops"].get(k, 0) + 1
            if cfg[0] == "ev" and " q=" in r:
                ql, qd = r.split(" q=")[1].split("/")
                if k in ("eL", "eP", "eR", "eB"):
                    d["ev_queued" if int(ql) > 0 else "ev_dispatched_direct"] += 1
                d["ev_dropped_max"] = max(d["ev_dropped_max"], int(qd))
                if k == "Z":
                    d["ev_drain_adds"] += r.count("dp ")
            if k == "B":
                d["restarts"] += 1
            if r.startswith("db "):
                d["db_dumps"] += 1
                d["db_records_max"] = max(d["db_records_max"], 0 if r == "db -" else r.count(",") + 1)
            if r.startswith("ok new"):
                d["alloc_ok"] += 1
            elif r.startswith("ok old"):
                d["alloc_old"] += 1
            elif r.startswith("err ") and r[4:] in ("limit", "nofree", "allocfail"):
                d["err_" + r[4:]] += 1
            elif k in "RI" and r == "ok":
                d["restore_ok"] += 1
            elif k in "RI" and r == "err":
                d["restore_err"] += 1
            elif r.startswith("dp "):
                d["dp_calls"] += 1
            elif r.startswith("sw "):
                d["sweep_runs"] += r.count("=") - 1
            elif r.startswith("subs="):
                s = r.split(" ")[0][5:]
                if s != "-":
                    d["max_subscribers_in_dump"] = max(d["max_subscribers_in_dump"], s.count(";") + 1)
        if (o or "") == "invalid":
            d["mp_rejected"] += 1
        if "panic" in (o or ""):
            d["panics"] += 1
        for f in prop_flags(o or ""):
            d["impl_flags"][f] = d["impl_flags"].get(f, 0) + 1
        g = dict(t.split("=", 1) for t in cfg[1:] if "=" in t and cfg[0] != "mp")
        try:
            rg = g["range"]
            ps, pe = (1024, 65535) if rg == "def" else tuple(int(x) for x in rg.split("-"))
            bs, ratio = int(g["bs"]), int(g["ratio"])
            ebs = bs if bs > 0 else (((pe - ps + 1) // ratio) % 65536 if ratio > 0 else 512)
            tb = str((pe - ps + 1) // ebs) if ebs else "div0"
            d["blocks_per_addr"][tb] = d["blocks_per_addr"].get(tb, 0) + 1
        except Exception:
            pass
    return d
