"""C03 — no service before AAA accept; a reject leaves nothing allocated.
Stage 1 PPPoE gate (internal/pppoe + internal/ppp + pkg/ppp), stage 2 IPoE gate (internal/ipoe with the real local
DHCP providers and allocator registry), stage 3 RADIUS username-fallback gate + AAA verdict mapping."""
import itertools
import random

ID = "C03"
HARNESSES = [
    dict(name="pppoe", pkg="./internal/pppoe/", test="TestVerifC03PPPoE", timeout=900,
         files=[("internal/pppoe/zz_verif_c03_pppoe_test.go", "harness/C03/zz_verif_c03_pppoe_test.go")]),
    dict(name="ipoe", pkg="./internal/ipoe/", test="TestVerifC03IPoE", timeout=900,
         files=[("internal/ipoe/zz_verif_c03_ipoe_test.go", "harness/C03/zz_verif_c03_ipoe_test.go")]),
    # same harness file under the race detector: the forced-overlap cases (two AAA answers for one session, the
    # first held inside the dataplane add while the second runs)
    dict(name="ipoec", pkg="./internal/ipoe/", test="TestVerifC03IPoE", timeout=900, race=True,
         files=[("internal/ipoe/zz_verif_c03_ipoe_test.go", "harness/C03/zz_verif_c03_ipoe_test.go")]),
    dict(name="radius", pkg="./plugins/auth/radius/", test="TestVerifC03Radius", timeout=300,
         files=[("plugins/auth/radius/zz_verif_c03_radius_test.go", "harness/C03/zz_verif_c03_radius_test.go")]),
]
# every C03 finding is fixed in /repo (KNOWN_FINDINGS.txt, last: 2063a0c): the only variant is what /repo HEAD does; a
# regression to any fixed defect is a VIOLATION.  (The driver still accepts "defective" / "noteardown" / "heldanswer" /
# "sbfailtwice" / "unnamedlease" / "relayunapproved" = the code before e9950ea / 0709f1b / 7b3d79c / 277708f / 2063a0c, used
# only when a patch is validated on a scratch tree.)
VARIANTS = ["repaired"]
MODEL_NEEDS_IMPL = True   # only for the FSM table flavour reported by the harness (see notes/C03.md)
RULE = ("pppoe: (a) systematic: each of 16 prefixes reaching a distinct phase/FSM situation (fresh, LCP open, auth pending, "
        "network, open, renegotiated, renegotiated+pending, re-authenticating, rejected, terminated, static address, "
        "PAP negotiated, four refused/rewritten Authentication-Protocol situations) x every single event of the 97-event "
        "alphabet (69 frame kinds over LCP/PAP/CHAP/IPCP/IPv6CP/IPv6 incl. DHCPv6 SOLICIT/REQUEST/unknown "
        "protocols, AAA accept/accept+static/reject/error for request ordinals {empty,1,2,3,unknown}, 4 timers, PADT, dead "
        "peer, dataplane completion, re-open) x 3 probe suffixes; (b) forced overlaps: R: every frame kind processed under "
        "the session lock while a matched answer waits for it, S: PADT / dead peer / every timer / frames / the other "
        "subscriber's PADT handled completely while a matched answer is held before the lock, each x 4 answers x situations "
        "with a request outstanding; (c) IPv6 profile: IA_NA / PD pool sizes {0,1,2,16} (one of the two large), macro "
        "scripts over three subscribers (open, DHCPv6 sequences, teardown, renegotiation + re-authentication, re-PADR, "
        "IPv6CP close/reopen); (d) random walks over the alphabet, 1-3 subscribers, pool of 0-2 addresses, biased towards "
        "progress. "
        "ipoe: 15 prefixes (nothing, pending by DISCOVER/REQUEST/SOLICIT/all four, approved, approved with late packets, "
        "created, bound v4/v6/both, rejected, second attempt, released, dataplane add failed) x every event (DISCOVER, "
        "REQUEST, RELEASE good/spoofed, server-sourced OFFER/ACK/NAK, SOLICIT, REQUEST6, RENEW, RELEASE6, AAA accept/reject/"
        "error for the current / an earlier / an unknown session id, dataplane completion ok/fail) x 3 probes, all event "
        "pairs after each prefix, and random walks with 1-3 subscribers and 1-3 IPv4 addresses. "
        "radius: the whole table username-fallback x server answer {Accept, Reject, other code, none} x access type, through "
        "the real provider and AAA component against a local RADIUS server. "
        "Non-trivial: a case in which at least one AAA answer is delivered and at least one service output or one "
        "gated (dropped) client packet occurs. Distinct: by case text.")
TRUSTED = ["PPP option contents are abstracted to ack/nak/reject quality; addresses to {none,pool,static,fallback}",
           "timers are events: FSM.Timeout()/handleCHAPTimeout() are called by the harness, real timers never fire",
           "one handler at a time (the per-packet goroutines of the real receive loops are sequentialised)"]
ASSUMPTIONS = ["ipoe: unified session mode, DHCP server mode",
               "ipoe: IA_PD is compared as a token derived next to each IPv6 address dataplane call (PD pool never exhausted); pppoe: IA_NA and PD leases are modelled and their pool counts compared",
               "pppoe: a DHCPv6 SOLICIT / REQUEST for which neither an address nor a prefix resolves is not answered (e76425b) and changes nothing: modelled and driven (both IPv6 pools at 0 / 1)",
               "pppoe: a superseded incarnation (new PADR over a live session) stays in the session-id index; the model forgets it (same pool counts), frames are sent to the newest session id only",
               "AAA request ids are unique (uuid) — the model numbers them 1,2,3...",
               "LAC hand-off (lacTrigger) and session restore/HA paths are not exercised"]


def route(case):
    k = case.split(" ", 1)[0]
    return "ipoe" if k == "ipoer" else k


# ------------------------------------------------------------------ pppoe
CF = ["creq_ok", "creq_nak", "creq_rej", "creq_bad", "cack", "cack_bad", "cnak", "cnak_bad", "crej", "crej_bad",
      "treq", "tack", "cdrej", "unkcode"]
LCPX = ["echoreq", "echorep", "discreq", "prej_ipcp", "prej_ip6cp", "prej_other", "crej_auth", "cnak_pap", "cnak_chap",
        "cnak_zero", "cnak_eap", "cnak_short", "crej_all"]
FRAMES = ([("lcp", k) for k in CF + LCPX] + [("ipcp", k) for k in CF] + [("ip6cp", k) for k in CF] +
          [("pap", k) for k in ("req", "req_bad", "other")] + [("chap", k) for k in ("resp", "resp_bad", "other")] +
          [("ip6", k) for k in ("rs", "ns", "junk", "dh_sol", "dh_req")] + [("unk", k) for k in ("ip4", "ccp", "short")])
AK = ["acc", "accip", "rej", "err"]


def fr(i, p, k):
    return "f:%d:%s:%s" % (i, p, k)


def lcp_up(i):
    return [fr(i, "lcp", "creq_ok"), fr(i, "lcp", "cack")]


def ncp_up(i):
    return [fr(i, "ipcp", "creq_ok"), fr(i, "ipcp", "cack"), fr(i, "ip6cp", "creq_ok"), fr(i, "ip6cp", "cack")]


def prefixes():
    o = ["o:0"]
    up = o + lcp_up(0)
    pend = up + [fr(0, "chap", "resp")]
    net = pend + ["a:1:acc"]
    opn = net + ncp_up(0)
    ren = opn + [fr(0, "lcp", "creq_ok")]
    return {
        "fresh": o,
        "lcpup": up,
        "pending": pend,
        "network": net,
        "open": opn,
        "reneg": ren,                                                  # LCP left Opened after the session was open
        "pend_reneg": pend + [fr(0, "lcp", "creq_ok")],                # request outstanding when LCP went down
        "reauth": ren + [fr(0, "lcp", "cack"), fr(0, "chap", "resp")],  # second authentication outstanding
        "rejected": pend + ["a:1:rej"],
        "terminated": opn + ["x:0"],
        "static": pend + ["a:1:accip"] + ncp_up(0),
        "pap": o + [fr(0, "lcp", "cnak_pap"), fr(0, "lcp", "creq_ok"), fr(0, "lcp", "cack"), fr(0, "pap", "req")],
        # the peer refuses / rewrites the BNG's own Authentication-Protocol option, then lets LCP open
        "authzero": o + [fr(0, "lcp", "cnak_zero"), fr(0, "lcp", "creq_ok"), fr(0, "lcp", "cack")],
        "autheap": o + [fr(0, "lcp", "cnak_eap"), fr(0, "lcp", "creq_ok"), fr(0, "lcp", "cack")],
        "authrej": o + [fr(0, "lcp", "crej_all"), fr(0, "lcp", "creq_ok"), fr(0, "lcp", "cack")],
        "authzero_reneg": opn + [fr(0, "lcp", "cnak_zero"), fr(0, "lcp", "creq_ok"), fr(0, "lcp", "cack")],
    }


def alphabet(i=0):
    evs = [fr(i, p, k) for p, k in FRAMES]
    evs += ["a:%d:%s" % (k, a) for k in (0, 1, 2, 3, 99) for a in AK]
    evs += ["t:%d:%s" % (i, t) for t in ("lcp", "ipcp", "ip6cp", "chap")]
    evs += ["x:%d" % i, "d:%d" % i, "v:ok", "o:%d" % i]
    return evs


PROBES = [[fr(0, "ipcp", "creq_ok"), "t:0:ipcp", fr(0, "ip6cp", "creq_ok"), fr(0, "ip6cp", "cack"), fr(0, "ip6", "rs"), fr(0, "ip6", "dh_sol"), fr(0, "ip6", "dh_req")],
          [fr(0, "lcp", "creq_ok"), fr(0, "lcp", "cack"), fr(0, "chap", "resp"), "a:2:acc", "a:3:acc", fr(0, "ipcp", "creq_ok")],
          ["a:1:acc", "a:2:acc", fr(0, "ip6cp", "creq_ok"), "t:0:ip6cp", "x:0", "a:2:acc"]]


def gen_pppoe_raced():
    """Forced overlap R:<frame>&<answer>: the frame is processed under the session lock while the AAA answer, already
    matched to the session by its pending request id, waits for that lock.  Every frame kind x answer, from every
    situation with a request outstanding, followed by probes."""
    o = ["o:0"]
    pend = o + lcp_up(0) + [fr(0, "chap", "resp")]
    opn = pend + ["a:1:acc"] + ncp_up(0)
    situations = [
        (pend, 1),
        (opn + [fr(0, "lcp", "creq_ok"), fr(0, "lcp", "cack"), fr(0, "chap", "resp")], 2),      # re-authentication pending
        (o + [fr(0, "lcp", "cnak_pap"), fr(0, "lcp", "creq_ok"), fr(0, "lcp", "cack"), fr(0, "pap", "req")], 1),
    ]
    probe = [fr(0, "ipcp", "creq_ok"), fr(0, "ip6cp", "creq_ok"), fr(0, "lcp", "cack"), fr(0, "chap", "resp"), "a:9:acc", fr(0, "ipcp", "creq_ok")]
    cases = []
    for p, k in situations:
        for proto, kind in FRAMES:
            for a in ("acc", "accip", "rej"):
                cases.append("pppoe 2 " + " ".join(p + ["R:0:%s:%s&a:%d:%s" % (proto, kind, k, a)] + probe))
        # an answer for an unknown / the other subscriber's request while a frame is in progress
        cases.append("pppoe 2 " + " ".join(p + ["R:0:lcp:creq_ok&a:99:acc"] + probe))
    return cases


V6POOLS = [(2, 0, 16), (2, 1, 16), (2, 2, 16), (1, 1, 16), (2, 16, 0), (2, 16, 1), (2, 16, 2), (3, 16, 16),
           # both IPv6 pools small: ResolveV6 can fail altogether; since e76425b forwardDHCPv6 then does not answer
           (2, 0, 0), (2, 1, 1), (2, 1, 0), (2, 0, 1), (3, 2, 1)]


def at(i, evs):
    return [e.replace(":0:", ":%d:" % i) for e in evs]


def gen_pppoe_v6(rng, tier):
    """IPv6 profile: IA_NA pool / PD pool sizes down to 0 and 1, also both at once (when NEITHER an address nor a prefix can
    be resolved the message is not answered, e76425b).  Scripts of
    macro steps over three subscribers: full open (PADR, LCP, CHAP, answer, NCPs), DHCPv6 SOLICIT/REQUEST sequences,
    PADT / dead peer, LCP renegotiation with re-authentication, re-PADR over a live session, IPv6CP close and reopen.
    A request's ordinal depends on whether the renegotiation survives (it does not once the link-end teardown is in), so
    every answer is sent for each ordinal it may have; only the pending one is taken."""
    cases = []
    full = lambda i: ["o:%d" % i] + at(i, lcp_up(0)) + [fr(i, "chap", "resp")]
    for p4, p6, ppd in V6POOLS:
        head = "pppoe %d/%d/%d " % (p4, p6, ppd)
        # exhaustion, late resolution after a release, teardown of everything
        ev = []
        for i in range(3):
            ev += full(i) + ["a:%d:acc" % (i + 1)] + at(i, ncp_up(0)) + [fr(i, "ip6", "dh_sol")]
        ev += [fr(0, "ip6", "dh_req"), "x:0", fr(1, "ip6", "dh_sol"), fr(2, "ip6", "dh_req"), fr(1, "ip6", "dh_req"),
               fr(2, "ip6", "dh_sol"), "d:1", fr(2, "ip6", "dh_req"), "x:2"]
        cases.append(head + " ".join(ev))
        n = 60 if tier == "quick" else 700
        for _ in range(n):
            lo = hi = 0
            opened = [False] * 3
            ev = []
            for _ in range(rng.randint(3, 9)):
                i = rng.randrange(3)
                r = rng.random()
                # a new PADR over a live session only when ResolveV6 cannot fail altogether: the superseded incarnation is
                # outside the model, and an UNANSWERED message of the new one still records the DUID, so its teardown
                # releases the provider lease the superseded incarnation left under that DUID (notes/C03.md, limits)
                if not opened[i] or (r < 0.08 and not (p6 <= 2 and ppd <= 2)):
                    ev += full(i)
                    lo, hi = lo + 1, hi + 1
                    kind = rng.choice(["acc"] * 7 + ["accip", "rej", "err"])
                    ev += ["a:%d:%s" % (k, kind) for k in range(lo, hi + 1)]
                    if kind in ("acc", "accip"):
                        ev += at(i, ncp_up(0)) if rng.random() < 0.8 else at(i, ncp_up(0)[2:])
                        opened[i] = True
                    else:
                        opened[i] = False
                elif r < 0.50:
                    ev += [fr(i, "ip6", k) for k in rng.choice([["dh_sol"], ["dh_req"], ["dh_sol", "dh_req"],
                                                               ["dh_sol", "dh_sol"], ["dh_req", "dh_req"],
                                                               ["dh_sol", "dh_req", "dh_req"]])]
                elif r < 0.65:
                    ev.append(rng.choice(["x:%d", "d:%d"]) % i)
                    opened[i] = False
                elif r < 0.85:        # renegotiation and re-authentication
                    ev += at(i, lcp_up(0)) + [fr(i, "chap", "resp")]
                    hi += 1
                    kind = rng.choice(["acc"] * 6 + ["accip", "rej"])
                    ev += ["a:%d:%s" % (k, kind) for k in range(lo + 1, hi + 1)]
                    if rng.random() < 0.8:
                        ev += at(i, ncp_up(0))
                elif r < 0.93:        # IPv6CP closed by the peer and reopened
                    ev += [fr(i, "ip6cp", "treq"), fr(i, "ip6", "dh_sol"), fr(i, "ip6cp", "creq_ok"), fr(i, "ip6cp", "cack")]
                else:
                    ev.append(rng.choice(["v:ok", "t:%d:ip6cp" % i, "t:%d:lcp" % i, fr(i, "ip6", "rs")]))
            cases.append(head + " ".join(ev))
    return cases


def gen_pppoe_parked():
    """S:<event>&<answer>: the AAA answer has been matched to its session by the pending request id and is held there
    (before it asks for the session lock) while another event is handled completely: PADT, dead peer, every timer,
    frames, the other subscriber's PADT.  (Not a new PADR of the same subscriber: the superseded incarnation stays in
    the session-id index and is outside the model.)"""
    o = ["o:0"]
    pend = o + lcp_up(0) + [fr(0, "chap", "resp")]
    opn = pend + ["a:1:acc"] + ncp_up(0)
    situations = [
        (pend, 1),
        (opn + [fr(0, "lcp", "creq_ok"), fr(0, "lcp", "cack"), fr(0, "chap", "resp")], 2),      # re-authentication pending
        (o + [fr(0, "lcp", "cnak_pap"), fr(0, "lcp", "creq_ok"), fr(0, "lcp", "cack"), fr(0, "pap", "req")], 1),
        (["o:1"] + pend, 1),                                                                    # a second subscriber present
        # IPv6 address and prefix bound by DHCPv6, then re-authentication pending
        (opn + [fr(0, "ip6", "dh_req"), fr(0, "lcp", "creq_ok"), fr(0, "lcp", "cack"), fr(0, "chap", "resp")], 2),
    ]
    firsts = ["x:0", "d:0", "t:0:lcp", "t:0:chap", "t:0:ipcp", "t:0:ip6cp", "x:1", "d:1", "v:ok",
              fr(0, "lcp", "treq"), fr(0, "lcp", "creq_ok"), fr(0, "lcp", "echoreq"), fr(0, "chap", "resp"), fr(0, "ip6", "dh_req")]
    probes = [[fr(0, "ipcp", "creq_ok"), fr(0, "ip6cp", "creq_ok"), fr(0, "ip6", "dh_sol"), "x:0", "o:0"] + lcp_up(0) + [fr(0, "chap", "resp")],
              ["o:0"] + lcp_up(0) + [fr(0, "chap", "resp"), "a:2:acc", "a:3:acc", fr(0, "ipcp", "creq_ok")]]
    cases = []
    for p, k in situations:
        for e in firsts:
            for a in ("acc", "accip", "rej", "err"):
                for pr in probes:
                    cases.append("pppoe 2/2/2 " + " ".join(p + ["S:%s&a:%d:%s" % (e, k, a)] + pr))
    return cases


def gen_pppoe_sbfail():
    """v:fail — the dataplane reports that the oldest queued session add failed (onVPPSessionCreated with an error ->
    tearDownSessionAfterVPPFailure).  From every situation with an add queued (open with pool / static address, one or
    two subscribers, before and after DHCPv6, after the session was torn down by PADT / dead peer / reject of a
    re-authentication-free close), followed by probes incl. a full re-open.  Not generated: a failure report for a
    session that was torn down AND whose addresses somebody else has taken since (see notes: /repo HEAD frees the other
    subscriber's lease there), nor after a re-PADR (superseded incarnation)."""
    def full(i, k, kind="acc"):
        return ["o:%d" % i] + at(i, lcp_up(0)) + [fr(i, "chap", "resp"), "a:%d:%s" % (k, kind)] + at(i, ncp_up(0))
    reopen = full(0, 9) + ["a:2:acc", "a:3:acc", "a:4:acc"] + at(0, ncp_up(0)) + ["v:ok", fr(0, "ip6", "dh_req")]
    probes = [[fr(0, "ipcp", "creq_ok"), fr(0, "ip6", "rs"), fr(0, "ip6", "dh_sol"), "x:0", "v:ok"], reopen,
              ["v:fail", "v:ok", fr(0, "lcp", "echoreq"), "d:0"] + reopen]
    sits = {
        "open": full(0, 1),
        "static": full(0, 1, "accip"),
        "open_dh6": full(0, 1) + [fr(0, "ip6", "dh_sol"), fr(0, "ip6", "dh_req")],
        "torn_padt": full(0, 1) + ["x:0"],
        "torn_dead": full(0, 1) + [fr(0, "ip6", "dh_req"), "d:0"],
        "torn_lcp": full(0, 1) + [fr(0, "lcp", "treq")],
        "two": full(0, 1) + full(1, 2),
        "two_first_torn": full(0, 1) + ["o:1"] + at(1, lcp_up(0)) + ["x:0"],
        "programmed": full(0, 1) + ["v:ok"],                       # nothing queued: v:fail is a no-op
    }
    cases = []
    for pools in ("2/2/2", "2/0/16", "2/16/0", "1/1/16", "2/0/0"):
        for name, p in sits.items():
            for pr in probes:
                cases.append("pppoe %s " % pools + " ".join(p + ["v:fail"] + pr))
            if name == "two":
                cases.append("pppoe %s " % pools + " ".join(p + ["v:fail", "v:fail"] + probes[0]))
                cases.append("pppoe %s " % pools + " ".join(p + ["v:ok", "v:fail", fr(1, "ip6", "dh_req"), fr(0, "ip6", "dh_req")]))
    return cases


def gen_pppoe_relate():
    """One IPv6 family is exhausted when a subscriber first solicits and available again later: the later DHCPv6 message
    resolves the missing family, the provider reserves BOTH again, and the teardown must still return the one resolved
    first (leases known to the provider only: no REPLY bound them to the session).  IA_NA and PD in both roles, the
    second message a SOLICIT or a REQUEST, teardown by PADT / dead peer / dataplane failure / LCP Terminate, then a
    third subscriber takes what must be free again."""
    def full(i, k):
        return ["o:%d" % i] + at(i, lcp_up(0)) + [fr(i, "chap", "resp"), "a:%d:acc" % k] + at(i, ncp_up(0))
    cases = []
    for pools in ("2/1/16", "2/1/1", "3/16/1", "3/2/1", "3/1/0", "3/0/1"):
        for first in ("dh_sol", "dh_req"):
            for second in (["dh_sol"], ["dh_req"], ["dh_sol", "dh_sol"], ["dh_sol", "dh_req"]):
                for end in (["x:1"], ["d:1"], ["v:fail", "v:fail"], [fr(1, "lcp", "treq")]):
                    ev = full(0, 1) + [fr(0, "ip6", first)] + full(1, 2) + [fr(1, "ip6", "dh_sol"), "x:0"] + \
                         [fr(1, "ip6", k) for k in second] + end + full(2, 3) + [fr(2, "ip6", "dh_req"), "x:2"]
                    cases.append("pppoe %s " % pools + " ".join(ev))
    return cases


def gen_pppoe(rng, tier, budget):
    cases = gen_pppoe_raced() + gen_pppoe_parked() + gen_pppoe_sbfail() + gen_pppoe_relate() + gen_pppoe_v6(random.Random(rng.random()), tier)
    pf = prefixes()
    for name, p in pf.items():
        for e in alphabet():
            for pr in PROBES:
                cases.append("pppoe 2 " + " ".join(p + [e] + pr))
    # pool exhaustion / zero pool
    for ps in (0, 1):
        cases.append("pppoe %d " % ps + " ".join(pf["open"] + ["o:1"] + [x.replace(":0:", ":1:") for x in lcp_up(0)] +
                                                 [fr(1, "pap", "req"), "a:2:acc"] + [x.replace(":0:", ":1:") for x in ncp_up(0)] +
                                                 ["x:0", "x:1"]))
    n = budget or (2500 if tier == "quick" else 40000)
    for _ in range(n):
        ns = rng.choice([1, 1, 1, 2, 2, 3])
        ps = rng.choice([0, 1, 2, 2])
        L = rng.randint(4, 28)
        evs = []
        nreq = 0
        opened = set()
        for _ in range(L):
            i = rng.randrange(ns)
            r = rng.random()
            if i not in opened and r < 0.9:
                evs.append("o:%d" % i)
                opened.add(i)
                if rng.random() < 0.7:
                    evs += lcp_up(i)
                continue
            if r < 0.12:
                evs += lcp_up(i)
            elif r < 0.24:
                evs.append(fr(i, "chap", "resp") if rng.random() < 0.6 else fr(i, "pap", "req"))
                nreq += 1
            elif r < 0.42:
                ks = [nreq, nreq, nreq, max(1, nreq - 1), nreq + 1, 99, rng.randint(1, max(1, nreq))]
                if ns == 1:
                    ks.append(0)
                k = rng.choice(ks)
                if k <= 0 and ns > 1:
                    k = 99          # the empty id matches an arbitrary idle session (Go map order): single-subscriber cases only
                evs.append("a:%d:%s" % (max(0, k), rng.choice(["acc", "acc", "acc", "accip", "rej", "err"])))
            elif r < 0.52:
                evs += rng.sample(ncp_up(i), rng.randint(1, 4)) if rng.random() < 0.4 else ncp_up(i)
            elif r < 0.60:
                evs.append("t:%d:%s" % (i, rng.choice(["lcp", "ipcp", "ip6cp", "chap"])))
            elif r < 0.64:
                evs.append(rng.choice(["x:%d" % i, "d:%d" % i, "v:ok", "v:ok", "o:%d" % i]))
            else:
                p, k = rng.choice(FRAMES)
                evs.append(fr(i, p, k))
        cases.append("pppoe %d " % ps + " ".join(evs))
    return cases


# ------------------------------------------------------------------ ipoe
IEV = ["D", "R", "S", "Q", "N", "X"]


def ipoe_alphabet(i=0):
    evs = ["%s:%d" % (e, i) for e in IEV] + ["L:%d:ok" % i, "L:%d:bad" % i]
    evs += ["Y:%d:%s" % (i, k) for k in ("offer", "ack", "nak")]
    evs += ["a:%d:%s:%s" % (i, r, k) for r in ("cur", "old", "unk") for k in ("acc", "rej", "err")]
    evs += ["v:ok", "v:fail"]
    return evs


def ipoe_prefixes():
    return {
        "none": [],
        "pending_d": ["D:0"],
        "pending_r": ["R:0"],
        "pending_s": ["S:0"],
        "pending_all": ["D:0", "R:0", "S:0", "Q:0"],
        "approved": ["D:0", "a:0:cur:acc"],
        "approved_late": ["D:0", "a:0:cur:acc", "D:0", "R:0", "S:0", "Q:0"],
        "created": ["D:0", "a:0:cur:acc", "v:ok"],
        "bound4": ["D:0", "a:0:cur:acc", "v:ok", "R:0"],
        "bound46": ["D:0", "a:0:cur:acc", "v:ok", "R:0", "S:0", "Q:0"],
        "bound6": ["S:0", "a:0:cur:acc", "v:ok", "Q:0"],
        "rejected": ["D:0", "a:0:cur:rej"],
        "second": ["D:0", "a:0:cur:rej", "D:0"],
        "released": ["D:0", "a:0:cur:acc", "v:ok", "R:0", "L:0:ok"],
        "addfail": ["D:0", "a:0:cur:acc", "v:fail"],
    }


IPROBES = [["D:0", "R:0"], ["S:0", "Q:0", "v:ok", "D:0"], ["a:0:cur:acc", "v:ok", "D:0", "R:0", "L:0:ok", "X:0"]]


def gen_ipoe(rng, tier, budget):
    cases = []
    for name, p in ipoe_prefixes().items():
        for e in ipoe_alphabet():
            for pr in IPROBES:
                cases.append("ipoe 2 16 " + " ".join(p + [e] + pr))
            for e2 in ipoe_alphabet():
                cases.append("ipoe 2 16 " + " ".join(p + [e, e2, "D:0", "R:0"]))
    n = (budget or 2500) if tier == "quick" else (budget or 40000)
    for _ in range(n):
        ns = rng.choice([1, 1, 2, 2, 3])
        p4 = rng.choice([1, 2, 2, 3])
        L = rng.randint(3, 26)
        evs = []
        for _ in range(L):
            i = rng.randrange(ns)
            r = rng.random()
            if r < 0.45:
                evs.append("%s:%d" % (rng.choice(["D", "D", "R", "R", "S", "Q", "N", "X"]), i))
            elif r < 0.52:
                evs.append("L:%d:%s" % (i, rng.choice(["ok", "ok", "bad"])))
            elif r < 0.80:
                evs.append("a:%d:%s:%s" % (i, rng.choice(["cur"] * 6 + ["old", "unk"]), rng.choice(["acc"] * 4 + ["rej", "err"])))
            elif r < 0.95:
                evs.append(rng.choice(["v:ok"] * 5 + ["v:fail"]))
            else:
                evs.append("Y:%d:%s" % (i, rng.choice(["offer", "ack", "nak"])))
        # IA_NA pool of 0 / 1 / 2 addresses in a quarter of the walks (the PD pool stays large: ResolveV6 then resolves
        # a prefix only and the provider answers nothing for the address, d5fadd1)
        p6 = rng.choice([16, 16, 16, 16, 16, 16, 0, 1, 2]) if ns > 1 or rng.random() < 0.5 else 16
        cases.append("ipoe %d %d " % (p4, p6) + " ".join(evs))
    # IPv6 pool exhaustion, systematically: every prefix x v6 events with 0 and 1 addresses, two subscribers
    for p6 in (0, 1):
        for name, p in ipoe_prefixes().items():
            for tail in (["S:0", "Q:0", "S:1", "a:1:cur:acc", "v:ok", "v:ok", "Q:1", "X:0", "Q:1", "S:1"],
                         ["S:1", "a:1:cur:acc", "v:ok", "Q:1", "S:0", "Q:0", "X:1", "S:0", "Q:0", "N:0"]):
                cases.append("ipoe 2 %d " % p6 + " ".join(p + tail))
    return cases


def gen_ipoec():
    """Forced overlap: P:<e1>&<e2> runs e2 while e1 is held in the middle of handleAAAResponse (inside the
    dataplane add).  Every pair of answers for one session x what is pending x what follows."""
    cases = []
    ans = ["a:0:cur:acc", "a:0:cur:rej", "a:0:cur:err"]
    # no mixed v4+v6 pending here: the two goroutines the accept starts then race on the shared allocator context
    # (handleAck reads AllocCtx.AllocatedIANAPool while ResolveV6 writes it) and the race detector fails the test on
    # the unchanged tree — recorded in notes/C03.md, not a C03 property
    pend = [["D:0"], ["R:0"], ["D:0", "R:0"], ["S:0", "Q:0"], ["S:0"]]
    tails = [["v:ok", "D:0", "R:0", "L:0:ok"], ["D:0", "v:ok", "R:0", "S:0", "Q:0"], ["v:fail", "D:0", "R:0"]]
    for p in pend:
        for a in ans:
            for b in ans:
                for t in tails:
                    cases.append("ipoec 2 16 " + " ".join(p + ["P:%s&%s" % (a, b)] + t))
        # while the accept is held: traffic and answers of ANOTHER subscriber.  (Client packets of the same
        # subscriber overlapping its accept are handled twice / after a release by the held handler on the
        # unchanged tree - handler atomicity the model assumes does not hold there; see notes/C03.md.)
        for b in ["D:1", "R:1", "a:1:cur:acc", "a:1:cur:rej"]:
            cases.append("ipoec 2 16 " + " ".join(p + ["D:1", "P:a:0:cur:acc&%s" % b, "v:ok", "v:ok", "D:0", "R:0", "D:1"]))
    return cases


def gen_radius():
    # the whole decision table, twice (the second pass runs on warmed-up connections and dead-server bookkeeping)
    tbl = ["radius %d %s %s" % (fb, srv, at) for fb in (0, 1) for srv in ("accept", "reject", "other", "none")
           for at in ("ipoe", "pppoe", "l2tp")]
    return tbl + tbl[::-1]


KINDS_I = ["c"] + ["m%d" % k for k in range(6)]
KINDS_P = ["c", "s"] + ["m%d" % k for k in range(6)]


def gen_identity():
    """Another subscriber whose identity differs from the slot's in exactly ONE key component (C-VLAN, S-VLAN, each MAC
    byte).  IPoE `A:<i>:<kind>:<d|r|s|q>`: its DISCOVER / REQUEST / SOLICIT / REQUEST6 while the slot's session is pending,
    approved, created, bound or rejected must get a pending session and an AAA request of its own, never an answer.
    PPPoE `g:<i>:<kind>:<proto>:<frame>` / `y:<i>:<kind>`: a frame / PADT carrying the slot's PPPoE session id from that other
    identity changes nothing, in every phase."""
    cases = []
    ip = ipoe_prefixes()
    for name in ("pending_d", "approved", "created", "bound4", "bound46", "rejected", "released"):
        for k in KINDS_I:
            for msg in ("d", "r", "s", "q"):
                cases.append("ipoe 2 16 " + " ".join(ip[name] + ["A:0:%s:%s" % (k, msg), "A:0:%s:%s" % (k, "r" if msg in "sq" else "s"),
                                                                "D:0", "R:0", "S:0"]))
    pf = prefixes()
    frames = [("lcp", "treq"), ("lcp", "creq_ok"), ("ipcp", "creq_ok"), ("ip6cp", "creq_ok"), ("chap", "resp"), ("ip6", "dh_req"), ("lcp", "echoreq")]
    for name in ("lcpup", "pending", "network", "open"):
        for k in KINDS_P:
            for proto, kind in frames:
                cases.append("pppoe 2 " + " ".join(pf[name] + ["g:0:%s:%s:%s" % (k, proto, kind), fr(0, "ipcp", "creq_ok"), fr(0, "ip6", "rs")]))
            cases.append("pppoe 2 " + " ".join(pf[name] + ["y:0:%s" % k, fr(0, "ipcp", "creq_ok"), fr(0, "lcp", "echoreq"), "x:0"]))
    return cases


def gen_ipoer():
    """ipoer: the access group's DHCPv4 profile is in relay mode; Y:<i>:offer|ack|nak is a DHCP server's message arriving
    with the session's transaction id.  Pending (never answered), rejected, failed, approved, approved-and-created
    sessions x every server message x follow-ups; the other subscriber's pending session while one is approved."""
    sits = {"pending": ["D:0"], "pending_r": ["R:0"], "rejected": ["D:0", "a:0:cur:rej"], "failed": ["D:0", "a:0:cur:err"],
            "approved": ["D:0", "a:0:cur:acc"], "created": ["D:0", "a:0:cur:acc", "v:ok"],
            "other_pending": ["D:0", "a:0:cur:acc", "v:ok", "D:1"]}
    cases = []
    for name, p in sits.items():
        for y in ("offer", "ack", "nak"):
            for who in ((0, 1) if name == "other_pending" else (0,)):
                for tail in ([], ["a:%d:cur:acc" % who, "v:ok"], ["a:%d:cur:rej" % who, "Y:%d:ack" % who]):
                    cases.append("ipoer 2 16 " + " ".join(p + ["Y:%d:%s" % (who, y)] + tail))
    return cases


def gen_cases(rng, tier, budget):
    return gen_pppoe(rng, tier, budget) + gen_ipoe(rng, tier, budget) + gen_ipoec() + gen_ipoer() + gen_identity() + gen_radius()


# ------------------------------------------------------------------ verdict helpers
def steps(line):
    st = line.split(" ; ")
    return st[1:] if st and st[0].startswith("fsm=") else st


def nontrivial(case, out):
    t = case.split()
    if t[0] == "radius":
        return True
    if t[0] == "pppoe":
        return any(e.startswith("a:") for e in t[2:]) and ("I2" in out or "V2" in out or "|lA" in out)
    if t[0] in ("ipoe", "ipoec", "ipoer"):
        return any("a:" in e for e in t[3:]) and ("OFFER" in out or "ACK" in out or "ADV" in out or "f1" in out)
    return True


def events(case):
    t = case.split()
    return t[3:] if t[0] in ("ipoe", "ipoec", "ipoer") else t[2:]


def first_div(a, b):
    sa, sb = steps(a), steps(b)
    for k in range(min(len(sa), len(sb))):
        if sa[k] != sb[k]:
            return k
    return min(len(sa), len(sb))


def classify(case, impl, model):
    if case.startswith("radius"):
        if " allow " in impl and " allow " not in model:
            return "P", "AAA verdict Allowed=true without an Access-Accept for a resolved username: impl=%r model=%r" % (impl, model)
        return "G", "radius/aaa verdict differs: impl=%r model=%r" % (impl, model)
    if "MON:VIOLATION" in impl:
        k = first_div(impl, model)
        ev = events(case)
        return "P", ("service output for a subscriber whose current attempt has no AAA accept (monitor on the implementation's "
                     "own trace: %s); first difference from the model at step %d (%s): impl=%r model=%r" %
                     (impl.rsplit("MON:", 1)[-1], k, ev[k] if k < len(ev) else "end",
                      steps(impl)[k] if k < len(steps(impl)) else "", steps(model)[k] if k < len(steps(model)) else ""))
    if impl.startswith("panic") or " panic:" in impl or impl == "hang":
        return "P", "handler crashed or hung: %r" % impl[-200:]
    k = first_div(impl, model)
    ev = events(case)
    return "G", "step %d (%s): impl=%r model=%r" % (k, ev[k] if k < len(ev) else "end",
                                                   steps(impl)[k] if k < len(steps(impl)) else "",
                                                   steps(model)[k] if k < len(steps(model)) else "")


def signature(case, impl, models):
    t = case.split()
    rep, dfc = models["repaired"], models.get("defective", models["repaired"])
    if t[0] == "ipoer":
        return "ipoe-relay-reply-to-unapproved-session" if impl == models.get("relayunapproved") else "ipoe-unexplained"
    if t[0] == "pppoe" and impl == models.get("unnamedlease"):
        return "pppoe-dhcpv6-rereserve-drops-pool-name"
    if t[0] == "pppoe" and impl == models.get("sbfailtwice"):
        k = first_div(rep, impl)
        ev = t[2:]
        if k < len(ev) and ev[k] == "v:fail":
            return "pppoe-vpp-failure-after-teardown"
        return "pppoe-unexplained"
    if t[0] == "pppoe":
        # the implementation equals one of the defect variants: classify by the first step where it leaves the
        # repaired model
        dfc = impl
    k = first_div(rep, dfc)
    if t[0] == "pppoe":
        ev = t[2:]
        if k >= len(ev):
            return "none"
        # an answer matched to a session that was torn down before the answer got the session lock is still applied
        if ev[k].startswith("S:"):
            return "pppoe-aaa-answer-after-teardown"
        # repaired ends the PPPoE session when LCP leaves Opened on an authenticated link; HEAD keeps it with its lease
        # and dataplane session while the new link is unauthenticated
        sd = steps(dfc)
        before = sd[k - 1].split("|")[1].split(",") if k > 0 else []
        after = sd[k].split("|")[1].split(",")
        for b, a in zip(before, after):
            if len(b) > 2 and len(a) > 2 and b[0] == "l" and b[1] in "NO" and b[2] == "9" and a[2] != "9":
                return "pppoe-reneg-keeps-dataplane"
        return "pppoe-unexplained"
    if t[0] == "ipoe":
        # repaired ignores an answer when no request is in flight; today's code applies it.  The effect may
        # only become visible later (a fresh allocator context), so look for such an answer up to the divergence.
        ev = t[3:]
        sd = steps(dfc)
        for j in range(min(k, len(ev) - 1) + 1):
            if ev[j].startswith("a:") and ev[j].split(":")[2] == "cur":
                i = int(ev[j].split(":")[1])
                before = sd[j - 1].split("|")[1].split(",")[i] if j > 0 else "-"
                if before.startswith("e1") and "f0" in before:
                    return "ipoe-aaa-answer-without-request"
        return "ipoe-unexplained"
    return "unexplained"


def shrink(case):
    t = case.split()
    if t[0] == "radius":
        return
    nh = 3 if t[0] in ("ipoe", "ipoec", "ipoer") else 2
    head, ev = t[:nh], t[nh:]
    for i in range(len(ev)):
        yield " ".join(head + ev[:i] + ev[i + 1:])
    if len(ev) > 6:
        yield " ".join(head + ev[:len(ev) // 2])


def distribution(cases, impl):
    d = {"pppoe_cases": 0, "events": 0, "aaa_answers": 0, "aaa_taken": 0, "frames": 0, "timers": 0,
         "reached_network": 0, "reached_open": 0, "monitor_violations": 0, "gated_ncp_frames": 0, "panics": 0}
    d.update({"ipoe_cases": 0, "ipoe_events": 0, "ipoe_aaa": 0, "ipoe_offers": 0, "ipoe_acks": 0, "ipoe_replies": 0,
              "ipoe_monitor_violations": 0, "ipoe_gated": 0})
    d["radius_cases"] = sum(1 for c in cases if c.startswith("radius"))
    d["radius_allow"] = sum(1 for c, o in zip(cases, impl) if c.startswith("radius") and o and " allow " in o)
    for c, o in zip(cases, impl):
        t = c.split()
        if t[0] == "radius":
            continue
        if t[0] == "ipoe" and o is not None:
            d["ipoe_cases"] += 1
            d["ipoe_events"] += len(t) - 3
            d["ipoe_aaa"] += sum(e.startswith("a:") for e in t[3:])
            d["ipoe_offers"] += o.count("OFFER")
            d["ipoe_acks"] += o.count("ACK")
            d["ipoe_replies"] += o.count("REPLY")
            d["ipoe_monitor_violations"] += ("MON:VIOLATION" in o)
            st = steps(o)
            d["ipoe_gated"] += sum(1 for k, e in enumerate(t[3:]) if k < len(st) and e[0] in "DRSQN" and st[k].split("|")[0] == "")
        if t[0] != "pppoe" or o is None:
            continue
        d["pppoe_cases"] += 1
        ev = t[2:]
        d["events"] += len(ev)
        d["aaa_answers"] += sum(e.startswith("a:") or "&a:" in e for e in ev)
        d["raced_pairs"] = d.get("raced_pairs", 0) + sum(e.startswith("R:") for e in ev)
        d["frames"] += sum(e.startswith("f:") for e in ev)
        d["timers"] += sum(e.startswith("t:") for e in ev)
        d["reached_network"] += ("lN" in o)
        d["reached_open"] += ("lO" in o)
        d["monitor_violations"] += ("MON:VIOLATION" in o)
        d["panics"] += ("panic" in o)
        st = steps(o)
        # audit 2 / deepen: IPv6 leases, held answers, dataplane add failures
        d["held_answer_pairs"] = d.get("held_answer_pairs", 0) + sum(e.startswith("S:") for e in ev)
        d["dh6_advertise"] = d.get("dh6_advertise", 0) + o.count("ADV6")
        d["dh6_reply"] = d.get("dh6_reply", 0) + o.count("REPLY6")
        d["prefix_routes_added"] = d.get("prefix_routes_added", 0) + o.count("sbpd+")
        d["ipv6_rebinds"] = d.get("ipv6_rebinds", 0) + o.count("sb6-")
        pools = [s.rsplit("|", 1)[-1].split("/") for s in st if s.count("|") >= 2]
        d["cases_iana_pool_exhausted"] = d.get("cases_iana_pool_exhausted", 0) + any(len(p) == 3 and p[1] == "0" for p in pools)
        d["cases_pd_pool_exhausted"] = d.get("cases_pd_pool_exhausted", 0) + any(len(p) == 3 and p[2] == "0" for p in pools)
        for k, e in enumerate(ev):
            # a DHCPv6 message of a session whose IPv6CP is Opened that gets no answer: nothing resolved (e76425b)
            if e.startswith("f:") and (e.endswith(":dh_sol") or e.endswith(":dh_req")) and 0 < k < len(st):
                i = int(e.split(":")[1])
                slots = st[k - 1].split("|")[1].split(",")
                if i < len(slots) and slots[i][:2] in ("lN", "lO") and slots[i].split(".")[2:3] == ["9"] and st[k].split("|")[0] == "":
                    d["dh6_unresolved_unanswered"] = d.get("dh6_unresolved_unanswered", 0) + 1
        for k, e in enumerate(ev):
            if e == "v:fail" and k < len(st):
                outs = st[k].split("|")[0]
                d["sbfail_events"] = d.get("sbfail_events", 0) + 1
                d["sbfail_teardowns"] = d.get("sbfail_teardowns", 0) + ("lifeR" in outs)
                before = st[k - 1].split("|")[1].split(",") if k > 0 else []
                slot = int(outs[0]) if outs[:1].isdigit() else -1
                torn = 0 <= slot < len(before) and before[slot].startswith("d")
                d["sbfail_on_torn_session"] = d.get("sbfail_on_torn_session", 0) + ("lifeR" in outs and torn)
        for k, e in enumerate(ev):
            if k < len(st) and (":ipcp:" in e or ":ip6cp:" in e) and e.startswith("f:") and st[k].split("|")[0] == "":
                d["gated_ncp_frames"] += 1
            if k < len(st) and e.startswith("a:") and st[k].split("|")[0] != "":
                d["aaa_taken"] += 1
    return d
