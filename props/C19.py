"""C19 — DHCP messages built or rewritten by the BNG are well-formed and faithful.

pkg/dhcp/{udp.go,packet.go}, pkg/dhcp/relay/{option82.go,rewrite.go,v6relay.go,v6rewrite.go},
pkg/dhcp6/{serialize.go,message.go}, plugins/dhcp4/local/provider.go
"""
import struct

ID = "C19"
HARNESSES = [
    dict(name="relay", pkg="./pkg/dhcp/relay/", test="TestVerifC19",
         files=[("pkg/dhcp/relay/zz_verif_c19_relay_test.go", "harness/C19/zz_verif_c19_relay_test.go")]),
    dict(name="dhcp", pkg="./pkg/dhcp/", test="TestVerifC19",
         files=[("pkg/dhcp/zz_verif_c19_dhcp_test.go", "harness/C19/zz_verif_c19_dhcp_test.go")]),
    dict(name="local", pkg="./plugins/dhcp4/local/", test="TestVerifC19",
         files=[("plugins/dhcp4/local/zz_verif_c19_local_test.go", "harness/C19/zz_verif_c19_local_test.go")]),
    dict(name="local6", pkg="./plugins/dhcp6/local/", test="TestVerifC19",
         files=[("plugins/dhcp6/local/zz_verif_c19_local6_test.go", "harness/C19/zz_verif_c19_local6_test.go")]),
]
# every recorded finding is fixed in /repo (KNOWN_FINDINGS.txt: nine `fixed:` lines); the check compares with the repaired model only,
# a regression to any old behaviour is a plain VIOLATION
VARIANTS = ["repaired"]
# the model driver gets the implementation's lines: it uses them ONLY to resolve the two choices the property leaves open
# (zero padding after END in server replies; refuse-or-wrap for payloads beyond the 16-bit lengths) and checks admissibility
MODEL_NEEDS_IMPL = True
RULE = ("Structured generators, bytes compared exactly with the Coq model, plus property-level observables "
        "(independent RFC 1071 verification h/u, length consistency l, zero UDP checksum z, gopacket option decode gp, "
        "getter read-back get, DHCPv6 re-parse). Frames: ip4/udp4/ip6/wrap with payload sizes {0,1,2,odd,even,~300,1472, "
        "65507/65508 boundary}, v4-mapped/16-byte/nil/odd-length addresses, payloads crafted so that the UDP checksum "
        "computes to zero; 420 targeted frames (gen_carry: ip4/udp4/wrap/ip6/pool/resolved) whose free 16-bit word (last payload word, "
        "low source-address word, low xid word) is solved so that the 32-bit sum needs the SECOND end-around-carry fold (first fold "
        "= 0x10000 / maximal / random), or lands on the folded-sum boundaries 0xFFFF, 0xFFFE, 0x0001 - for the IPv4 header "
        "checksum and every UDP checksum routine. DHCPv4 rewrite ops (o82ins keep/drop/replace, o82strip, setu32, setip, proxy, giaddr, hops) on "
        "client/server messages with option sets in random order, pads, missing END, bytes after END, truncated last "
        "option, 255-byte options, 0/1/2/3 pre-existing option 82, target option absent / present with length 4 / "
        "other length / duplicated, packets shorter than 240; leases incl. 0, 2^32/7 boundary, 0xFFFFFFFF. Reply builder "
        "(pool, resolved): 0-70 DNS servers, 0-30 classless routes, per-pool raw options up to 255 (and 256-300) bytes, "
        "nil/16-byte/mapped addresses, hw length 0/6/16/212/213. DHCPv6: ser6 (all option combinations, nil/4/16-byte "
        "addresses, extras), rf6/rr6 (relay wrap/unwrap incl. nested relay-forward), unw6 (mutated relay messages), "
        "lt6 (IA_NA/IA_PD nesting, truncated, lifetimes incl. 2^30 boundary and infinity), duid6 (same/different "
        "length, absent, duplicate). Non-trivial: every case whose implementation output is not nil/err/panic. "
        "Distinct: by case text.")
TRUSTED = ["gopacket layers.DHCPv4 as independent decoder inside the Go harness; Coq ref_walk/tlv6 as reference decoders",
           "strings.NewReplacer placeholder expansion of option-82 formats is computed by the generator (python), not modelled in Coq"]
ASSUMPTIONS = ["net.IP arguments are nil or byte strings of any length (To4/To16 modelled)",
               "ports, VLANs, hop counts are within their Go integer types"]

M32 = 1 << 32


def hx(b):
    return b.hex() if b else "-"


def unhx(t):
    return b"" if t == "-" else bytes.fromhex(t)


def route(case):
    op = case.split(" ", 1)[0]
    if op in ("ip4", "udp4", "ip6"):
        return "dhcp"
    if op in ("pool", "resolved", "resolve4"):
        return "local"
    if op in ("resp6", "solicit6"):
        return "local6"
    return "relay"


# ------------------------------------------------------------------ DHCPv4 packets
def rb(rng, n):
    return bytes(rng.randrange(256) for _ in range(n))


def ip4(rng):
    return rng.choice([bytes([10, 0, 0, 1]), bytes([192, 168, 1, 254]), bytes([255, 255, 255, 255]), bytes(4),
                       bytes([100, 64, rng.randrange(256), rng.randrange(256)]), rb(rng, 4)])


def ip4tok(rng, weird=0.15):
    r = rng.random()
    if r < weird / 3:
        return "nil"
    if r < 2 * weird / 3:
        return hx(bytes(10) + b"\xff\xff" + ip4(rng))
    if r < weird:
        return hx(rng.choice([rb(rng, 16), rb(rng, 5), rb(rng, 3), bytes(16)]))
    return hx(ip4(rng))


def header(rng, op=None):
    h = bytearray(236)
    h[0] = op if op is not None else rng.choice([1, 2])
    h[1], h[2], h[3] = 1, 6, rng.choice([0, 0, 1, 3, 254, 255])
    h[4:8] = rb(rng, 4)
    h[8:10] = rb(rng, 2)
    h[10:12] = rng.choice([b"\x00\x00", b"\x80\x00"])
    for off in (12, 16, 20, 24):
        if rng.random() < 0.5:
            h[off:off + 4] = ip4(rng)
    h[28:34] = rb(rng, 6)
    q = rng.random()
    if q < 0.2:
        h[44:44 + 8] = b"bng-test"
    elif q < 0.6:
        # every byte of the fixed header is something a rewriter must preserve: chaddr padding, sname, file, htype/hlen too
        h[34:44] = rb(rng, 10)
        h[44:108] = rb(rng, 64)
        h[108:236] = rb(rng, 128)
        if rng.random() < 0.3:
            h[1], h[2] = rng.randrange(256), rng.choice([6, 16, 0, 255])
    return bytes(h) + bytes([99, 130, 83, 99])


OPT_LEN = {53: [1], 61: [7, 2, 9], 12: [0, 1, 8, 30], 55: [1, 4, 12], 50: [4], 51: [4], 54: [4], 58: [4], 59: [4],
           1: [4], 3: [4, 8], 6: [4, 8, 12], 43: [5, 64], 60: [6, 20], 15: [3, 11], 57: [2], 77: [4], 125: [10], 224: [3]}


def opt82(rng, sub=True):
    c = rb(rng, rng.choice([1, 4, 10]))
    r = rb(rng, rng.choice([1, 6]))
    return bytes([1, len(c)]) + c + bytes([2, len(r)]) + r


def gen_items(rng, n82=None, target=None, tmode=None, big=False):
    """items: list of (code, data) and ('pad',).  n82 = number of option 82; target handling:
       tmode in absent | ok | badlen | dup | dupbad"""
    codes = [c for c in OPT_LEN if c != target]
    rng.shuffle(codes)
    items = [(c, rb(rng, rng.choice(OPT_LEN[c]))) for c in codes[:rng.randint(0, 8)]]
    if big:
        items.insert(rng.randint(0, len(items)), (rng.choice([43, 60, 224]), rb(rng, 255)))
    if n82 is None:
        n82 = rng.choice([0, 0, 1, 1, 1, 2, 2, 3])
    for _ in range(n82):
        items.insert(rng.randint(0, len(items)), (82, opt82(rng)))
    if target is not None:
        tl = {"absent": [], "ok": [4], "badlen": [rng.choice([0, 1, 2, 3, 5, 8])], "dup": [4, 4],
              "dupbad": [4, rng.choice([2, 6])]}[tmode]
        if tmode == "dupbad" and rng.random() < 0.5:
            tl.reverse()
        for l in tl:
            items.insert(rng.randint(0, len(items)), (target, rb(rng, l)))
    out = []
    for it in items:
        while rng.random() < 0.15:
            out.append(("pad",))
        out.append(it)
    return out


def enc_items(items):
    b = b""
    for it in items:
        b += b"\x00" if it == ("pad",) else bytes([it[0], len(it[1])]) + it[1]
    return b


def mk_pkt(rng, items, tail=None):
    """tail: end | noend | endpad | endjunk | trunc"""
    tail = tail or rng.choice(["end", "end", "end", "end", "endpad", "endjunk", "noend", "trunc"])
    o = enc_items(items)
    if tail == "end":
        o += b"\xff"
    elif tail == "endpad":
        o += b"\xff" + bytes(rng.randint(1, 40))
    elif tail == "endjunk":
        o += b"\xff" + rb(rng, rng.randint(1, 12))
    elif tail == "trunc":
        o += rng.choice([bytes([rng.choice([12, 82, 51, 60])]), bytes([rng.choice([60, 82, 51]), 9]) + rb(rng, rng.randint(0, 8))])
    return header(rng) + o


def walk4(pkt):
    """reference walk used by signature(): list of (code, off, len) complete options before END"""
    res, i = [], 240
    while i < len(pkt):
        c = pkt[i]
        if c == 0:
            i += 1
            continue
        if c == 255:
            break
        if i + 1 >= len(pkt) or i + 2 + pkt[i + 1] > len(pkt):
            break
        res.append((c, i, pkt[i + 1]))
        i += 2 + pkt[i + 1]
    return res


def _truncated_tail(pkt):
    """the option walk ends in a cut-off option (no END reached)"""
    i = 240
    while i < len(pkt):
        c = pkt[i]
        if c == 0:
            i += 1
            continue
        if c == 255:
            return False
        if i + 1 >= len(pkt) or i + 2 + pkt[i + 1] > len(pkt):
            return True
        i += 2 + pkt[i + 1]
    return False


SHORT_LENS = [0, 1, 3, 4, 5, 27, 28, 29, 100, 236, 239, 240, 241]


def short_pkt(rng):
    n = rng.choice(SHORT_LENS)
    return (header(rng) + rb(rng, 8))[:n]


LEASES = [0, 1, 2, 7, 8, 60, 3600, 86400, 604800, 613566756, 613566757, 613566760, 1 << 30, (1 << 31) - 1, 1 << 31,
          M32 - 2, M32 - 1]


def gen_v4_rewrite(rng, n):
    cases = []
    for k in range(n):
        r = rng.random()
        if r < 0.30:
            pol = rng.choice(["keep", "drop", "replace", "replace", "replace", "bogus"])
            pkt = short_pkt(rng) if rng.random() < 0.04 else mk_pkt(rng, gen_items(rng, big=rng.random() < 0.1))
            cases.append("o82ins %s %s %s" % (pol, hx(bytes([82, 0]) if rng.random() < 0.03 else bytes([82]) + (lambda d: bytes([len(d)]) + d)(opt82(rng))), hx(pkt)))
        elif r < 0.40:
            pkt = short_pkt(rng) if rng.random() < 0.04 else mk_pkt(rng, gen_items(rng, big=rng.random() < 0.15))
            cases.append("o82strip " + hx(pkt))
        elif r < 0.62:
            code = rng.choice([51, 54, 58, 59, 51, 54, 1, 60, 0, 255, 82])
            tmode = rng.choice(["absent", "ok", "ok", "ok", "badlen", "dup", "dupbad"])
            tgt = code if code in OPT_LEN else None
            if rng.random() < 0.04:
                pkt = short_pkt(rng)
            else:
                items = gen_items(rng, n82=rng.choice([0, 1]), target=tgt, tmode=tmode, big=rng.random() < 0.15)
                tail = None
                if tgt and tmode == "ok" and rng.random() < 0.2:  # target is the very last option, no END
                    items = [i for i in items if i[0] != tgt] + [(tgt, rb(rng, 4))]
                    tail = "noend"
                pkt = mk_pkt(rng, items, tail)
            if rng.random() < 0.5:
                cases.append("setu32 %d %d %s" % (code, rng.choice(LEASES + [rng.randrange(M32)]), hx(pkt)))
            else:
                cases.append("setip %d %s %s" % (code, ip4tok(rng), hx(pkt)))
        elif r < 0.82:
            # proxy: either structurally interesting packet with a small lease, or well-formed packet with any lease
            if rng.random() < 0.5:
                items = [(53, b"\x05")]
                present = [c for c in (54, 51, 58, 59) if rng.random() < 0.7]
                rng.shuffle(present)
                items += [(c, rb(rng, 4)) for c in present]
                items += gen_items(rng, n82=0, target=51, tmode="absent")[:4]
                items = [i for i in items]
                rng.shuffle(items)
                pkt = mk_pkt(rng, items, rng.choice(["end", "end", "endpad"]))
                lease = rng.choice(LEASES + [rng.randrange(M32)])
            else:
                tgt = rng.choice([51, 54, 58, 59])
                tmode = rng.choice(["absent", "ok", "badlen", "dup", "dupbad"])
                pkt = short_pkt(rng) if rng.random() < 0.04 else mk_pkt(rng, gen_items(rng, n82=0, target=tgt, tmode=tmode, big=rng.random() < 0.15))
                lease = rng.choice([0, 1, 60, 3600, 86400, 613566756])
            cases.append("proxy %s %d %s" % (ip4tok(rng), lease, hx(pkt)))
        elif r < 0.91:
            pkt = short_pkt(rng) if rng.random() < 0.25 else mk_pkt(rng, gen_items(rng))
            cases.append("giaddr %s %s" % (ip4tok(rng, 0.3), hx(pkt)))
        else:
            pkt = short_pkt(rng) if rng.random() < 0.25 else mk_pkt(rng, gen_items(rng))
            cases.append("hops " + hx(pkt))
    return cases


# ------------------------------------------------------------------ option 82 build
def expand(fmt, iface, sv, cv, mac, default):
    if fmt == "":
        fmt = default
    # single left-to-right pass like strings.NewReplacer (values contain no braces)
    out, i = "", 0
    reps = [("{interface}", iface), ("{svlan}", str(sv)), ("{cvlan}", str(cv)), ("{mac}", mac)]
    while i < len(fmt):
        for k, v in reps:
            if fmt.startswith(k, i):
                out += v
                i += len(k)
                break
        else:
            out += fmt[i]
            i += 1
    return out


def gen_o82build(rng, n):
    cases = []
    # the 255-byte bound of C19_option82_build, with and without the 3 flag bytes: 4 + |circuit| + |remote| (+3) around 255
    for fl in (0, 1):
        for tot in range(244, 256):
            lc = rng.choice([0, 1, tot // 2, tot - 1, tot])
            lc = min(lc, tot, 255)
            lr = min(tot - lc, 255)
            cf, rf = "c" * lc if lc else "{unknown-placeholder}"[:0] or "", "r" * lr
            cf = cf if cf else "{cvlan}"  # an empty format means "default": use a 1..5 char expansion instead
            ec = expand(cf, "e0", 1, 7, "m", "{interface}:{svlan}:{cvlan}")
            er = expand(rf, "e0", 1, 7, "m", "{mac}")
            cases.append("o82build %d %d %s %s %s %d %d %s %s %s" % (
                fl, rng.randint(0, 1), hx(cf.encode()), hx(rf.encode()), hx(b"e0"), 1, 7, hx(b"m"), hx(ec.encode()), hx(er.encode())))
    fmts = ["", "{interface}:{svlan}:{cvlan}", "{mac}", "x", "{svlan}.{cvlan}", "{interface}", "{mac}{mac}", "{unknown}", "{svlan",
            "A" * 100, "B" * 125, "C" * 126, "D" * 200, "E" * 251, "F" * 255, "G" * 256, "{interface}" * 20]
    for _ in range(n):
        cf, rf = rng.choice(fmts), rng.choice(fmts)
        iface = rng.choice(["eth0", "GigabitEthernet0/0/1.100", "x" * 60, "", "po1"])
        mac = rng.choice(["aa:bb:cc:dd:ee:ff", "0011.2233.4455", ""])
        sv, cv = rng.choice([0, 1, 100, 4094, 65535]), rng.choice([0, 7, 4094, 65535])
        ec = expand(cf, iface, sv, cv, mac, "{interface}:{svlan}:{cvlan}")
        er = expand(rf, iface, sv, cv, mac, "{mac}")
        cases.append("o82build %d %d %s %s %s %d %d %s %s %s" % (
            rng.randint(0, 1), rng.randint(0, 1), hx(cf.encode()), hx(rf.encode()), hx(iface.encode()), sv, cv,
            hx(mac.encode()), hx(ec.encode()), hx(er.encode())))
    return cases


# ------------------------------------------------------------------ frames
def csum_words(b):
    if len(b) % 2:
        b += b"\0"
    return sum(struct.unpack(">%dH" % (len(b) // 2), b))


def zero_payload4(rng, src, dst, sp, dp, n):
    """payload of even length n >= 2 whose UDP/IPv4 checksum computes to 0 (ones-complement sum == 0xFFFF)"""
    p = bytearray(rb(rng, n))
    p[-2:] = b"\0\0"
    s = csum_words(src + dst) + 17 + (8 + n) + sp + dp + (8 + n) + csum_words(bytes(p))
    while s > 0xFFFF:
        s = (s >> 16) + (s & 0xFFFF)
    need = 0xFFFF - s  # adding need makes the folded sum 0xFFFF
    p[-2:] = struct.pack(">H", need)
    return bytes(p)


def gen_frames(rng, n, tier):
    cases = []
    sizes = [0, 1, 2, 3, 7, 8, 240, 241, 300, 301, 548, 1472]
    for k in range(n):
        r = rng.random()
        sz = rng.choice(sizes + [rng.randint(0, 600)])
        pl = rb(rng, sz)
        sp, dp = rng.choice([67, 68, 546, 547, 0, 65535, rng.randrange(65536)]), rng.choice([67, 68, 546, 547, 0, 65535])
        if r < 0.30:
            if rng.random() < 0.25:
                s, d = ip4(rng), ip4(rng)
                m = rng.choice([2, 4, 240, 302])
                cases.append("ip4 %s %s %d %d %s" % (hx(s), hx(d), sp, dp, hx(zero_payload4(rng, s, d, sp, dp, m))))
            else:
                cases.append("ip4 %s %s %d %d %s" % (ip4tok(rng), ip4tok(rng), sp, dp, hx(pl)))
        elif r < 0.50:
            cases.append("udp4 %s %s %d %d %s" % (ip4tok(rng), ip4tok(rng), sp, dp, hx(pl)))
        elif r < 0.75:
            def ip6tok():
                q = rng.random()
                if q < 0.05:
                    return "nil"
                if q < 0.12:
                    return hx(ip4(rng))
                if q < 0.16:
                    return hx(rb(rng, rng.choice([5, 15, 17])))
                return hx(rng.choice([bytes.fromhex("fe80000000000000") + rb(rng, 8), rb(rng, 16), bytes(16), b"\xff" * 16,
                                      bytes.fromhex("ff020000000000000000000000010002")]))
            cases.append("ip6 %s %s %d %d %s" % (ip6tok(), ip6tok(), sp, dp, hx(pl)))
        else:
            cases.append("wrap %s %s %s" % (ip4tok(rng, 0.1), ip4tok(rng, 0.1), hx(pl)))
    # 16-bit length boundary
    big = [65507, 65508] if tier == "quick" else [65506, 65507, 65508, 65509, 65535, 65536, 70000]
    for sz in big:
        pl = rb(rng, sz)
        cases.append("ip4 0a000001 ffffffff 67 68 " + hx(pl))
        cases.append("wrap 0a000001 ffffffff " + hx(pl))
    for sz in ([65487, 65488] if tier == "quick" else [65486, 65487, 65488, 65489, 65536]):
        cases.append("ip6 %s %s 547 546 %s" % ("fe80" + "00" * 13 + "01", "fe80" + "00" * 13 + "02", hx(rb(rng, sz))))
    if tier != "quick":
        cases.append("udp4 0a000001 ffffffff 67 68 " + hx(rb(rng, 65507)))
        cases.append("udp4 0a000001 ffffffff 67 68 " + hx(rb(rng, 65508)))
    return cases


# ------------------------------------------------------------------ reply builder
def gen_reply(rng, n):
    cases = []
    masks = [bytes([255, 255, 255, 0]), bytes([255, 255, 255, 255]), bytes([255, 255, 0, 0]), bytes(4), b"\xff" * 12 + bytes(4), b""]
    for _ in range(n):
        hw = rng.choice([rb(rng, 6)] * 8 + [b"", rb(rng, 16), rb(rng, 1), rb(rng, 17), rb(rng, 208), rb(rng, 210), rb(rng, 212), rb(rng, 213)])
        over = rng.random() < 0.06
        nd = rng.choice([0, 1, 2, 2, 3, 63]) if not over else rng.choice([64, 65, 70])
        dns = [ip4tok(rng, 0.08) for _ in range(nd)]
        if over:
            dns = [hx(ip4(rng)) for _ in range(nd)]
        extra = []
        for _ in range(rng.choice([0, 0, 1, 2, 4])):
            tag = rng.choice([42, 43, 60, 66, 67, 150, 224, 254, 12, 15])
            l = rng.choice([0, 1, 4, 17, 64, 254, 255])
            extra.append("%d,%s" % (tag, hx(rb(rng, l))))
        if rng.random() < 0.03 and not over:
            extra.append("%d,%s" % (43, hx(rb(rng, rng.choice([256, 257, 300, 511, 512])))))
        if rng.random() < 0.08:   # raw option colliding with one the server emits itself (config validation denies these)
            extra.insert(rng.randint(0, len(extra)), "%d,%s" % (rng.choice([53, 54, 51, 1, 3, 6, 121, 82, 0, 255]), hx(rb(rng, rng.choice([1, 4, 8])))))
        if rng.random() < 0.05 and extra:   # the same raw tag twice
            extra.append(extra[0])
        xid = rng.choice([0, 1, M32 - 1, rng.randrange(M32)])
        ci = rng.choice(["nil", "nil", hx(bytes(4)), ip4tok(rng)])
        mt = rng.choice([2, 5, 6])
        lease = rng.choice(LEASES)
        if rng.random() < 0.45:
            cases.append(" ".join(["pool", str(xid), ci, hx(hw), str(mt), ip4tok(rng, 0.1), ip4tok(rng, 0.1), hx(rng.choice(masks)),
                                   str(lease), str(nd)] + dns + [str(len(extra))] + extra))
        else:
            nr = rng.choice([0, 0, 1, 1, 2, 5, 28]) if not (over and nd == 0) else 0
            if rng.random() < 0.02 and not over:
                nr = rng.choice([29, 30, 40])
            routes = []
            for _ in range(nr):
                ones = rng.choice([0, 1, 7, 8, 9, 16, 24, 25, 31, 32]) if nr < 28 else 32
                dst = hx(ip4(rng))
                if nr < 28 and rng.random() < 0.12:   # non-IPv4 / mapped / nil destinations, prefix beyond 32
                    dst = rng.choice(["nil", hx(rb(rng, 16)), hx(bytes(10) + b"\xff\xff" + ip4(rng)), hx(rb(rng, 5)), hx(bytes(16))])
                    ones = rng.choice([0, 0, 8, 1, 32, 33, 40, 128])
                routes.append("%d,%s,%s" % (ones, dst, ip4tok(rng, 0.05)))
            router = rng.choice(["nil", ip4tok(rng, 0.05), ip4tok(rng, 0.05)])
            sid = rng.choice(["nil", ip4tok(rng, 0.05), ip4tok(rng, 0.05)])
            cases.append(" ".join(["resolved", str(xid), ci, hx(hw), str(mt), ip4tok(rng, 0.1), router, sid, hx(rng.choice(masks)),
                                   str(lease), str(nd)] + dns + [str(nr)] + routes + [str(len(extra))] + extra))
    return cases


# ------------------------------------------------------------------ DHCPv6
def o6(code, data):
    return struct.pack(">HH", code, len(data) & 0xFFFF) + data


def ip6b(rng):
    return rng.choice([bytes.fromhex("20010db8") + rb(rng, 12), rb(rng, 16), bytes(16), bytes.fromhex("fe80000000000000") + rb(rng, 8)])


def ip6tok2(rng, weird=0.12):
    r = rng.random()
    if r < weird / 3:
        return "nil"
    if r < 2 * weird / 3:
        return hx(ip4(rng))
    if r < weird:
        return hx(rb(rng, rng.choice([5, 15, 17])))
    return hx(ip6b(rng))


U32S = [0, 1, 2, 5, 3600, 86400, (1 << 30) - 1, 1 << 30, (1 << 30) + 1, 1 << 31, M32 - 2, M32 - 1]


def u32(rng):
    return rng.choice(U32S + [rng.randrange(M32)])


def gen_msg6(rng, nested_ok=True):
    """a DHCPv6 client/server message with IA options; sometimes damaged"""
    ty = rng.choice([1, 2, 3, 5, 7, 7, 7, 11])
    b = bytes([ty]) + rb(rng, 3)
    opts = []
    if rng.random() < 0.9:
        opts.append(o6(1, rb(rng, rng.choice([10, 14, 0, 3]))))
    nsid = rng.choice([0, 1, 1, 1, 2])
    for _ in range(nsid):
        opts.append(o6(2, rb(rng, rng.choice([14, 10, 0, 1, 18]))))
    for _ in range(rng.choice([0, 1, 1, 2])):
        sub = b""
        for _ in range(rng.choice([0, 1, 1, 2])):
            sub += o6(5, ip6b(rng) + struct.pack(">II", u32(rng), u32(rng)) + (o6(13, b"\0\0ok") if rng.random() < 0.2 else b""))
        if rng.random() < 0.1:
            sub += o6(5, rb(rng, rng.choice([0, 16, 23])))
        if rng.random() < 0.1:
            sub += o6(13, b"\0\2none")
        if rng.random() < 0.06:
            sub += o6(4, rb(rng, 4) + o6(5, ip6b(rng) + rb(rng, 8)))   # IA_TA nested in IA_NA: untouched
        body = rb(rng, 4) + struct.pack(">II", u32(rng), u32(rng)) + sub
        if rng.random() < 0.06:
            body = body[:rng.choice([0, 4, 11])]
        opts.append(o6(3, body))
    for _ in range(rng.choice([0, 0, 1, 2])):
        sub = b""
        for _ in range(rng.choice([0, 1, 1, 2])):
            sub += o6(26, struct.pack(">II", u32(rng), u32(rng)) + bytes([rng.choice([48, 56, 60, 64])]) + ip6b(rng))
        if rng.random() < 0.1:
            sub += o6(26, rb(rng, rng.choice([0, 7, 8, 24])))
        if nested_ok and rng.random() < 0.08:
            sub += o6(3, rb(rng, 12) + o6(5, ip6b(rng) + rb(rng, 8)))
        body = rb(rng, 4) + struct.pack(">II", u32(rng), u32(rng)) + sub
        opts.append(o6(25, body))
    if rng.random() < 0.4:
        opts.append(o6(23, b"".join(ip6b(rng) for _ in range(rng.choice([1, 2])))))
    if rng.random() < 0.15:
        opts.append(o6(5, ip6b(rng) + rb(rng, 8)))  # stray top-level IAADDR
    if rng.random() < 0.10:
        opts.append(o6(26, rb(rng, 8) + bytes([64]) + ip6b(rng)))  # stray top-level IAPREFIX
    if rng.random() < 0.45:
        # IA_TA (code 4): IAID(4) + IA options, NO T1/T2 - must pass through byte-identical, as must every other option
        # whose code is adjacent to the rewritten ones or whose payload merely looks like an IA
        iaaddr = o6(5, ip6b(rng) + struct.pack(">II", u32(rng), u32(rng)))
        ta_body = rb(rng, 4) + iaaddr * rng.choice([0, 1, 1, 2]) + (o6(13, b"\0\0") if rng.random() < 0.3 else b"")
        ia_like = rb(rng, 4) + struct.pack(">II", u32(rng), u32(rng)) + iaaddr
        code = rng.choice([4, 4, 4, 4, 4, 4, 4, 4, 2, 6, 24, 27, 40, 0, 65535, 259, 793, 6403])   # 259=0x0103, 793=0x0319, 6403=0x1903
        body = ta_body if code == 4 and rng.random() < 0.8 else rng.choice([ia_like, ta_body, ia_like[:12], ia_like[:11], rb(rng, 40)])
        if code == 2 and any(x[:2] == b"\0\2" for x in opts):
            code = 4
        opts.append(o6(code, body))
    if rng.random() < 0.15:
        opts.append(o6(14, b""))
    rng.shuffle(opts)
    b += b"".join(opts)
    q = rng.random()
    if q < 0.06:
        b = b[:rng.randint(0, len(b))]
    elif q < 0.10:
        b += rb(rng, rng.choice([1, 2, 3, 5]))
    return b


def gen_pseq6(rng):
    """the DHCPv6 proxy's two-message sequence: ADVERTISE/REPLY inside a relay-reply, then the client's REQUEST"""
    ln = rng.choice([14, 14, 14, 10, 18])
    sd = rb(rng, ln)                                  # the real server's DUID
    pd = rb(rng, rng.choice([14, 14, ln, 10]))        # the proxy's own DUID (same length: in-place rewrite path)
    cid = o6(1, rb(rng, 14))
    ia = o6(3, rb(rng, 4) + struct.pack(">II", u32(rng), u32(rng)) + o6(5, ip6b(rng) + struct.pack(">II", u32(rng), u32(rng))))
    ta = o6(4, rb(rng, 4) + o6(5, ip6b(rng) + struct.pack(">II", u32(rng), u32(rng))))
    opts = [cid, ia] + ([o6(2, sd)] if rng.random() < 0.93 else []) + ([o6(23, ip6b(rng))] if rng.random() < 0.3 else []) + ([ta] if rng.random() < 0.5 else [])
    rng.shuffle(opts)
    adv = bytes([rng.choice([2, 7])]) + rb(rng, 3) + b"".join(opts)
    raw = bytes([13, 0]) + ip6b(rng) + ip6b(rng) + (o6(18, b"if0") if rng.random() < 0.5 else b"") + o6(9, adv)
    # the REQUEST carries the Server-ID the client saw: the proxy's
    ropts = [cid, ia] + ([o6(2, pd)] if rng.random() < 0.9 else [])
    rng.shuffle(ropts)
    req = bytes([rng.choice([3, 5, 6])]) + rb(rng, 3) + b"".join(ropts)
    return "pseq6 %s %d %d %s %s" % (hx(pd), u32(rng), u32(rng), hx(raw), hx(req))


def gen_v6(rng, n):
    cases = []
    for _ in range(n):
        r = rng.random()
        if r < 0.30:
            na = "nil" if rng.random() < 0.3 else ",".join([str(u32(rng)), str(u32(rng)), str(u32(rng)), ip6tok2(rng), str(u32(rng)), str(u32(rng))])
            pd = "nil" if rng.random() < 0.4 else ",".join([str(u32(rng)), str(u32(rng)), str(u32(rng)), str(rng.choice([0, 48, 56, 64, 128, 255])),
                                                             ip6tok2(rng), str(u32(rng)), str(u32(rng))])
            nd = rng.choice([0, 0, 1, 2, 3])
            dns = [ip6tok2(rng, 0.1) for _ in range(nd)]
            st = "nil" if rng.random() < 0.6 else "%d,%s" % (rng.choice([0, 2, 6, 65535]), hx(rng.choice([b"", b"no addresses", rb(rng, 5)])))
            ex = []
            for _ in range(rng.choice([0, 0, 1, 2, 3])):
                code = rng.choice([24, 31, 56, 82, 17, 65535, 14, 7])
                ex.append("%d,%s" % (code, hx(rb(rng, rng.choice([0, 1, 4, 16, 40])))))
            if rng.random() < 0.04:  # extras colliding with options Serialize emits itself
                ex.append("%d,%s" % (rng.choice([1, 2, 3, 13, 23, 25]), hx(rb(rng, rng.choice([0, 2, 12, 16, 40])))))
            cases.append(" ".join(["ser6", str(rng.choice([2, 7, 7, 13, 255])), hx(rb(rng, 3)),
                                   hx(rb(rng, rng.choice([14, 10, 0, 1, 130]))), hx(rb(rng, rng.choice([14, 10, 0, 18]))),
                                   na, pd, str(nd)] + dns + [st, str(len(ex))] + ex))
        elif r < 0.48:
            msg = gen_msg6(rng)
            if rng.random() < 0.12:  # nested relay-forward
                msg = bytes([12, 1]) + ip6b(rng) + ip6b(rng) + o6(18, rb(rng, 4)) + o6(9, gen_msg6(rng))
            if rng.random() < 0.05:
                msg = rng.choice([b"", b"\x01", b"\x01\x02\x03", b"\x0c"])
            cases.append("rf6 %d %s %s %s %s %d %s %s" % (
                rng.choice([0, 1, 31, 255]), ip6tok2(rng), ip6tok2(rng), hx(rb(rng, rng.choice([0, 0, 1, 4, 20]))),
                hx(rb(rng, rng.choice([0, 0, 1, 4, 5, 12]))), u32(rng), hx(rb(rng, rng.choice([0, 0, 3, 16]))), hx(msg)))
        elif r < 0.60:
            inner = gen_msg6(rng)
            if rng.random() < 0.1:
                inner = rng.choice([b"", b"\x07", b"\x07\x01\x02", bytes([13, 0]) + bytes(32) + o6(9, gen_msg6(rng))])
            cases.append("rr6 %d %s %s %s %s" % (rng.choice([0, 1, 255]), ip6tok2(rng), ip6tok2(rng),
                                                 hx(rb(rng, rng.choice([0, 0, 4, 9]))), hx(inner)))
        elif r < 0.70:
            ty = rng.choice([12, 13, 13, 13, 7])
            b = bytes([ty, rng.choice([0, 1])]) + ip6b(rng) + ip6b(rng)
            opts = [o6(18, rb(rng, 4))] if rng.random() < 0.5 else []
            if rng.random() < 0.3:
                opts.append(o6(37, rb(rng, rng.choice([0, 3, 4, 5, 12]))))
            if rng.random() < 0.85:
                opts.append(o6(9, gen_msg6(rng)))
            if rng.random() < 0.2:
                opts.append(o6(9, gen_msg6(rng)))
            rng.shuffle(opts)
            b += b"".join(opts)
            if rng.random() < 0.2:
                b = b[:rng.randint(0, len(b))]
            cases.append("unw6 " + hx(b))
        elif r < 0.87:
            pref = rng.choice(U32S + [rng.randrange(M32)])
            cases.append("lt6 %d %d %s" % (pref, u32(rng), hx(gen_msg6(rng))))
        elif r < 0.95:
            msg = gen_msg6(rng)
            cases.append("duid6 %s %s" % (hx(rb(rng, rng.choice([14, 10, 0, 1, 18, 14, 14]))), hx(msg)))
        else:
            cases.append(gen_pseq6(rng))
    return cases



# ------------------------------------------------------------------ targeted: double end-around carry, zero boundary
# C19_ones_complement: the 32-bit sum S needs a SECOND fold exactly when (S >> 16) + (S & 0xFFFF) >= 0x10000.
# Random payloads hit that about once in 6000 frames; these generators solve for one free 16-bit word so that
# every case does (and, separately, so that the folded sum sits on the 0xFFFF / 0xFFFE / 0x0001 boundaries).
def _solve_word(rng, s0, mode):
    """s0 = 32-bit sum with the free word = 0 (must be >= 0x10000 for the carry modes).
       Returns the value of the free word."""
    high = s0 >> 16
    lo = s0 & 0xFFFF
    if mode == "carry_min":      # first fold gives exactly 0x10000
        t = (0x10000 - high) & 0xFFFF
    elif mode == "carry_max":    # first fold as large as possible
        t = 0xFFFF
    elif mode == "carry_rnd":
        t = 0xFFFF - rng.randrange(0, max(1, high))
    elif mode == "below":        # one below the double carry: first fold gives 0xFFFF -> checksum 0 boundary
        t = (0xFFFF - high) & 0xFFFF
    elif mode == "fffe":         # folded sum 0xFFFE -> checksum 1
        t = (0xFFFE - high) & 0xFFFF
    else:                        # "one": folded sum 0x0001 -> checksum 0xFFFE (needs a wrap of the low half)
        t = (0x10001 - high) & 0xFFFF if high >= 1 else 1
    return (t - lo) & 0xFFFF


CARRY_MODES = ["carry_min", "carry_max", "carry_rnd", "carry_rnd", "carry_min", "below", "fffe", "one"]


def _heavy_payload(rng, n):
    """even length n >= 2, last word free (zero), many 0xFFFF words so that the high half is > 0"""
    q = rng.random()
    if q < 0.4:
        b = bytearray(b"\xff" * n)
    elif q < 0.7:
        b = bytearray(rb(rng, n))
        for i in range(0, n - 2, 2):
            if rng.random() < 0.5:
                b[i:i + 2] = b"\xff\xff"
    else:
        b = bytearray(rb(rng, n))
    b[-2:] = b"\0\0"
    return b


def _finish(rng, base, pl, mode):
    s0 = base + csum_words(bytes(pl))
    if s0 < 0x10000 and mode != "one":
        pl[0:2] = b"\xff\xff"
        pl[2:4] = b"\xff\xff" if len(pl) >= 6 else pl[2:4]
        s0 = base + csum_words(bytes(pl))
    w = _solve_word(rng, s0, mode)
    pl[-2:] = struct.pack(">H", w)
    return bytes(pl)


def _hdr_src(rng, total, dst, mode):
    """source address whose low word makes the IPv4 HEADER sum take the wanted fold path"""
    hi = rng.choice([0xFFFF, 0xFFFE, 0xC0A8, 0x6440, rng.randrange(65536)])
    s0 = 0x4500 + (total & 0xFFFF) + 0x4011 + hi + csum_words(dst)
    if s0 < 0x10000:
        hi = 0xFFFF
        s0 = 0x4500 + (total & 0xFFFF) + 0x4011 + hi + csum_words(dst)
    return struct.pack(">HH", hi, _solve_word(rng, s0, mode))


def reply_payload(xid, ci, yi, gw, hw, mt, opts):
    """python transcription of the DHCPv4 reply layout for plain parameters (used only to aim the generator)"""
    b = bytes([2, 1, 6, 0]) + struct.pack(">I", xid) + bytes(4) + ci + yi + gw + bytes(4)
    b += (hw + bytes(208))[:208] + bytes([99, 130, 83, 99]) + bytes([53, 1, mt])
    for c, d in opts:
        b += bytes([c, len(d)]) + d
    return b + b"\xff"


def gen_carry(rng, n):
    cases = []
    bc = b"\xff" * 4
    for k in range(n):
        mode = CARRY_MODES[k % len(CARRY_MODES)]
        which = k % 7
        sz = rng.choice([2, 4, 6, 8, 16, 64, 240, 300, 302, 548, 1472])
        sp, dp = rng.choice([67, 68, 0, 65535, rng.randrange(65536)]), rng.choice([67, 68, 546, 65535])
        dst = rng.choice([bc, bc, ip4(rng)])
        if which in (0, 1, 2):
            # UDP checksum of BuildIPv4UDPFrame / BuildUDPPacket / WrapIPUDP; header checksum aimed too on odd rounds
            ulen = 8 + sz
            hmode = CARRY_MODES[(k // 7) % len(CARRY_MODES)]
            src = _hdr_src(rng, 20 + ulen, dst, hmode) if (k // 7) % 2 else ip4(rng)
            if which == 2:
                sp, dp = 67, 68
            base = csum_words(src + dst) + 17 + ulen + sp + dp + ulen
            pl = _finish(rng, base, _heavy_payload(rng, sz), mode)
            if which == 0:
                cases.append("ip4 %s %s %d %d %s" % (hx(src), hx(dst), sp, dp, hx(pl)))
            elif which == 1:
                cases.append("udp4 %s %s %d %d %s" % (hx(src), hx(dst), sp, dp, hx(pl)))
            else:
                cases.append("wrap %s %s %s" % (hx(src), hx(dst), hx(pl)))
        elif which == 3:
            s16 = rng.choice([b"\xff" * 16, bytes.fromhex("fe80000000000000") + rb(rng, 8), rb(rng, 16)])
            d16 = rng.choice([b"\xff" * 16, bytes.fromhex("ff020000000000000000000000010002"), rb(rng, 16)])
            ulen = 8 + sz
            base = csum_words(s16 + d16) + ulen + 17 + sp + dp + ulen
            pl = _finish(rng, base, _heavy_payload(rng, sz), mode)
            cases.append("ip6 %s %s %d %d %s" % (hx(s16), hx(d16), sp, dp, hx(pl)))
        elif which == 4:
            # header checksum only (small payload, any UDP sum)
            ulen = 8 + sz
            src = _hdr_src(rng, 20 + ulen, dst, mode)
            op = rng.choice(["ip4", "udp4", "wrap"])
            pl = rb(rng, sz)
            cases.append(("wrap %s %s %s" % (hx(src), hx(dst), hx(pl))) if op == "wrap" else
                         ("%s %s %s %d %d %s" % (op, hx(src), hx(dst), sp, dp, hx(pl))))
        else:
            # the server reply path: aim with the low word of the xid (what varies per subscriber)
            gw = rng.choice([bytes([100, 64, 0, 1]), bytes([10, 0, 0, 1]), ip4(rng)])
            yi, hw = ip4(rng), rb(rng, 6)
            mask = bytes([255, 255, 255, 0])
            lease = rng.choice([3600, 86400, 604800])
            mt = rng.choice([2, 5])
            dns = [ip4(rng) for _ in range(rng.choice([0, 1, 2]))]
            xhi = rng.choice([0xFFF2, 0xFFFF, rng.randrange(65536)])
            if which == 5:
                opts = [(54, gw), (51, struct.pack(">I", lease)), (1, mask), (3, gw)] + ([(6, b"".join(dns))] if dns else [])
            else:
                opts = [(51, struct.pack(">I", lease)), (1, mask), (54, gw), (3, gw)] + ([(6, b"".join(dns))] if dns else [])
            p0 = reply_payload(xhi << 16, bytes(4), yi, gw, hw, mt, opts)
            ulen = 8 + len(p0)
            s0 = csum_words(gw + bc) + 17 + ulen + 67 + 68 + ulen + csum_words(p0)
            xid = (xhi << 16) | _solve_word(rng, s0, mode)
            dn = [hx(d) for d in dns]
            if which == 5:
                cases.append(" ".join(["pool", str(xid), "nil", hx(hw), str(mt), hx(yi), hx(gw), hx(mask), str(lease), str(len(dn))] + dn + ["0"]))
            else:
                cases.append(" ".join(["resolved", str(xid), "nil", hx(hw), str(mt), hx(yi), hx(gw), hx(gw), hx(mask), str(lease),
                                       str(len(dn))] + dn + ["0", "0"]))
    return cases


def _s(x):
    return hx(x.encode())


V4STR = [("10.0.0.1", bytes([10, 0, 0, 1])), ("10.0.0.254", bytes([10, 0, 0, 254])), ("100.64.0.1", bytes([100, 64, 0, 1])),
         ("192.168.1.1", bytes([192, 168, 1, 1])), ("8.8.8.8", bytes([8, 8, 8, 8])), ("255.255.255.255", b"\xff" * 4), ("0.0.0.0", bytes(4))]
V6STR = [("2001:db8::1", bytes.fromhex("20010db8000000000000000000000001")), ("::1", bytes(15) + b"\x01"), ("::ffff:10.0.0.9", bytes(10) + b"\xff\xff" + bytes([10, 0, 0, 9]))]
BADSTR = ["", "bogus", "10.0.0", "10.0.0.256", "1.2.3.4.5"]
CIDRS = [("10.0.0.0/24", bytes([10, 0, 0, 0]), bytes([255, 255, 255, 0])), ("10.0.0.0/8", bytes([10, 0, 0, 0]), bytes([255, 0, 0, 0])),
         ("100.64.0.0/10", bytes([100, 64, 0, 0]), bytes([255, 192, 0, 0])), ("192.168.1.0/30", bytes([192, 168, 1, 0]), bytes([255, 255, 255, 252])),
         ("0.0.0.0/0", bytes(4), bytes(4)), ("10.0.0.128/25", bytes([10, 0, 0, 128]), bytes([255, 255, 255, 128])),
         ("2001:db8::/64", bytes.fromhex("20010db8") + bytes(12), b"\xff" * 8 + bytes(8)), ("bad/24", None, None), ("", None, None),
         ("10.0.0.0/33", None, None)]


def gen_resolve4(rng, n):
    """pkg/dhcp.ResolveV4 + buildResponseFromResolved: operator configuration (strings) + AAA context -> frame"""
    def addr_tok(weird=0.15):
        q = rng.random()
        if q < weird:
            s_ = rng.choice(BADSTR)
            return _s(s_) + "/nil"
        if q < 2 * weird:
            s_, b = rng.choice(V6STR)
            return _s(s_) + "/" + hx(b)
        s_, b = rng.choice(V4STR)
        return _s(s_) + "/" + hx(bytes(10) + b"\xff\xff" + b)
    cases = []
    for _ in range(n):
        yip = rng.choice([bytes([10, 0, 0, 7]), bytes([10, 0, 0, 200]), bytes([100, 64, 3, 9]), bytes([192, 168, 1, 2]), bytes([172, 16, 0, 1]),
                          bytes(10) + b"\xff\xff" + bytes([10, 0, 0, 7]), bytes.fromhex("20010db8") + bytes(11) + b"\x05", rb(rng, 5)])
        cgw = "nil" if rng.random() < 0.7 else ip4tok(rng, 0.15)
        cmask = "nil" if rng.random() < 0.75 else hx(rng.choice([bytes([255, 255, 255, 0]), b"\xff" * 4, bytes(4), b""]))
        cd = [] if rng.random() < 0.7 else [ip4tok(rng, 0.2) for _ in range(rng.choice([1, 2]))]
        unn = rng.choice([0, 0, 0, 1])
        lease = rng.choice([0, 0, 60, 3600, 86400, M32 - 1])
        pdns = [addr_tok(0.2) for _ in range(rng.choice([0, 1, 2, 3]))]
        pools = []
        for _ in range(rng.choice([0, 1, 1, 2, 3])):
            cs, ci_, cm = rng.choice(CIDRS)
            ctok = _s(cs) + "/" + ("nil" if ci_ is None else hx(ci_) + ":" + hx(cm))
            gtok = addr_tok(0.2)
            opts = []
            for _ in range(rng.choice([0, 0, 1, 2])):
                tag = rng.choice([42, 43, 60, 66, 150])
                enc = rng.choice(["", "ascii", "hex", "hex", "base64"])
                if enc == "hex":
                    val, pay = rng.choice([("0a:0b:0c", bytes([10, 11, 12])), ("deadbeef", bytes.fromhex("deadbeef")), ("01 02-03", bytes([1, 2, 3])),
                                           ("abc", None), ("zz", None), ("", b"")])
                elif enc == "base64":
                    val, pay = "AAAA", None
                else:
                    val = rng.choice(["tftp.example", "x", ""])
                    pay = val.encode()
                opts.append("%d,%s,%s/%s" % (tag, _s(enc), _s(val), "nil" if pay is None else hx(pay)))
            pools += [ctok, gtok, str(len(opts))] + opts
        npools = sum(1 for x in pools if ":" in x.split("/")[-1] or x.endswith("/nil") and False)
        # count pools: every pool contributes exactly one cidr token first; recount from construction instead
        cases.append(None)
        cases[-1] = (pools, cd, pdns)
        np_ = 0
        i = 0
        while i < len(pools):
            np_ += 1
            i += 3 + int(pools[i + 2])
        hw = rb(rng, 6)
        ytok = hx(yip)
        if rng.random() < 0.2:
            # allocation branch: no address in the context, a real allocator registry built from small IPv4 pools (or none)
            ytok = "alloc"
            pools = []
            for _ in range(rng.choice([0, 1, 1, 2])):
                cs, ci_, cm = rng.choice([c for c in CIDRS if c[0] in ("10.0.0.0/24", "10.0.0.128/25", "192.168.1.0/30", "bad/24", "")])
                pools += [_s(cs) + "/" + ("nil" if ci_ is None else hx(ci_) + ":" + hx(cm)), addr_tok(0.2), "0"]
            np_ = len(pools) // 3
        cases[-1] = " ".join(["resolve4", str(rng.randrange(M32)), "nil", hx(hw), str(rng.choice([2, 5])), ytok, cgw, cmask, str(len(cd))] + cd +
                             [addr_tok(0.25), addr_tok(0.5), str(unn), str(lease), str(len(pdns))] + pdns + [str(np_)] + pools)
    return cases


V6ADDR = [("2001:db8::53", bytes.fromhex("20010db8") + bytes(11) + b"\x53"), ("2001:db8:1::1", bytes.fromhex("20010db80001") + bytes(9) + b"\x01"),
          ("fd00::1", bytes.fromhex("fd00") + bytes(13) + b"\x01"), ("::ffff:10.0.0.9", bytes(10) + b"\xff\xff" + bytes([10, 0, 0, 9])),
          ("10.0.0.1", bytes(10) + b"\xff\xff" + bytes([10, 0, 0, 1]))]
CIDR6 = [("2001:db8::/64", bytes.fromhex("20010db8") + bytes(12), b"\xff" * 8 + bytes(8)),
         ("2001:db8::/32", bytes.fromhex("20010db8") + bytes(12), b"\xff" * 4 + bytes(12)),
         ("2001:db8:1::/48", bytes.fromhex("20010db80001") + bytes(10), b"\xff" * 6 + bytes(10)),
         ("fd00::/8", bytes.fromhex("fd") + bytes(15), b"\xff" + bytes(15)), ("::/0", bytes(16), bytes(16)),
         ("10.0.0.0/8", bytes([10, 0, 0, 0]), bytes([255, 0, 0, 0])), ("nope", None, None), ("", None, None)]


def gen_solicit6(rng, n):
    """pkg/dhcp.ResolveV6 + plugins/dhcp6/local HandlePacket (SOLICIT / REQUEST with a resolved lease): profile + AAA context + the
    client's message -> ADVERTISE / REPLY"""
    cases = []
    lt = [0, 0, 1, 5, 3600, 86400, (1 << 30) + 3, M32 - 1]
    for _ in range(n):
        duid = rb(rng, rng.choice([14, 10]))
        copts = []
        if rng.random() < 0.93:
            copts.append(o6(1, duid))
        if rng.random() < 0.8:
            body = struct.pack(">I", u32(rng)) + bytes(8)
            if rng.random() < 0.06:
                body = body[:rng.choice([0, 4, 11])]
            copts.append(o6(3, body + (o6(5, ip6b(rng) + bytes(8)) if rng.random() < 0.2 else b"")))
        if rng.random() < 0.6:
            copts.append(o6(25, struct.pack(">I", u32(rng)) + bytes(8)))
        if rng.random() < 0.3:
            copts.append(o6(6, b"\0\x17\0\x18"))
        if rng.random() < 0.1:
            copts.append(o6(14, b""))
        rng.shuffle(copts)
        cmsg = bytes([rng.choice([1, 1, 3])]) + rb(rng, 3) + b"".join(copts)
        if rng.random() < 0.03:
            cmsg = cmsg[:rng.choice([0, 3, 4, 9])]
        addr = "nil" if rng.random() < 0.2 else hx(rng.choice([bytes.fromhex("20010db8") + bytes(8) + rb(rng, 4), bytes.fromhex("20010db80001") + rb(rng, 10),
                                                               bytes.fromhex("fd00") + rb(rng, 14), rb(rng, 16)]))
        pfx, ones = ("nil", 0) if rng.random() < 0.3 else (hx(rng.choice([bytes.fromhex("20010db8000100") + bytes([rng.randrange(256)]) + bytes(8),
                                                                         bytes.fromhex("fd00aa") + bytes(13), rb(rng, 8) + bytes(8)])),
                                                           rng.choice([48, 56, 60, 64, 128, 0, 129]))
        cd = [] if rng.random() < 0.7 else [ip6tok2(rng, 0.1) for _ in range(rng.choice([1, 2]))]

        def stok():
            q = rng.random()
            if q < 0.15:
                return _s(rng.choice(BADSTR)) + "/nil"
            s_, b = rng.choice(V6ADDR)
            return _s(s_) + "/" + hx(b)
        pdns = [stok() for _ in range(rng.choice([0, 1, 2]))]
        ia = []
        nia = rng.choice([0, 1, 1, 2])
        for _ in range(nia):
            cs, ci_, cm = rng.choice(CIDR6)
            opts = []
            for _ in range(rng.choice([0, 0, 1, 2])):
                code = rng.choice([24, 31, 56, 17])
                enc = rng.choice(["", "hex", "hex", "bogus"])
                if enc == "hex":
                    val, pay = rng.choice([("00:01:02", bytes([0, 1, 2])), ("cafe", bytes.fromhex("cafe")), ("abc", None), ("", b"")])
                elif enc == "bogus":
                    val, pay = "x", None
                else:
                    val = rng.choice(["example.org", ""])
                    pay = val.encode()
                opts.append("%d,%s,%s/%s" % (code, _s(enc), _s(val), "nil" if pay is None else hx(pay)))
            ia += [_s(cs) + "/" + ("nil" if ci_ is None else hx(ci_) + ":" + hx(cm)), str(rng.choice(lt)), str(rng.choice(lt)), str(len(opts))] + opts
        pd = []
        npd = rng.choice([0, 1, 1, 2])
        for _ in range(npd):
            cs, ci_, cm = rng.choice(CIDR6)
            pd += [_s(cs) + "/" + ("nil" if ci_ is None else hx(ci_) + ":" + hx(cm)), str(rng.choice(lt)), str(rng.choice(lt))]
        relay = "nil" if rng.random() < 0.6 else "%d,%s,%s,%s" % (rng.choice([0, 1, 7, 255]), ip6tok2(rng, 0.1), ip6tok2(rng, 0.1), hx(rb(rng, rng.choice([0, 4, 9]))))
        cases.append(" ".join(["solicit6", hx(rb(rng, 14)), hx(cmsg), relay, addr, pfx, str(ones), str(len(cd))] + cd +
                              [str(rng.choice(lt)), str(rng.choice(lt)), str(len(pdns))] + pdns + [str(nia)] + ia + [str(npd)] + pd))
    return cases


def gen_multipool(rng):
    """deterministic block (audit round 3): profiles with several pools that differ in every parameter, where the offered / allocated
    address lies in the 2nd or 3rd pool — the parameters of the pool that CONTAINS the address must be used, not the first pool's"""
    cases = []
    m = lambda b: hx(bytes(10) + b"\xff\xff" + bytes(b))
    def p4(cidr, ip, mask, gw, opts):
        g = _s(gw) + "/" + m([int(x) for x in gw.split(".")])
        o = ["%d,%s,%s/%s" % (t, _s(""), _s(v), hx(v.encode())) for t, v in opts]
        return [_s(cidr) + "/" + hx(bytes(ip)) + ":" + hx(bytes(mask)), g, str(len(o))] + o
    A = p4("192.168.1.0/30", [192, 168, 1, 0], [255, 255, 255, 252], "192.168.1.1", [(66, "first.example")])
    B = p4("10.0.0.0/24", [10, 0, 0, 0], [255, 255, 255, 0], "10.0.0.254", [(66, "second.example"), (67, "bootB")])
    C = p4("10.0.1.128/25", [10, 0, 1, 128], [255, 255, 255, 128], "10.0.1.129", [(150, "third")])
    E31 = p4("10.9.9.0/31", [10, 9, 9, 0], [255, 255, 255, 254], "10.9.9.0", [(66, "exhausted31")])
    E32 = p4("10.9.9.8/32", [10, 9, 9, 8], [255, 255, 255, 255], "10.9.9.8", [(66, "exhausted32")])
    prof_gw = _s("100.64.0.1") + "/" + m([100, 64, 0, 1])
    sid_none = _s("") + "/nil"
    dns = [_s("8.8.8.8") + "/" + m([8, 8, 8, 8])]
    k = 0
    for unn in (0, 1):
        for lease in (0, 600):
            # address given, lying in the 2nd / 3rd pool
            for pools, y in (([A, B, C], [10, 0, 0, 7]), ([A, B, C], [10, 0, 1, 200]), ([B, C, A], [192, 168, 1, 2]), ([C, A, B], [10, 0, 0, 99]),
                             ([A, C], [10, 0, 1, 130]), ([A, B], [10, 0, 0, 1])):
                flat = [x for pl in pools for x in pl]
                k += 1
                cases.append(" ".join(["resolve4", str(1000 + k), "nil", "0a1b2c3d4e5f", "5", hx(bytes(y)), "nil", "nil", "0", prof_gw, sid_none,
                                       str(unn), str(lease), "1"] + dns + [str(len(pools))] + flat))
            # allocation branch: the first pool(s) cannot serve an address, the registry must fall through to a later pool
            for pools in ([E31, B], [E32, C], [E31, E32, B], [E32, E31, C, A]):
                flat = [x for pl in pools for x in pl]
                k += 1
                cases.append(" ".join(["resolve4", str(2000 + k), "nil", "0a1b2c3d4e5f", "2", "alloc", "nil", "nil", "0", prof_gw, sid_none,
                                       str(unn), str(lease), "1"] + dns + [str(len(pools))] + flat))
    # DHCPv6 twin: IANA and PD pools with different lifetimes / options, address and prefix in the 2nd / 3rd pool
    def c6(cidr, ip, mask):
        return _s(cidr) + "/" + hx(ip) + ":" + hx(mask)
    ia1 = [c6("2001:db8:1::/48", bytes.fromhex("20010db80001") + bytes(10), b"\xff" * 6 + bytes(10)), "100", "200", "1", "24,%s,%s/%s" % (_s(""), _s("one"), hx(b"one"))]
    ia2 = [c6("fd00::/8", bytes.fromhex("fd") + bytes(15), b"\xff" + bytes(15)), "300", "0", "1", "24,%s,%s/%s" % (_s(""), _s("two"), hx(b"two"))]
    ia3 = [c6("2001:db8::/64", bytes.fromhex("20010db8") + bytes(12), b"\xff" * 8 + bytes(8)), "0", "900", "0"]
    pd1 = [c6("2001:db8:1::/48", bytes.fromhex("20010db80001") + bytes(10), b"\xff" * 6 + bytes(10)), "111", "222"]
    pd2 = [c6("fd00::/8", bytes.fromhex("fd") + bytes(15), b"\xff" + bytes(15)), "0", "444"]
    cmsg = bytes([1, 9, 8, 7]) + o6(1, bytes(range(14))) + o6(3, struct.pack(">I", 42) + bytes(8)) + o6(25, struct.pack(">I", 43) + bytes(8))
    creq = bytes([3, 9, 8, 6]) + cmsg[4:]
    for msg in (cmsg, creq):
        for ias, addr in (([ia1, ia2, ia3], bytes.fromhex("fd00") + bytes(13) + b"\x09"), ([ia1, ia2, ia3], bytes.fromhex("20010db8") + bytes(11) + b"\x05"),
                          ([ia3, ia1], bytes.fromhex("20010db80001") + bytes(9) + b"\x07"), ([ia2, ia3, ia1], bytes.fromhex("20010db80001") + bytes(9) + b"\x08")):
            for pds, pfx in (([pd1, pd2], bytes.fromhex("fd00aa") + bytes(13)), ([pd2, pd1], bytes.fromhex("20010db8000100ab") + bytes(8))):
                for ppref, pvalid in (("0", "0"), ("5000", "6000")):
                    relay = "nil" if ppref == "0" else "3,%s,%s,%s" % (hx(bytes.fromhex("20010db8") + bytes(11) + b"\x01"), hx(bytes.fromhex("fe80") + bytes(13) + b"\x02"), hx(b"ifX"))
                    cases.append(" ".join(["solicit6", "000300010a0b0c0d0e0f", hx(msg), relay, hx(addr), hx(pfx), "56", "0", ppref, pvalid, "0", str(len(ias))] +
                                          [x for pl in ias for x in pl] + [str(len(pds))] + [x for pl in pds for x in pl]))
    return cases


def gen_resp6(rng, n):
    """plugins/dhcp6/local buildResponse: resolved address / prefix / DNS / raw options -> ADVERTISE / REPLY"""
    cases = []
    prefs = [0, 1, 2, 3, 4, 5, 6, 7, 9, 10, 3600, 86400, 604800, (1 << 30) - 1, 1 << 30, (1 << 30) + 1, 1 << 31, M32 - 6,
             M32 - 5, M32 - 4, M32 - 3, M32 - 2, M32 - 1]
    for k in range(n):
        pref = rng.choice(prefs + [rng.randrange(M32)])
        na = "nil" if rng.random() < 0.25 else "%d,%s,%d,%d" % (u32(rng), ip6tok2(rng, 0.1).replace("nil", hx(ip6b(rng))), pref, u32(rng))
        pd = "nil" if rng.random() < 0.35 else "%d,%s,%d,%d,%d" % (u32(rng), ip6tok2(rng, 0.1).replace("nil", hx(ip6b(rng))),
                                                                  rng.choice([0, 48, 56, 60, 64, 127, 128, 129, 200]),
                                                                  rng.choice(prefs), u32(rng))
        nd = rng.choice([0, 0, 1, 2, 3])
        dns = [ip6tok2(rng, 0.12) for _ in range(nd)]
        ex = []
        for _ in range(rng.choice([0, 0, 1, 2])):
            ex.append("%d,%s" % (rng.choice([24, 31, 56, 82, 17, 65535, 14, 7]), hx(rb(rng, rng.choice([0, 1, 4, 16, 40])))))
        if rng.random() < 0.06:   # raw option colliding with a built-in code (config validation denies these)
            ex.append("%d,%s" % (rng.choice([1, 2, 3, 5, 13, 23, 25, 26, 0]), hx(rb(rng, rng.choice([0, 2, 12, 16, 40])))))
        cases.append(" ".join(["resp6", str(rng.choice([2, 7])), hx(rb(rng, 3)), hx(rb(rng, rng.choice([14, 10, 0, 1]))),
                               hx(rb(rng, rng.choice([14, 10, 18]))), na, pd, str(nd)] + dns + [str(len(ex))] + ex))
    return cases


def gen_pipeline4(rng, n):
    """the relay / proxy pipelines of plugins/dhcp4/{relay,proxy}: several calls on one buffer"""
    cases = []
    for k in range(n):
        w = k % 3
        if w == 0:
            pol = rng.choice(["replace", "replace", "keep", "drop"])
            pkt = short_pkt(rng) if rng.random() < 0.03 else mk_pkt(rng, gen_items(rng, big=rng.random() < 0.1))
            d = opt82(rng)
            cases.append("relay4 %s %s %s %s" % (ip4tok(rng, 0.12), pol, hx(bytes([82, len(d)]) + d), hx(pkt)))
        else:
            # a server reply: message type, server-id (mostly), lease, T1/T2 (sometimes), echoed option 82 (mostly), others
            items = [(53, bytes([rng.choice([2, 5, 6])]))]
            if rng.random() < 0.85:
                items.append((54, ip4(rng)))
            if rng.random() < 0.9:
                items.append((51, rb(rng, 4)))
            for c in (58, 59):
                if rng.random() < 0.5:
                    items.append((c, rb(rng, 4)))
            for _ in range(rng.choice([0, 1, 1, 1, 2])):
                items.append((82, opt82(rng)))
            items += [(c, rb(rng, rng.choice(OPT_LEN[c]))) for c in rng.sample([1, 3, 6, 15, 43], rng.randint(0, 4))]
            rng.shuffle(items)
            its = []
            for it in items:
                if rng.random() < 0.1:
                    its.append(("pad",))
                its.append(it)
            pkt = mk_pkt(rng, its, rng.choice(["end", "end", "endpad", "noend"]))
            if rng.random() < 0.03:
                pkt = short_pkt(rng)
            if w == 1:
                cases.append("relayreply4 %s %s" % (ip4tok(rng, 0.08), hx(pkt)))
            else:
                cases.append("proxyreply4 %s %d %s" % (ip4tok(rng, 0.08), rng.choice(LEASES), hx(pkt)))
    return cases


def gen_cases(rng, tier, budget):
    k = 1 if tier == "quick" else 12
    if budget:
        k = max(1, budget // 5000)
    cases = []
    cases += gen_v4_rewrite(rng, 2200 * k)
    cases += gen_o82build(rng, 150 * k)
    cases += gen_frames(rng, 500 * k, tier)
    cases += gen_carry(rng, 420 * k)
    cases += gen_reply(rng, 900 * k)
    cases += gen_v6(rng, 1500 * k)
    cases += gen_pipeline4(rng, 360 * k)
    cases += gen_resp6(rng, 400 * k)
    cases += gen_resolve4(rng, 500 * k)
    cases += gen_solicit6(rng, 500 * k)
    cases += gen_multipool(rng)
    return cases


# ------------------------------------------------------------------ verdict helpers
def nontrivial(case, out):
    return not (out.startswith(("nil", "err", "panic", "badline")))


def _kv(line):
    d = {}
    for t in line.split():
        if "=" in t:
            a, b = t.split("=", 1)
            d[a] = b
    return d


def signature(case, impl, models):
    """only the three OPEN findings get a signature that is listed as known:"""
    t = case.split()
    op = t[0]
    if op in ("wrap", "relayreply4", "proxyreply4") and impl.split(" ")[0] == "panic" and models.get("repaired", "").split(" ")[0] == "nil":
        return "wrap-non-ipv4-address-panic"
    if op in ("o82ins", "relay4"):
        pkt = unhx(t[-1])
        if len(pkt) >= 240 and _truncated_tail(pkt):
            return "opt82-truncated-tail-fragment"
        return "opt82-other"
    if op in ("pool", "resolved"):
        # a lease parameter whose address-valued option comes out empty: nil netmask, non-IPv4 router / server-id, DNS list
        # without a single IPv4 entry
        def v4(x):
            return len(x) == 8 or (len(x) == 32 and x.startswith("00000000000000000000ffff"))
        i0 = 9 if op == "pool" else 10
        nd = int(t[i0])
        dns = t[i0 + 1:i0 + 1 + nd]
        mask = t[7] if op == "pool" else t[8]
        addrs = [t[6]] if op == "pool" else [x for x in (t[6], t[7]) if x != "nil"]
        if mask == "-" or any(not v4(a) for a in addrs) or (nd > 0 and not any(v4(d) for d in dns)):
            return "reply-zero-length-address-option"
        return "reply-other"
    return op + "-other"


def classify(case, impl, model):
    op = case.split(" ", 1)[0]
    ki, km = _kv(impl), _kv(model)
    for f, what in (("h", "IPv4 header checksum does not verify"), ("u", "UDP checksum does not verify"),
                    ("l", "IP/UDP length fields inconsistent with the frame")):
        if ki.get(f) == "0" and km.get(f) == "1":
            return "P", what
    if ki.get("z") == "1" and km.get("z") == "0":
        return "P", "UDP/IPv4 checksum field is 0x0000 (means: no checksum) where RFC 768 requires 0xFFFF"
    if "gp" in ki and "gp" in km and case.split()[0] in ("o82ins", "relay4") and case.split()[1 if case.startswith("o82ins") else 2] not in ("keep", "drop"):
        if "82" not in ki["gp"].split(".") and "82" in km["gp"].split("."):
            return "P", "the forwarded message decodes WITHOUT the relay's option 82 (independent decoder: %s)" % ki["gp"][:80]
    if case.split()[0] in ("pool", "resolved") and "gp=" in impl and ":-" in impl.split("gp=")[1] and ":-" not in model.split("gp=")[-1]:
        return "P", "server reply carries a zero-length option (RFC 2132 minimum length 4 for mask/router/DNS/server-id)"
    if impl.split(" ")[0] in ("panic", "hang") and not model.startswith(impl.split(" ")[0]):
        return "P", "builder %s where the model returns a message" % impl.split(" ")[0]
    if impl.split(" ")[0] == "ALIAS" or "ALIAS" in impl.split():
        return "P", "a getter / builder result shares memory with its source packet (value contract: must be a copy)"
    for f, what in (("gal", "getter result aliases the packet it was read from"), ("nal", "rewritten packet aliases the new value"),
                    ("al", "rewriter result aliasing differs from the contract (returns its argument / a fresh slice)"),
                    ("im", "rewriter modified (or failed to modify) its input buffer contrary to the contract"),
                    ("rawmod", "unwrapped inner message aliases the relay-reply: rewriting it changed the received packet")):
        if f in ki and ki[f] != km.get(f):
            return "P", what + " (impl %s=%s, contract %s)" % (f, ki[f], km.get(f))
    if case.startswith("pseq6") and " ; " in impl and impl.split(" ; ")[1:3] != model.split(" ; ")[1:3]:
        return "P", "proxy sequence: learnt server DUID / Server-ID of the forwarded REQUEST differ: impl %s model %s" % (
            impl.split(" ; ")[1][:60], model.split(" ; ")[1][:60])
    if "gp" in ki and ki["gp"] != km.get("gp"):
        return "P", "independent decoder (gopacket) sees options %s, the proved model %s" % (ki["gp"][:80], str(km.get("gp"))[:80])
    if "get" in ki and ki["get"] != km.get("get"):
        return "P", "reading back the rewritten value gives %s, intended %s" % (ki["get"], km.get("get"))
    if " ; " in impl and impl.split(" ; ")[0] == model.split(" ; ")[0]:
        return "P", "re-parsing the built DHCPv6 message differs: impl=%s model=%s" % (impl.split(" ; ", 1)[1][:160], model.split(" ; ", 1)[1][:160])
    a, b = impl.split(" ")[0], model.split(" ")[0]
    k = next((i for i in range(min(len(a), len(b))) if a[i] != b[i]), min(len(a), len(b)))
    return "P", "%s: built bytes differ from the model at byte %d (impl len %d, model len %d)" % (op, k // 2, len(a) // 2, len(b) // 2)


def _shrink_pkt(pkt):
    """smaller DHCPv4 packets: drop one option / pad, drop bytes after END, drop the tail"""
    items = walk4(pkt)
    for c, off, l in items:
        yield pkt[:off] + pkt[off + 2 + l:]
    for i in range(240, len(pkt)):
        if pkt[i] == 0:
            yield pkt[:i] + pkt[i + 1:]
            break
    if len(pkt) > 240:
        yield pkt[:len(pkt) - 1]
        yield pkt[:240 + (len(pkt) - 240) // 2]
    for c, off, l in items:
        if l > 1:
            yield pkt[:off + 1] + bytes([1]) + pkt[off + 2:off + 3] + pkt[off + 2 + l:]


def _shrink_bytes(b):
    n = len(b)
    if n == 0:
        return
    yield b[:n // 2]
    yield b[n // 2:]
    if n > 4:
        yield b[:n - 2]
        yield b[2:]
    yield b[:n - 1]


def shrink(case):
    t = case.split()
    op = t[0]
    if op in ("o82ins", "o82strip", "setu32", "setip", "proxy", "giaddr", "hops", "relay4", "relayreply4", "proxyreply4"):
        pkt = unhx(t[-1])
        for p in _shrink_pkt(pkt):
            yield " ".join(t[:-1] + [hx(p)])
        return
    if op in ("pool", "resolved"):
        # drop one dns / route / extra at a time
        i0 = 9 if op == "pool" else 10
        nd = int(t[i0])
        dns = t[i0 + 1:i0 + 1 + nd]
        rest = t[i0 + 1 + nd:]
        routes = []
        if op == "resolved":
            nr = int(rest[0])
            routes, rest = rest[1:1 + nr], rest[1 + nr:]
        extra = rest[1:]

        def emit(dns, routes, extra):
            o = t[:i0] + [str(len(dns))] + dns
            if op == "resolved":
                o += [str(len(routes))] + routes
            return " ".join(o + [str(len(extra))] + extra)
        if len(dns) > 1:
            yield emit(dns[:len(dns) // 2], routes, extra)
        if len(routes) > 1:
            yield emit(dns, routes[:len(routes) // 2], extra)
        for i in range(len(dns)):
            yield emit(dns[:i] + dns[i + 1:], routes, extra)
        for i in range(len(routes)):
            yield emit(dns, routes[:i] + routes[i + 1:], extra)
        for i in range(len(extra)):
            yield emit(dns, routes, extra[:i] + extra[i + 1:])
        return
    # generic: shorten the longest hex tokens
    idx = sorted(range(1, len(t)), key=lambda i: -len(t[i]))[:2]
    for i in idx:
        if "," in t[i] or t[i] in ("nil", "-") or not all(ch in "0123456789abcdef" for ch in t[i]) or len(t[i]) < 4:
            continue
        if op in ("ip4", "udp4", "ip6", "wrap") and i < len(t) - 1:
            continue
        if op == "ser6":
            continue
        for b in _shrink_bytes(unhx(t[i])):
            yield " ".join(t[:i] + [hx(b)] + t[i + 1:])


def _tail_kind(pkt):
    if len(pkt) < 240:
        return "short"
    i = 240
    while i < len(pkt):
        c = pkt[i]
        if c == 0:
            i += 1
            continue
        if c == 255:
            return "end" if i == len(pkt) - 1 else "end+trailer"
        if i + 1 >= len(pkt) or i + 2 + pkt[i + 1] > len(pkt):
            return "truncated"
        i += 2 + pkt[i + 1]
    return "noend"


def _raw_sum4(f):
    """32-bit UDP checksum sum of an IPv4 frame with the checksum field taken as zero"""
    u = bytearray(f[20:])
    u[6:8] = b"\0\0"
    return csum_words(bytes(f[12:20])) + 17 + len(u) + csum_words(bytes(u))


def distribution(cases, impl):
    d = {}

    def inc(k):
        d[k] = d.get(k, 0) + 1
    for c, o in zip(cases, impl):
        t = c.split()
        op = t[0]
        inc(op)
        if o is None:
            continue
        h = o.split(" ", 1)[0]
        if h in ("nil", "err", "panic", "hang"):
            inc(op + "_" + h)
        if " z=1" in o:
            inc("zero_udp_checksum_field")
        if op in ("o82ins", "o82strip", "setu32", "setip", "proxy", "giaddr", "hops"):
            pkt = unhx(t[-1])
            inc("tail_" + _tail_kind(pkt))
            if any(l == 255 for _, _, l in walk4(pkt)):
                inc("has_255_byte_option")
            if any(b == 0 for b in pkt[240:]):
                inc("has_pad")
        if op in ("o82ins", "o82strip"):
            n = sum(1 for cc, _, _ in walk4(unhx(t[-1])) if cc == 82)
            inc("pre_existing_82_%d" % min(n, 3))
            if op == "o82ins":
                inc("policy_" + t[1])
        if op in ("setu32", "setip"):
            inst = [l for cc, _, l in walk4(unhx(t[-1])) if cc == int(t[1])]
            inc("target_" + ("absent" if not inst else "ok" if inst == [4] else "dup" if len(inst) > 1 else "badlen"))
        if op in ("pool", "resolved"):
            inc("hwlen_%d" % (0 if t[3] == "-" else len(t[3]) // 2))
            if "gp=" in o and "," in o.split("gp=")[1]:
                codes = [x.split(":")[0] for x in o.split("gp=")[1].split(",", 3)[3].split(".")]
                if any(codes.count(k) > 1 for k in ("53", "54", "51", "1", "3", "6", "121")):
                    inc("reply_with_duplicate_standard_option")
                if len(codes) != len(set(codes)):
                    inc("reply_with_repeated_code")
        if op == "resolved":
            for r in t:
                q = r.split(",")
                if len(q) == 3 and q[0].isdigit() and (q[1] == "nil" or len(q[1]) != 8 or int(q[0]) > 32):
                    inc("route_non_ipv4_or_odd_prefix")
                    break
        if op in ("ip4", "udp4", "wrap", "pool", "resolved") and h not in ("nil", "err", "panic", "hang") and len(h) >= 56:
            f = bytes.fromhex(h)
            S = _raw_sum4(f)
            if (S >> 16) + (S & 0xFFFF) >= 0x10000:
                inc("udp4_sum_needs_second_fold")
            if f[26:28] == b"\xff\xff":
                inc("udp4_checksum_ffff")
        if " gp=err" in o:
            inc("gp_err")
        if op == "resolve4":
            hsum = o.split(" ; ")[0]
            fr = o.split(" ; ")[1].split(" ")[0] if " ; " in o else o
            inc("resolve4_frame" if len(fr) > 100 else "resolve4_" + fr[:12])
            if t[5] == "alloc":
                inc("resolve4_allocation_branch" + ("_noresolve" if o == "noresolve" else ""))
            # does the pool that contains the (given or allocated) address differ from the first pool of the profile?
            ytok = None
            for x in hsum.split():
                if x.startswith("y="):
                    ytok = x[2:]
            nets = [x.split("/")[1] for x in t if "/" in x and ":" in x.split("/")[-1]]
            if ytok and ytok != "nil" and len(nets) >= 2:
                yb = bytes.fromhex(ytok)
                yb = yb[12:] if len(yb) == 16 and yb[:12] == bytes(10) + b"\xff\xff" else yb
                hit = None
                for i_, nm in enumerate(nets):
                    ipb, mb = [bytes.fromhex(z) for z in nm.split(":")]
                    if len(ipb) == len(yb) == len(mb) and all((a & c) == (b & c) for a, b, c in zip(ipb, yb, mb)):
                        hit = i_
                        break
                if hit is not None and hit > 0:
                    inc("resolve4_containing_pool_is_not_first" + ("_alloc" if t[5] == "alloc" else ""))
            if "nr=1" in hsum:
                inc("resolve4_unnumbered_default_route")
            if "opts=-" not in hsum:
                inc("resolve4_pool_raw_options")
            if " m=- " in hsum:
                inc("resolve4_no_pool_no_mask")
            if "r=nil" in hsum:
                inc("resolve4_no_router")
            if t[6] != "nil":
                inc("resolve4_aaa_gateway_override")
            if t[7] != "nil":
                inc("resolve4_aaa_netmask_override")
        # --- counters asked for by the second audit
        if op == "ip6" and h not in ("nil", "err", "panic", "hang") and len(h) >= 96:
            f = bytes.fromhex(h)
            u = bytearray(f[40:])
            u[6:8] = b"\0\0"
            S = csum_words(bytes(f[8:40])) + len(u) + 17 + csum_words(bytes(u))
            if (S >> 16) + (S & 0xFFFF) >= 0x10000:
                inc("udp6_sum_needs_second_fold")
        if op in ("ip4", "udp4", "wrap", "pool", "resolved") and h not in ("nil", "err", "panic", "hang") and len(h) >= 40:
            f = bytearray(bytes.fromhex(h)[:20])
            f[10:12] = b"\0\0"
            S = csum_words(bytes(f))
            if (S >> 16) + (S & 0xFFFF) >= 0x10000:
                inc("ipv4_header_sum_needs_second_fold")
        if op == "pseq6" and len(t[1]) // 2 == 14 and " ; sd=" in o and len(o.split(" ; sd=")[1].split(" ")[0]) == 28:
            inc("pseq6_same_length_in_place")
        if op == "duid6":
            m = unhx(t[2])
            i, found = 4, None
            while i + 4 <= len(m):
                c, l = struct.unpack(">HH", m[i:i + 4])
                if i + 4 + l > len(m):
                    break
                if c == 2:
                    found = l
                    break
                i += 4 + l
            if found is not None and found == (0 if t[1] == "-" else len(t[1]) // 2):
                inc("duid6_same_length_in_place")
        if op == "lt6":
            m = unhx(t[3])
            i = 4
            while i + 4 <= len(m):
                c, l = struct.unpack(">HH", m[i:i + 4])
                if i + 4 + l > len(m):
                    break
                if c == 4:
                    inc("lt6_ia_ta")
                elif c not in (3, 25, 5, 26, 1, 2, 23, 14, 13) and l >= 12:
                    inc("lt6_other_code_with_ia_like_payload")
                if c == 26:
                    inc("lt6_top_level_iaprefix")
                if c in (3, 25) and l >= 12:
                    j, body = 12, m[i + 4:i + 4 + l]
                    while j + 4 <= len(body):
                        c2, l2 = struct.unpack(">HH", body[j:j + 4])
                        if j + 4 + l2 > len(body):
                            break
                        if c2 in (5, 26):
                            inc("lt6_nested_iaaddr_or_iaprefix")
                        if c2 in (3, 25):
                            inc("lt6_ia_inside_ia")
                        j += 4 + l2
                i += 4 + l
        if op == "solicit6":
            inc("solicit6_relayed" if t[3] != "nil" else "solicit6_direct")
            if "retry=same" in o:
                inc("solicit6_retry_same_answer")
        if op in ("o82ins", "o82strip", "setu32", "setip", "proxy", "giaddr", "hops", "relay4", "relayreply4", "proxyreply4"):
            pk = unhx(t[-1])
            if len(pk) >= 236 and any(pk[108:236]):
                inc("v4_header_with_nonzero_file_field")
        if op in ("ser6", "resp6"):
            ex, k = [], len(t) - 1
            while k > 0 and t[k].count(",") == 1 and t[k].split(",")[0].isdigit() and t[k - 1] != "nil" and not (t[k - 1].isdigit() and int(t[k - 1]) == len(ex)):
                ex.append(t[k])
                k -= 1
            if k > 0 and t[k].count(",") == 1 and t[k - 1].isdigit() and int(t[k - 1]) == len(ex) + 1:
                ex.append(t[k])
            if any(int(x.split(",")[0]) in (0, 1, 2, 3, 5, 13, 23, 25, 26) for x in ex):
                inc(op + "_extra_collides_with_builtin")
        if op in ("pool", "resolved"):
            i0 = 9 if op == "pool" else 10
            nd = int(t[i0])
            if any(x == "nil" or len(x) not in (8, 32) or (len(x) == 32 and not x.startswith("00000000000000000000ffff")) for x in t[i0 + 1:i0 + 1 + nd]):
                inc("reply_non_ipv4_dns_entry")
            mask = t[7] if op == "pool" else t[8]
            if mask == "-" or len(mask) != 8:
                inc("reply_non_4_byte_mask")
            if "gp=" in o and "," in o.split("gp=")[1]:
                for x in o.split("gp=")[1].split(",", 3)[3].split("."):
                    if ":" in x and x.split(":")[0] in ("1", "3", "6", "54") and x.split(":")[1] == "-":
                        inc("reply_zero_length_address_option")
                        break
        if op in ("o82ins", "relay4") and t[1 if op == "o82ins" else 2] not in ("keep", "drop"):
            pkt = unhx(t[-1])
            if _tail_kind(pkt) == "truncated" and "gp=" in o:
                g = o.split("gp=")[1].split(" ")[0]
                if g != "err" and "82" not in g.split("."):
                    inc("truncated_tail_swallows_relay_option82")
    return d
