"""C13 — configuration commits are atomic, isolated and change only what was set
(pkg/configmgr/{conf,copy,path,walk,versions,startup}.go, pkg/handlers/conf/handler.go)."""

ID = "C13"
HARNESSES = [dict(name="configmgr", pkg="./pkg/configmgr/", test="TestVerifC13", timeout=900,
                  files=[("pkg/configmgr/zz_verif_c13_test.go", "harness/C13/zz_verif_c13_test.go")]),
             # the concurrent scenarios run under the race detector
             dict(name="configmgr_race", pkg="./pkg/configmgr/", test="TestVerifC13", timeout=900, race=True,
                  files=[("pkg/configmgr/zz_verif_c13_test.go", "harness/C13/zz_verif_c13_test.go")])]


def route(case):
    return "configmgr_race" if case.startswith("conc ") else "configmgr"
VARIANTS = ["repaired"]   # = /repo HEAD: every recorded finding is fixed; a regression to an old defect is a VIOLATION
MODEL_NEEDS_IMPL = True     # only the concurrent cases use it (linearizability search in the driver)
RULE = ("One case = one history against a fresh ConfigManager: a registry of 2-7 recording handlers on real path "
        "patterns (scalar leaves of interfaces/vrfs/protocols/aaa, _internal no-op paths, a literal pattern shadowing "
        "a wildcard one) with generated dependency lists (chains, forward references, self-dependencies, cycles, "
        "two-pattern fan-in) and reload flags; optionally a PPPoE subscriber group in the initial running config so "
        "that the pre-commit validation depends on interfaces.<parent>.mtu; then 4-24 operations: create / set "
        "(native, convertible, unconvertible, zero and wrong-typed values; injected Validate failure) / close / "
        "delete / tick (1..30 min around the 15 min idle limit) / rollback-to-version / commit with a fault plan "
        "(k-th Apply fails for k=1..4, routing-daemon test fails, reload fails, startup-file write fails, version "
        "write fails, and pairs of these). Session ids are mostly the live one, sometimes stale or never issued. "
        "In 30% of the cases the manager is first brought up from a startup file (real LoadStartupConfig/LoadYAML) that "
        "carries the registered plugin namespace verif.c13 (typed pointer in cfg.Plugins, or the production variant "
        "running = startupConfig) and the registry has handlers on its leaves. "
        "Further recipes for the initial running configuration: guard (PPPoE group, MSS validation), deep 0|1 (hidden "
        "json:\"-\" flags, autoconfig-derived subinterface, MSS clamp spec, subscriber groups that do / do not collide). "
        "Fault plans also cover: reload fails after the daemon took the candidate (R), k-th Rollback call fails (q<k>). "
        "Named boundary classes are emitted first (every failure point x position, retry after failure, "
        "set-after-failed-persist, empty diff, dependency satisfied from running only, uint16/uint32 wrap). "
        "Concurrent cases (1 in 6): 2-3 goroutines race create/set/commit/close/read on their own sessions; the driver "
        "searches for a sequential order explaining every result and the final state. Non-trivial: the history contains a commit that reached the apply loop (its trace is not empty). "
        "Distinct: by case text.")
TRUSTED = ["the schema table in props/C13.py (kind and container prefixes of each real path pattern) is tied to "
           "config.Config only through the correspondence check",
           "fault injection: startup-file and version writes fail because the target's parent is a regular file; "
           "the routing daemon is a shell script that fails on request; handler Apply fails on the k-th call",
           "idle time is injected by moving lastActivity back by whole minutes (the boundary at exactly 15 min is "
           "therefore 'expired': real time has advanced by some nanoseconds)"]
ASSUMPTIONS = ["plugin-namespace leaves: no zero values, integers below 2^53 and never the same integer twice in a case "
               "(a candidate holds plugin configs as untyped JSON maps: ints come back as float64)",
               "path segments contain no '.', '_dot_' or wildcard-typed encodings (generic <*> wildcards only)",
               "no two registered patterns match the same path unless one of them equals it literally",
               "string values are valid UTF-8 (deepCopyConfig is a JSON round trip and would rewrite others)",
               "whole-container sets (interfaces.<*> with a struct value) are not generated; subscriber-group ranges are single numbers (no a-b ranges)"]

SCHEMA = {
    "interfaces.<*>.description": ("S", "1,2"),
    "interfaces.<*>.mtu": ("I", "1,2"),
    "interfaces.<*>.enabled": ("B", "1,2"),
    "interfaces.<*>.unnumbered": ("S", "1,2"),
    "interfaces.<*>.ipv6.enabled": ("B", "1,2,3"),
    "interfaces.<*>.ipv6.multicast": ("B", "1,2,3"),
    "interfaces.eth1.mtu": ("I", "1,2"),          # literal pattern: GetHandler's exact-match branch
    "vrfs.<*>.description": ("S", "1,2"),
    "protocols.ospf.enabled": ("B", "2"),
    "protocols.ospf.router-id": ("S", "2"),
    "protocols.ospf.maximum-paths": ("U", "2"),
    "protocols.ospf6.enabled": ("B", "2"),
    "protocols.ospf6.router-id": ("S", "2"),
    "protocols.bgp.asn": ("U", "2"),
    "protocols.bgp.router-id": ("S", "2"),
    "protocols.isis.net": ("S", "2"),
    "protocols.isis.lsp-mtu": ("U", "2"),
    "protocols.mpls.enabled": ("B", "2"),
    "protocols.mpls.platform-labels": ("U", "2"),
    "interfaces.<*>.address.ipv4": ("L", "1,2,3"),               # []string leaf behind a pointer
    "vrfs.<*>.import-route-targets": ("L", "1,2"),
    "protocols.bgp.neighbors.<*:ip>.description": ("S", "2,3,4"),  # typed wildcard: map key = decoded IP
    "protocols.bgp.ipv4-unicast.networks.<*:prefix>": ("E", "2,3,4,5"),   # map entry holding *BGPNetwork, set with &BGPNetwork{}
    "interfaces.<*>": ("O", "1,2"),          # whole map entry, value = *InterfaceConfig (one of the 44 struct-valued patterns)
    "vrfs.<*>": ("O", "1,2"),                # value = *ip.VRFSConfig
    "interfaces.<*>.ipv6": ("P", "1,2,3"),   # a pointer-typed struct FIELD set as a whole, value = *IPv6Config
    "aaa.nas_identifier": ("S", "-"),
    "aaa.nas_ip": ("S", "-"),
    "_internal.punt.<*>.arp": ("N", "-"),
    "_internal.unnumbered.<*>": ("N", "-"),
}
PATS = sorted(SCHEMA)
# leaves of the registered plugin namespace verif.c13 (typed *c13PluginConfig after LoadYAML, an untyped map in
# every candidate because deepCopyConfig is a JSON round trip); never used as dependency targets
PLUGIN = {"verif.c13.message": ("A", "2"), "verif.c13.note": ("A", "2"), "verif.c13.enabled": ("A", "2"),
          "verif.c13.limit": ("A", "2")}
SCHEMA.update(PLUGIN)
WILDS = ["eth1", "eth2", "lo0", "blue"]


def hx(s):
    return "s" + s.encode().hex() if s else "s-"


VALUES = {
    "I": ["i1500", "i9000", "i0", "i-1", "i1511", "i1512", "i67048", "i65636", "i1500", hx("1500"), hx("+7"),
          hx("-3"), hx("abc"), hx(""), hx("9223372036854775808"), hx("-9223372036854775808"), hx("12a"), "u5", "b1"],
    "U": ["u0", "u1", "u65000", "u4294967295", "u64512", hx("7"), hx("4294967296"), hx("4294967301"), hx("-1"),
          hx("18446744073709551615"), hx("18446744073709551616"), hx("x"), "i5", "b1"],
    "S": [hx("ab"), hx("uplink"), hx(""), hx("x y"), hx("10.0.0.1"), "i42", "i-7", "i0", "u9", "b1", "b0"],
    "B": ["b1", "b0", "b1", hx("true"), hx("T"), hx("0"), hx("False"), hx("yes"), hx(""), "i1"],
    "N": ["b1", "i1", hx("x")],
    "L": ["l" + "10.0.0.1/24".encode().hex(), "l" + "10.0.0.1/24".encode().hex() + ":" + "192.0.2.1/32".encode().hex(),
          "l" + "65000:1".encode().hex(), hx("10.0.0.1/24"), "i5", "b1"],
    "E": ["p", "p", "p", hx("x"), "i1"],
    "O": ["o-", "i5", hx("x"), "p"],
    "P": ["o-", "i5", hx("x")],       # besides objects (obj_value): empty struct and wrong-typed values
    "A": [hx("edited"), hx("x"), hx("orig"), "b1"],
}
_uniq = [1000]


def plugin_value(rng, pat):
    if pat.endswith(".limit"):
        _uniq[0] += 1          # never the same number twice (see ASSUMPTIONS)
        return rng.choice(["i%d", "u%d"]) % _uniq[0]
    if pat.endswith(".enabled"):
        return "b1"
    return rng.choice([hx("edited"), hx("x"), hx("orig"), hx("second")])
FAULTS = ["0:Ru", "0:ru", "0:su", "0:Rsu", "0:u", "0:R", "0:R", "0:rq1", "2:q1", "3:q2", "0:tq1", "0:sq2", "0:Rq2", "0:Rs"] + ["0:-"] * 10 + ["1:-", "2:-", "3:-", "4:-", "5:-", "6:-", "0:t", "0:r", "0:s", "0:v", "0:s", "0:v", "2:t", "0:tr", "0:sv",
                         "0:rs", "3:s", "0:tv"]


IPKEYS = ["00000000000000000000ffff0a000001", "00000000000000000000ffffc0000207",
          "20010db8000000000000000000000001"]       # paths.EncodeIP of 10.0.0.1, 192.0.2.7, 2001:db8::1


PFXKEYS = ["203.0.113.0/24".encode().hex(), "198.51.100.0/24".encode().hex()]


def concrete(rng, pat):
    return ".".join(rng.choice(WILDS) if s == "<*>" else rng.choice(IPKEYS) if s == "<*:ip>"
                    else rng.choice(PFXKEYS) if s == "<*:prefix>" else s for s in pat.split("."))


def mk_reg(rng, pats, deps, frr):
    toks = ["reg", str(len(pats))]
    for i, p in enumerate(pats):
        k, c = SCHEMA[p]
        toks += [p, k, c, ",".join(map(str, deps[i])) if deps[i] else "-", "1" if frr[i] else "0"]
    return toks


def rand_registry(rng):
    n = rng.randint(2, 7)
    pats = rng.sample(PATS, n)
    if "interfaces.eth1.mtu" in pats and "interfaces.<*>.mtu" not in pats:
        pats[pats.index("interfaces.eth1.mtu")] = "interfaces.<*>.mtu"
    deps = []
    style = rng.choice(["none", "chain", "rand", "rand", "cyc", "fanin"])
    for i in range(n):
        d = []
        if style == "chain" and i > 0:
            d = [i - 1]
        elif style == "rand":
            d = rng.sample(range(n), rng.choice([0, 0, 1, 1, 2]))
        elif style == "cyc":
            d = [(i + 1) % n] if rng.random() < 0.7 else []
        elif style == "fanin" and i == n - 1 and n >= 3:
            d = rng.sample(range(n - 1), 2)
        elif style == "fanin" and i > 0 and rng.random() < 0.4:
            d = [rng.randrange(i)]
        if "<*:" in pats[i]:
            d = []          # typed wildcards re-encode values when a dependency path is built; not modelled
        deps.append(d)
    frr = [(p.startswith("protocols.") if rng.random() < 0.8 else rng.random() < 0.5) for p in pats]
    return pats, deps, frr


def add_plugin_patterns(rng, pats, deps, frr):
    extra = rng.sample(sorted(PLUGIN), rng.randint(1, 3))
    for e in extra:
        pats.append(e)
        # a plugin leaf may depend on core patterns, nothing depends on it
        deps.append(rng.sample(range(len(pats) - len(extra)), rng.choice([0, 0, 1])) if len(pats) > len(extra) else [])
        frr.append(rng.random() < 0.3)


OBJ_FIELDS = {"interfaces.<*>": [("description", lambda r: hx(r.choice(["up", "core", "x y"]))), ("mtu", lambda r: "i%d" % r.choice([1500, 9000, 68])),
                                 ("enabled", lambda r: "b1"), ("unnumbered", lambda r: hx("lo0"))],
              "vrfs.<*>": [("description", lambda r: hx(r.choice(["cust", "mgmt"]))), ("rd", lambda r: hx("65000:1"))],
              "interfaces.<*>.ipv6": [("enabled", lambda r: "b1"), ("multicast", lambda r: "b1")]}


def obj_value(rng, pat, path):
    fs = ["%s=%s" % (n, g(rng)) for n, g in OBJ_FIELDS[pat] if rng.random() < 0.6]
    if pat == "interfaces.<*>" and rng.random() < 0.7:
        fs.append("name=" + hx(path.split(".")[1]))
    return "o" + ";".join(sorted(fs)) if fs else "o-"


def pick_value(rng, pat, guard):
    if pat in PLUGIN:
        return plugin_value(rng, pat)
    return rng.choice(VALUES[SCHEMA[pat][0]])


def good_value(rng, pat):
    if pat in PLUGIN:
        return plugin_value(rng, pat)
    return {"I": "i%d" % rng.choice([1500, 9000, 1400, 68]), "U": "u%d" % rng.choice([1, 64, 65000]),
            "S": hx(rng.choice(["a", "core", "10.0.0.1"])), "B": "b1", "N": "b1",
            "L": "l" + rng.choice(["10.0.0.1/24", "192.0.2.7/32"]).encode().hex(), "E": "p", "O": "o-", "P": "o-"}[SCHEMA[pat][0]]


def fill(pat, vals):
    out, k = [], 0
    for s in pat.split("."):
        if s == "<*:ip>":
            out.append(IPKEYS[(len(vals[0]) + k) % len(IPKEYS)])
            k += 1
        elif s == "<*:prefix>":
            out.append(PFXKEYS[(len(vals[0]) + k) % len(PFXKEYS)])
            k += 1
        elif s == "<*>":
            out.append(vals[k % len(vals)])
            k += 1
        else:
            out.append(s)
    return ".".join(out)


def rand_ops(rng, pats, deps, nops, guard=None, deep=False):
    """session-structured random walk; '@' is the session holding the lock"""
    ops = []
    replaced = set()
    has_obj = any(SCHEMA[p][0] in "OP" for p in pats)
    no_walk = has_obj and deep       # hidden (json:"-") fields are not part of an emitted entry's token: keep them apart
    loaded = [False]                 # LoadConfig made every entry a recorded NewValue: no Set below entries until the next session

    def sid():
        return "@" if rng.random() < 0.9 else str(rng.choice([0, 1, 2, 3, 4, 7]))

    def one_set(i, vals, depth=0):
        # with some probability set the prerequisites first (same wildcard values), so that commits get
        # past the dependency check
        if depth < 3 and rng.random() < 0.7:
            for d in deps[i]:
                if d != i and rng.random() < 0.8:
                    one_set(d, vals, depth + 1)
        p = pats[i]
        path = fill(p, vals)
        if any(path.startswith(r + ".") for r in replaced):
            return      # nothing is Set below an entry that was Set as a whole earlier in the case (NewValue aliasing)
        if loaded[0] and path.count(".") >= 2 and path.split(".")[0] in ("interfaces", "vrfs"):
            return
        if SCHEMA[p][0] in "OP":
            replaced.add(path)
            if rng.random() < 0.8:
                ops.append("s %s %s %s 0" % (sid(), path, obj_value(rng, p, path)))
                return
        if any(path.startswith(r + ".") for r in replaced):
            return      # no leaf Set below an entry that was set as a whole earlier in the case (NewValue aliasing)
        if guard and p == "interfaces.<*>.mtu" and rng.random() < 0.6:
            path = "interfaces.%s.mtu" % guard[0]
            v = rng.choice(["i%d" % (guard[1] + 12), "i%d" % (guard[1] + 11), "i%d" % (guard[1] + 13), "i0",
                            "i%d" % (65536 + guard[1] + 12), "i65636", "i9000"])
        elif depth > 0 or rng.random() < 0.5:
            v = good_value(rng, p)
        else:
            v = pick_value(rng, p, guard)
        if rng.random() < 0.02:
            path = rng.choice(["interfaces.eth1", "nosuch.path", "interfaces.eth1.mtu.x", "protocols.ospf"])
        if v.startswith("o"):
            replaced.add(path)      # (also when the 2% odd path turned this into a whole-entry Set)
        ops.append("s %s %s %s %d" % (sid(), path, v, 1 if rng.random() < 0.04 else 0))

    def block():
        ops.append("c")
        loaded[0] = False
        for _ in range(rng.randint(1, 4)):
            one_set(rng.randrange(len(pats)), [rng.choice(WILDS), rng.choice(WILDS)])
        ops.append("m %s %s" % (sid(), rng.choice(FAULTS)))

    if not guard and not no_walk and rng.random() < 0.15:
        ops.append(boot_op(rng.choice(["0:-"] * 6 + ["1:-", "2:-", "0:t", "0:s", "0:R", "4:q1", "0:G", "0:G", "0:Ru"])))
    while len(ops) < nops:
        r = rng.random()
        if r < 0.03 and not no_walk:
            loaded[0] = loaded[0] or has_obj
            # with the MSS guard the model's validation parameter comes from the initial group: keep the groups
            ops.append(load_op(sid(), "k" if guard else rng.choice(["c", "n", "k", "m"])))
        elif r < 0.04 and not guard and not no_walk:
            ops.append(boot_op(rng.choice(FAULTS)))
        elif r < 0.35:
            block()
        elif r < 0.40:
            ops.append("c")
            loaded[0] = False
        elif r < 0.72:
            for _ in range(rng.randint(1, 3)):
                one_set(rng.randrange(len(pats)), [rng.choice(WILDS), rng.choice(WILDS)])
        elif r < 0.90:
            ops.append("m %s %s" % (sid(), rng.choice(FAULTS)))
            if rng.random() < 0.3:
                ops.append("m %s %s" % (sid(), rng.choice(FAULTS)))
        elif r < 0.915:
            ops.append("x %s" % sid())
        elif r < 0.93:
            # administrative methods: SaveStartup (file unwritable 1 in 4), ResetForRecovery (not with the MSS guard:
            # it drops the group the model's guard parameter stands for), ReloadFRR
            k = rng.random()
            ops.append("S %d" % (rng.random() < 0.25) if k < 0.45 else "F " + rng.choice(["-", "-", "r", "R"]) if k < 0.8 or guard else "Z")
        elif r < 0.965:
            ops.append("t %d" % rng.choice([1, 7, 14, 15, 16, 30]))
        elif r < 0.985:
            ops.append("b %d" % rng.choice([0, 1, 2, 5]))
        else:
            ops.append("d %s" % sid())
    return ops


def boundary_cases():
    """named boundary classes: every failure point x position, retries, set after failed persist, ..."""
    reg3 = ["reg", "4", "interfaces.<*>.mtu", "I", "1,2", "-", "0", "interfaces.<*>.description", "S", "1,2", "0", "0",
            "protocols.ospf.enabled", "B", "2", "-", "1", "protocols.ospf.router-id", "S", "2", "2", "1"]
    base = ["c", "s 1 interfaces.eth1.mtu i1500 0", "s 1 interfaces.eth1.description %s 0" % hx("up"),
            "s 1 protocols.ospf.enabled b1 0", "s 1 protocols.ospf.router-id %s 0" % hx("1.1.1.1")]
    out = []
    for f in ["0:-", "1:-", "2:-", "3:-", "4:-", "5:-", "0:t", "0:r", "0:s", "0:v", "0:tr", "0:sv", "0:rs", "2:s", "0:tv"]:
        # fault, then retry clean, then a second session
        out.append(reg3 + ["ops"] + base + ["m 1 " + f, "s 1 interfaces.eth2.mtu i9000 0", "m 1 0:-", "c",
                                           "s 2 interfaces.eth1.mtu i1400 0", "m 2 " + f, "x 2", "c"])
    # set after a failed persist, then close / expire / commit again
    out.append(reg3 + ["ops"] + base + ["m 1 0:s", "s 1 interfaces.eth1.mtu i1 0", "x 1", "c", "m 2 0:-"])
    out.append(reg3 + ["ops"] + base + ["m 1 0:s", "t 16", "c", "s 2 interfaces.eth1.mtu i2 0", "m 2 0:-"])
    out.append(reg3 + ["ops"] + base + ["m 1 0:s", "m 1 0:s", "m 1 0:-", "c"])
    # empty diff: same value again -> no version record
    out.append(reg3 + ["ops"] + base + ["m 1 0:-", "c", "s 2 interfaces.eth1.mtu i1500 0", "m 2 0:v", "c",
                                       "s 3 interfaces.eth1.mtu i1501 0", "m 3 0:v", "b 1", "b 2", "b 0"])
    # dependency only in running / missing / forward reference
    out.append(reg3 + ["ops", "c", "s 1 protocols.ospf.router-id %s 0" % hx("r"), "m 1 0:-",
                       "s 1 protocols.ospf.enabled b1 0", "m 1 0:-", "x 1", "c", "s 2 interfaces.eth1.description %s 0" % hx("d"),
                       "m 2 0:-", "s 2 interfaces.eth1.mtu i1 0", "m 2 0:-"])
    # the Kahn quirk: two changes of one pattern release a dependent with two prerequisites early
    regq = ["reg", "5", "aaa.nas_ip", "S", "-", "-", "0", "aaa.nas_identifier", "S", "-", "-", "0",
            "protocols.bgp.asn", "U", "2", "1", "1", "protocols.bgp.router-id", "S", "2", "0,2", "1",
            "interfaces.<*>.mtu", "I", "1,2", "-", "0"]
    out.append(regq + ["ops", "c", "s 1 aaa.nas_ip %s 0" % hx("a"), "s 1 aaa.nas_ip %s 0" % hx("b"),
                       "s 1 aaa.nas_identifier %s 0" % hx("n"), "s 1 protocols.bgp.asn u65000 0",
                       "s 1 protocols.bgp.router-id %s 0" % hx("1.1.1.1"), "m 1 4:-", "m 1 0:-"])
    # idle expiry around the limit
    out.append(reg3 + ["ops", "c", "t 14", "s 1 interfaces.eth1.mtu i1 0", "t 14", "c", "t 1", "c", "m 1 0:-",
                       "c", "t 15", "s 3 interfaces.eth1.mtu i1 0", "c"])
    # guard: pre-commit validation
    for v in ["i1511", "i1512", "i0", "i67048", "i65636"]:
        out.append(reg3 + recipe_tokens(("guard", "eth1", 1500)) + ["ops", "c", "s 1 interfaces.eth2.mtu i9000 0", "m 1 0:-",
                           "s 1 interfaces.eth1.mtu %s 0" % v, "m 1 0:-", "c"])
    # plugin namespace in the running configuration: a candidate edit / discard / failed commit must not show
    regp = ["reg", "3", "verif.c13.message", "A", "2", "-", "0", "verif.c13.limit", "A", "2", "-", "0",
            "interfaces.<*>.mtu", "I", "1,2", "-", "0"]
    for mode in ("typed", "prod"):
        out.append(regp + recipe_tokens(("plugin", mode, hx("orig"), 5)) + ["ops", "c", "s @ verif.c13.message %s 0" % hx("edited"),
                           "x @", "c", "s @ verif.c13.limit i7 0", "m @ 1:-", "m @ 0:-", "c",
                           "s @ verif.c13.message %s 0" % hx("again"), "s @ interfaces.eth1.mtu i1500 0", "m @ 0:-"])
    # without the namespace in cfg.Plugins the same Set is "field not found"
    out.append(regp + ["ops", "c", "s @ verif.c13.message %s 0" % hx("edited"), "m @ 0:-"])
    # deep: hidden (json:"-") flags, an autoconfig-derived subinterface, an MSS clamp spec and subscriber groups
    # in running; commit an unrelated leaf: flags survive in running/startup, the file is scrubbed; with
    # colliding groups (deep 1) every commit fails in ValidateMatchIndex (conf.go:280) with nothing changed
    for col in (False, True):
        out.append(reg3 + recipe_tokens(("deep", col)) + ["ops", "c", "s @ interfaces.eth1.mtu i9000 0", "m @ 0:-", "c",
                   "s @ interfaces.eth2.description %s 0" % hx("x"), "s @ protocols.ospf.enabled b1 0", "m @ 2:-",
                   "m @ 0:s", "m @ 0:-", "c"])
    # start-up path, then an ordinary session: the derived BGP network and blackhole route must survive a commit of
    # an unrelated leaf (the candidate of the next session is a copy of what start-up published)
    regb = ["reg", "4", "interfaces.<*>.mtu", "I", "1,2", "-", "0", "interfaces.<*>.description", "S", "1,2", "-", "0",
            "protocols.bgp.ipv4-unicast.networks.<*:prefix>", "E", "2,3,4,5", "-", "1", "protocols.ospf.enabled", "B", "2", "-", "1"]
    for f in ["0:-", "2:-", "0:t", "0:s", "0:Rq1"]:
        out.append(regb + ["ops", boot_op(f), "c", "s @ interfaces.eth0.mtu i9000 0", "m @ 0:-", "c",
                           "s @ protocols.ospf.enabled b1 0", "m @ 0:-", boot_op("0:-"), "c", "s @ interfaces.eth1.mtu i1400 0", "m @ 0:-"])
    out.append(reg3 + ["ops", boot_op("0:-"), "c", "s @ interfaces.eth0.mtu i9000 0", "m @ 0:-"])   # no BGP handler: start-up fails half-way
    out.append(regb + ["ops", "c", boot_op("0:-"), "s @ interfaces.eth0.mtu i9000 0", "m @ 0:-", "x @", boot_op("0:-")])  # start-up while locked
    # a commit that failed after validation, then LoadConfig replaces the candidate, then the commit is retried:
    # the validators must run again on the new candidate
    regn = list(reg3)
    for i in range(int(regn[1])):
        regn[2 + 5 * i + 3] = "-"       # no dependencies: the walker re-emits the changes in its own order
    for f in ["1:-", "0:t", "0:r", "0:s", "2:q1"]:
        out.append(regn + ["ops"] + base + ["m 1 " + f, load_op("@", "c"), "m @ 0:-", load_op("@", "n"), "m @ 0:-", "c"])
        out.append(regn + ["ops"] + base + ["m 1 " + f, load_op("@", "k"), "m @ " + f, "s @ interfaces.eth2.mtu i1 0",
                                           load_op("@", "c"), "s @ interfaces.eth2.mtu i2 0", "m @ 0:-", "x @"])
    # start-up with a colliding / failing configuration: nothing of it may stay published
    for f in ["0:G", "2:G", "1:-", "0:r", "0:Ru", "0:su"]:
        out.append(regb + ["ops", "c", "s @ interfaces.eth2.mtu i1400 0", "m @ 0:-", boot_op(f), "c",
                           "s @ interfaces.eth2.mtu i1300 0", "m @ 0:-"])
    # out-of-range S-VLAN strings loaded into the candidate: rejected at commit since /repo 461c9d7
    out.append(regn + ["ops"] + base + [load_op("@", "m"), "m @ 0:-", "c", "s @ interfaces.eth2.mtu i1 0", "m @ 0:-"])
    # the daemon is down: reload and restoring reload both fail
    for f in ["0:Ru", "0:ru", "0:su", "0:u", "0:Rsu"]:
        out.append(reg3 + ["ops"] + base + ["m 1 " + f, "m 1 0:-", "c", "s 2 protocols.ospf.router-id %s 0" % hx("3.3.3.3"), "m 2 " + f])
    # whole-entry Set (struct-valued pattern): the entry is replaced, leaves and sub-containers below it go, hidden
    # flags included; then no-op re-Set (DeepEqual), wrong-typed values, dependency on the entry, apply failure
    rego = ["reg", "4", "interfaces.<*>", "O", "1,2", "-", "0", "interfaces.<*>.mtu", "I", "1,2", "0", "0",
            "interfaces.<*>.ipv6.enabled", "B", "1,2,3", "0", "0", "protocols.ospf.enabled", "B", "2", "-", "1"]
    o1 = "odescription=%s;mtu=i9000;name=%s" % (hx("core"), hx("eth1"))
    out.append(rego + ["ops", "c", "s @ interfaces.eth1.mtu i1500 0", "m @ 0:-", "c", "s @ interfaces.eth1 %s 0" % o1, "m @ 0:-",
                       "c", "s @ interfaces.eth1.ipv6.enabled b1 0", "s @ interfaces.eth2.mtu i1400 0", "m @ 0:-",
                       "c", "s @ interfaces.eth1 %s 0" % o1, "m @ 2:-", "m @ 0:-", "c", "s @ interfaces.eth2 o- 0",
                       "s @ interfaces.eth1 i5 0", "s @ interfaces.eth1 %s 0" % hx("x"), "m @ 0:v", "c"])
    out.append(rego + ["ops", "c", "s @ interfaces.eth1 %s 0" % o1, "s @ interfaces.eth1 %s 0" % o1, "m @ 0:-",
                       "c", "s @ interfaces.eth1 %s 0" % o1, "m @ 0:-", "c", "s @ interfaces.eth1 oenabled=b1 0", "m @ 0:s", "m @ 0:-"])
    # pointer-field struct pattern: first Set on a nil field is "modified" (typed nil OldValue), re-Set is a no-op
    regp2 = ["reg", "3", "interfaces.<*>.ipv6", "P", "1,2,3", "-", "0", "interfaces.<*>.ipv6.enabled", "B", "1,2,3", "0", "0",
             "interfaces.<*>.mtu", "I", "1,2", "-", "0"]
    out.append(regp2 + ["ops", "c", "s @ interfaces.eth1.ipv6.enabled b1 0", "m @ 0:-", "c", "s @ interfaces.eth1.mtu i1500 0", "m @ 0:-",
                        "c", "s @ interfaces.eth1.ipv6 oenabled=b1;multicast=b1 0", "m @ 0:-", "c",
                        "s @ interfaces.eth1.ipv6 oenabled=b1;multicast=b1 0", "m @ 0:v", "c", "s @ interfaces.eth1.ipv6 omulticast=b1 0",
                        "s @ interfaces.eth2.ipv6 o- 0", "s @ interfaces.eth2.ipv6 i5 0", "m @ 2:-", "m @ 0:-", "c"])
    # the walker emits whole entries (map entries and non-nil pointer fields) when their patterns have handlers
    regw = ["reg", "5", "interfaces.<*>", "O", "1,2", "-", "0", "interfaces.<*>.ipv6", "P", "1,2,3", "-", "0",
            "interfaces.<*>.mtu", "I", "1,2", "-", "0", "protocols.bgp.ipv4-unicast.networks.<*:prefix>", "E", "2,3,4,5", "-", "1",
            "vrfs.<*>", "O", "1,2", "-", "0"]
    out.append(regw + ["ops", boot_op("0:-"), "c", "s @ interfaces.eth2 %s 0" % o1.replace(hx("eth1"), hx("eth2")),
                       "m @ 0:-", "c", "s @ interfaces.eth2.ipv6 oenabled=b1 0", "m @ 0:-", "c", "s @ vrfs.blue odescription=%s 0" % hx("cust"),
                       load_op("@", "k"), "m @ 3:-", "m @ 0:-", boot_op("2:-"), "c", load_op("@", "n"), "m @ 0:-"])
    for col in (False,):
        out.append(rego + recipe_tokens(("deep", col)) + ["ops", "c", "s @ interfaces.eth1 %s 0" % o1, "m @ 0:-", "c",
                   "s @ interfaces.eth1.mtu i1 0", "m @ 0:-"])
    # administrative methods between and inside sessions; the VPP-recovery sequence ResetForRecovery + start-up
    out.append(reg3 + ["ops"] + base + ["S 0", "m 1 0:-", "S 1", "S 0", "c", "s @ interfaces.eth1.mtu i1400 0", "F -", "F r", "F R",
                                       "Z", "m @ 0:-", "c", "s @ interfaces.eth2.mtu i1 0", "m @ 0:-", "F -", "S 0"])
    out.append(regb + ["ops", boot_op("0:-"), "c", "s @ interfaces.eth0.mtu i9000 0", "m @ 0:-", "c", "Z", boot_op("0:-"), "c",
                       "s @ interfaces.eth0.mtu i1400 0", "m @ 0:-", "Z", boot_op("2:-"), "S 0"])
    # the routing daemon: reload fails cleanly / after the daemon took the candidate; a Rollback call fails
    for f in ["0:r", "0:R", "0:Rq1", "0:rq2", "3:q1", "0:tq2", "0:sq1"]:
        out.append(reg3 + ["ops"] + base + ["m 1 " + f, "m 1 0:-", "c", "s 2 interfaces.eth1.mtu i1400 0", "m 2 0:-",
                                           "c", "s 3 protocols.ospf.router-id %s 0" % hx("2.2.2.2"), "m 3 " + f])
    return [" ".join(c) for c in out]


POISON = hx("FAIL")      # in concurrent scenarios the Apply of this value fails, wherever it comes in the apply order


def conc_fault_case(rng, k):
    """a commit that fails in its apply loop and rolls back (each Rollback takes 300 us) while other goroutines commit
    the same session, edit it, open their own, or read running: rollback must be serialised with all of them"""
    reg = ["conc", "reg", "3", "interfaces.<*>.mtu", "I", "1,2", "-", "0", "aaa.nas_ip", "S", "-", "-", "0",
           "interfaces.<*>.description", "S", "1,2", "-", "0"]
    owner = ["c", "s1:interfaces.eth1.mtu:i%d" % (1500 + k), "s1:interfaces.eth1.description:" + hx("up"),
             "s1:aaa.nas_ip:" + POISON, "m1"] + (["s1:aaa.nas_ip:" + hx("10.0.0.1"), "m1"] if k % 2 else ["m1"])
    others = [["m1", "g", "m1", "g"], ["g", "s1:interfaces.eth2.mtu:i9000", "m1", "g"], ["g", "c", "g", "m"],
              ["m1", "m1", "x1", "g"], ["g", "g", "s1:aaa.nas_ip:" + hx("192.0.2.1"), "m1"]][k % 5]
    third = [[], ["g", "g", "g"], ["m1", "g"]][k % 3]
    nt = 3 if third else 2
    toks = reg + ["threads", str(nt)] + owner + ["|"] + others + (["|"] + third if third else [])
    return " ".join(toks)


def conc_case(rng):
    """2-3 threads race create/set/commit/close on their own sessions (no faults, no reload script)"""
    pats = rng.sample([p for p in PATS if SCHEMA[p][0] not in "NOP"], rng.randint(2, 4))
    deps = [[] for _ in pats]
    if rng.random() < 0.4 and len(pats) > 1:
        deps[1] = [0]
    toks = ["conc"] + mk_reg(rng, pats, deps, [False] * len(pats))
    nt = rng.choice([2, 2, 3])
    toks += ["threads", str(nt)]
    if rng.random() < 0.5:
        # one owner creates, edits and commits session-1 while the others edit / close / commit the same session
        def sset():
            i = rng.randrange(len(pats))
            return "s1:%s:%s" % (fill(pats[i], [rng.choice(WILDS[:2])] * 2), good_value(rng, pats[i]))
        toks += ["c", sset(), "m1"] + (["c", sset(), "m"] if rng.random() < 0.3 else [])
        for t in range(1, nt):
            toks.append("|")
            toks += [rng.choice([sset(), sset(), sset(), "m1", "x1", "c", "g", "g"]) for _ in range(rng.randint(2, 4))]
        return " ".join(toks)
    for t in range(nt):
        if t:
            toks.append("|")
        n = rng.randint(2, 4 if nt == 3 else 5)
        ops = []
        shared = rng.random() < 0.5      # this thread works on session-1 whoever created it
        sfx = "1" if shared else ""
        while len(ops) < n:
            r = rng.random()
            if (not ops and not (shared and t > 0)) or r < 0.2:
                ops.append("c")
            elif r < 0.6:
                i = rng.randrange(len(pats))
                v = POISON if SCHEMA[pats[i]][0] == "S" and rng.random() < 0.2 else good_value(rng, pats[i])
                ops.append("s%s:%s:%s" % (sfx, fill(pats[i], [rng.choice(WILDS[:2])] * 2), v))
            elif r < 0.85:
                ops.append("m" + sfx)
            elif r < 0.93:
                ops.append("x" + sfx)
            else:
                ops.append(rng.choice(["g", "d"]))
        toks += ops
    return " ".join(toks)


def gen_cases(rng, tier, budget):
    n = budget or (1200 if tier == "quick" else 22000)
    cases = boundary_cases()
    for k in range(30 if tier == "quick" else 300):
        cases.append(conc_fault_case(rng, k))
    for _ in range(max(20, n // 5)):
        cases.append(conc_case(rng))
    for _ in range(n):
        pats, deps, frr = rand_registry(rng)
        plug = rng.random() < 0.3
        if plug or rng.random() < 0.05:
            add_plugin_patterns(rng, pats, deps, frr)
        toks = mk_reg(rng, pats, deps, frr)
        guard = None
        if plug:
            toks += recipe_tokens(("plugin", rng.choice(["typed", "typed", "prod"]), hx(rng.choice(["orig", "hello", ""])),
                                   rng.choice([0, 5, 64])))
        elif "interfaces.<*>.mtu" in pats and rng.random() < 0.25:
            guard = ("eth1", rng.choice([1500, 1600, 9000]))
            toks += recipe_tokens(("guard", guard[0], guard[1]))
        elif rng.random() < 0.12:
            toks += recipe_tokens(("deep", rng.random() < 0.3))
        nops = rng.randint(4, 24)
        toks += ["ops"] + rand_ops(rng, pats, deps, nops, guard, deep="deep" in toks)
        cases.append(" ".join(toks))
    return cases


# ---------------------------------------------------------------- parsing helpers
def split_case(case):
    t = case.split()
    n = int(t[1])
    p = 2 + 5 * n
    head = t[:p]
    for name, k in (("guard", 3), ("deep", 2), ("plugin", 4), ("init", 2)):
        if t[p] == name:
            p += k
            head = t[:p]
    p += 1  # "ops"
    ops = []
    ar = {"c": 1, "x": 2, "d": 2, "s": 5, "t": 2, "b": 2, "m": 3, "l": 4, "B": 4, "S": 2, "Z": 1, "F": 2}
    while p < len(t):
        k = ar[t[p]]
        ops.append(t[p:p + k])
        p += k
    return head, ops


def join_case(head, ops):
    return " ".join(head + ["ops"] + [x for o in ops for x in o])


def steps(line):
    return [s.strip() for s in line.split(" ; ")]


def parse_step(s):
    f = s.split(" ")
    res, tr = f[0], f[1] if len(f) > 1 else "-"
    delta = {}
    for x in f[2:]:
        if "=" in x and x[0] in "RSFCLVWNDH" and x[1] == "=":
            delta[x[0]] = x[2:]
    return res, ([] if tr == "-" else tr.split(",")), delta


def init_entries(recipe):
    """projection of the initial running configuration the harness builds for a recipe"""
    if recipe[0] == "guard":
        g = "subscriber-groups.groups.g1"
        return ["subscriber-groups/", "subscriber-groups.groups/", g + "/", g + ".pppoe/", g + ".pppoe.mru=i%d" % recipe[2],
                g + ".vlans.0/", g + ".vlans.0.access-types=l" + "pppoe".encode().hex(), g + ".vlans.0.cvlan=" + hx("any"),
                g + ".vlans.0.parent-interface=" + hx(recipe[1]), g + ".vlans.0.svlan=" + hx("100")]
    if recipe[0] == "deep":
        i, sg = "interfaces.eth1", "subscriber-groups.groups"
        return ["interfaces/", i + "/", i + ".enabled=b1", i + ".name=" + hx("eth1"), i + ".~lcp=b1", i + ".subinterfaces/",
                i + ".subinterfaces.100/", i + ".subinterfaces.100.enabled=b1", i + ".subinterfaces.100.id=i100",
                i + ".subinterfaces.100.vlan=i100", i + ".subinterfaces.100.~lcp=b1",
                i + ".subinterfaces.100.~subscriberaccess=b1", i + ".subinterfaces.100.~mssclamp/",
                i + ".subinterfaces.100.~mssclamp.~enabled=b1", i + ".subinterfaces.100.~mssclamp.~ipv4mss=i1400",
                i + ".subinterfaces.100.~mssclamp.~ipv6mss=i1380", i + ".subinterfaces.200/",
                i + ".subinterfaces.200.description=" + hx("op"), i + ".subinterfaces.200.id=i200",
                i + ".subinterfaces.200.vlan=i200", i + ".subinterfaces.200.~lcp=b1",
                # second and third parent (same child names, different hidden state)
                "interfaces.eth2/", "interfaces.eth2.enabled=b1", "interfaces.eth2.name=" + hx("eth2"), "interfaces.eth2.subinterfaces/",
                "interfaces.eth2.subinterfaces.100/", "interfaces.eth2.subinterfaces.100.id=i100", "interfaces.eth2.subinterfaces.100.vlan=i100",
                "interfaces.eth2.subinterfaces.100.description=" + hx("op2"),
                "interfaces.eth2.subinterfaces.200/", "interfaces.eth2.subinterfaces.200.id=i200", "interfaces.eth2.subinterfaces.200.vlan=i200",
                "interfaces.eth2.subinterfaces.200.~subscriberaccess=b1", "interfaces.eth2.subinterfaces.200.~mssclamp/",
                "interfaces.eth2.subinterfaces.200.~mssclamp.~enabled=b1", "interfaces.eth2.subinterfaces.200.~mssclamp.~ipv4mss=i1300",
                "interfaces.eth2.subinterfaces.300/", "interfaces.eth2.subinterfaces.300.id=i300", "interfaces.eth2.subinterfaces.300.vlan=i300",
                "interfaces.eth2.subinterfaces.300.~lcp=b1",
                "interfaces.eth3/", "interfaces.eth3.name=" + hx("eth3"), "interfaces.eth3.~lcp=b1",
                "subscriber-groups/", sg + "/", sg + ".a/", sg + ".a.vlans.0/", sg + ".a.vlans.0.svlan=" + hx("100"),
                sg + ".a.vlans.0.cvlan=" + hx("any"), sg + ".b/", sg + ".b.vlans.0/",
                sg + ".b.vlans.0.svlan=" + hx("100" if recipe[1] else "101"), sg + ".b.vlans.0.cvlan=" + hx("any")]
    if recipe[0] == "plugin":
        es = ["interfaces/", "interfaces.eth0/", "interfaces.eth0.name=" + hx("eth0"),
              "interfaces.eth0.description=" + hx("Management Interface"), "interfaces.eth0.enabled=b1", "verif.c13/"]
        if recipe[2] != "s-":
            es.append("verif.c13.message=" + recipe[2])
        if recipe[3]:
            es.append("verif.c13.limit=i%d" % recipe[3])
        return es
    return []


SG = "subscriber-groups.groups"


def group_entries(collide):
    return ["subscriber-groups/", SG + "/", SG + ".a/", SG + ".a.vlans.0/", SG + ".a.vlans.0.svlan=" + hx("100"),
            SG + ".a.vlans.0.cvlan=" + hx("any"), SG + ".b/", SG + ".b.vlans.0/",
            SG + ".b.vlans.0.svlan=" + hx("100" if collide else "101"), SG + ".b.vlans.0.cvlan=" + hx("any")]


def load_op(sid, mode):
    """LoadConfig(session, copy of the candidate with colliding (c) / distinct (n) / out-of-range (m) subscriber
    groups / unchanged (k))"""
    if mode == "k":
        return "l %s k -" % sid
    es = group_entries(mode in "cm")
    if mode == "m":
        es = [e.replace(".svlan=" + hx("100"), ".svlan=" + hx("5000")) for e in es]
    return "l %s %s %s" % (sid, mode, ",".join(sorted(es)))


NET = "203.0.113.0/24"
BOOT_CFG = ["cgnat/", "cgnat.pools/", "cgnat.pools.p1/", "cgnat.pools.p1.outside_interfaces=l" + "eth1".encode().hex(),
            "cgnat.pools.p1.outside-addresses=l" + NET.encode().hex(), "interfaces/", "interfaces.eth0/",
            "interfaces.eth0.name=" + hx("eth0"), "interfaces.eth0.description=" + hx("Management Interface"),
            "interfaces.eth0.enabled=b1", "interfaces.eth1/", "interfaces.eth1.name=" + hx("eth1"),
            "interfaces.eth1.description=" + hx("wan"), "interfaces.eth1.enabled=b1", "interfaces.eth1.mtu=i1500", "verif.c13/"]
# what ProcessCGNATPools does for that configuration: the blackhole route is written into the object in place,
# the BGP network goes through Set
BOOT_STEPS = ("E" + ",".join(["protocols.static/", "protocols.static.ipv4.0/",
                              "protocols.static.ipv4.0.destination=" + hx(NET), "protocols.static.ipv4.0.next-hop=" + hx("blackhole")])
              + "+S" + "protocols.bgp.ipv4-unicast.networks." + NET.encode().hex() + "=p")


def boot_group_entries():
    es = group_entries(True)
    for g in ("a", "b"):
        es += [SG + ".%s.vlans.0.access-types=l" % g + "ipoe".encode().hex(), SG + ".%s.vlans.0.parent-interface=" % g + hx("eth1")]
    return es


def boot_op(fault):
    cfg = BOOT_CFG + (boot_group_entries() if "G" in fault else [])       # G: the start-up file has colliding groups
    return "B %s %s %s" % (fault, ",".join(sorted(cfg)), BOOT_STEPS)


def recipe_tokens(recipe):
    if recipe is None:
        return []
    t = {"guard": lambda r: ["guard", r[1], str(r[2])], "deep": lambda r: ["deep", "1" if r[1] else "0"],
         "plugin": lambda r: ["plugin", r[1], r[2], str(r[3])]}[recipe[0]](recipe)
    return t + ["init", ",".join(sorted(init_entries(recipe)))]


def initial_R(head):
    if "init" in head:
        return head[head.index("init") + 1]
    return "-"


def known_signatures():
    import os
    out = set()
    path = os.path.join(os.path.dirname(os.path.dirname(os.path.abspath(__file__))), "KNOWN_FINDINGS.txt")
    try:
        for l in open(path):
            if l.startswith("known: property=C13 "):
                out.add(l.split("signature=")[1].split()[0])
    except Exception:
        pass
    return out


def monitor(case, line, tolerate=None):
    """The property evaluated on one side's own output. Returns None or a description of the violation.
    Violations that have exactly the shape of a finding recorded as 'known:' are skipped, so that the
    description names what is new."""
    tol = known_signatures() if tolerate is None else tolerate
    try:
        head, ops = split_case(case)
    except Exception:
        return None
    st = steps(line)
    if len(st) != len(ops):
        return None
    R, C, L = initial_R(head), "-", "-"
    loaded = False           # the live session has replaced its candidate with LoadConfig
    aliased = False          # after a tolerated startup-save failure the session shares running
    phantom = []             # paths of failed Sets that nevertheless created containers (tolerated)
    for i, (o, s) in enumerate(zip(ops, st)):
        res, tr, d = parse_step(s)
        persisted = [k for k in "RSFW" if k in d]
        if o[0] in "SZF":
            pass        # administrative methods: their effect is pinned by the model (C13_admin_effects)
        elif o[0] == "B":
            # a start-up that does not succeed must leave nothing of its configuration published
            if res not in ("ok", "bootversion", "nochanges") and ("R" in d or "F" in d or "W" in d):
                if "startup-publishes-before-commit" not in tol:
                    return ("step %d (B %s): the start-up returned %s but %s changed%s" % (
                        i, o[1], res, [k for k in "RFW" if k in d],
                        " — the published configuration has colliding subscriber groups" if "R" in d and collides("{" + d["R"] + "}") else ""))
            okap = [x[2:] for x in tr if x.startswith("A:")]
            rb = [x[2:] for x in tr if x.startswith("R:") or x.startswith("R!")]
            if res not in ("ok", "bootversion") and rb != okap[::-1]:
                return "step %d (B %s): start-up returned %s, applied %s but rolled back %s" % (i, o[1], res, okap, rb)
            if res in ("ok", "bootversion") and "R" in d and collides("{" + d["R"] + "}"):
                return "step %d (B %s): the start-up committed a configuration with colliding subscriber groups" % (i, o[1])
        elif o[0] != "m":
            if o[0] == "l" and res == "ok":
                loaded = True    # LoadConfig replaced the whole candidate: every path counts as set
            if o[0] == "s" and res == "setfail" and "C" in d:
                if "failed-set-leaves-containers" in tol:
                    phantom.append(o[2])
                else:
                    return "step %d (%s): a Set that failed changed the candidate: %s" % (i, " ".join(o), d["C"][:200])
            if persisted and not (aliased and o[0] == "s" and persisted == ["R"]):
                return "step %d (%s): %s changed by an operation that is not a commit" % (i, " ".join(o), persisted)
        else:
            flags = o[2].split(":")[1]
            okap = [x[2:] for x in tr if x.startswith("A:")]
            rb = [x[2:] for x in tr if x.startswith("R:") or x.startswith("R!")]     # every Rollback call, failed or not
            if res == "startupsave" and "s" in flags and "commit-error-after-swap:startup-save" in tol and "F" not in d and "W" not in d:
                aliased = True
            elif res == "versionsave" and "v" in flags and "commit-error-after-swap:version-save" in tol and "W" not in d:
                pass
            elif res != "ok":
                if d.get("D") == "other" and not res.endswith("U") and "restore-failure-not-reported" not in tol:
                    return ("step %d (%s): commit returned %s but the routing daemon now runs a configuration that is "
                            "neither what it had nor the running one" % (i, " ".join(o), res))
                if persisted or "V" in d:
                    return "step %d (%s): commit returned %s but %s changed" % (i, " ".join(o), res, persisted or ["V"])
                if rb != okap[::-1]:
                    return "step %d (%s): commit returned %s, applied %s but rolled back %s" % (i, " ".join(o), res, okap, rb)
            else:
                if collides(C):
                    return ("step %d (%s): commit accepted a candidate whose subscriber groups claim the same "
                            "(S-VLAN, C-VLAN) or carry an unparseable S-VLAN (ValidateMatchIndex, conf.go:280)" % (i, " ".join(o)))
                if rb:
                    return "step %d: successful commit rolled back %s" % (i, rb)
                if "R" in d and not loaded:
                    old = set() if R == "-" else set(R.split(","))
                    new = set() if d["R"] == "-" else set(d["R"].split(","))
                    setp = [x.split("=")[0] for x in okap] + phantom
                    for e in old ^ new:
                        p = e.split("=")[0].rstrip("/")
                        if not any(q == p or q.startswith(p + ".") or p.startswith(q + ".") for q in setp):
                            return "step %d: successful commit changed %s which was not set in the session" % (i, e)
        R = d.get("R", R)
        C = d.get("C", C)
        if "L" in d:
            L = d["L"]
            aliased = False if L == "-" else aliased
            if L == "-":
                phantom = []
            loaded = False if o[0] != "l" else loaded
        ids = [] if C == "-" else [x.split("#")[0] for x in C.split("+")]
        if len(ids) > 1:
            return "step %d (%s): two candidate sessions alive: %s" % (i, " ".join(o), ids)
        if L != "-" and L not in ids:
            return "step %d (%s): the lock is held by %s but that session does not exist" % (i, " ".join(o), L)
        if ids and L != ids[0]:
            return "step %d (%s): session %s exists without holding the lock (lock: %s)" % (i, " ".join(o), ids[0], L)
    return None


def collides(C):
    """two vlan entries of the (single) candidate claim the same (svlan, cvlan)"""
    if "{" not in C:
        return False
    body = C[C.index("{") + 1:C.rindex("}")]
    sv, cv = {}, {}
    for e in body.split(","):
        if "=" not in e:
            continue
        p, v = e.rsplit("=", 1)
        if p.startswith("subscriber-groups.") and p.endswith(".svlan"):
            sv[p[:-6]] = v
        elif p.startswith("subscriber-groups.") and p.endswith(".cvlan"):
            cv[p[:-6]] = v
    def num(tok):
        try:
            t = bytes.fromhex(tok[1:]).decode() if tok.startswith("s") else None
            return int(t) if t is not None and t.isdigit() and 1 <= int(t) <= 4094 else None
        except Exception:
            return None
    if any(num(v) is None for v in sv.values()):
        return True          # an S-VLAN string that does not parse / is out of range must be rejected too (461c9d7)
    claims = [(v, cv.get(k)) for k, v in sv.items()]
    return len(claims) != len(set(claims))


def first_diff(impl, model):
    a, b = steps(impl), steps(model)
    for i in range(max(len(a), len(b))):
        if i >= len(a) or i >= len(b) or a[i] != b[i]:
            return i
    return None


def classify(case, impl, model):
    if case.startswith("conc "):
        if model == "NOT-LINEARIZABLE":
            return "P", ("concurrent create/set/commit/close history has no sequential explanation: per-thread results "
                         "and final state %r" % impl[:600])
        return "G", "concurrent case: impl=%r model=%r" % (impl[:300], model[:300])
    v = monitor(case, impl)
    i = first_diff(impl, model)
    where = ""
    try:
        _, ops = split_case(case)
        if i is not None and i < len(ops):
            a, b = steps(impl), steps(model)
            where = " first difference at step %d (%s): impl=%r model=%r" % (
                i, " ".join(ops[i]), a[i][:300] if i < len(a) else None, b[i][:300] if i < len(b) else None)
    except Exception:
        where = " impl=%r model=%r" % (impl[:200], model[:200])
    if v:
        return "P", v + ";" + where
    return "G", "implementation and model disagree;" + where


def signature(case, impl, models):
    if case.startswith("conc "):
        return "unclassified:conc"
    i = first_diff(impl, models["repaired"])
    try:
        _, ops = split_case(case)
        o = ops[i]
        res, tr, d = parse_step(steps(impl)[i])
    except Exception:
        return "unclassified"
    if o[0] in "mB" and res in ("frrreload", "startupsave") and "u" in o[2 if o[0] == "m" else 1].split(":")[1]:
        return "restore-failure-not-reported"
    if o[0] == "B" and res not in ("ok", "bootversion", "nochanges") and ("R" in d or "S" in d or "H" in d):
        return "startup-publishes-before-commit"
    if o[0] == "s" and res == "setfail" and "C" in d:
        return "failed-set-leaves-containers"
    if o[0] == "m":
        flags = o[2].split(":")[1]
        if "s" in flags and res == "startupsave":
            return "commit-error-after-swap:startup-save"
        if "v" in flags and res == "versionsave":
            return "commit-error-after-swap:version-save"
    return "unclassified:%s" % o[0]


def nontrivial(case, impl):
    if case.startswith("conc "):
        return ",ok" in impl and "R=i" in impl.replace("R=-", "") or ("R=" in impl and "R=- " not in impl.split(" || ")[0])
    return any(parse_step(s)[1] for s in steps(impl))


def shrink(case):
    if case.startswith("conc "):
        t = case.split()
        k = t.index("threads")
        head, body = t[:k + 2], t[k + 2:]
        for i in range(len(body)):
            if body[i] != "|":
                yield " ".join(head + body[:i] + body[i + 1:])
        return
    head, ops = split_case(case)
    for i in range(len(ops) - 1, -1, -1):
        yield join_case(head, ops[:i] + ops[i + 1:])
    if len(ops) > 2:
        yield join_case(head, ops[:len(ops) // 2])
    # simplify fault plans and drop the guard
    for i, o in enumerate(ops):
        if o[0] == "m" and o[2] != "0:-":
            yield join_case(head, ops[:i] + [[o[0], o[1], "0:-"]] + ops[i + 1:])
    if "guard" in head:
        g = head.index("guard")
        yield join_case(head[:g], ops)      # guard + its init
    if "deep" in head and "init" in head:
        yield join_case(head[:head.index("deep")], ops)
    # drop dependency lists
    n = int(head[1])
    for i in range(n):
        if head[2 + 5 * i + 3] != "-":
            h2 = list(head)
            h2[2 + 5 * i + 3] = "-"
            yield join_case(h2, ops)


def distribution(cases, impl):
    d = {"ops": {}, "results": {}, "fault_plans": {}, "commits_reaching_apply": 0, "history_len_max": 0,
         "guard_cases": 0}
    d["whole_entry_sets"] = sum(1 for c in cases for t in c.split(" ") if t.startswith("o") and ("=" in t or t == "o-"))
    d["concurrent_cases"] = 0
    d["concurrent_commits_ok"] = 0
    for c, o in zip(cases, impl):
        if c.startswith("conc "):
            d["concurrent_cases"] += 1
            k = c.split()
            ms = [x for x in k[k.index("threads"):] if x in ("m", "m1")]
            d["concurrent_commits_ok"] += (o or "").split(" | ")[0].count(",ok") if ms else 0
            continue
        try:
            head, ops = split_case(c)
        except Exception:
            continue
        d["guard_cases"] += "guard" in head
        d["history_len_max"] = max(d["history_len_max"], len(ops))
        st = steps(o or "")
        for k, op in enumerate(ops):
            d["ops"][op[0]] = d["ops"].get(op[0], 0) + 1
            if k < len(st):
                res, tr, _ = parse_step(st[k])
                key = res if not res.startswith("session-") else "created"
                d["results"][key] = d["results"].get(key, 0) + 1
                if op[0] == "m":
                    d["fault_plans"][op[2]] = d["fault_plans"].get(op[2], 0) + 1
                    d["commits_reaching_apply"] += bool(tr)
    return d


def describe(case, impl, model):
    return {"case": case[:500], "implementation": impl[:500], "model": model[:500]}
