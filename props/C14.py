"""C14 — VLAN pair -> subscriber group (pkg/config/subscriber/match.go, pkg/config/vlan/parser.go)."""
import itertools

ID = "C14"
HARNESSES = [dict(name="subscriber", pkg="./pkg/config/subscriber/", test="TestVerifC14",
                  files=[("pkg/config/subscriber/zz_verif_c14_test.go", "harness/C14/zz_verif_c14_test.go")])]
RULE = ("parse/cvlan: every string of length <= L over a 12-symbol alphabet (digits 0 1 4 9, '-', space, tab, "
        "U+00A0, U+2003, 'a', '+', 'n') plus structured boundary strings; cfg: random configurations (<=5 groups, "
        "<=3 ranges, colliding/overlapping/unparseable ranges) each queried on S-VLANs 8..22,4094,4095 x C-VLANs "
        "{0,1,99..102,4094,4095}. Non-trivial: parse case that is accepted, or cfg case with at least one match "
        "and one miss. Distinct: by case text.")
TRUSTED = ["strings are modelled as lists of Unicode code points; invalid UTF-8 input is outside the model",
           "strings.ToLower is modelled on ASCII only (no other rune lower-cases to a, n or y)"]
ASSUMPTIONS = ["group names in generated configurations are ASCII (Go compares UTF-8 bytes; the model compares code points)"]


def enc(s):
    return ".".join(str(ord(ch)) for ch in s) if s else "e"


ALPHA = ["0", "1", "4", "9", "-", " ", "\t", " ", " ", "a", "+", "n"]
STRUCT = ["0", "1", "4094", "4095", "65535", "65536", "99999999999999999999", "00001", "1-1", "1-4094", "1-4095",
          "0-5", "5-0", "5-4", "10 - 20", " 10-20 ", "10--20", "10-20-30", "-5", "5-", "-", "1 0", "+5", "0x10",
          "1_0", "10- 20", " 1 ", "４", "4094-4094", "4095-4095", "65535-65535", "65536-1",
          "1-65536", " ", "", "\n7\r", "7\v", "7\f", " 7", " 7 ", " 7 ", "　7",
          "\u00857", "​7", "﻿7", "000000000000000000000000000004094", "12a", "a12", "1.5", "1e3"]
CV_STRUCT = ["any", "ANY", "Any", "aNy", " any ", "anyx", "an", "a n y", "", " ", "0", "1", "4094", "4095",
             "100", "\tany\n", " any", "ÀNY", "any-any", "1-2"]


def gen_cases(rng, tier, budget):
    L = 3 if tier == "quick" else 4
    cases = []
    for n in range(0, L + 1):
        for t in itertools.product(ALPHA, repeat=n):
            s = "".join(t)
            cases.append("parse " + enc(s))
            if n <= L - 1:
                cases.append("cvlan " + enc(s))
    for s in STRUCT + CV_STRUCT:
        cases.append("parse " + enc(s))
        cases.append("cvlan " + enc(s))
    nrand = 400 if tier == "quick" else 4000
    for _ in range(nrand):
        k = rng.randint(1, 9)
        s = "".join(rng.choice(ALPHA + ["2", "3", "5", "6", "7", "8"]) for _ in range(k))
        cases.append("parse " + enc(s))
        a, b = rng.choice([0, 1, 2, 100, 4093, 4094, 4095, 65535, 65536]), rng.choice([0, 1, 2, 100, 4094, 4095, 70000])
        ws = lambda: rng.choice(["", " ", "\t", "  ", " "])
        cases.append("parse " + enc("%s%d%s-%s%d%s" % (ws(), a, ws(), ws(), b, ws())))
        cases.append("cvlan " + enc(ws() + rng.choice(["any", "ANY", "aNY", str(a), str(b), "x"]) + ws()))
    ncfg = (budget or 300) if tier == "quick" else (budget or 6000)
    names = ["a", "b", "ab", "B", "aa", "b0", "a-", "z"]
    svs = ["10", "11", "12", "10-12", "11-20", "12-12", " 15 ", "20-22", "0", "x", "5000", "4094", "4090-4094",
           "21-20", "10-", ""]
    cvs = ["", "any", "ANY", "100", "101", " 100", "0", "x", "4094", "4095", "1"]
    qs = [(s, c) for s in list(range(8, 24)) + [4089, 4090, 4094, 4095, 0]
          for c in (0, 1, 99, 100, 101, 102, 4094, 4095)]
    qtxt = " ".join("%d %d" % q for q in qs)
    for _ in range(ncfg):
        ng = rng.randint(0, 5)
        gn = rng.sample(names, ng)
        toks = ["cfg", str(ng)]
        for n in gn:
            nr = rng.randint(0, 3)
            toks += [enc(n), str(nr)]
            for _ in range(nr):
                toks += [enc(rng.choice(svs)), enc(rng.choice(cvs))]
        toks += [str(len(qs)), qtxt]
        cases.append(" ".join(toks))
    return cases


def nontrivial(case, out):
    if case.startswith("cfg"):
        r = out.split(" ; ")[-1].split()
        return "none" in r and any(x != "none" for x in r)
    return out != "err"


def classify(case, impl, model):
    if case.startswith("cfg"):
        iv, ir = impl.split(" ; ") if " ; " in impl else (impl, "")
        mv, mr = model.split(" ; ") if " ; " in model else (model, "")
        if ir != mr:
            k = [i for i, (x, y) in enumerate(zip(ir.split(), mr.split())) if x != y]
            return "P", "Lookup disagrees with the reference scan at query #%s: impl=%s model=%s" % (
                k[:3], [ir.split()[i] for i in k[:3]], [mr.split()[i] for i in k[:3]])
        if iv.split()[0] != mv.split()[0]:
            return "P", "ValidateMatchIndex verdict differs: impl=%r model=%r" % (iv, mv)
        return "G", "collision report differs: impl=%r model=%r" % (iv, mv)
    return "P", "parser accepts/rejects differently: impl=%r model=%r" % (impl, model)


def shrink(case):
    t = case.split()
    if t[0] in ("parse", "cvlan"):
        cps = [] if t[1] == "e" else t[1].split(".")
        for i in range(len(cps)):
            r = cps[:i] + cps[i + 1:]
            yield t[0] + " " + (".".join(r) if r else "e")
        return
    ng = int(t[1])
    p = 2
    groups = []
    for _ in range(ng):
        name, nr = t[p], int(t[p + 1])
        p += 2
        rs = [(t[p + 2 * j], t[p + 2 * j + 1]) for j in range(nr)]
        p += 2 * nr
        groups.append((name, rs))
    nq = int(t[p])
    qs = [(t[p + 1 + 2 * j], t[p + 2 + 2 * j]) for j in range(nq)]

    def emit(gs, qs):
        toks = ["cfg", str(len(gs))]
        for n, rs in gs:
            toks += [n, str(len(rs))]
            for a, b in rs:
                toks += [a, b]
        toks.append(str(len(qs)))
        for a, b in qs:
            toks += [a, b]
        return " ".join(toks)
    for i in range(len(groups)):
        yield emit(groups[:i] + groups[i + 1:], qs)
    for i, (n, rs) in enumerate(groups):
        for j in range(len(rs)):
            yield emit(groups[:i] + [(n, rs[:j] + rs[j + 1:])] + groups[i + 1:], qs)
    if len(qs) > 1:
        yield emit(groups, qs[:len(qs) // 2])
        yield emit(groups, qs[len(qs) // 2:])
        for i in range(len(qs)):
            yield emit(groups, [qs[i]])


def distribution(cases, impl):
    d = {"parse": 0, "parse_ok": 0, "cvlan": 0, "cvlan_ok": 0, "cfg": 0, "cfg_collision": 0, "lookup_hits": 0,
         "lookup_misses": 0}
    for c, o in zip(cases, impl):
        k = c.split(" ", 1)[0]
        d[k] += 1
        if k == "cfg":
            v, r = o.split(" ; ") if " ; " in o else (o, "")
            d["cfg_collision"] += v.startswith("collision")
            r = r.split()
            d["lookup_misses"] += r.count("none")
            d["lookup_hits"] += len(r) - r.count("none")
        elif o != "err":
            d[k + "_ok"] += 1
    return d
