"""C14 - VLAN pair -> subscriber group (pkg/config/subscriber/match.go, pkg/config/vlan/parser.go)."""
import itertools

ID = "C14"
HARNESSES = [dict(name="subscriber", pkg="./pkg/config/subscriber/", test="TestVerifC14", timeout=1500,
                  files=[("pkg/config/subscriber/zz_verif_c14_test.go", "harness/C14/zz_verif_c14_test.go")]),
             dict(name="l2gw", pkg="./internal/l2gw/", test="TestVerifC14L2GW", timeout=600,
                  files=[("internal/l2gw/zz_verif_c14_l2gw_test.go", "harness/C14/zz_verif_c14_l2gw_test.go")]),
             dict(name="ipoe", pkg="./internal/ipoe/", test="TestVerifC14IPoE", timeout=600,
                  files=[("internal/ipoe/zz_verif_c14_ipoe_test.go", "harness/C14/zz_verif_c14_ipoe_test.go")]),
             dict(name="configmgr", pkg="./pkg/configmgr/", test="TestVerifC14CM", timeout=900, race=True,
                  files=[("pkg/configmgr/zz_verif_c14_cm_test.go", "harness/C14/zz_verif_c14_cm_test.go")])]


def route(case):
    return ("l2gw" if case.startswith("l2gw ") else "subscriber" if case.startswith("gpn ") else "ipoe" if case.startswith("l2fw ") else
            "configmgr" if case.startswith("cm ") else "subscriber")

RULE = ("parse/cvlan: every string of length <= L (3 quick, 4 thorough) over a 16-symbol alphabet (digits 0 1 4 9, '-', "
        "space, tab, U+00A0, U+2003, U+1680, U+200B (not a space), 'a', 'n', 'y', 'Y', '+'), structured boundary strings, "
        "every one of the 25 unicode.IsSpace code points and 40 near-misses in 9+7 positions, random strings; "
        "runes: EVERY code point 0..0xFFFF (quick) / 0..0x10FFFF (thorough), surrogates excluded, in 9 positions, swept inside the harness and "
        "inside the model driver, results compared as runs; cfg: random configurations (<=5 groups incl. nil entries, "
        "<=3 ranges, colliding/overlapping/unparseable ranges, differently spelled equal selectors) each queried on 34 "
        "S-VLANs x 13 C-VLANs (incl. identifiers with bits 12-15 set: 4096+vlan, 0x8000|vlan, 65535) with 3 rebuilds; sweep: random configurations with wide ranges, ALL 4096x4096 pairs looked "
        "up in the harness and compared there with a quadratic reference written in the harness, digest of the whole "
        "table compared with the digest the model computes from ref_lookup over the classes of "
        "C14_lookup_class_invariant (12 quick / 400 thorough), plus dense sweeps (2 quick / 64 thorough) that together make every S-VLAN and every C-VLAN value an exact index key. same-group block: 100+ deterministic configurations with two ranges of ONE group on equal / overlapping S-VLANs with equal, differently spelled or different selectors (cfg cases, and inside cm sequences). l2gw: random configurations with AAA policies on groups and ranges, 45 pairs each pushed through the real internal/l2gw handleTrigger, the published AAA request's group and policy compared with the matched range's (200 quick / 3000 thorough; per-range access-types, a third of the groups mix l2gw and retail ranges); l2fw: the same configurations through the real internal/ipoe forwardToL2GW (hand-off to l2gw iff the matched group has l2gw among its access-types, at group level or on any range). cm: sequences of 2-6 candidate configurations (clean, colliding, malformed) committed through the real pkg/configmgr ConfigManager (LoadConfig+Commit; every third sequence starts with LoadStartupConfig+ApplyLoadedConfig of a YAML file) while 3 reader goroutines call LookupSubscriberGroup, built with -race: verdict (nil-ness of the error), handler applications (none for a rejected candidate) and answers after every candidate compared with the step model, every concurrent answer checked to be one accepted generation's answer as a whole and generations never to go backwards per reader (24 quick / 300 thorough; every second sequence has a fault plan: commits that fail after validation through a handler or persist failure, the candidate session is kept and re-used); gpn: group.go GetPolicyName / FindVLANConfig / MatchesSVLAN called and compared with the rescan model. Non-trivial: parse case that is accepted, cfg/sweep/l2gw/l2fw "
        "case with at least one match and one miss. Distinct: by case text.")
TRUSTED = ["strings are modelled as lists of Unicode code points; invalid UTF-8 input is outside the model",
           "strings.ToLower is modelled on ASCII only (no other rune lower-cases to a, n or y: checked for every code "
           "point by the 'runes cy/cl' cases)",
           "sweep digest: the OCaml driver expands the class table to 4096x4096 with the extracted rep/s_cuts/c_cuts "
           "(C14_lookup_via_representative); run-length encoding and md5 are driver/harness glue on both sides"]
ASSUMPTIONS = ["group names in generated configurations are valid UTF-8 (Go compares UTF-8 bytes, the model compares "
               "code points; the two orders coincide for valid UTF-8)"]

# unicode.IsSpace, every code point
SPACES = [9, 10, 11, 12, 13, 32, 0x85, 0xA0, 0x1680] + list(range(0x2000, 0x200B)) + [0x2028, 0x2029, 0x202F, 0x205F, 0x3000]
# code points Go does NOT treat as space (neighbours of every class, zero-width and format characters that other
# languages' isspace accept, look-alike digits and dashes)
NEAR = [0, 8, 14, 0x1C, 0x1D, 0x1E, 0x1F, 0x21, 0x7F, 0x84, 0x86, 0x9F, 0xA1, 0xAD, 0x167F, 0x1681, 0x180E, 0x1FFF,
        0x200B, 0x200C, 0x200D, 0x200E, 0x2010, 0x2013, 0x2027, 0x202A, 0x202E, 0x2030, 0x205E, 0x2060, 0x2212,
        0x2FFF, 0x3001, 0x303F, 0xFEFF, 0xFF10, 0xFF0D, 0x0660, 0xFFFD, 0x10FFFF]
RUNE_KINDS = ["pl", "pt", "pd", "pa", "pm", "cl", "ct", "ca", "cy"]


def enc(s):
    return ".".join(str(ord(ch)) for ch in s) if s else "e"


ALPHA = ["0", "1", "4", "9", "-", " ", "\t", "\u00a0", "\u2003", "\u1680", "\u200b", "a", "n", "y", "Y", "+"]
STRUCT = ["0", "1", "4094", "4095", "65535", "65536", "99999999999999999999", "00001", "1-1", "1-4094", "1-4095",
          "0-5", "5-0", "5-4", "10 - 20", " 10-20 ", "10--20", "10-20-30", "-5", "5-", "-", "1 0", "+5", "0x10",
          "1_0", "10- 20", "10 -20", "10\t-20", "10-\t20", "10 -\u00a020", "\u300010\u2028-\u202920\u205f",
          " 1 ", "\uff14", "4094-4094", "4095-4095", "65535-65535", "65536-1", "4094-4095", "4093-4094",
          "1-65536", " ", "", "\n7\r", "7\v", "7\f", "\u00a07", "\u20037 ", "\u2009 7", "\u30007",
          "\u00857", "\u200b7", "\ufeff7", "\u180e7", "7\u200b", "7\ufeff", "7\u180e",
          "000000000000000000000000000004094", "12a", "a12", "1.5", "1e3", "1-2 ", " 1-2", "1 -2", "1- 2",
          "1 - 2", "1  -  2", "1-2-", "-1-2", "1--2", "1\u20132", "1\u22122", "2-1", "2-2", "3-2", "0-0", "0-1",
          "1-0", "4094-1", "4000-4094", "4000-4095", "4095-4096", "65535-65536", "+1-2", "1-+2", "1-2a", "a-2"]
# values that wrap to 1..4094 when narrowed to 16 / 32 / 64 bits before the range checks (seeded C14_q1)
WRAP = ["65537", "65636", "69630", "69631", "65636-65640", "100-65736", "65636-200", "131172", "4294967396",
        "4294967297-4294967298", "18446744073709551716", "18446744073709551617", "-65436", "+100", "+1-+2"]
CV_STRUCT = ["any", "ANY", "Any", "aNy", "anY", "aNY", "AnY", "ANy", " any ", "anyx", "xany", "an", "ny", "a n y",
             "a\u200bny", "", " ", "\t\n\v\f\r ", "\u0085\u00a0\u1680\u2000\u200a\u2028\u2029\u202f\u205f\u3000",
             "\u200b", "\ufeff", "\u180e", "0", "1", "4094", "4095", "100", "0100", "\tany\n", "\u00a0any",
             "\u3000ANY\u2028", "\u00c0NY", "\u0251ny", "a\u0273y", "any-any", "1-2", "any any", "4094 ", "+100",
             "65535", "65536", "\u212any", "an\u00ff"]


def cfg_line(kind, groups, qs=None):
    toks = [kind, str(len(groups))]
    for n, rs in groups:
        if rs is None:
            toks += [n, "-1"]
            continue
        toks += [n, str(len(rs))]
        for a, b in rs:
            toks += [a, b]
    if qs is not None:
        toks.append(str(len(qs)))
        for a, b in qs:
            toks += [str(a), str(b)]
    return " ".join(toks)


def parse_cfg(t):
    ng = int(t[1])
    p = 2
    groups = []
    for _ in range(ng):
        name, nr = t[p], int(t[p + 1])
        p += 2
        if nr < 0:
            groups.append((name, None))
            continue
        rs = [(t[p + 2 * j], t[p + 2 * j + 1]) for j in range(nr)]
        p += 2 * nr
        groups.append((name, rs))
    qs = None
    if p < len(t):
        nq = int(t[p])
        qs = [(t[p + 1 + 2 * j], t[p + 2 + 2 * j]) for j in range(nq)]
    return groups, qs


NAMES = ["a", "b", "ab", "B", "aa", "b0", "a-", "z", "A", "Z", "_", "aB", "\u00e9", "a b", "10", "9", "Ab", "\u00e4",
         "residential-north-0000000000001", "residential-north-0000000000002", "residential-north-000000000000"]
# Lookup takes uint16: identifiers with bits 12-15 set (4096 + a configured VLAN, 0x8000 | vlan, 65535) must miss
QS = [(s, c) for s in list(range(8, 25)) + [0, 1, 2, 3, 4089, 4090, 4091, 4092, 4093, 4094, 4095,
                                             4096 + 10, 4096 + 12, 8192 + 11, 0x8000 + 10, 0xF000 + 4094, 65535]
      for c in (0, 1, 99, 100, 101, 102, 4093, 4094, 4095, 4096, 4096 + 100, 0x8000 + 100, 65535)]


def gen_cases(rng, tier, budget):
    L = 3 if tier == "quick" else 4
    cases = []
    # the whole code point space through both parsers, in every position (one line per kind)
    for k in RUNE_KINDS:
        cases.append("runes %s 0 %d" % (k, 0xFFFF if tier == "quick" else 0x10FFFF))
    cases.append("cfgnil %d %s" % (len(QS), " ".join("%d %d" % q for q in QS)))
    for n in range(0, L + 1):
        for t in itertools.product(ALPHA, repeat=n):
            s = "".join(t)
            cases.append("parse " + enc(s))
            cases.append("cvlan " + enc(s))
    for s in STRUCT + CV_STRUCT + WRAP:
        cases.append("parse " + enc(s))
        cases.append("cvlan " + enc(s))
    # every space class and every near-miss, in every position of both grammars
    for cp in SPACES + NEAR:
        w = chr(cp)
        for s in (w, w + "7", "7" + w, w + "7" + w, "7" + w + "-" + w + "9", w + "7" + w + "-" + w + "9" + w, "1" + w + "0",
                  "7-" + w + "9", "7" + w + "-9"):
            cases.append("parse " + enc(s))
        for s in (w, w + "5", "5" + w, w + "5" + w, w + "any" + w, "a" + w + "ny", "1" + w + "0"):
            cases.append("cvlan " + enc(s))
    nrand = 400 if tier == "quick" else 4000
    ws_pool = [""] * 6 + [chr(c) for c in SPACES] + ["  ", " \t", "\u200b", "\ufeff"]
    for _ in range(nrand):
        k = rng.randint(1, 9)
        s = "".join(rng.choice(ALPHA + ["2", "3", "5", "6", "7", "8"]) for _ in range(k))
        cases.append("parse " + enc(s))
        a, b = rng.choice([0, 1, 2, 100, 4093, 4094, 4095, 65535, 65536]), rng.choice([0, 1, 2, 100, 4094, 4095, 70000])
        ws = lambda: rng.choice(ws_pool)
        cases.append("parse " + enc("%s%d%s-%s%d%s" % (ws(), a, ws(), ws(), b, ws())))
        cases.append("parse " + enc("%s%d%s" % (ws(), a, ws())))
        anyv = "".join(rng.choice(p) for p in ("aA", "nN", "yY"))
        cases.append("cvlan " + enc(ws() + rng.choice([anyv, anyv, str(a), str(b), "x", "0%d" % a]) + ws()))
    # configurations with explicit queries
    ncfg = (budget or 300) if tier == "quick" else (budget or 6000)
    svs = ["10", "11", "12", "10-12", "11-20", "12-12", " 15 ", "20-22", "0", "x", "5000", "4094", "4090-4094",
           "21-20", "10-", "", "010", "10 - 12", "\u00a010-11\u3000", "1-2", "4093-4094", "4094-4095", "9-10"]
    cvs = ["", "any", "ANY", "100", "101", " 100", "0", "x", "4094", "4095", "1", "Any", " any ", "\tANY", " ",
           "0100", "100\u2003", "99", "102", "4093"]
    for i in range(ncfg):
        ng = rng.randint(0, 5)
        gn = rng.sample(NAMES, ng)
        groups = []
        if i % 5 == 0 and ng >= 2:
            # differently spelled but equal selectors on overlapping S-VLANs: must collide
            eq = rng.choice([["", "any", "ANY", " ", " any ", "Any"], ["100", " 100", "0100", "100\u2003"],
                             ["4094", " 4094", "04094"], ["1", "01", "1 "]])
            ov = rng.choice([["10", "10-12", "9-10", "010"], ["4094", "4093-4094", "4090-4094"], ["1-2", "1", "2"],
                             ["12", "10-12", "11-20", "12-12"]])
            for n in gn:
                groups.append((enc(n), [(enc(rng.choice(ov)), enc(rng.choice(eq)))
                                        for _ in range(rng.randint(1, 2))]))
        else:
            for n in gn:
                if rng.random() < 0.05:
                    groups.append((enc(n), None))
                    continue
                groups.append((enc(n), [(enc(rng.choice(svs)), enc(rng.choice(cvs)))
                                        for _ in range(rng.randint(0, 3))]))
        cases.append(cfg_line("cfg", groups, QS))
    # deterministic block: collisions INSIDE one group (two ranges of one group, same S-VLAN, same selector), exact and
    # wildcard, overlapping S-VLAN ranges, differently spelled equal strings; and the non-colliding neighbours
    same = []
    for sv1, sv2 in (("10", "10"), ("10-12", "12"), ("10-12", "12-14"), ("9-10", "10-11"), ("4094", "4090-4094"),
                     ("1", "1-2"), ("10", "010"), (" 10 ", "10"), ("10-12", "11"), ("10", "11")):
        for cv1, cv2 in (("", ""), ("", "any"), ("any", " ANY "), ("100", "100"), ("100", " 100"), ("100", "0100"),
                         ("4094", "4094"), ("100", "101"), ("", "100"), ("1", "01")):
            same.append([(enc("g"), [(enc(sv1), enc(cv1)), (enc(sv2), enc(cv2))])])
            if len(same) % 4 == 0:      # a clean group in front / a third range between the two
                same.append([(enc("a"), [(enc("20"), enc(""))]),
                             (enc("g"), [(enc(sv1), enc(cv1)), (enc("30"), enc("")), (enc(sv2), enc(cv2))])])
    sq = [(s_, c_) for s_ in (9, 10, 11, 12, 13, 14, 1, 2, 4090, 4094) for c_ in (0, 1, 100, 101, 4094)]
    for groups in same:
        cases.append(cfg_line("cfg", groups, sq))
    for i in range(0, len(same), 10 if tier == "quick" else 3):
        cases.append(cm_line("commit", [[(enc("z"), [(enc("50"), enc(""))])], same[i], [(enc("y"), [(enc("51"), enc(""))])]], sq[:20]))
    # consumer: l2gw trigger -> AAA request (group name + AAA policy of the pair)
    nl = 200 if tier == "quick" else 3000
    lsv = ["10", "10-12", "11", "12", "9-10", "100", "x", "4094", "10 - 11", "11-20"]
    lcv = ["", "any", "10", "20", "100", "0", "x", " 10", "ANY"]
    pols = ["", "", "P", "Q", "R", "p q"]
    lqs = [(s_, c_) for s_ in (0, 9, 10, 11, 12, 13, 20, 100, 4094) for c_ in (0, 1, 10, 20, 100)]
    for i in range(nl):
        groups = []
        for n in rng.sample(NAMES, rng.randint(1, 4)):
            # most groups are all-l2gw (the policy resolution is exercised), the rest mix access types or are retail only
            accs = ["l"] if rng.random() < 0.6 else ["l", "l", "i", "p", "ip"] if rng.random() < 0.75 else ["i", "p", "ip"]
            rs = [(enc(rng.choice(lsv)), enc(rng.choice(lcv)), enc(rng.choice(pols)), rng.choice(accs))
                  for _ in range(rng.randint(0, 4))]
            # group-level access-types [l2gw] on some groups whose ranges declare none of it themselves
            ga = "l" if rng.random() < 0.15 else "-"
            groups.append((enc(n), enc(rng.choice(pols)), ga, rs))
        cases.append(l2gw_line(groups, lqs))
        if i % 4 == 1:
            cases.append(l2gw_line(groups, lqs[::5], "gpn"))   # group.go's S-VLAN-only helpers, called
        if i % 2 == 0:
            cases.append(l2gw_line(groups, lqs, "l2fw"))
    # the configuration manager: sequences of candidates committed under concurrent lock-free lookups (-race)
    ncm = 24 if tier == "quick" else 300
    csv = ["10", "10-12", "11", "12", "9-10", "100", "4094", "11-20", "x", "5000", "10 - 11", "010"]
    ccv = ["", "any", "10", "20", "ANY", " 10", "0", "4095", "100"]
    cqs = [(s_, c_) for s_ in (0, 9, 10, 11, 12, 13, 100, 4094) for c_ in (0, 10, 20)]
    for i in range(ncm):
        cfgs = []
        for _ in range(rng.randint(2, 6)):
            groups = []
            good = rng.random() < 0.65          # mostly clean candidates, so that generations really change
            pools = [["10", "10-11", "010"], ["12", "12-13", "11-13"], ["100", " 100 "], ["4094", "9"]]
            rng.shuffle(pools)
            for gi, n in enumerate(rng.sample(NAMES, rng.randint(1, 3))):
                rs = []
                if good:                        # one S-VLAN pool per group, distinct selectors inside the group
                    sv = rng.choice(pools[gi])
                    for cv in rng.sample(["", "10", "20", " 100"], rng.randint(1, 3)):
                        rs.append((enc(sv), enc(cv)))
                else:
                    for _ in range(rng.randint(1, 3)):
                        rs.append((enc(rng.choice(csv)), enc(rng.choice(ccv))))
                groups.append((enc(n), rs))
            cfgs.append(groups)
        if i % 6 == 0:                          # a start-up file whose groups collide / carry a malformed range
            bad = [(enc("a"), [(enc("100"), enc("any"))]), (enc("b"), [(enc("100-101"), enc(""))])]
            if i % 12 == 0:
                bad = [(enc("a"), [(enc("10"), enc("10")), (enc("4095"), enc(""))])]
            cfgs[0] = bad
        # fault plan: every second sequence has commits that fail AFTER validation (handler / persist failure); the
        # session survives and is re-used for the next candidate
        fl = "".join(rng.choice("--AS") for _ in cfgs) if i % 2 == 1 else ""
        cases.append(cm_line("boot" if i % 3 == 0 else "commit", cfgs, cqs, fl))
    # deterministic: a clean candidate whose commit fails after validation, then a colliding / malformed candidate in the SAME
    # session, then a clean one (any state kept from the first attempt must not let the second through)
    cl1 = [(enc("a"), [(enc("10"), enc(""))])]
    cl2 = [(enc("b"), [(enc("11"), enc("10"))])]
    for bad in ([(enc("a"), [(enc("10"), enc("any"))]), (enc("b"), [(enc("10-11"), enc(""))])],
                [(enc("g"), [(enc("10"), enc("100")), (enc("10"), enc(" 100"))])],
                [(enc("g"), [(enc("4095"), enc(""))])]):
        for f1 in "AS":
            cases.append(cm_line("commit", [cl1, bad, cl2], cqs, f1 + "--"))
            cases.append(cm_line("commit", [cl2, cl1, bad, bad, cl2], cqs, "-" + f1 + "-" + f1 + "-"))
    # exhaustive 4096 x 4096 sweeps
    nsw = 12 if tier == "quick" else 400
    ends = [1, 2, 3, 100, 101, 255, 256, 2047, 2048, 4000, 4093, 4094]
    for i in range(nsw):
        groups = []
        for n in rng.sample(NAMES, rng.randint(1, 6)):
            rs = []
            for _ in range(rng.randint(1, 4)):
                a = rng.choice(ends + [rng.randint(1, 4094)])
                b = rng.choice(ends + [rng.randint(1, 4094), a, a, min(4094, a + rng.randint(0, 40))])
                a, b = (a, b) if (a <= b or rng.random() < 0.1) else (b, a)
                sv = rng.choice([str(a), "%d-%d" % (a, b), "%d-%d" % (a, b), " %d - %d " % (a, b), "1-4094",
                                 "%d-%d" % (a, min(4095, b + 1)) if i % 7 == 0 else "%d-%d" % (a, b)])
                cv = rng.choice(["", "any", " ANY", str(rng.choice(ends)), str(rng.choice(ends)), str(rng.randint(1, 4094)),
                                 "0", "4095"])
                rs.append((enc(sv), enc(cv)))
            groups.append((enc(n), rs))
        cases.append(cfg_line("sweep", groups))
    # dense sweeps: block b names the S-VLANs 64b..64b+63 one by one, each with a different exact C-VLAN, so that
    # over the 64 blocks (thorough) every S-VLAN value and every C-VLAN value is an exact key of some index
    blocks = list(range(64)) if tier != "quick" else rng.sample(range(64), 2)
    for b in blocks:
        rs = []
        for j in range(64):
            v = 64 * b + j
            if 1 <= v <= 4094:
                rs.append((enc(str(v)), enc(str(4095 - v))))
        groups = [(enc("d"), rs), (enc("w"), [(enc("%d-%d" % (max(1, 64 * b - 3), min(4094, 64 * b + 70))), enc("any"))])]
        cases.append(cfg_line("sweep", groups))
    return cases


def _split(o):
    return o.split(" ; ", 1) if " ; " in o else (o, "")


def _kv(s):
    return dict(x.split("=", 1) for x in s.split() if "=" in x)


def cm_line(mode, cfgs, qs, faults=None):
    faults = (faults or "-" * len(cfgs))[:len(cfgs)].ljust(len(cfgs), "-")
    toks = ["cm", mode, faults, str(len(cfgs))]
    for groups in cfgs:
        toks += cfg_line("x", groups).split()[1:]
    toks.append(str(len(qs)))
    for a, b in qs:
        toks += [str(a), str(b)]
    return " ".join(toks)


def parse_cm(t):
    k = int(t[3])
    p = 4
    cfgs = []
    for _ in range(k):
        ng = int(t[p])
        p += 1
        groups = []
        for _ in range(ng):
            name, nr = t[p], int(t[p + 1])
            p += 2
            groups.append((name, [(t[p + 2 * j], t[p + 2 * j + 1]) for j in range(nr)]))
            p += 2 * nr
        cfgs.append(groups)
    nq = int(t[p])
    qs = [(t[p + 1 + 2 * j], t[p + 2 + 2 * j]) for j in range(nq)]
    return t[1], cfgs, qs, t[2]


def l2gw_line(groups, qs, kind="l2gw"):
    toks = [kind, str(len(groups))]
    for n, gp, ga, rs in groups:
        toks += [n, gp, ga, str(len(rs))]
        for r in rs:
            toks += list(r)
    toks.append(str(len(qs)))
    for a, b in qs:
        toks += [str(a), str(b)]
    return " ".join(toks)


def parse_l2gw(t):
    ng = int(t[1])
    p = 2
    groups = []
    for _ in range(ng):
        n, gp, ga, nr = t[p], t[p + 1], t[p + 2], int(t[p + 3])
        p += 4
        rs = [tuple(t[p + 4 * j:p + 4 * j + 4]) for j in range(nr)]
        p += 4 * nr
        groups.append((n, gp, ga, rs))
    nq = int(t[p])
    qs = [(t[p + 1 + 2 * j], t[p + 2 + 2 * j]) for j in range(nq)]
    return groups, qs


def nontrivial(case, out):
    k = case.split(" ", 1)[0]
    if k == "cm":
        gens = out.split(" | ")[:-1]
        return any(g.startswith("valid:") for g in gens) and any(g.startswith(("rejected:", "failed:")) for g in gens)
    if k == "l2gw":
        r = out.split()
        return "none" in r and any(x != "none" for x in r)
    if k == "l2fw":
        r = out.split()
        return "no" in r and "fwd" in r
    if k in ("cfg", "cfgnil"):
        r = _split(out)[1].split()
        return "none" in r and any(x != "none" for x in r)
    if k == "sweep":
        h = int(_kv(_split(out)[1]).get("hits", "0") or 0)
        return 0 < h < 4096 * 4096
    if k == "runes":
        return out != "nothing"
    return out != "err"


def classify(case, impl, model):
    k = case.split(" ", 1)[0]
    if k == "cm":
        a, b = impl.split(" | "), model.split(" | ")
        if a[-1] != "conc=ok":
            return "P", ("a concurrent LookupSubscriberGroup returned an answer that no single published generation gives "
                         "(or went back to an older generation): %s" % a[-1])
        d = [i for i, (x, y) in enumerate(zip(a, b)) if x != y]
        if d and a[d[0]].split(":")[0] == b[d[0]].split(":")[0] and a[d[0]].split(":")[1:2] != b[d[0]].split(":")[1:2]:
            return "P", ("configuration manager: candidate #%d is %s but its handlers were %s (model %s): a rejected candidate "
                         "must not reach any handler, rejected BEFORE commit" % (
                             d[0], a[d[0]].split(":")[0], a[d[0]].split(":")[1], b[d[0]].split(":")[1]))
        if d and a[d[0]].split(":")[0] != b[d[0]].split(":")[0]:
            return "P", ("configuration manager: candidate #%d is %s, the property says %s (colliding / malformed candidates "
                         "are rejected before they are published)" % (d[0], a[d[0]].split(":")[0], b[d[0]].split(":")[0]))
        return "P", "configuration manager: lookups after candidate #%s differ from the model: impl=%r model=%r" % (
            d[:1], [a[i] for i in d[:1]], [b[i] for i in d[:1]])
    if k == "gpn":
        return "G", ("group.go GetPolicyName / FindVLANConfig / MatchesSVLAN differ from the model of the S-VLAN-only rescan "
                     "(no production caller since /repo 60d937f): impl=%r model=%r" % (impl[:200], model[:200]))
    if k == "l2fw":
        a, b = impl.split(), model.split()
        d = [i for i, (x, y) in enumerate(zip(a, b)) if x != y]
        return "P", ("ipoe hands a pair to l2gw (or keeps it) against the access-types of the group the pair is classified "
                     "to, query #%s: impl=%s model=%s" % (d[:3], [a[i] for i in d[:3]], [b[i] for i in d[:3]]))
    if k == "l2gw":
        a, b = impl.split(), model.split()
        d = [i for i, (x, y) in enumerate(zip(a, b)) if x != y]
        return "P", ("l2gw trigger authenticates a pair with a group / AAA policy other than that of the range the pair is "
                     "classified to, query #%s: impl=%s model=%s" % (d[:3], [a[i] for i in d[:3]], [b[i] for i in d[:3]]))
    if k in ("cfg", "cfgnil"):
        iv, ir = _split(impl)
        mv, mr = _split(model)
        if ir != mr:
            d = [i for i, (x, y) in enumerate(zip(ir.split(), mr.split())) if x != y]
            return "P", "Lookup disagrees with the reference scan at query #%s: impl=%s model=%s" % (
                d[:3], [ir.split()[i] for i in d[:3]], [mr.split()[i] for i in d[:3]])
        if iv != mv:
            return "P", "ValidateMatchIndex verdict differs: impl=%r model=%r" % (iv, mv)
        return "G", "lines differ outside the compared observables: impl=%r model=%r" % (impl, model)
    if k == "sweep":
        iv, ir = _split(impl)
        mv, mr = _split(model)
        ik, mk = _kv(ir), _kv(mr)
        if ik.get("high", "ok") != "ok":
            return "P", ("exhaustive sweep: Lookup matches an identifier above 4095 (svlan:cvlan %s): bits 12-15 of a key "
                         "component are ignored (impl %s)" % (ik.get("high"), ir))
        if ik.get("diff", "?") != "none":
            return "P", ("exhaustive sweep: Lookup differs from the quadratic reference scan at "
                         "svlan:cvlan %s (impl %s, model %s)" % (ik.get("diff"), ir, mr))
        if ik.get("md5") != mk.get("md5"):
            return "P", "exhaustive sweep: digest of the 4096x4096 classification table differs: impl=%r model=%r" % (ir, mr)
        if iv != mv:
            return "P", "ValidateMatchIndex verdict differs: impl=%r model=%r" % (iv, mv)
        return "G", "lines differ outside the compared observables: impl=%r model=%r" % (impl, model)
    if k == "runes":
        a, b = set(impl.split(",")), set(model.split(","))
        return "P", "parsers treat code points differently (runes %s): only impl %s, only model %s" % (
            case.split()[1], sorted(a - b)[:4], sorted(b - a)[:4])
    return "P", "parser accepts/rejects differently: impl=%r model=%r" % (impl, model)


def shrink(case):
    t = case.split()
    if t[0] in ("parse", "cvlan"):
        cps = [] if t[1] == "e" else t[1].split(".")
        for i in range(len(cps)):
            r = cps[:i] + cps[i + 1:]
            yield t[0] + " " + (".".join(r) if r else "e")
        return
    if t[0] == "runes":
        lo, hi = int(t[2]), int(t[3])
        if hi > lo:
            mid = (lo + hi) // 2
            yield "runes %s %d %d" % (t[1], lo, mid)
            yield "runes %s %d %d" % (t[1], mid + 1, hi)
        return
    if t[0] == "cfgnil":
        return
    if t[0] == "cm":
        mode, cfgs, qs, fl = parse_cm(t)
        for i in range(len(cfgs)):
            if len(cfgs) > 1:
                yield cm_line(mode, cfgs[:i] + cfgs[i + 1:], qs, fl[:i] + fl[i + 1:])
        if set(fl) != {"-"}:
            yield cm_line(mode, cfgs, qs)
        for i, groups in enumerate(cfgs):
            for j in range(len(groups)):
                yield cm_line(mode, cfgs[:i] + [groups[:j] + groups[j + 1:]] + cfgs[i + 1:], qs, fl)
        if len(qs) > 1:
            yield cm_line(mode, cfgs, qs[:len(qs) // 2], fl)
            yield cm_line(mode, cfgs, qs[len(qs) // 2:], fl)
        return
    if t[0] in ("l2gw", "l2fw", "gpn"):
        groups, qs = parse_l2gw(t)
        for i in range(len(groups)):
            yield l2gw_line(groups[:i] + groups[i + 1:], qs, t[0])
        for i, (n, gp, ga, rs) in enumerate(groups):
            for j in range(len(rs)):
                yield l2gw_line(groups[:i] + [(n, gp, ga, rs[:j] + rs[j + 1:])] + groups[i + 1:], qs, t[0])
        if len(qs) > 1:
            yield l2gw_line(groups, qs[:len(qs) // 2], t[0])
            yield l2gw_line(groups, qs[len(qs) // 2:], t[0])
            for i in range(len(qs)):
                yield l2gw_line(groups, [qs[i]], t[0])
        return
    groups, qs = parse_cfg(t)
    for i in range(len(groups)):
        yield cfg_line(t[0], groups[:i] + groups[i + 1:], qs)
    for i, (n, rs) in enumerate(groups):
        if rs and len(rs) > 4:      # long range lists (dense sweeps): halves first
            h = len(rs) // 2
            yield cfg_line(t[0], groups[:i] + [(n, rs[:h])] + groups[i + 1:], qs)
            yield cfg_line(t[0], groups[:i] + [(n, rs[h:])] + groups[i + 1:], qs)
    for i, (n, rs) in enumerate(groups):
        for j in range(len(rs or [])):
            yield cfg_line(t[0], groups[:i] + [(n, rs[:j] + rs[j + 1:])] + groups[i + 1:], qs)
    if qs and len(qs) > 1:
        yield cfg_line(t[0], groups, qs[:len(qs) // 2])
        yield cfg_line(t[0], groups, qs[len(qs) // 2:])
        for i in range(len(qs)):
            yield cfg_line(t[0], groups, [qs[i]])


def distribution(cases, impl):
    d = {"parse": 0, "parse_ok": 0, "cvlan": 0, "cvlan_ok": 0, "cfg": 0, "cfg_rejected": 0, "lookup_hits": 0,
         "lookup_misses": 0, "cfgnil": 0, "sweep": 0, "sweep_pairs": 0, "sweep_hits": 0, "sweep_rejected": 0,
         "sweep_rowruns_max": 0, "runes": 0, "runes_code_points": 0, "l2gw": 0, "l2gw_requests": 0, "l2gw_no_request": 0,
         "l2gw_range_policy": 0, "l2gw_group_policy_or_none": 0, "l2gw_mixed_access_groups": 0, "l2gw_group_level_access": 0, "gpn": 0, "l2fw": 0, "l2fw_fwd": 0,
         "l2fw_no": 0, "cm": 0, "cm_boot": 0, "cm_candidates": 0, "cm_published": 0, "cm_rejected": 0,
         "cm_boot_rejected": 0, "cm_rejected_without_handler_call": 0, "cm_failed_after_validation": 0, "cm_rejected_in_reused_session": 0, "cfg_same_group_collision": 0}
    seen = set()
    for c, o in zip(cases, impl):
        k = c.split(" ", 1)[0]
        d[k] += 1
        if k == "gpn":
            continue
        if k == "cm":
            gens = o.split(" | ")[:-1]
            d["cm_boot"] += c.split()[1] == "boot"
            d["cm_candidates"] += len(gens)
            d["cm_published"] += sum(g.startswith("valid:") for g in gens)
            d["cm_rejected"] += sum(g.startswith("rejected:") for g in gens)
            d["cm_rejected_without_handler_call"] += sum(g.startswith("rejected:h0:") for g in gens)
            d["cm_failed_after_validation"] += sum(g.startswith("failed:") for g in gens)
            d["cm_rejected_in_reused_session"] += sum(1 for x, y in zip(gens, gens[1:])
                                                     if x.startswith("failed:") and y.startswith("rejected:"))
            d["cm_boot_rejected"] += c.split()[1] == "boot" and gens[0].startswith("rejected:")
        elif k == "l2fw":
            r = o.split()
            d["l2fw_fwd"] += r.count("fwd")
            d["l2fw_no"] += r.count("no")
        elif k == "l2gw":
            r = o.split()
            d["l2gw_mixed_access_groups"] += sum(1 for g in parse_l2gw(c.split())[0] if len({x[3] == "l" for x in g[3]}) > 1)
            d["l2gw_no_request"] += r.count("none")
            d["l2gw_requests"] += len(r) - r.count("none")
            gp = {g[0]: g[1] for g in parse_l2gw(c.split())[0]}
            d["l2gw_group_level_access"] += sum(1 for g in parse_l2gw(c.split())[0] if g[2] == "l")
            for x in r:
                if ":" in x:
                    n, pol = x.split(":")
                    d["l2gw_range_policy" if pol != gp.get(n) else "l2gw_group_policy_or_none"] += 1
        elif k in ("cfg", "cfgnil"):
            v, r = _split(o)
            if k == "cfg" and v.startswith("rejected") and c.split()[1] == "1":
                d["cfg_same_group_collision"] += 1
            d["cfg_rejected"] += v.startswith("rejected")
            r = r.split()
            d["lookup_misses"] += r.count("none")
            d["lookup_hits"] += len(r) - r.count("none")
        elif k == "sweep":
            v, r = _split(o)
            kv = _kv(r)
            d["sweep_rejected"] += v.startswith("rejected")
            d["sweep_pairs"] += 4096 * 4096
            d["sweep_hits"] += int(kv.get("hits", 0))
            d["sweep_rowruns_max"] = max(d["sweep_rowruns_max"], int(kv.get("rowruns", 0)))
        elif k == "runes":
            t = c.split()
            d["runes_code_points"] += int(t[3]) - int(t[2]) + 1
        else:
            if o != "err":
                d[k + "_ok"] += 1
            tok = c.split()[1]
            if tok != "e":
                seen.update(int(x) for x in tok.split("."))
    d["space_code_points_in_string_cases"] = "%d/%d" % (len(seen & set(SPACES)), len(SPACES))
    d["near_miss_code_points_in_string_cases"] = "%d/%d" % (len(seen & set(NEAR)), len(NEAR))
    return d
