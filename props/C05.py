"""C05 — PPP option negotiation follows the RFC 1661 automaton (pkg/ppp/fsm.go + lcp/ipcp/ipv6cp handlers)."""
import itertools

ID = "C05"
_FILES = [("pkg/ppp/zz_verif_c05_test.go", "harness/C05/zz_verif_c05_test.go")]
HARNESSES = [dict(name="ppp", pkg="./pkg/ppp/", test="TestVerifC05", timeout=900, files=_FILES),
             # the forced-overlap (two goroutine) cases run under the race detector
             dict(name="ppp_race", pkg="./pkg/ppp/", test="TestVerifC05", timeout=900, files=_FILES, race=True),
             # the caller: Dispatcher.HandleFrame with a real LCP/IPCP/IPv6CP behind it (package pppdisp)
             dict(name="disp", pkg="./internal/ppp/", test="TestVerifC05D", timeout=900,
                  files=[("internal/ppp/zz_verif_c05_disp_test.go", "harness/C05/zz_verif_c05_disp_test.go")]),
             # the session layer: a real internal/pppoe SessionState (package pppoe)
             dict(name="sess", pkg="./internal/pppoe/", test="TestVerifC05S", timeout=900,
                  files=[("internal/pppoe/zz_verif_c05_sess_test.go", "harness/C05/zz_verif_c05_sess_test.go")]),
             # the other owner of the automata: an internal/l2tp LNS session (package l2tp)
             dict(name="lns", pkg="./internal/l2tp/", test="TestVerifC05L", timeout=900,
                  files=[("internal/l2tp/zz_verif_c05_lns_test.go", "harness/C05/zz_verif_c05_lns_test.go")])]


def route(case):
    if (case.split() or [""])[0] == "disp":
        return "disp"
    if (case.split() or [""])[0] in ("sess", "lns"):
        return (case.split() or [""])[0]
    return "ppp_race" if case.startswith("conc ") else "ppp"



# Every finding of this property is fixed in /repo (d6fc4b1, 488e192, fe05ccf, bbcb995): the model has one variant,
# what /repo HEAD does; a regression to any of the old defects is a VIOLATION.
# Every finding of this property is fixed in /repo (d6fc4b1, 488e192, fe05ccf, bbcb995, 1b41d89, c99b5bd): one model
# variant, what /repo HEAD does; a regression to any old defect is a VIOLATION.
VARIANTS = ["repaired"]
# Which Identifiers the originated packets carry is a choice the property leaves free: the model driver reads them
# (start value id0 and the Identifier of every scr/str/scj) from the implementation's line, runs with that policy and
# checks it is admissible (INADMISSIBLE:<why> otherwise).
MODEL_NEEDS_IMPL = True
RULE = ("One case = one whole event history applied to a fresh FSM (kinds fsm / ncp: mock option handler whose answer "
        "class good/nak/rej/both/malformed is chosen per Configure-Request, protocol LCP / IPCP; kinds lcp/ipcp/ipv6cp: "
        "the real handlers with payloads of known class), restart timer fired only by the explicit T event. Exhaustive part: ~30 canonical "
        "prefixes per configuration (maxConf/maxTerm in {default 10/2, 2/1, 0/0, 1/2, 3/0}) reaching every state with "
        "restart counter zero / positive, each followed by every event of an 81-event alphabet (5 administrative events, "
        "timer, codes 0-14 and 255 x identifier current/next/previous/fixed x answer class x data length) and, for two "
        "configurations, by every pair of events from a 22-event alphabet; all sequences of length <= 3 (thorough: 4) "
        "from Initial; random weighted walks of length 60 (thorough 80). The Identifiers of originated packets (start value and policy) are the "
        "implementation's choice: read from its output and checked with the extracted Gallina predicate Adm.adm_item (no "
        "Configure-Request Identifier repeated within the last 255 originated packets; every case kind). Compared exactly after every event: state, "
        "restartCount, timer armed, lastReqID, failCount (the internal Identifier counter f.id is NOT compared), and the list of sends (code, id, payload class) and "
        "layer callbacks, the CONTENT of every Configure-Request sent (predicted from the model of the real handlers' "
        "BuildConfReq over the handler-call log) and every call the FSM makes into the option handler "
        "(ProcessConfReq/Ack/Nak/Rej with its options). Configure-Ack/Nak/Reject carry options the real handlers react "
        "to (auth protocol, MRU, magic, addresses, DNS, interface-id), with current and stale identifiers, followed by "
        "events that make the FSM send a new Configure-Request. Kind conc (forced overlap, run with -race): after a "
        "canonical prefix, event A runs on one goroutine and is parked inside its first notification (or send) "
        "callback by a gate; event B is injected from a second goroutine; the recorded stream and final state must be "
        "those of the sequential history A;B (events are atomic), tlu/tld must alternate and an acknowledged "
        "Terminate-Request must leave Opened; 'B is waiting for A' is a handshake on the FSM mutex (waiter count of the "
        "mutex state word, self-tested against a goroutine dump), not a timeout, and the mutex is probed with TryLock "
        "while A is parked. Timer expiry (T) is never emulated: the real time.Timer (armed for 10 h) is fired with "
        "Reset(0) while the harness holds the FSM mutex, so the production callback closure runs with the generation "
        "it captured; X fires the most recently dropped timer object (superseded generation), conc op F fires the "
        "timer that was pending before A while A is parked; Y is the exported Timeout(). Restore() and Kill() are driven as extra ops R / K in every canonical state "
        "and inside random walks. Kind disp: the caller internal/ppp Dispatcher.HandleFrame with a real LCP/IPCP/IPv6CP "
        "behind it (7 prefixes x 8 phases x 8 protocol numbers x 25 frames, Length-field and truncation variants, raw "
        "short frames, random walks); compared per operation: the three states, tagged sends/callbacks, host "
        "callbacks, error class. Kind sess: a real internal/pppoe SessionState (created by a PADR) driven by frames through "
        "handlePPP, the AAA verdict, Timeout/Close/terminate; compared per operation: phase, the three automaton states, "
        "ipcpOpen/ipv6cpOpen/linkEnded and the egress stream. Kind lns: the same histories on a real internal/l2tp LNS "
        "Session (the other owner of the automata). Non-trivial: the history produced at least one send or callback. "
        "Distinct: by case text. The distribution records how many (state, RFC event class) cells of the 10x17 table "
        "were exercised and how many conc cases really overlapped.")
TRUSTED = ["the option handler is abstracted to the class of its answer (good/nak/rej/both) for the automaton; "
           "option contents are property C06",
           "timer expiry is the explicit event T (= consume the pending timer, run Timeout()); the real time.AfterFunc "
           "path is exercised by the 'late' cases only"]
ASSUMPTIONS = ["maxConf >= 0 and maxTerm >= 0 (NewFSM fixes them at 10 and 2)",
               "events are serialized by the FSM mutex: each event is one atomic [step] of the model; tied to the code by "
               "the forced-overlap cases (a second goroutine's event must wait while the first is inside a callback)",
               "no callback re-enters the FSM"]

# T = production timer callback timerFired with the current generation; X = with a superseded generation;
# Y = exported Timeout() (no production caller; unguarded)
ADMIN = ["U", "D", "O", "C", "T", "X", "Y"]
E_FULL = (ADMIN +
          ["I1.%s.%s.0" % (i, c) for i in ("7", "255") for c in "gnrbm"] +
          ["I%d.%s.%s.0" % (k, i, c) for k in (2, 3, 4) for i in "csp" for c in "gnrbm"] +
          # domain: stale Identifiers differing from the current one in exactly one bit, each bit in turn; peer / reply
          # Identifiers with every bit position set; packets longer than 255 bytes (two-byte Length field)
          ["I%d.x%d.b.0" % (k, 1 << b) for k in (2, 3, 4) for b in range(8)] +
          ["I1.%d.g.0" % i for i in (0, 1, 2, 4, 8, 16, 32, 64, 128)] +
          ["I5.%d.g.0" % i for i in (0, 128, 200, 255)] + ["I9.%d.g.4" % i for i in (0, 129, 254)] +
          ["I12.%d.g.%d" % (i, n) for i, n in ((0, 0), (170, 251), (85, 252), (255, 300), (16, 1496))] +
          ["I9.9.g.300", "I7.9.g.400"] +
          ["I5.9.g.0", "I5.c.g.0", "I6.9.g.0", "I6.c.g.0", "I7.9.g.0", "I7.c.g.6", "I8.9.g.0", "I8.9.g.4",
           "I9.9.g.0", "I9.9.g.3", "I9.9.g.4", "I9.c.g.8", "I10.9.g.0", "I10.9.g.4", "I11.9.g.0", "I11.9.g.4",
           "I0.9.g.0", "I12.9.g.3", "I13.3.g.0", "I255.c.g.8", "I14.0.g.1"])
E_RED = ADMIN + ["I1.7.g.0", "I1.7.n.0", "I1.7.r.0", "I1.7.m.0", "I2.c.g.0", "I2.s.g.0", "I3.c.g.0", "I3.s.n.0",
                 "I4.c.g.0", "I4.p.g.0", "I5.9.g.0", "I6.9.g.0", "I7.9.g.0", "I8.9.g.0", "I9.9.g.4", "I10.9.g.4", "I12.9.g.2"]
RCRP, RCA, RXJ, RTR = "I1.7.g.0", "I2.c.g.0", "I7.9.g.0", "I5.9.g.0"
CONFIGS = [("d", "d"), ("2", "1"), ("0", "0"), ("1", "2"), ("3", "0")]
STATES = ["Initial", "Starting", "Closed", "Stopped", "Closing", "Stopping", "ReqSent", "AckRcvd", "AckSent", "Opened"]


def prefixes(mc, mt):
    """canonical histories reaching every state with the restart counter zero / positive"""
    c = 10 if mc == "d" else int(mc)
    t = 2 if mt == "d" else int(mt)
    ks = lambda m: sorted(set([0, 1, m] if m >= 1 else [0]))
    P = [[], ["O"], ["U"], ["U", "O", "C"] + ["T"] * (t + 1), ["O", "U"] + ["T"] * (c + 1), ["O", "U", RXJ]]
    P += [["O", "U", "C"] + ["T"] * k for k in ks(t)]
    P += [["O", "U", RCRP, RCA, RXJ] + ["T"] * k for k in ks(t)]
    P += [["O", "U", RCRP, RCA, RTR]]
    P += [["O", "U"] + ["T"] * k for k in ks(c)]
    P += [["O", "U", RCA], ["O", "U"] + ["T"] * c + [RCA]]
    P += [["O", "U", RCRP] + ["T"] * k for k in ks(c)]
    P += [["O", "U", RCRP] + ["T"] * k + [RCA] for k in ks(c)]
    P += [["O", "U", RCA, RCRP], ["O", "U", RCRP, RCA, RTR, "I6.9.g.0"], ["O", "U", RCRP, RCA, "D"],
          ["O", "U", RCRP, RCA, "C", "O"]]
    out, seen = [], set()
    for p in P:
        k = " ".join(p)
        if k not in seen:
            seen.add(k)
            out.append(p)
    return out


# Configure-Request payloads by (kind, answer class); the mock handler reads the class off the first option type
_MOCK_REQ = {"g": "010405d4050601020304", "n": "2102010405d4", "r": "2202010405d4", "b": "2302", "m": "0100"}
RCR_DATA = {
    "fsm": _MOCK_REQ, "ncp": _MOCK_REQ, "conc": _MOCK_REQ, "late": _MOCK_REQ,
    "lcp": {"g": "010405d4050609090909", "n": "01040020", "r": "0702", "b": "010400200702", "m": "0100"},
    "ipcp": {"g": "03060a000002", "n": "03060a000009", "r": "0206002d0f01", "b": "03060a0000090206002d0f01", "m": "0100"},
    "ipv6cp": {"g": "010a0200000000000007", "n": "010a0000000000000000", "r": "0202",
               "b": "010a00000000000000000202", "m": "0100"},
}
# Configure-Ack/Nak/Reject payloads: three option lists the handler of that kind reacts to (selected by the letter in
# the class field: g n r), b = empty, m = malformed
_MOCK_ACK = {"g": "010405d4", "n": "0304c023", "r": "050601020304", "b": "", "m": "0101"}
ACK_DATA = {
    "fsm": _MOCK_ACK, "ncp": _MOCK_ACK, "conc": _MOCK_ACK, "late": _MOCK_ACK,
    "lcp": {"g": "0305c22305", "n": "0304c023", "r": "010405780506aabbccdd", "b": "", "m": "0101"},
    "ipcp": {"g": "03060a000063", "n": "81060a0a0a0a83060b0b0b0b", "r": "03060a000001", "b": "", "m": "0101"},
    "ipv6cp": {"g": "010a02000000000000aa", "n": "010a0200000000000001", "r": "0202", "b": "", "m": "0101"},
}


def expand(kind, op):
    """abstract op token -> concrete token with explicit packet data"""
    if op[0] != "I":
        return op
    p = op[1:].split(".")
    if len(p) == 5:
        return op
    code = int(p[0])
    if code == 1:
        return op + "." + RCR_DATA[kind][p[2]]
    if code in (2, 3, 4):
        d = ACK_DATA[kind][p[2]]
        return op + "." + d if d else op
    return op


def mk(kind, cfg, ops):
    return " ".join([kind, cfg[0], cfg[1]] + [expand(kind, o) for o in ops])


WEIGHTED = ([("U", 3), ("D", 1), ("O", 3), ("C", 1), ("T", 5), ("X", 1), ("Y", 1), ("I1.7.g.0", 4), ("I1.9.n.0", 2), ("I1.7.r.0", 1),
             ("I1.8.b.0", 1), ("I1.7.m.0", 1), ("I2.c.b.0", 4), ("I2.c.r.0", 1), ("I2.s.g.0", 1), ("I2.p.m.0", 1),
             ("I3.c.b.0", 1), ("I3.c.n.0", 1), ("I3.c.r.0", 1), ("I3.s.n.0", 1), ("I3.p.g.0", 1), ("I4.c.g.0", 1),
             ("I4.c.r.0", 1), ("I4.p.g.0", 1), ("I4.s.n.0", 1), ("I2.x128.b.0", 1), ("I2.x16.b.0", 1), ("I3.x64.b.0", 1),
             ("I4.x2.b.0", 1), ("I12.77.g.300", 1), ("I5.200.g.0", 1), ("I1.131.g.0", 1), ("I5.9.g.0", 1), ("I6.9.g.0", 1), ("I7.9.g.0", 1),
             ("I8.9.g.0", 1), ("I9.9.g.4", 2), ("I9.9.g.2", 1), ("I10.9.g.4", 1), ("I11.9.g.0", 1), ("I12.9.g.2", 1),
             ("I200.c.g.0", 1)])
WPOP = [w[0] for w in WEIGHTED]
WW = [w[1] for w in WEIGHTED]


def rand_walk(rng, n):
    ops = rng.choices(WPOP, WW, k=n)
    for i, o in enumerate(ops):
        if o[0] == "I" and rng.random() < 0.05:
            p = o[1:].split(".")
            p[1] = str(rng.randrange(256))
            ops[i] = "I" + ".".join(p)
    return ops


# ---- the dispatcher (kind disp) ----
DPROTO = {"L": "c021", "I": "8021", "V": "8057"}
DKIND = {"L": "lcp", "I": "ipcp", "V": "ipv6cp"}


def dframe(ph, proto, code, idv, cls="g", data="-", declen="a", extra="-"):
    return "F%d.%s.%d.%s.%s.%s.%s.%s" % (ph, proto, code, idv, cls, data or "-", declen, extra)


def dreq(ph, t, cls="g", idv="7"):
    return dframe(ph, DPROTO[t], 1, idv, cls, RCR_DATA[DKIND[t]][cls])


def gen_disp(rng, quick):
    up = lambda t: ["A%sU" % t, "A%sO" % t]
    opened = lambda t, ph: up(t) + [dreq(ph, t), dframe(ph, DPROTO[t], 2, "c")]
    prefixes = [[], up("L"), opened("L", 1), opened("L", 1) + up("I") + up("V"),
                opened("L", 1) + opened("I", 3) + opened("V", 3),
                opened("L", 1) + up("I") + [dreq(3, "I")], opened("L", 1) + opened("V", 3) + ["AVD"]]
    protos = ["c021", "c023", "c223", "8021", "8057", "0057", "0021", "1234"]
    frames = []
    for proto in protos:
        kind = {"c021": "lcp", "8021": "ipcp", "8057": "ipv6cp"}.get(proto, "lcp")
        frames += [("1", "7", c, RCR_DATA[kind][c]) for c in "gnrm"]
        frames += [(str(k), i, "g", "") for k in (2, 3, 4) for i in ("c", "s")]
        frames += [("5", "200", "g", ""), ("6", "129", "g", ""), ("7", "9", "g", "01010004"), ("8", "9", "g", ""),
                   ("8", "9", "g", "80"), ("8", "9", "g", "8021"), ("8", "9", "g", "80570102"), ("9", "9", "g", ""),
                   ("9", "9", "g", "01020304"), ("9", "9", "g", "0102030405"), ("10", "250", "g", "01020304"),
                   ("11", "9", "g", "01020304"), ("12", "9", "g", "aa"), ("0", "9", "g", ""), ("255", "9", "g", "")]
    cases = []
    nph = range(8)
    for p in prefixes:
        for ph in nph:
            for proto in protos:
                kind = {"c021": "lcp", "8021": "ipcp", "8057": "ipv6cp"}.get(proto, "lcp")
                fr = [("1", "7", c, RCR_DATA[kind][c]) for c in "gnrm"]
                fr += [(str(k), i, "g", "") for k in (2, 3, 4) for i in ("c", "s")]
                fr += [("5", "200", "g", ""), ("6", "129", "g", ""), ("7", "9", "g", "01010004"), ("8", "9", "g", ""),
                       ("8", "9", "g", "80"), ("8", "9", "g", "8021"), ("8", "9", "g", "80570102"),
                       ("9", "9", "g", ""), ("9", "9", "g", "01020304"), ("9", "9", "g", "0102030405"),
                       ("10", "250", "g", "01020304"), ("11", "9", "g", "01020304"), ("12", "9", "g", "aa"),
                       ("0", "9", "g", ""), ("255", "9", "g", "")]
                if quick and ph in (0, 5, 6, 7) and proto in ("c023", "c223", "0021", "1234"):
                    fr = fr[:6]
                ops = [dframe(ph, proto, int(c), i, cl, d) for c, i, cl, d in fr]
                # one history per (prefix, phase, protocol): every frame in turn, then a timeout-free probe
                cases.append(" ".join(["disp"] + p + ops))
                for o in ops[:: (3 if quick else 1)]:
                    cases.append(" ".join(["disp"] + p + [o, dframe(3, "c021", 5, "9")]))
    # Length field / truncation / trailing bytes, raw short frames
    for p in prefixes[1:5]:
        for proto in ("c021", "8021", "8057", "c023", "0057", "1234"):
            ops = []
            for data in ("", "01040578", "010405780506aabbccdd"):
                n = 4 + len(data) // 2
                for dl in sorted({0, 1, 3, 4, 5, n - 1, n, n + 1, 255, 65535}):
                    for extra in ("-", "ffee"):
                        for code in (5, 9, 12):     # data is echoed / counted / ignored, never parsed as options
                            ops.append(dframe(3, proto, code, "7", "g", data, str(dl), extra))
            big = "ab" * 300                      # > 255 bytes: both bytes of the Length field matter
            for code in (9, 12):
                ops.append(dframe(3, proto, code, "131", "g", big))
                ops.append(dframe(3, proto, code, "131", "g", big, "260", "-"))
            for raw in ("-", "01", "0107", "010700", "01070004", "0107000400", "09090008deadbeef"):
                ops.append("S3.%s.%s" % (proto, raw))
            # a truncated Configure-Request may parse differently: class of the cut option list
            cases.append(" ".join(["disp"] + p + ops))
    # random walks over frames and administrative calls
    pool = ([dreq(ph, t, c) for ph in (1, 3, 4) for t in "LIV" for c in "gnr"] +
            [dframe(ph, DPROTO[t], k, i) for ph in (1, 3) for t in "LIV" for k in (2, 3, 4) for i in ("c", "s")] +
            [dframe(ph, DPROTO[t], k, "9", "g", d) for ph in (2, 3) for t in "LIV"
             for k, d in ((5, ""), (6, ""), (7, "01010004"), (8, "8021"), (9, "01020304"), (10, "01020304"), (11, ""), (12, "aa"))] +
            ["A%s%s" % (t, e) for t in "LIV" for e in "UODC"] * 2 +
            [dframe(3, "c023", 1, "1", "g", "0102"), dframe(3, "0057", 96, "0", "g", "00000000"), "S3.8021.0107"])
    for _ in range(300 if quick else 3000):
        cases.append(" ".join(["disp"] + rng.choices(pool, k=40)))
    return cases


# ---- the session layer (kind sess) ----
SREQ = {"L": {"g": "010405d4050609090909", "n": "01040020", "r": "0702"},
        "I": {"g": "03060a370002", "n": "03060a370009", "r": "0206002d0f01"},
        "V": {"g": "010a0200000000000007", "n": "010a0000000000000000", "r": "0202"}}


def sframe(t, code, idv, cls="g", data="-"):
    return "F%s.%d.%s.%s.%s" % (DPROTO[t], code, idv, cls, data or "-")


def sreq(t, cls="g", idv="7"):
    return sframe(t, 1, idv, cls, SREQ[t][cls])


def gen_sess(rng, quick):
    lcp_up = ["UP", sreq("L"), sframe("L", 2, "c")]
    ncp_up = lambda t: [sreq(t), sframe(t, 2, "c")]
    prefixes = [["UP"], ["UP", sreq("L")], lcp_up, lcp_up + ["AUTH+"], lcp_up + ["AUTH+"] + ncp_up("I"),
                lcp_up + ["AUTH+"] + ncp_up("V"), lcp_up + ["AUTH+"] + ncp_up("I") + ncp_up("V"),
                lcp_up + ["AUTH-"], lcp_up + ["AUTH+"] + ncp_up("I") + [sreq("L")],
                lcp_up + ["AUTH+"] + ncp_up("I") + [sframe("L", 5, "9")], lcp_up + ["AUTH+", "CLOSE"]]
    events = (["AUTH+", "AUTH-", "TL", "TI", "TV", "CLOSE", "TERM"] +
              [sreq(t, c) for t in "LIV" for c in "gnr"] +
              [sframe(t, k, i) for t in "LIV" for k in (2, 3, 4) for i in ("c", "s")] +
              [sframe(t, 5, "9") for t in "LIV"] + [sframe(t, 6, "9") for t in "LIV"] +
              [sframe(t, 7, "9", "g", "01010004") for t in "LIV"] +
              [sframe("L", 9, "5", "g", d) for d in ("", "0102", "01020304", "01020304aabb")] +
              [sframe("L", 9, "250", "g", "01020304" + "cd" * 300), sframe("I", 5, "200"), sframe("V", 12, "129", "g", "ee" * 260)] +
              [sframe("L", 10, "5", "g", "01020304"), sframe("L", 11, "5", "g", ""), sframe("L", 12, "5", "g", "aa"),
               sframe("L", 8, "5", "g", "8021"), sframe("L", 8, "5", "g", "8057"), sframe("L", 8, "5", "g", "c021"),
               sframe("L", 8, "5", "g", "80"), sframe("I", 9, "5", "g", "01020304"), "F1234.1.1.g.aabb"])
    echo = sframe("L", 9, "6", "g", "05060708cc")
    cases = []
    for pool in ("1", "0"):
        for p in prefixes:
            for e in events:
                cases.append(" ".join(["sess", pool] + p + [e, echo, "TL"]))
            if quick and pool == "0":
                continue
            for e1 in events[::2]:
                for e2 in events[1::3]:
                    cases.append(" ".join(["sess", pool] + p + [e1, e2, echo]))
    for _ in range(300 if quick else 3000):
        w = ["UP"] + rng.choices(events + lcp_up[1:] * 3 + ["AUTH+"] * 3 + ncp_up("I") * 2 + ncp_up("V") * 2 + [echo] * 2, k=30)
        cases.append(" ".join(["sess", rng.choice("10")] + w))
    return cases


def gen_cases(rng, tier, budget):
    quick = tier != "thorough"
    cases = []
    # 1. every canonical prefix x every event (all configurations)
    for cfg in CONFIGS:
        for p in prefixes(*cfg):
            for e in E_FULL:
                cases.append(mk("fsm", cfg, p + [e]))
    # 2. every pair of consecutive transitions after a canonical prefix
    for cfg in (CONFIGS[1:3] if quick else CONFIGS):
        for p in prefixes(*cfg):
            for e1 in E_RED:
                for e2 in E_RED:
                    cases.append(mk("fsm", cfg, p + [e1, e2]))
    if not quick:
        for p in prefixes("2", "1"):
            for t3 in itertools.product(E_RED, repeat=3):
                cases.append(mk("fsm", ("2", "1"), p + list(t3)))
    # 3. every sequence of length <= L from Initial
    L = 3 if quick else 4
    for n in range(1, L + 1):
        for t in itertools.product(E_RED, repeat=n):
            cases.append(mk("fsm", ("1", "1"), t))
    # 4. random weighted walks
    nrand = (budget or 2000) if quick else (budget or 20000)
    ln = 60 if quick else 80
    for _ in range(nrand):
        cases.append(mk("fsm", rng.choice(CONFIGS + [("1", "1"), ("2", "2")]), rand_walk(rng, ln)))
    # 5. the real handlers (glue): prefix x event, and random walks; id wrap-around walk
    for kind in ("ncp", "lcp", "ipcp", "ipv6cp"):
        for cfg in (("d", "d"), ("2", "1")):
            for p in prefixes(*cfg):
                for e in E_FULL:
                    cases.append(mk(kind, cfg, p + [e]))
        for _ in range(300 if quick else 3000):
            cases.append(mk(kind, rng.choice([("d", "d"), ("2", "1"), ("0", "0")]), rand_walk(rng, ln)))
    # 6. real handlers: Ack/Nak/Reject carrying options the handler reacts to (current and stale identifier),
    #    followed by an event that makes the FSM build a new Configure-Request
    acks = ["I%d.%s.%s.0" % (k, i, c) for k in (2, 3, 4) for i in "csp" for c in "gnr"]
    nxt = ["T", "I3.c.b.0", "I1.7.g.0", "I2.c.b.0", "C", "D"]
    for kind in ("lcp", "ipcp", "ipv6cp"):
        for p in ([["O", "U"], ["O", "U", "T"], ["O", "U", RCRP], ["O", "U", RCRP, "T"], ["O", "U", RCA],
                   ["O", "U", RCRP, RCA], ["O", "U", "T", RCRP, RCA], ["O", "U", RCRP, RCA, RTR], ["O", "U", "C"],
                   ["O", "U", "T", "T", "T"]]):
            for e1 in acks:
                for e2 in nxt:
                    cases.append(mk(kind, ("3", "1"), p + [e1, e2, "T", RCRP]))
    # 6b. Restore() / Kill() (entry points outside the RFC event set) in every canonical state, then any event
    for cfg in (("2", "1"), ("d", "d")):
        for p in prefixes(*cfg):
            for adm in ("R", "K"):
                for e in E_RED:
                    cases.append(mk("fsm", cfg, p + [adm, e, "T"]))
    for _ in range(200 if quick else 2000):
        w = rand_walk(rng, ln)
        for i in range(len(w)):
            if rng.random() < 0.06:
                w[i] = rng.choice(["R", "K"])
        cases.append(mk(rng.choice(["fsm", "lcp", "ipcp"]), ("2", "1"), w))
    # 7. forced overlap: A parked in a callback, B injected from a second goroutine
    A_SET = [RCRP, "I1.7.n.0", RCA, "I3.c.g.0", RTR, "I6.9.g.0", RXJ, "C", "D", "T", "O", "U"]
    B_SET = [RCA, RTR, RCRP, "T", "F", "X", "C", "D", "I3.c.g.0", "I6.9.g.0"]
    for p in prefixes("2", "1"):
        for a in A_SET:
            for b in B_SET:
                cases.append(mk("conc", ("2", "1"), p + ["/", "n", a, b]))
    for p in ([["O", "U"], ["O", "U", RCRP], ["O", "U", RCA], ["O", "U", RCRP, RCA], ["O", "U", "C"], ["U"], ["O"],
               ["O", "U", RCRP, RCA, RTR]]):
        for a in A_SET:
            for b in B_SET:
                cases.append(mk("conc", ("2", "1"), p + ["/", "s", a, b]))
    cases += gen_disp(rng, quick)
    sc = gen_sess(rng, quick)
    cases += sc
    # the same histories on the LNS owner (no terminate op there; IPCP requests use the LNS session's address)
    cases += ["lns" + c[4:] for c in sc if " TERM" not in c][:: (2 if quick else 1)]
    cases.append(mk("fsm", ("d", "d"), ["O", "U"] + ["I12.9.g.2"] * 300 + [RCA, "I2.s.g.0", RCRP, RCA]))
    cases.append(mk("fsm", ("d", "d"), ["O", "U"] + ["I3.c.g.0"] * 260 + [RCRP, RCA]))
    return cases


# ---------------------------------------------------------------- reading result lines
def steps(line):
    """-> list of (state, restart, armed, lastReq, id, fail, [acts], [handler calls]) or None;
    the trailing ov=/alt=/term= tokens of a conc case are ignored here (see flags())"""
    out = []
    for tok in line.split():
        if tok.startswith(("ov=", "alt=", "term=", "lock=", "HANG", "id0=")):
            continue
        p = tok.split(":")
        if len(p) != 3:
            return None
        f = p[0].split("/")
        if len(f) != 5:
            return None
        try:
            out.append(tuple(int(x) for x in f) + ([] if p[1] == "-" else p[1].split(","),
                                                   [] if p[2] == "-" else p[2].split(",")))
        except ValueError:
            return None
    return out


def flags(line):
    return [t for t in line.split() if t.startswith(("ov=", "alt=", "term=", "lock=", "HANG"))]


def case_ops(case):
    """ops of a case; for a conc case the overlapped pair is one combined pseudo-op 'A||B'"""
    t = case.split()
    ops = t[3:]
    if t[0] == "conc" and "/" in ops:
        k = ops.index("/")
        return ops[:k] + ["%s||%s@%s" % (ops[k + 2], ops[k + 3], ops[k + 1])]
    if t[0] == "late" and "/" in ops:
        k = ops.index("/")
        return ops[:k] + ["%s||timer@%s" % (ops[k + 2], ops[k + 1])]
    return ops


INIT = (0, 0, 0, 0, 0, [], [])


def rfc_class(op, pre, kind="fsm"):
    """RFC 1661 event class of op in the state pre (same rules as Model.classify); None = discarded"""
    if op in ("U", "D", "O", "C"):
        return {"U": "Up", "D": "Down", "O": "Open", "C": "Close"}[op]
    if op == "T":
        if not pre[2]:
            return None            # no pending timer: not an event
        return "TO+" if pre[1] > 0 else "TO-"
    if op in ("R", "K", "X", "Y"):
        return "admin-" + {"R": "Restore", "K": "Kill", "X": "StaleTimerFire", "Y": "Timeout()"}[op]
    if "||" in op:
        return "overlapped-pair"
    f = op[1:].split(".")
    code, idv, cls, dlen = f[:4]
    code, dlen = int(code), (len(f[4]) // 2 if len(f) > 4 else int(dlen))
    last = pre[3]
    idn = {"c": last, "s": (last + 1) % 256, "p": (last - 1) % 256}.get(idv)
    if idn is None:
        idn = (last ^ int(idv[1:])) if idv[0] == "x" else int(idv)
    if 8 <= code <= 11 and kind not in ("fsm", "lcp"):
        return "RUC"
    if code == 1:
        return None if cls == "m" else ("RCR+" if cls == "g" else "RCR-")
    if code == 2:
        return "RCA" if idn == last else None
    if code in (3, 4):
        return "RCN" if idn == last else None
    if code == 5:
        return "RTR"
    if code == 6:
        return "RTA"
    if code == 7:
        return "RXJ-"
    if code == 8:
        return "RXJ+" if pre[0] == 9 else None
    if code == 9:
        return "RXRq" if dlen >= 4 else None
    if code in (10, 11):
        return "RXRo"
    return "RUC"


def first_diff(a, b):
    sa, sb = steps(a), steps(b)
    if sa is None or sb is None:
        return None
    for i in range(max(len(sa), len(sb))):
        if i >= len(sa) or i >= len(sb) or sa[i] != sb[i]:
            return i
    return None


def cell_at(case, line, i):
    t = case.split()
    ops = case_ops(case)
    s = steps(line)
    pre = INIT if i == 0 else s[i - 1]
    return STATES[pre[0]], rfc_class(ops[i], pre, t[0]), ops[i]


def classify_disp(case, impl, model):
    ops = case.split()[1:]
    a, b = impl.split(), model.split()
    for i in range(max(len(a), len(b))):
        x = a[i] if i < len(a) else None
        y = b[i] if i < len(b) else None
        if x != y:
            return "P", ("dispatcher: op %d %s: implementation -> %s, model (RFC 1661 routing + automaton tables) -> %s"
                         % (i, ops[i] if i < len(ops) else "?", x, y))
    return "G", "lines differ textually only"


def classify(case, impl, model):
    if (case.split() or [""])[0] == "disp":
        return classify_disp(case, impl, model)
    if (case.split() or [""])[0] in ("sess", "lns"):
        ops = case.split()[2:]
        a, b = impl.split(), model.split()
        for i in range(max(len(a), len(b))):
            x = a[i] if i < len(a) else None
            y = b[i] if i < len(b) else None
            if x != y:
                return "P", ("session layer: op %d %s: implementation -> %s, model -> %s (phase/lcp/ipcp/ipv6cp/flags:events)"
                             % (i, ops[i] if i < len(ops) else "?", x, y))
        return "G", "lines differ textually only"
    si, sm = steps(impl), steps(model)
    if si is None or sm is None:
        return "P", "implementation output not a step list: %r" % impl[:200]
    bad = [x for x in flags(impl) if x.endswith(("BAD", "FREE")) or x == "HANG"]
    i = first_diff(impl, model)
    if i is None:
        if bad or flags(impl) != flags(model):
            return "P", "forced overlap: monitors on the recorded stream: %s (model: %s)" % (flags(impl), flags(model))
        return "G", "lines differ textually only"
    st, cl, op = cell_at(case, model, i)
    a = si[i] if i < len(si) else None
    b = sm[i] if i < len(sm) else None
    txt = ("step %d: event %s (RFC class %s) in state %s: implementation -> %s, RFC 1661 model -> %s"
           % (i, op, cl, st, a, b))
    if bad:
        txt += " [monitors: %s]" % " ".join(bad)
    if "||timer" in op:
        return "P", txt + " (real restart timer: a fire that came after the timer was stopped/restarted was not ignored, or a pending timer did not fire)"
    if "||" in op:
        return "P", txt + " (events are not atomic: the second goroutine's event ran inside the first one's callback)"
    if a is None or b is None or a[0] != b[0] or a[5] != b[5]:
        return "P", txt
    if a[6] != b[6]:
        return "P", txt + (" (the option handler was called differently: option state, hence the content of later "
                           "Configure-Requests, departs from what RFC 1661 prescribes)")
    if a[3] != b[3]:
        return "P", txt + (" (lastReqID is not the Identifier of the last Configure-Request sent: replies are matched "
                           "against the wrong Identifier - stale-identifier clause)")
    if a[1] != b[1] or a[2] != b[2]:
        return "P", txt + " (restart counter / restart timer differ: bounded-retransmission clause)"
    return "G", txt + " (internal variables only)"


def nontrivial(case, out):
    if (case.split() or [""])[0] in ("sess", "lns"):
        return any(t.split(":")[1] != "-" for t in out.split() if t.count(":") == 1)
    if (case.split() or [""])[0] == "disp":
        return any(t.split(":")[1] != "-" for t in out.split() if t.count(":") == 2)
    s = steps(out)
    return bool(s) and any(x[5] for x in s)


def shrink(case):
    t = case.split()
    if t[0] in ("sess", "lns"):
        ops = t[2:]
        for k in (len(ops) // 2, len(ops) - 1):
            if 1 < k < len(ops):
                yield " ".join(t[:2] + ops[:k])
        for i in range(len(ops) - 1, 0, -1):
            yield " ".join(t[:2] + ops[:i] + ops[i + 1:])
        return
    if t[0] == "disp":
        ops = t[1:]
        for k in (len(ops) // 2, len(ops) - 1):
            if 0 < k < len(ops):
                yield " ".join(["disp"] + ops[:k])
        if len(ops) > 1:
            for i in range(len(ops) - 1, -1, -1):
                yield " ".join(["disp"] + ops[:i] + ops[i + 1:])
        return
    head, ops = t[:3], t[3:]
    tail = []
    if head[0] in ("conc", "late") and "/" in ops:
        k = ops.index("/")
        ops, tail = ops[:k], ops[k:]
    n = len(ops)
    if n > 1 and not tail:
        for k in (n // 2, (3 * n) // 4, n - 1):
            if 0 < k < n:
                yield " ".join(head + ops[:k])
    for i in range(n - 1, -1, -1):
        yield " ".join(head + ops[:i] + ops[i + 1:] + tail)
    if head[0] in ("lcp", "ipcp", "ipv6cp") and not any(len(o.split(".")) == 5 for o in ops):
        yield " ".join([{"lcp": "fsm"}.get(head[0], "ncp")] + head[1:] + ops)


def distribution(cases, impl):
    d = {"kinds": {}, "ops": 0, "events": {}, "cells_hit": 0, "cells_total": 0, "final_states": {},
         "max_len": 0, "panics_or_hangs": 0, "conc_cases": 0, "conc_overlapped": 0, "handler_calls": 0,
         "configure_requests_compared": 0, "distinct_confreq_contents": 0}
    contents = set()
    cells = set()
    for c, o in zip(cases, impl):
        t = c.split()
        d["kinds"][t[0]] = d["kinds"].get(t[0], 0) + 1
        if t[0] in ("sess", "lns"):
            ds = d.setdefault("session_layer" if t[0] == "sess" else "session_layer_lns", {"ops": 0, "phases_seen": {}, "opened": 0, "echo_replies": 0,
                                                "link_ended": 0, "chap": 0})
            for tok in (o or "").split():
                if tok.count(":") != 1:
                    continue
                ds["ops"] += 1
                stt, ev = tok.split(":")
                phn = stt.split("/")[0]
                ds["phases_seen"][phn] = ds["phases_seen"].get(phn, 0) + 1
                ds["opened"] += "open" in ev.split(",")
                ds["echo_replies"] += "echoreply" in ev
                ds["chap"] += "chap." in ev
                ds["link_ended"] += stt.endswith("1")
            continue
        if t[0] == "disp":
            dd = d.setdefault("dispatcher", {"ops": 0, "frames": 0, "to_LCP": 0, "to_IPCP": 0, "to_IPv6CP": 0,
                                             "host_callbacks": 0, "dropped": 0, "err_short": 0, "err_len": 0})
            for op, tok in zip(t[1:], (o or "").split()):
                dd["ops"] += 1
                if op[0] not in "FS" or tok.count(":") != 2:
                    continue
                dd["frames"] += 1
                ev, err = tok.split(":")[1:]
                dd["err_short"] += err == "short"
                dd["err_len"] += err == "len"
                if ev == "-":
                    dd["dropped"] += err == "-"
                elif ev[:2] in ("L.", "I.", "V."):
                    dd[{"L": "to_LCP", "I": "to_IPCP", "V": "to_IPv6CP"}[ev[0]]] += 1
                else:
                    dd["host_callbacks"] += 1
            continue
        s = steps(o or "")
        if s is None:
            d["panics_or_hangs"] += 1
            continue
        ops = case_ops(c)
        if t[0] == "conc":
            d["conc_cases"] += 1
            d["conc_overlapped"] += "ov=1" in o
        if t[0] == "late":
            d["late_cases"] = d.get("late_cases", 0) + 1
            d["late_parked"] = d.get("late_parked", 0) + ("ov=1" in o)
        for x in s:
            d["handler_calls"] += len(x[6])
            for a in x[5]:
                if a.startswith("scr."):
                    d["configure_requests_compared"] += 1
                    contents.add((t[0], a.split(".")[2]))
        d["ops"] += len(ops)
        d["max_len"] = max(d["max_len"], len(ops))
        pre = INIT
        for op, x in zip(ops, s):
            cl = rfc_class(op, pre, t[0])
            k = cl or "discarded"
            d["events"][k] = d["events"].get(k, 0) + 1
            cells.add((pre[0], k, pre[1] > 0))
            pre = x
        if s:
            n = STATES[s[-1][0]]
            d["final_states"][n] = d["final_states"].get(n, 0) + 1
    d["distinct_confreq_contents"] = len(contents)
    cells = {x for x in cells if x[1] != "overlapped-pair" and not x[1].startswith("admin-")}
    d["cells_hit"] = len({(a, b) for a, b, _ in cells})
    d["cells_x_counterclass_hit"] = len(cells)
    # 10 states x (17 RFC classes + discarded), minus RXJ+ outside Opened (9) and TO+/TO- in the three states in
    # which no timer can be pending (Initial, Starting, Opened: 6).  A timer can be left pending in Stopped (RXJ- from
    # Req-Sent/Ack-Rcvd/Ack-Sent does not stop it) and from there in Closed (Close).
    d["cells_total"] = 10 * 18 - 9 - 6
    return d
