"""C01 — IP pool allocation: unique, confined to the pool, nothing leaks
(pkg/allocator/pool.go, prefix.go, registry.go).

Case syntax (one history per line):
  pool <lo> <hi> <E> e1..eE ; ops         A<sid> R<sid>,<addr> L<addr> C<addr> D0|D1 V
  pd <net> <nbits> <plen> ; ops           A<sid> R<sid>,<pfx> L<pfx> C<pfx> D0|D1 V
  reg <P> {<pf> <fam 4|n|d> <gw> <K> {<pool> <prio> <vrf> <net> <lo|plen> <hi> <gw> <E> {<a> <b>}}} ; ops
        (f = family 4 | n (IA_NA) | d (PD); arg = addr for 4/n, pfx for d; key = <pf>/<pool>)
        A<f><sid>,<pf>,<override>,<vrf>  L<f><key>,<arg>  P<f><sid>,<key>,<arg>  R<f><sid>,<arg>
        Q<f><key>,<arg> (Release*InPool)  I<f><arg> (ReleaseIP / ReleaseIANAByIP / ReleasePDByPrefix)
        D0|D1  V<f><key>  O<f><pf>
        all IPv4 lists first, then per v6 profile its IA_NA list before its PD list
  res <profiles as for reg, pools of one family disjoint> ; ops      (pkg/dhcp harness, exported API only)
        Y<sid>,<pf>,<override>,<vrf>,<addr|->   Z<sid>,<pf>,<naov>,<pdov>,<vrf>,<addr|->,<pfx|->   A.. L.. I..
        X<sid>,<pf|0>,<vrf>,<ipv4_address>,<pool>  /  W<sid>,<pf6|0>,<vrf>,<ipv6_address>,<ipv6_prefix>,<iana_pool>,<pd_pool>:
            context built by allocator.NewContext from AAA attributes (attr: - absent, ! not a string, junk, <addr>, <addr>/<len>, pool name)
        y<sid> / z<sid>: ResolveV4 / ResolveV6 again with the context the session's last Y / Z / X / W left behind
        n<sid> / m<sid>: the caller clears the IPv4 address / the IPv6 address and prefix in that context
  addr: 4:<dec> | 6:<dec> | nil | bad      pfx: nil | <addr>/<ones>:<bits> | <addr>/mnil | <addr>/mbad
"""
ID = "C01"
HARNESSES = [dict(name="allocator", pkg="./pkg/allocator/", test="TestVerifC01", timeout=900,
                  files=[("pkg/allocator/zz_verif_c01_test.go", "harness/C01/zz_verif_c01_test.go")]),
             dict(name="dhcp", pkg="./pkg/dhcp/", test="TestVerifC01Resolve", timeout=900,
                  files=[("pkg/dhcp/zz_verif_c01_resolve_test.go", "harness/C01/zz_verif_c01_resolve_test.go")])]
# Every recorded finding of C01 is fixed in /repo (d00d766, c2652db, 85029df, a1ebdc8, 1de6b72, 2cd02c0): the correspondence
# compares with the repaired model only, so a regression to any of them is reported as a VIOLATION.  (The Coq model
# keeps the historical variants for the `_refuted` theorems.)
VARIANTS = ["repaired"]


def route(case):
    return "dhcp" if case.startswith(("res ", "resn ")) else "allocator"


def kind(head):
    """case kind without the x prefix (x = run in a child process with a watchdog: may not terminate); resn = res
    without a registry"""
    k = head[0][1:] if head[0][0] == "x" else head[0]
    return "res" if k == "resn" else k

MODEL_NEEDS_IMPL = True
RULE = ("pool: v4/v6 ranges of 1-40 addresses at carry boundaries (octet, 2^32 near-top, 64-bit word), 0-5 "
        "exclusions drawn from {inside, ends, outside, other family, v4-mapped form}; histories of 5-60 ops "
        "(allocate/reserve/release/contains/direction/available) by 4 sessions with address arguments from the "
        "classes {in range (free or held), excluded, lo-1, hi+1, far away, other family, v4-mapped, nil, 5-byte}; "
        "two thirds of the histories end with a drain (allocate until exhausted) so the free set is compared "
        "exactly. pd: (network bits, prefix length) over 20 pairs incl. plen<=64, 64<plen<128, plen=128, "
        "count 1, bases with all-ones words, unmasked networks; prefix arguments from {valid index, unaligned, "
        "below base, above end, foreign aliasing the bits the shift discards, wrong mask length, 32-bit mask, "
        "nil/non-canonical mask, nil, 4-byte IP, 5-byte IP}. reg4/reg6: 1-3 profiles x 0-4 pools x VRFs "
        "{none,1,2} x priorities with ties, overlapping ranges, unparseable networks, default ranges, duplicate "
        "pool names, gateways; ops allocate-from-profile (override none/existing/missing), release, reserve in "
        "pool, reserve/release by IP, direction. Allocate answers are checked for admissibility by the model; "
        "everything else is compared exactly. Non-trivial: a history with at least one successful allocation "
        "and at least one of {exhaustion, reservation conflict, release of a held address}.")
TRUSTED = ["configuration strings are abstracted to {empty, unparseable, address} tokens by the harness and the OCaml "
           "driver (netip.ParseAddr / netaddr.ParseIPPrefix are not modelled); the geometry computed from them "
           "(default range, gateway and exclude expansion) is spec_geom in Coq",
           "pool/profile/VRF names are modelled as numbers; names containing '/' are outside the model"]
ASSUMPTIONS = ["PD pools: delegated bits small enough to build the free list",
               "each allocator call is atomic (the mutex); concurrency is not modelled here"]

M32 = 0xffff00000000

# session tokens: 1-4 ordinary ("s1".."s4"); 5 "S1", 6 "s11", 7 "" (empty), 8 "s" - names that differ from another one only in
# case, as prefix / extension, or by being empty (the harness maps tokens to names; the model compares tokens)
SIDS = [1, 2, 3, 4, 1, 2, 3, 4, 5, 6, 7, 8]
# VRF tokens: 0 none, 1 "v1", 2 "v2", 3 "V1", 4 "v11";  profile 7 "P1", pool 7 "N1"
VRFS = [0, 0, 1, 1, 2, 3, 4]


def atok(fam, n):
    return "%d:%d" % (fam, min(max(n, 0), 0xffffffff if fam == 4 else (1 << 128) - 1))


def parse_addr(t):
    """-> (fam, n) after Unmap, or None"""
    if t in ("nil", "bad"):
        return None
    fam, n = int(t[0]), int(t[2:])
    if fam == 6 and (n >> 32) == 0xffff:
        return (4, n & 0xffffffff)
    return (fam, n)


# ------------------------------------------------------------------ generators
def gen_pool(rng, drain=None, maxops=60):
    fam = rng.choice([4, 4, 6])
    size = rng.choice([1, 1, 2, 3, 3, 4, 5, 6, 8, 12, 20, 40])
    if fam == 4:
        lo = rng.choice([0x0a0000fa, 0x0a000001, 0xc0a8fffa, 0xffffffff - size - rng.randint(0, 2), 0, 1,
                         0x0a00ffff - size // 2, rng.randrange(1, 0xfffffff0 - size)])
        other = 6
    else:
        lo = rng.choice([0x20010db8 << 96 | 1, (0x20010db8 << 96) + (1 << 64) - 3, (1 << 128) - 2 - size,
                         (0x20010db8 << 96) + 0xfffffffa, 0xfe80 << 112 | rng.getrandbits(64),
                         M32 << 4 | 5])
        other = 4
    hi = lo + size - 1
    inside = lambda: rng.randint(lo, hi)
    ex = []
    for _ in range(rng.choice([0, 0, 1, 1, 2, 3, 5])):
        k = rng.random()
        if k < 0.55:
            ex.append(atok(fam, inside()))
        elif k < 0.7:
            ex.append(atok(fam, rng.choice([lo, hi])))
        elif k < 0.8:
            ex.append(atok(fam, max(0, rng.choice([lo - 1, hi + 1, hi + 7]))))
        elif k < 0.9 and fam == 4:
            ex.append(atok(6, M32 + inside()))
        else:
            ex.append(atok(other, inside() & (0xffffffff if other == 4 else (1 << 128) - 1)))
    exn = [parse_addr(e) for e in ex]

    def arg():
        k = rng.random()
        if k < 0.62:
            return atok(fam, inside())
        if k < 0.70 and exn:
            e = rng.choice(ex)
            return e
        if k < 0.76:
            return atok(fam, max(0, lo - 1))
        if k < 0.82:
            return atok(fam, hi + 1)
        if k < 0.85:
            return atok(fam, (hi + rng.randint(2, 300)))
        if k < 0.89:
            return atok(other, inside() & (0xffffffff if other == 4 else (1 << 128) - 1))
        if k < 0.94 and fam == 4:
            return atok(6, M32 + rng.choice([inside(), lo - 1 if lo else 0, hi + 1]))
        if k < 0.97:
            return "nil"
        return "bad"
    ops = []
    recent = []
    for _ in range(rng.randint(3, maxops)):
        k = rng.random()
        s = rng.choice(SIDS)
        if k < 0.33:
            ops.append("A%d" % s)
        elif k < 0.53:
            a = arg()
            recent.append(a)
            ops.append("R%d,%s" % (s, a))
        elif k < 0.78:
            a = rng.choice(recent) if recent and rng.random() < 0.5 else arg()
            ops.append("L" + a)
        elif k < 0.84:
            ops.append("D%d" % rng.randint(0, 1))
        elif k < 0.93:
            ops.append("V")
        else:
            ops.append("C" + arg())
    if drain is None:
        drain = rng.random() < 0.67
    if drain:
        ops.append("V")
        ops += ["A%d" % rng.choice(SIDS) for _ in range(size + 2)]
        ops.append("V")
    return "pool %s %s %d %s; %s" % (atok(fam, lo), atok(fam, hi), len(ex), "".join(e + " " for e in ex), " ".join(ops))


PD_SHAPES = [(48, 52), (56, 60), (60, 64), (62, 64), (64, 64), (56, 64), (62, 66), (63, 65), (64, 68), (64, 72),
             (65, 70), (66, 72), (100, 104), (120, 128), (124, 128), (127, 128), (128, 128), (0, 4), (1, 5),
             (96, 100), (72, 72), (64, 66), (29, 32), (120, 124), (121, 127)]
PD_BAD_SHAPES = [(64, 56), (0, 64), (10, 80), (64, 128)]


def pd_base(net, nbits):
    m = 1 << (128 - nbits)
    return (net // m) * m


def gen_pd_v4(rng):
    """a PD pool configured on an IPv4 network (plen around the IPv4 BitLen bound of NewPrefixAllocator)"""
    nb, pl = rng.choice([(8, 16), (24, 26), (24, 32), (24, 33), (8, 64), (30, 32), (32, 32), (16, 24), (0, 4)])
    net = rng.choice([0x0a000000, 0x0a000005, 0xc0a80100, 0xffffffff])
    base16 = M32 + ((net >> (32 - nb)) << (32 - nb) if nb else 0)
    p1 = "6:%d/%d:128" % (base16, pl)
    p2 = "6:%d/%d:128" % (base16 + (1 << (128 - pl)) if pl <= 128 else base16, pl)
    return "pd 4:%d %d %d ; V A1 A2 A3 V C%s R4,%s L%s C4:%d/%d:32 R1,%s A1 A2 V" % (net, nb, pl, p1, p2, p1, net, min(pl, 32), p1)


def gen_pd(rng, maxops=50):
    if rng.random() < 0.03:
        nb, pl = rng.choice(PD_BAD_SHAPES)
        return "pd %d %d %d ; A1 V" % (rng.getrandbits(128), nb, pl)
    nb, pl = rng.choice(PD_SHAPES)
    net = rng.choice([0x20010db8 << 96, (0x20010db8 << 96) | ((1 << 64) - 1) << 0, ((1 << 64) - 1) << 64,
                      (1 << 128) - 1, 0, rng.getrandbits(128), (0x20010db8 << 96) | (0xffffffff << 64),
                      0x7fff << 112 | rng.getrandbits(64) << 30])
    if rng.random() < 0.6:
        net = pd_base(net, nb)
    base = pd_base(net, nb)
    shift = 128 - pl
    count = 1 << (pl - nb)
    mask128 = (1 << 128) - 1

    def good(i=None):
        i = rng.randrange(count) if i is None else i
        return (base + (i << shift)) & mask128

    def parg():
        k = rng.random()
        m = "%d:128" % pl
        if k < 0.45:
            return "6:%d/%s" % (good(), m)
        if k < 0.53 and shift > 0:
            return "6:%d/%s" % (good() | rng.randrange(1, 1 << min(shift, 60)), m)
        if k < 0.58:
            return "6:%d/%s" % ((base - (rng.randint(1, 3) << shift)) & mask128, m)
        if k < 0.63:
            return "6:%d/%s" % ((base + ((count + rng.randint(0, 2)) << shift)) & mask128, m)
        if k < 0.78:
            # foreign prefix that differs only in bits the index computation may discard
            hib = rng.choice([64 + shift, 64 + shift, 127, 120, 64, max(128 - nb, 0) if nb else 127, 100])
            hib = min(max(hib, 0), 127)
            return "6:%d/%s" % ((good() ^ (rng.randint(1, 255) << hib)) & mask128, m)
        if k < 0.82:
            return "6:%d/%d:128" % (good(), max(0, min(128, pl + rng.choice([-1, 1]))))
        if k < 0.85:
            return "6:%d/%d:32" % (good(), min(pl, 32))
        if k < 0.88:
            return "6:%d/%s" % (good(), rng.choice(["mnil", "mbad"]))
        if k < 0.91:
            return "nil"
        if k < 0.95:
            return "4:%d/%s" % (good() & 0xffffffff, m)
        if k < 0.97:
            return "bad/%s" % m
        return "6:%d/%s" % (rng.getrandbits(128), m)
    ops = []
    recent = []
    for _ in range(rng.randint(3, maxops)):
        k = rng.random()
        s = rng.choice(SIDS)
        if k < 0.33:
            ops.append("A%d" % s)
        elif k < 0.53:
            p = parg()
            recent.append(p)
            ops.append("R%d,%s" % (s, p))
        elif k < 0.78:
            ops.append("L" + (rng.choice(recent) if recent and rng.random() < 0.4 else parg()))
        elif k < 0.83:
            ops.append("D%d" % rng.randint(0, 1))
        elif k < 0.90:
            ops.append("V")
        else:
            ops.append("C" + parg())
    if rng.random() < 0.67 and count <= 64:
        ops.append("V")
        ops += ["A%d" % rng.choice(SIDS) for _ in range(count + 2)]
        ops.append("V")
    return "pd %d %d %d ; %s" % (net, nb, pl, " ".join(ops))


PD_REG_SHAPES = [(48, 50), (62, 64), (63, 64), (64, 66), (64, 65), (120, 122), (126, 128), (127, 128), (100, 101)]


def gen_registry(rng, resolve=False, maxops=45):
    """One registry with IPv4, IA_NA and PD pool lists; pool names are drawn from a small set so that
    "profile/pool" keys collide across families.  resolve=True: pools of one family are pairwise
    disjoint (walks are then deterministic) and the ops are ResolveV4/ResolveV6 + exported API."""
    profiles = rng.choice([[1], [1], [1, 2], [1, 2], [1, 7], [1, 10], [2, 12]])
    entries = []          # (pf, fam, pgw, [pool dict])
    keys = {"4": [], "n": [], "d": []}   # (key, first, last) / for d: (key, base, nbits, plen)
    slot = [0]
    used4, used6 = set(), set()
    HI4 = [0x0a000000, 0x0b000000, 0x0a010000, 0xac100000, 0xc0a80000, 0x0a000000]
    HI6 = [0x20010db8 << 96, (0x20010db8 << 96) + (1 << 64), (0x20010db8 << 96) + (1 << 95), 0x20010db9 << 96, 0xfd00 << 112]

    def v4_pool(pf, j, name):
        bits = rng.choice([29, 30, 30, 28])
        if resolve or rng.random() < 0.7:
            # pools differing in exactly one byte of the network: the same low bytes under another first / second octet
            if rng.random() < 0.35 and slot[0]:
                hi4 = rng.choice([h for h in HI4 if (h, slot[0]) not in used4] or [None])
            else:
                hi4 = None
            if hi4 is None:
                slot[0] += 1
                hi4 = rng.choice(HI4)
            used4.add((hi4, slot[0]))
            basen = hi4 + (slot[0] << 5)
        else:
            basen = 0x0a000000
        first, last = basen, basen + (1 << (32 - bits)) - 1
        net = "bad" if rng.random() < 0.05 else "%s/%d" % (atok(4, basen + rng.choice([0, 0, 1])), bits)
        k = rng.random()
        if k < 0.25:
            lo, hi = "-", "-"
        else:
            rl = rng.randint(first, last - 1)
            rh = min(last, rl + rng.choice([0, 1, 2, 3]))
            lo, hi = atok(4, rl), (atok(4, rh) if k < 0.97 else "junk")
        gw = rng.choice(["-", "-", atok(4, rng.randint(first, last)), "junk"])
        ex = []
        for _ in range(rng.choice([0, 0, 0, 1, 2])):
            a = rng.randint(first, last)
            ex += [atok(4, a), "-"] if rng.random() < 0.5 else [atok(4, a), atok(4, min(last + 1, a + rng.randint(0, 2)))]
        keys["4"].append(("%d/%d" % (pf, name), first, last))
        return [str(name), str(rng.choice([-1, 0, 0, 1, 1, 2, 5, 10])), str(rng.choice(VRFS)), net, lo, hi, gw,
                str(len(ex) // 2)] + ex

    def na_pool(pf, j, name):
        bits = rng.choice([125, 126, 126, 124])
        if resolve or rng.random() < 0.7:
            # the same low 64 bits under another high word (and the other way round)
            if rng.random() < 0.35 and slot[0]:
                hi6 = rng.choice([h for h in HI6 if (h, slot[0]) not in used6] or [None])
            else:
                hi6 = None
            if hi6 is None:
                slot[0] += 1
                hi6 = rng.choice(HI6)
            used6.add((hi6, slot[0]))
            basen = hi6 + (slot[0] << 5)
        else:
            basen = 0x20010db8 << 96
        first, last = basen, basen + (1 << (128 - bits)) - 1
        net = "bad" if rng.random() < 0.05 else "%s/%d" % (atok(6, basen), bits)
        if rng.random() < 0.25:
            lo, hi = "-", "-"
        else:
            rl = rng.randint(first, last - 1)
            lo, hi = atok(6, rl), atok(6, min(last, rl + rng.choice([0, 1, 2, 3])))
        gw = rng.choice(["-", "-", atok(6, rng.randint(first, last)), "junk"])
        keys["n"].append(("%d/%d" % (pf, name), first, last))
        return [str(name), "0", str(rng.choice(VRFS)), net, lo, hi, gw, "0"]

    def pd_pool(pf, j, name):
        nb, pl = rng.choice(PD_REG_SHAPES)
        if resolve or rng.random() < 0.7:
            slot[0] += 1
            net = (0x20010db9 + slot[0]) << 96
        else:
            net = 0x20010db9 << 96
        if rng.random() < 0.3:
            net |= rng.getrandbits(20)          # unmasked network
        bad = rng.random() < 0.06
        odd = rng.random()
        if odd < 0.04:        # prefix length above the address length: no allocator since 1de6b72
            keys["d"].append(("%d/%d" % (pf, name), pd_base(net, 126), 126, 129))
            return [str(name), "0", str(rng.choice(VRFS)), "%s/%d" % (atok(6, net), rng.choice([126, 128])), str(rng.choice([129, 130, 190])), "-", "-", "0"]
        if odd < 0.08:        # an IPv4 network for a PD pool
            v4n, v4b, v4p = rng.choice([(0x0a000000, 24, 26), (0x0a000000, 30, 32), (0x0a000000, 24, 33), (0xc0a80000, 16, 18)])
            keys["d"].append(("%d/%d" % (pf, name), M32 + v4n, 96 + v4b, 96 + v4p))
            return [str(name), "0", str(rng.choice(VRFS)), "%s/%d" % (atok(4, v4n), v4b), str(v4p), "-", "-", "0"]
        nets = "bad" if bad and rng.random() < 0.5 else "%s/%d" % (atok(6, net), nb)
        if bad and nets != "bad":
            pl = rng.choice([nb - 1 if nb else 200, nb + 64]) if nb + 64 <= 128 else max(nb - 1, 0)
        keys["d"].append(("%d/%d" % (pf, name), pd_base(net, nb), nb, pl))
        return [str(name), "0", str(rng.choice(VRFS)), nets, str(pl), "-", "-", "0"]
    makers = {"4": v4_pool, "n": na_pool, "d": pd_pool}
    for fam in ("4", "n", "d"):
        for pf in profiles:
            if rng.random() < 0.15:
                continue
            nk = rng.choice([0, 1, 2, 2, 3, 3, 4]) if fam == "4" else rng.choice([0, 1, 1, 2, 2, 3])
            pools = []
            for j in range(nk):
                name = rng.choice([1, 2, 3, 7]) if rng.random() < 0.3 else j + 1
                pools.append(makers[fam](pf, j, name))
            mine = [k for k in keys["4"] if k[0].startswith("%d/" % pf)]
            inside = atok(4, rng.randint(*rng.choice(mine)[1:])) if mine else atok(4, 0x0a000001)
            pgw = rng.choice(["-", "junk", inside, inside]) if fam == "4" else "-"   # profile gateway inside one of its pools
            entries.append((pf, fam, pgw, pools))
    # order: every IPv4 list, then per v6 profile IA_NA before PD
    order = [e for e in entries if e[1] == "4"]
    for pf in profiles:
        order += [e for e in entries if e[0] == pf and e[1] == "n"] + [e for e in entries if e[0] == pf and e[1] == "d"]
    toks = []
    for pf, fam, pgw, pools in order:
        toks += [str(pf), fam, pgw, str(len(pools))]
        for pl in pools:
            toks += pl

    def arg(fam):
        k = rng.random()
        if fam == "d":
            if keys["d"] and k < 0.85:
                _, base, nb, pl = rng.choice(keys["d"])
                if not (0 <= pl - nb <= 63) or pl > 128:
                    pl, nb = 64, 62
                shift = 128 - pl
                i = rng.randrange(1 << min(pl - nb, 6))
                v = (base + (i << shift)) & ((1 << 128) - 1)
                r = rng.random()
                if r < 0.12 and shift:
                    v |= rng.randrange(1, 1 << min(shift, 40))
                elif r < 0.2:
                    v = (v + ((1 << (pl - nb)) << shift)) & ((1 << 128) - 1)
                elif r < 0.28:
                    v ^= 1 << rng.choice([127, 120, min(127, 64 + shift)])
                m = "%d:128" % pl if r < 0.86 else rng.choice(["%d:128" % max(0, pl - 1), "mnil", "%d:32" % min(pl, 32),
                                                                 "%d:128" % max(0, nb - rng.randint(0, 8)), "%d:128" % min(128, pl + rng.randint(1, 16)),
                                                                 "%d:128" % max(0, nb - 20)])
                return "6:%d/%s" % (v, m)
            return rng.choice(["nil", "6:%d/64:128" % rng.getrandbits(128), "bad/64:128"])
        f = 4 if fam == "4" else 6
        if keys[fam] and k < 0.8:
            _, first, last = rng.choice(keys[fam])
            return atok(f, rng.randint(max(0, first - 1), last + 1))
        if k < 0.85:
            return "nil"
        if k < 0.9:
            return "bad"
        if fam == "4" and k < 0.95 and keys["4"]:
            _, first, last = rng.choice(keys["4"])
            return atok(6, M32 + rng.randint(first, last))
        return atok(f, rng.getrandbits(31 if f == 4 else 127))

    def karg(fam):
        if keys[fam] and rng.random() < 0.85:
            return rng.choice(keys[fam])[0]
        return "%d/%d" % (rng.randint(1, 3), rng.randint(1, 6))

    def alloc(fam, s=None):
        return "A%s%d,%d,%d,%d" % (fam, s or rng.choice(SIDS), rng.choice(profiles + ([3] if rng.random() < 0.05 else [])),
                                   rng.choice([0, 0, 0, 0, 1, 2, 3, 6, 7]), rng.choice(VRFS))
    ops = []
    for _ in range(rng.randint(3, maxops)):
        k = rng.random()
        s = rng.choice(SIDS)
        fam = rng.choice(["4", "4", "n", "d", "d"])
        if resolve and rng.random() < 0.22:
            ops.append(rng.choice(["y%d", "y%d", "z%d", "z%d", "n%d", "m%d"]) % s)
            continue
        if resolve and rng.random() < 0.18:
            # context built by allocator.NewContext from AAA attributes
            def addr_attr(f):
                r = rng.random()
                if r < 0.18:
                    return "-"
                if r < 0.26:
                    return "!"
                if r < 0.36:
                    return "junk"
                if r < 0.44:       # the other family's literal in this attribute
                    return atok(6, (0x20010db8 << 96) + rng.randint(1, 40)) if f == "4" else atok(4, 0x0a000000 + rng.randint(1, 300))
                if keys[f]:
                    _, first, last = rng.choice(keys[f])
                    return atok(4 if f == "4" else 6, rng.randint(max(0, first - 1), last + 1))
                return atok(4 if f == "4" else 6, rng.getrandbits(31))
            name_attr = lambda: rng.choice(["-", "-", "-", "!", "junk", "1", "2", "3", "6", "0"])
            pfa = rng.choice(profiles + [0])
            if rng.random() < 0.5:
                ops.append("X%d,%d,%d,%s,%s" % (s, pfa, rng.choice(VRFS), addr_attr("4"), name_attr()))
            else:
                pd = arg("d")
                r = rng.random()
                if r < 0.35 or pd == "nil" or pd.startswith("bad") or not pd.split("/")[1].endswith(":128"):
                    pd = rng.choice(["-", "-", "!", "junk"])
                else:
                    pd = pd.split("/")[0] + "/" + pd.split("/")[1].split(":")[0]
                    if rng.random() < 0.15:
                        pd = "%s/%d" % (atok(4, 0x0a000000), 24)     # an IPv4 CIDR as ipv6_prefix
                ops.append("W%d,%d,%d,%s,%s,%s,%s" % (s, pfa, rng.choice(VRFS), addr_attr("n"), pd, name_attr(), name_attr()))
            continue
        if resolve:
            if k < 0.25:
                have = "-" if rng.random() < 0.6 or not keys["4"] else atok(4, rng.randint(*rng.choice(keys["4"])[1:]))
                ops.append("Y%d,%d,%d,%d,%s" % (s, rng.choice(profiles), rng.choice([0, 0, 0, 1, 2, 6]), rng.choice(VRFS), have))
            elif k < 0.55:
                hna = "-" if rng.random() < 0.6 or not keys["n"] else atok(6, rng.randint(*rng.choice(keys["n"])[1:]))
                hpd = "-" if rng.random() < 0.6 else arg("d")
                if hpd in ("nil",) or hpd.startswith("bad"):
                    hpd = "-"
                ops.append("Z%d,%d,%d,%d,%d,%s,%s" % (s, rng.choice(profiles), rng.choice([0, 0, 0, 1, 2]), rng.choice([0, 0, 0, 1, 2]),
                                                      rng.choice(VRFS), hna, hpd))
            elif k < 0.75:
                ops.append(alloc(fam, s))
            elif k < 0.9:
                ops.append("L%s%s,%s" % (fam, karg(fam), arg(fam)))
            else:
                ops.append("I%s%s" % (fam, arg(fam)))
            continue
        if k < 0.42:
            ops.append(alloc(fam, s))
        elif k < 0.54:
            ops.append("L%s%s,%s" % (fam, karg(fam), arg(fam)))
        elif k < 0.64:
            ops.append("P%s%d,%s,%s" % (fam, s, karg(fam), arg(fam)))
        elif k < 0.72:
            ops.append("R%s%d,%s" % (fam, s, arg(fam)))
        elif k < 0.79:
            ops.append("Q%s%s,%s" % (fam, karg(fam), arg(fam)))
        elif k < 0.86:
            ops.append("I%s%s" % (fam, arg(fam)))
        elif k < 0.89:
            ops.append("D%d" % rng.randint(0, 1))
        elif k < 0.96:
            ops.append("V%s%s" % (fam, karg(fam)))
        else:
            ops.append("O%s%d" % (fam, rng.choice(profiles)))
    if resolve or rng.random() < 0.6:     # res cases always end with drains: they have no other view of the free sets
        for fam in ("4", "n", "d"):
            for pf in profiles:
                for vrf in (0, 1, 2, 3, 4):
                    ops += ["A%s%d,%d,0,%d" % (fam, rng.choice(SIDS), pf, vrf)] * rng.randint(2, 6)
    return "%s %d %s ; %s" % ("res" if resolve else "reg", len(order), " ".join(toks), " ".join(ops))


def gen_reentry(rng):
    """Resolve re-entry: a session calls ResolveV4/ResolveV6 again with the context its earlier call left
    behind (REQUEST after DISCOVER, renew, retry after a refusal), while the registry state moved on behind
    that context: its address was released by value / in pool, another session was given it, the pool was
    exhausted, the address field was cleared.  Pools of 1-3 addresses so that reuse is certain whatever the
    allocation policy: every address of the pool is released and every one is taken again."""
    size = rng.randint(1, 3)
    b4 = 0x0a000100
    b6 = 0x20010db8 << 96
    bd = 0x20010dba << 96
    vrf = rng.choice([0, 1])
    toks = ["1", "4", "-", "1", "1", "0", str(vrf), "%s/24" % atok(4, b4), atok(4, b4 + 1), atok(4, b4 + size), "-", "0",
            "1", "n", "-", "1", "1", "0", str(vrf), "%s/120" % atok(6, b6), atok(6, b6 + 1), atok(6, b6 + size), "-", "0",
            "1", "d", "-", "1", "1", "0", str(vrf), "%s/%d" % (atok(6, bd), 64 - (size - 1).bit_length() if size > 1 else 64), "64", "-", "-", "0"]
    npd = 1 << ((size - 1).bit_length() if size > 1 else 0)
    v4 = [atok(4, b4 + i) for i in range(1, size + 1)]
    v6 = [atok(6, b6 + i) for i in range(1, size + 1)]
    pd = ["6:%d/64:128" % (bd + (i << 64)) for i in range(npd)]
    fam = rng.choice(["4", "6"])
    ops = []
    if fam == "4":
        first = "Y1,1,0,%d,-" % vrf
        again, other = "y1", lambda s: "Y%d,1,0,%d,-" % (s, vrf)
        rel = [rng.choice(["I4%s", "L41/1,%s"]) % a for a in v4]
        clear = "n1"
    else:
        first = "Z1,1,0,0,%d,-,-" % vrf
        again, other = "z1", lambda s: "Z%d,1,0,0,%d,-,-" % (s, vrf)
        rel = [rng.choice(["In%s", "Ln1/1,%s"]) % a for a in v6] + [rng.choice(["Id%s", "Ld1/1,%s"]) % p for p in pd]
        clear = "m1"
    ops.append(first)
    if rng.random() < 0.5:
        ops.append(again)                        # benign re-entry: still ours
    k = rng.random()
    if k < 0.6:
        ops += rel                               # released behind the context's back
        ops += [other(2 + i) for i in range(max(size, npd))]   # others take everything
        ops.append(again)                        # stale context: must be refused
        if rng.random() < 0.5:
            ops += [clear, again]                # the caller drops the address and tries again: pool is full
    elif k < 0.8:
        ops += rel + [again, again]              # released, nobody took it: re-entry stakes it again
        ops += [other(2 + i) for i in range(max(size, npd))]
    else:
        ops += [other(2 + i) for i in range(max(size, npd))] + [again, clear, again]
    ops += ["A41,1,0,%d" % vrf, "An1,1,0,%d" % vrf, "Ad1,1,0,%d" % vrf] * 2
    return "res 3 %s ; %s" % (" ".join(toks), " ".join(ops))


def gen_overlap(rng):
    """Two pools of one family with the same range (the same subnet in two VRFs), one value held in both,
    then the release-by-value / release-in-pool walks; the per-pool Available shows who lost the lease."""
    fam = rng.choice(["4", "n", "d"])
    vr = [rng.choice([0, 1]), 2]
    if fam == "4":
        spec = lambda name, vrf: [str(name), "0", str(vrf), "%s/29" % atok(4, 0x0a000100), "-", "-", "-", "0"]
        val = lambda: atok(4, 0x0a000100 + rng.randint(1, 6))
    elif fam == "n":
        b = 0x20010db8 << 96
        spec = lambda name, vrf: [str(name), "0", str(vrf), "%s/125" % atok(6, b), "-", "-", "-", "0"]
        val = lambda: atok(6, b + rng.randint(1, 6))
    else:
        b = 0x20010dba << 96
        spec = lambda name, vrf: [str(name), "0", str(vrf), "%s/62" % atok(6, b), "64", "-", "-", "0"]
        val = lambda: "6:%d/64:128" % (b + (rng.randrange(4) << 64))
    two_profiles = rng.random() < 0.5
    if two_profiles:
        toks = ["2", "1", fam, "-", "1"] + spec(1, vr[0]) + ["2", fam, "-", "1"] + spec(1, vr[1])
        k1, k2 = "1/1", "2/1"
    else:
        toks = ["1", "1", fam, "-", "2"] + spec(1, vr[0]) + spec(2, vr[1])
        k1, k2 = "1/1", "1/2"
    x, y = val(), val()
    ops = ["P%s1,%s,%s" % (fam, k1, x), "P%s2,%s,%s" % (fam, k2, x), "P%s3,%s,%s" % (fam, rng.choice([k1, k2]), y)]
    for _ in range(rng.randint(1, 4)):
        ops.append(rng.choice(["I%s%s" % (fam, x), "Q%s%s,%s" % (fam, rng.choice([k1, k2, "9/9"]), x),
                               "L%s%s,%s" % (fam, rng.choice([k1, k2]), x), "R%s%d,%s" % (fam, rng.randint(1, 3), x),
                               "I%s%s" % (fam, y), "P%s%d,%s,%s" % (fam, rng.randint(1, 2), rng.choice([k1, k2]), x)]))
        ops += ["V%s%s" % (fam, k1), "V%s%s" % (fam, k2)]
    return "reg %s ; %s" % (" ".join(toks), " ".join(ops))


MAX4, MAX6 = 0xffffffff, (1 << 128) - 1


def gen_geometry(rng):
    """The geometries the first round assumed away, run in a child process (x prefix): range end at the
    all-ones address, range ends in different families, inverted ranges, PD prefix lengths above 128,
    and the same through configuration strings (explicit range, exclude range)."""
    k = rng.random()
    ops = "V A1 A2 V C%s R3,%s V" % (atok(4, MAX4), atok(4, MAX4 - 1))
    if k < 0.30:
        fam = rng.choice([4, 6])
        mx = MAX4 if fam == 4 else MAX6
        hi = rng.choice([mx, mx, mx - 1, mx - 2])
        lo = hi - rng.randint(0, 5)
        ex = rng.choice([[], [atok(fam, hi)], [atok(fam, lo)]])
        return "xpool %s %s %d %s; %s" % (atok(fam, lo), atok(fam, hi), len(ex), "".join(e + " " for e in ex),
                                         "V A1 A2 V C%s R3,%s L%s V A1 A1 A1 A1 A1 A1 A1 V" % (atok(fam, hi), atok(fam, hi), atok(fam, hi)))
    if k < 0.45:
        a, b = atok(4, rng.choice([0x0a000001, MAX4 - 1])), atok(6, rng.choice([5, MAX6, 1 << 64]))
        lo, hi = (a, b) if rng.random() < 0.5 else (b, a)
        return "xpool %s %s 0 ; V C%s C%s R1,%s R2,%s L%s V A1 V" % (lo, hi, a, b, a, b, a)
    if k < 0.55:
        fam = rng.choice([4, 6])
        lo = rng.randint(10, 1000)
        return "xpool %s %s 0 ; V A1 C%s R1,%s L%s V A1" % (atok(fam, lo), atok(fam, lo - rng.randint(1, 5)), atok(fam, lo), atok(fam, lo), atok(fam, lo))
    if k < 0.80:
        nb, pl = rng.choice([(128, 129), (127, 129), (126, 129), (128, 130), (125, 129), (120, 200), (128, 255), (126, 128), (128, 128)])
        net = rng.choice([0x20010db8 << 96, MAX6, rng.getrandbits(128)])
        base = pd_base(net, nb)
        return "xpd %d %d %d ; V A1 A2 A3 V R4,6:%d/128:128 C6:%d/128:128 L6:%d/mnil A1 A2 A3 A4 A1 A1 A1 A1 A1 V" % (
            net, nb, pl, base, base, base)
    # through the registry: explicit range end / exclude range
    if k < 0.90:
        hi = rng.choice([atok(4, MAX4), atok(4, MAX4 - 1), atok(6, 7)])
        return "xreg 1 1 4 - 1 1 0 0 %s/29 %s %s - 0 ; A41,1,0,0 V41/1" % (atok(4, MAX4 - 7), atok(4, MAX4 - 3), hi)
    ex = rng.choice([(atok(4, MAX4 - 2), atok(4, MAX4)), (atok(4, 0x0a000001), atok(6, 9)), (atok(6, 9), atok(4, 0x0a000001)),
                     (atok(4, 0x0a000003), atok(4, 0x0a000002)), (atok(4, 0x0a000002), atok(4, 0x0a000003))])
    return "xreg 1 1 4 - 1 1 0 0 %s/29 - - - 1 %s %s ; A41,1,0,0 A41,1,0,0 V41/1" % (atok(4, 0x0a000000), ex[0], ex[1])


def gateway_block():
    """Deterministic: pool-level vs profile-level gateway (the only per-pool value of initV4Pools / initV6Pools with a
    profile-level default) across 2-3 pools of one IPv4 profile, every combination of {pool has its own gateway, has
    none} x profile gateway {none, unparseable, inside pool i's range for every i}, configuration order vs priority
    order reversed; plus the IA_NA twin (pool gateway only, no profile default).  Every pool is counted and drained
    through an override, so which address is missing from each pool is observed."""
    import itertools
    out = []
    for k in (2, 3):
        bases = [0x0a000100 + (j << 4) for j in range(k)]          # 10.0.1.0/28, 10.0.1.16/28, ... ranges .2-.5
        for own in itertools.product([False, True], repeat=k):
            for pg in ["-", "junk"] + list(range(k)):
                for rev in (False, True):
                    pgw = pg if isinstance(pg, str) else atok(4, bases[pg] + 4)
                    toks = ["1", "1", "4", pgw, str(k)]
                    for j in range(k):
                        prio = (k - j) if rev else j
                        gw = atok(4, bases[j] + 3) if own[j] else "-"
                        toks += [str(j + 1), str(prio), "0", "%s/28" % atok(4, bases[j]), atok(4, bases[j] + 2), atok(4, bases[j] + 5), gw, "0"]
                    ops = ["O41"]
                    for j in range(k):
                        ops += ["V41/%d" % (j + 1)] + ["A4%d,1,%d,0" % (j + 1, j + 1)] * 5
                    out.append("reg %s ; %s" % (" ".join(toks), " ".join(ops)))
    b6 = 0x20010db8 << 96
    for own in itertools.product([False, True], repeat=2):
        toks = ["1", "1", "n", "-", "2"]
        for j in range(2):
            base = b6 + (j << 4)
            gw = atok(6, base + 3) if own[j] else "-"
            toks += [str(j + 1), "0", "0", "%s/124" % atok(6, base), atok(6, base + 2), atok(6, base + 5), gw, "0"]
        ops = []
        for j in range(2):
            ops += ["Vn1/%d" % (j + 1)] + ["An%d,1,%d,0" % (j + 1, j + 1)] * 5
        out.append("reg %s ; %s" % (" ".join(toks), " ".join(ops)))
    return out


def exhaustive_small():
    """all histories of length <= L over a 3-address pool with one exclusion and 2 sessions"""
    lo, hi = 0x0a0000fe, 0x0a000101          # 10.0.0.254 .. 10.0.1.1 (4 addresses, one excluded -> 3 assignable)
    ex = atok(4, 0x0a0000ff)
    addrs = [atok(4, 0x0a0000fe), atok(4, 0x0a0000ff), atok(4, 0x0a000102)]
    alphabet = ["A1", "A2", "D0", "D1"] + ["R%d,%s" % (s, a) for s in (1, 2) for a in addrs] + ["L" + a for a in addrs]
    return lo, hi, ex, alphabet


def gen_cases(rng, tier, budget):
    import itertools
    cases = []
    n = budget or (700 if tier == "quick" else 30000)
    for _ in range(n * 40 // 100):
        cases.append(gen_pool(rng))
    for _ in range(n * 25 // 100):
        cases.append(gen_pd(rng))
    for _ in range(6 if tier == "quick" else 60):
        cases.append(gen_pd_v4(rng))
    for _ in range(n * 25 // 100):
        cases.append(gen_registry(rng))
    for _ in range(n * 10 // 100):
        cases.append(gen_registry(rng, resolve=True))
    for _ in range(n * 6 // 100):
        cases.append(gen_overlap(rng))
    for _ in range(24 if tier == "quick" else 150):
        cases.append(gen_geometry(rng))
    for _ in range(n * 5 // 100):
        cases.append(gen_reentry(rng))
    for _ in range(n * 3 // 100):
        # HA role changes inside histories: SetAllocDirection flips (also repeated and redundant ones) every few ops
        c = gen_registry(rng, maxops=30)
        h, o = c.split(" ; ")
        o = o.split()
        out = []
        for i, x in enumerate(o):
            if i % rng.choice([2, 3, 4, 5]) == 0:
                out += ["D%d" % rng.randint(0, 1)] * rng.choice([1, 1, 2])
            out.append(x)
        cases.append(h + " ; " + " ".join(out))
    for _ in range(n * 2 // 100):
        # the same Resolve / registry ops with no registry at all (nil global registry, nil receivers)
        c = gen_registry(rng, resolve=True, maxops=25) if rng.random() < 0.6 else gen_reentry(rng)
        cases.append("resn" + c[3:])
    cases += gateway_block()
    # bounded-exhaustive block
    lo, hi, ex, alpha = exhaustive_small()
    L = 2 if tier == "quick" else 4
    tail = " V A1 A2 A1 A2 V"
    for k in range(1, L + 1):
        for t in itertools.product(alpha, repeat=k):
            cases.append("pool %s %s 1 %s ; %s%s" % (atok(4, lo), atok(4, hi), ex, " ".join(t), tail))
    return cases


# ------------------------------------------------------------------ case parsing / monitors
def split_case(case):
    t = case.split()
    i = t.index(";")
    return t[:i], t[i + 1:]


def pool_geometry(head):
    lo, hi = parse_addr(head[1]), parse_addr(head[2])
    ne = int(head[3])
    ex = set(parse_addr(x) for x in head[4:4 + ne])
    return lo, hi, ex


def monitor_pool(lo, hi, ex, ops, outs, label=""):
    """Ownership ledger over the implementation's answers.  Returns a violation text or None."""
    def assignable(a):
        return a is not None and a[0] == lo[0] and lo[1] <= a[1] <= hi[1] and a not in ex
    n_assignable = sum(1 for n in range(lo[1], hi[1] + 1) if (lo[0], n) not in ex) if hi[1] - lo[1] < 100000 else None
    held = {}
    for i, (op, o) in enumerate(zip(ops, outs)):
        if o.startswith("INADMISSIBLE") or o in ("panic", "hang"):
            return None
        if op[0] == "A":
            if o == "x":
                if n_assignable is not None:
                    freec = n_assignable - sum(1 for a in held if assignable(a))
                    if freec > 0:
                        return "%sop %d %s: exhaustion reported while %d assignable addresses are free" % (label, i, op, freec)
            elif o.startswith("a"):
                a = parse_addr(o[1:])
                raw = (int(o[1]), int(o[3:]))
                if a != raw:
                    return "%sop %d %s: handed out a v4-mapped address %s" % (label, i, op, o)
                if not assignable(a):
                    why = "excluded" if a in ex else "outside the range"
                    return "%sop %d %s: handed out %s which is %s" % (label, i, op, o[1:], why)
                if a in held:
                    return "%sop %d %s: handed out %s which is held by session %s" % (label, i, op, o[1:], held[a])
                held[a] = op[1:]
        elif op[0] == "R":
            s, at = op[1:].split(",")
            a = parse_addr(at)
            if a is None:
                continue
            if o == "ok":
                if a in held and held[a] != s:
                    return "%sop %d %s: reservation granted although session %s holds it" % (label, i, op, held[a])
                held[a] = s
            elif o == "res":
                if a not in held or held[a] == s:
                    return "%sop %d %s: reservation refused although nobody else holds the address" % (label, i, op)
        elif op[0] == "L":
            a = parse_addr(op[1:])
            held.pop(a, None)
        elif op[0] == "V" and n_assignable is not None and o.startswith("n"):
            want = n_assignable - sum(1 for a in held if assignable(a))
            if int(o[1:]) != want:
                return "%sop %d V: Available=%s but %d assignable addresses are not held" % (label, i, o[1:], want)
    return None


def parse_pfx(t):
    """-> (ip number as16 after unmap | None, ones, bits) or None for nil"""
    if t == "nil":
        return None
    ipt, mt = t.rsplit("/", 1)
    a = parse_addr(ipt)
    ip = None if a is None else (a[1] if a[0] == 6 else M32 + a[1])
    if mt in ("mnil", "mbad"):
        return (ip, 0, 0)
    o, b = mt.split(":")
    return (ip, int(o), int(b))


def monitor_pd(head, ops, outs):
    net, nb, pl = int(head[1]), int(head[2]), int(head[3])
    if not (0 <= pl - nb <= 63) or pl > 128:
        return None
    base = pd_base(net, nb)
    shift = 128 - pl
    count = 1 << (pl - nb)

    def index(p):
        if p is None or p[0] is None or p[1] != pl or p[2] != 128:
            return None
        if p[0] >> (128 - nb) != base >> (128 - nb) if nb < 128 else p[0] != base:
            return None
        return (p[0] - base) >> shift
    held = {}
    for i, (op, o) in enumerate(zip(ops, outs)):
        if o.startswith("INADMISSIBLE") or o in ("panic", "hang"):
            return None
        if op[0] == "A":
            if o == "x":
                if count - len(held) > 0:
                    return "op %d %s: exhaustion reported while %d prefixes are free" % (i, op, count - len(held))
            elif o.startswith("p"):
                try:
                    ipt, mt = o[1:].split("/")
                    p = (int(ipt), int(mt.split(":")[0]), int(mt.split(":")[1]))
                except ValueError:
                    return "op %d %s: malformed prefix %s" % (i, op, o)
                ix = index(p)
                if ix is None:
                    return "op %d %s: delegated %s which is not a /%d inside the pool network" % (i, op, o[1:], pl)
                if (ix << shift) + base != p[0]:
                    return "op %d %s: delegated an unaligned prefix %s" % (i, op, o[1:])
                if ix in held:
                    return "op %d %s: delegated %s which is held by session %s" % (i, op, o[1:], held[ix])
                held[ix] = op[1:]
        elif op[0] == "R":
            s, pt = op[1:].split(",")
            ix = index(parse_pfx(pt))
            if ix is None:
                if o == "res":
                    return "op %d %s: conflict reported for a prefix that is not in the pool" % (i, op)
                continue
            if o == "ok":
                if ix in held and held[ix] != s:
                    return "op %d %s: reservation granted although session %s holds it" % (i, op, held[ix])
                held[ix] = s
            elif o == "res" and (ix not in held or held[ix] == s):
                return "op %d %s: reservation refused although nobody else holds the prefix" % (i, op)
        elif op[0] == "L":
            ix = index(parse_pfx(op[1:]))
            if ix is not None:
                held.pop(ix, None)
        elif op[0] == "C":
            want = "t" if index(parse_pfx(op[1:])) is not None else "f"
            if o != want:
                return "op %d %s: Contains=%s for a prefix that is%s in the pool" % (i, op, o, "" if want == "t" else " not")
        elif op[0] == "V" and o.startswith("n") and int(o[1:]) != count - len(held):
            return "op %d V: %s free but %d prefixes are not held" % (i, o[1:], count - len(held))
    return None


def parse_reg(head):
    """-> list of (pf, fam, profile gw, [pool dict]) in configuration order"""
    np_ = int(head[1])
    p = 2
    out = []
    for _ in range(np_):
        pf, fam, pgw, nk = head[p], head[p + 1], head[p + 2], int(head[p + 3])
        p += 4
        pools = []
        for _ in range(nk):
            name, prio, vrf, net, lo, hi, gw, ne = head[p:p + 8]
            p += 8
            ex = head[p:p + 2 * int(ne)]
            p += 2 * int(ne)
            pools.append(dict(name=name, prio=int(prio), vrf=vrf, net=net, lo=lo, hi=hi, gw=gw, ex=ex))
        out.append((pf, fam, pgw, pools))
    return out


def reg_vrfs(entries, shared):
    """effective VRF per (fam, key): last non-empty VRF configured under the key, per family (the
    property) or across families (shared=True: the single poolVRFs map of the code before 85029df)"""
    m = {}
    for pf, fam, _, pools in entries:
        for q in pools:
            if q["vrf"] != "0":
                m[("*" if shared else fam, "%s/%s" % (pf, q["name"]))] = q["vrf"]
    return lambda fam, key: m.get(("*" if shared else fam, key), "0")


def monitor_reg(head, ops, outs):
    """VRF confinement of Allocate*FromProfile / ResolveV4 / ResolveV6 from the configuration alone:
    the VRF of a pool is what ITS family's configuration says."""
    entries = parse_reg(head)
    vrf_of = reg_vrfs(entries, shared=False)
    names = {}
    for pf, fam, _, pools in entries:
        for q in pools:
            names.setdefault((fam, pf), set()).add(q["name"])

    def check(i, op, fam, pf, ov, vrf, key):
        kpf, kname = key.split("/")
        if kpf != pf:
            return "op %d %s: answered from pool %s of another profile" % (i, op, key)
        if ov != "0" and kname == ov:
            return None
        if kname not in names.get((fam, pf), ()):
            return "op %d %s: answered from unknown pool %s" % (i, op, key)
        eff = vrf_of(fam, key)
        if eff != vrf:
            return "op %d %s: subscriber VRF %s was served from %s pool %s, configured for VRF %s" % (
                i, op, vrf, {"4": "IPv4", "n": "IA_NA", "d": "PD"}[fam], key, eff)
        return None
    for i, (op, o) in enumerate(zip(ops, outs)):
        if o.startswith("INADMISSIBLE") or o in ("panic", "hang"):
            return None
        if op[0] == "A" and o.startswith("a"):
            s, pf, ov, vrf = op[2:].split(",")
            v = check(i, op, op[1], pf, ov, vrf, o[1:].split("=")[0])
            if v:
                return v
        elif op[0] == "Y" and o.startswith("r") and not o.endswith("@-") and "," in op:
            s, pf, ov, vrf, have = op[1:].split(",")
            v = check(i, op, "4", pf, ov, vrf, o.split("@")[1])
            if v:
                return v
        elif op[0] == "Z" and "," in op:
            s, pf, naov, pdov, vrf, hna, hpd = op[1:].split(",")
            fl = dict(x.split("=", 1) for x in o.split(";")[1:] if "=" in x)
            if fl.get("napool", "-") != "-":
                v = check(i, op, "n", pf, naov, vrf, fl["napool"])
                if v:
                    return v
            if fl.get("pdpool", "-") != "-":
                v = check(i, op, "d", pf, pdov, vrf, fl["pdpool"])
                if v:
                    return v
    return None


def res_ranges(head):
    """(fam, key) -> (lo, hi) of the allocator Contains() answers for (excludes do not matter to Contains); res
    cases only (pools of one family are disjoint there, so a value identifies its pool)"""
    out = {}
    for pf, fam, pgw, pools in parse_reg(head):
        for q in pools:
            key = (fam, "%s/%s" % (pf, q["name"]))
            if key in out or fam == "d" or q["net"] == "bad" or "junk" in (q["lo"], q["hi"]):
                continue
            nb, bits = q["net"].split("/")
            width = 32 if fam == "4" else 128
            m = 1 << (width - int(bits))
            first = (parse_addr(nb)[1] // m) * m
            f = 4 if fam == "4" else 6
            lo = (f, first + 1) if q["lo"] == "-" else parse_addr(q["lo"])
            hi = (f, first + m - 2) if q["hi"] == "-" else parse_addr(q["hi"])
            out[key] = (lo, hi)
    return out


def monitor_res(head, ops, outs):
    """Ownership ledger over ResolveV4/ResolveV6 answers (IPv4 and IA_NA addresses): an address of a managed
    pool must not be offered to a session while the ledger says another session holds it."""
    ranges = res_ranges(head)

    def managed(fam, a):
        return any(k[0] == fam and lo[0] == a[0] and lo[1] <= a[1] <= hi[1] for k, (lo, hi) in ranges.items())
    held = {"4": {}, "n": {}}
    for i, (op, o) in enumerate(zip(ops, outs)):
        if o.startswith("INADMISSIBLE") or o in ("panic", "hang"):
            return None
        c = op[0]
        got = []            # (fam, addr, sid)
        if c in "YyX" and o.startswith("r"):
            sid = op[1:].split(",")[0]
            got.append(("4", parse_addr(o[1:].split("@")[0]), sid))
        elif c in "ZzW" and o.startswith("ok;"):
            sid = op[1:].split(",")[0]
            fl = dict(x.split("=", 1) for x in o.split(";")[1:] if "=" in x)
            if fl.get("na", "-") != "-":
                got.append(("n", parse_addr(fl["na"]), sid))
        elif c == "A" and op[1] in "4n" and o.startswith("a"):
            got.append((op[1], parse_addr(o.split("=", 1)[1]), op[2:].split(",")[0]))
        elif c in "LI" and op[1] in "4n":
            a = parse_addr(op[2:].split(",")[-1])
            if a is not None:
                if c == "I":
                    held[op[1]].pop(a, None)
                else:
                    r = ranges.get((op[1], op[2:].split(",")[0]))
                    if r and r[0][0] == a[0] and r[0][1] <= a[1] <= r[1][1]:
                        held[op[1]].pop(a, None)
        for fam, a, sid in got:
            if a is None or not managed(fam, a):
                continue
            if held[fam].get(a, sid) != sid:
                return "op %d %s: %s address %s is offered to session %s while session %s holds it" % (
                    i, op, "IPv4" if fam == "4" else "IA_NA", o[:60], sid, held[fam][a])
            held[fam][a] = sid
    return None


def monitor(case, impl):
    try:
        head, ops = split_case(case)
        outs = impl.split()
        if kind(head) == "pool":
            lo, hi, ex = pool_geometry(head)
            if lo is None or hi is None or lo[0] != hi[0]:
                return None
            return monitor_pool(lo, hi, ex, ops, outs)
        if kind(head) == "pd":
            if impl.strip() == "nilalloc":
                return None
            if head[1].startswith("4:"):
                got = [o for op, o in zip(ops, outs) if op[0] == "A" and o.startswith("p")]
                if got:
                    return "a PD pool configured on the IPv4 network %s/%s delegated %d prefixes (%s ...) computed on the mapped address" % (
                        head[1], head[2], len(got), got[-1][1:40])
                return None
            if int(head[3]) > 128:
                # nothing of length > 128 can be delegated: any answer is a violation (same address, nil mask)
                got = [o for op, o in zip(ops, outs) if op[0] == "A" and o.startswith("p")]
                if got:
                    return "a PD pool with prefix length %s delegated %s to %d sessions" % (head[3], got[0][1:], len(got))
                return None
            return monitor_pd(head, ops, outs)
        if head[0] == "resn":
            return None          # no registry: nothing is tracked, nothing to hold against the answers
        if kind(head) == "res":
            v = monitor_res(head, ops, outs[:len(ops)])
            if v:
                return v
        return monitor_reg(head, ops, outs[:len(ops)])
    except Exception as e:  # a monitor bug must not hide a mismatch
        return None


def classify(case, impl, model):
    if impl.startswith("panic") or impl in ("hang", "probe-died"):
        return "P", "the allocator %s on this configuration" % (
            "panicked: " + impl if impl.startswith("panic") else "did not return (infinite loop / unbounded allocation)")
    v = monitor(case, impl)
    if v:
        return "P", v
    it, mt = impl.split(), model.split()
    k = next((i for i, (a, b) in enumerate(zip(it, mt)) if a != b), min(len(it), len(mt)))
    head, ops = split_case(case)
    op = ops[k] if k < len(ops) else "final Available"
    m = mt[k] if k < len(mt) else "-"
    a = it[k] if k < len(it) else "-"
    if m.startswith("INADMISSIBLE"):
        return "P", "op %d %s: answer %s is not admissible (%s)" % (k, op, a, m.split(":", 1)[1])
    if k < len(ops) and op[0] in "RLPICV" and kind(head) in ("pool", "pd"):
        return "P", "op %d %s: returned %s, the proved model says %s" % (k, op, a, m)
    if k < len(ops) and op[0] in "YZyzXW":
        # what was offered (nil / address / prefix) is property-level; pool names and context fields alone are not
        # (the VRF/order monitor above has already accepted the pool)
        def offered(t):
            if t[0] == "r":
                return t[1:].split("@")[0]
            fl = dict(x.split("=", 1) for x in t.split(";")[1:] if "=" in x)
            return (t.split(";")[0], fl.get("na"), fl.get("pd"))
        if offered(a) != offered(m):
            return "P", "op %d %s: Resolve offered %s, the proved model says %s" % (k, op, a, m)
        return "G", "op %d %s: same offer, pool-name / context fields differ: impl=%s model=%s" % (k, op, a, m)
    if kind(head) == "reg" and (k >= len(ops) or op[0] == "V") and "=" in a + m or (k < len(ops) and op[0] == "V"):
        return "P", "%s: %s free, the proved model says %s (a lease was dropped or kept in the wrong pool)" % (
            ("op %d %s" % (k, op)) if k < len(ops) else "end of history", a, m)
    return "G", "first difference at op %d %s: impl=%s model=%s" % (k, op, a, m)


def nontrivial(case, out):
    t = out.split()
    got = any(x.startswith(("a", "p")) and x not in ("panic",) for x in t)
    return got and ("x" in t or "res" in t or any(x.startswith(("res@",)) for x in t) or " L" in case)


def shrink(case):
    head, ops = split_case(case)
    hs = " ".join(head)
    n = len(ops)
    if n > 1:
        yield "%s ; %s" % (hs, " ".join(ops[:n // 2]))
        yield "%s ; %s" % (hs, " ".join(ops[n // 2:]))
        for size in (8, 4, 2):
            if n > size * 2:
                for i in range(0, n, size):
                    yield "%s ; %s" % (hs, " ".join(ops[:i] + ops[i + size:]))
    for i in range(n):
        yield "%s ; %s" % (hs, " ".join(ops[:i] + ops[i + 1:]))
    if head[0] == "pool":
        ne = int(head[3])
        for i in range(ne):
            h = head[:3] + [str(ne - 1)] + head[4:4 + i] + head[5 + i:]
            yield "%s ; %s" % (" ".join(h), " ".join(ops))


def distribution(cases, impl):
    d = {"pool": 0, "pd": 0, "reg": 0, "res": 0, "resn": 0, "xpool": 0, "xpd": 0, "xreg": 0, "hang": 0, "override_answers": 0,
         "override_cross_vrf_answers": 0, "pd_overlap_refused": 0, "ops": 0, "alloc_ok": 0, "exhausted": 0, "conflict": 0,
         "contains_true": 0, "nilalloc": 0, "max_ops": 0}
    opk = {}
    for c, o in zip(cases, impl):
        head, ops = split_case(c)
        d[head[0]] += 1
        d["ops"] += len(ops)
        d["max_ops"] = max(d["max_ops"], len(ops))
        for op in ops:
            opk[op[0]] = opk.get(op[0], 0) + 1
        if (o or "") == "hang":
            d["hang"] += 1
        if head[0] in ("reg", "res"):
            own = reg_vrfs(parse_reg(head), False)
            for op, x in zip(ops, (o or "").split()):
                if op[0] == "A" and x.startswith("a"):
                    s_, pf, ov, vrf = op[2:].split(",")
                    key = x[1:].split("=")[0]
                    if ov != "0" and key == "%s/%s" % (pf, ov):
                        d["override_answers"] += 1
                        d["override_cross_vrf_answers"] += own(op[1], key) != vrf
        for x in (o or "").split():
            if x.startswith("ovl"):
                d["pd_overlap_refused"] += 1
            if x == "x":
                d["exhausted"] += 1
            elif x.startswith("res"):
                d["conflict"] += 1
            elif x == "t":
                d["contains_true"] += 1
            elif x == "nilalloc":
                d["nilalloc"] += 1
            elif x[0] in "apr" and x not in ("panic", "res") and not x.startswith("res@"):
                d["alloc_ok"] += 1
    d["op_mix"] = opk
    return d
