"""C11 — HA session replication converges; backlog range exact (pkg/ha sync.go, sync_receiver.go, backlog.go, server.go)."""
import re

ID = "C11"
HARNESSES = [dict(name="ha", pkg="./pkg/ha/", test="TestVerifC11", timeout=900,
                  files=[("pkg/ha/zz_verif_c11_test.go", "harness/C11/zz_verif_c11_test.go"),
                         ("pkg/allocator/zz_verif_c11_alloc.go", "harness/C11/zz_verif_c11_alloc.go")])]
# repaired first (the theorems are proved for it); one variant per recorded defect; defective = all of them together
# repaired = /repo HEAD for everything that is fixed + dropping of messages not above lastSeq (the theorems
# C11_converges / C11_pools_exact are proved for it); d_stale = Model.head = /repo HEAD exactly: the receiver never
# compares sequence numbers; d_head = Model.head = /repo HEAD: both open findings (stale redelivery, bulk sync of a
# lagging standby).  Variants for fixed findings are gone: a regression is a VIOLATION.
VARIANTS = ["repaired", "d_stale", "d_head"]
# known-finding signatures
SIG = {"stale": "stale-redelivery-applied", "lagdel": "bulk-sync-lagging-standby-not-converging"}
RULE = ("storm: 30 cases of 8-200 ungated concurrent handlers (HandleEvent and HandleMutationResult) released together by a barrier, 5-100 rounds, same monitors. "
        "conc: HandleEvent called by concurrent handlers stopped by a gate inside sessionToCheckpoint (handshakes, no sleeps): all interleavings of start/completion of 2 and 3 handlers for capacities 2 and 4, random ones for 3-5 handlers mixed with uninterrupted events and role transitions (SetActive false/true: failover, failback, repeated activation, also while a handler is stopped); monitors ring consecutive, stream order = sequence order, Range exact for every (from,to) in 0..n+1. "
        "rng: ring capacities {1..9, 16, 0 and -1 (=10000)} x pushed runs of consecutive uint64 sequence numbers (fresh, wrapped "
        "1..3 times, starting at 1 / large / just below 2^63), queried with every (from,to) in a window around the retained "
        "range plus empty, inverted, far-away and (class 'huge') >= 2^63 bounds; every answer is held by the caller and read again after each of cap+1 further pushes. "
        "hist: a registry with 2-3 IPv4, 2 IANA and 2 PD pools; 12-45 operations over 7 sessions (IPoE/PPPoE/L2GW, optional "
        "v4/IANA/PD/pool names/VRF/relay info/user, unknown and empty SRG, unparseable prefix, out-of-pool address) with "
        "in-order deliveries lagging behind the events, deliveries whose store write fails followed by their retransmission, duplicates and range replays ending at the newest delivered message "
        "(mode clean; mode fresh: SRG 2 is delivered nothing until a bulk sync at the end that runs on a full ring while the active node handles 1-3 more events after every page), plus one input class per case (each was the trigger of a finding; all but 'stale' are fixed in /repo and must now match the repaired model): stale redelivery (mode stale), redelivery of a message that is still the newest delivered one of its session with address changes (mode latest: store and pools must converge on HEAD, only lastSeq may differ), frequent range replays reaching the newest delivered message while addresses change hands (mode replay), address change/drop by an update (mode "
        "drop), bulk replay with deletes in the window (mode bulk), same address in two named pools (mode relall).  Every "
        "history ends with all messages delivered.  Non-trivial: rng case with at least one non-empty answer and one empty; "
        "hist case whose final store is non-empty and at least one session was released.  Distinct: by case text.")
TRUSTED = ["strings (session id, user, pool key, VRF, SRG, circuit/remote id) are modelled as small numbers; the harness maps "
           "them to fixed strings",
           "Go map iteration order in Registry.Reserve*/Release* scans is modelled as list order; generated registries have at "
           "most one pool containing an address unless the pool is named",
           "opdb.Store is an in-memory fake (put/delete/overwrite semantics per namespace and key)",
           "makeslice is modelled as panicking for lengths above 2^45; the generator avoids Range results between 2^14 and 2^45"]
ASSUMPTIONS = ["gRPC delivery is simulated by a protobuf marshal/unmarshal round trip of each request",
               "PPPoL2TP sessions (access type \"\") and CGNAT mapping replication are not generated",
               "PD pools are generated with delegated length <= 64 (prefixToIndex word arithmetic for longer prefixes is C01's)"]

T63 = 1 << 63
T64 = 1 << 64


# ------------------------------------------------------------------ rng cases
def rng_case(cap, segs, qs):
    cls = "huge" if any(a >= T63 or b >= T63 for a, b in qs) else "std"
    # A:<n>: the caller keeps every answer while n more entries are pushed (the ring wraps over every slot)
    return "rng %s %d %d %s %d %s A:%d" % (cls, cap, len(segs), " ".join("%d+%d" % s for s in segs), len(qs),
                                   " ".join("%d %d" % q for q in qs), (cap if cap > 0 else 10000) + 1)


def gen_rng(rng, tier, out):
    caps = [1, 2, 3, 4, 5, 6, 7, 8, 9, 16]
    firsts = [1, 2, 1000, (1 << 32) - 2, T63 - 40]
    for cap in caps:
        for first in firsts:
            for n in sorted({0, 1, cap - 1, cap, cap + 1, 2 * cap, 2 * cap + 1, 3 * cap + 2}):
                if n < 0:
                    continue
                lo, hi = first + max(0, n - cap), first + n - 1
                qs = []
                w = range(max(0, lo - 2), hi + 4)
                if len(w) <= 9:
                    qs = [(a, b) for a in w for b in w]
                else:
                    for _ in range(60):
                        qs.append((rng.choice(w), rng.choice(w)))
                qs += [(0, 0), (0, T63 - 1), (lo, T63 - 1), (0, hi), (hi + 1, T63 - 1), (T63 - 1, T63 - 1), (T63 - 1, 0),
                       (hi, lo), (lo, lo), (hi, hi), (lo + 1, hi + 9)]
                out.append(rng_case(cap, [(first, n)] if n else [], qs))
    # default capacity 10000 (cap <= 0), wrapped
    for cap, ns in ((0, (3, 10004)), (-1, (2,))):
        for n in ns:
            lo, hi = 1 + max(0, n - 10000), n
            qs = [(0, 3), (lo, lo + 2), (hi - 2, hi), (hi - 1, hi + 5), (lo - 1 if lo else 0, lo), (hi + 1, hi + 2),
                  (lo + 5000, lo + 5002), (hi, lo)]
            out.append(rng_case(cap, [(1, n)], qs))
    # class huge: bounds >= 2^63 (recorded finding: an entry outside the range, or a negative index)
    for cap in (1, 2, 3, 4, 5, 7, 8):
        for n in (1, 3, cap, cap + 2):
            hi = n
            qs = [(T63 + 1, T63 + 1), (T63 + 1, T63 + 2), (T63, T63), (T63 + n, T63 + n), (T64 - 1, T64 - 1), (1, T63),
                  (0, T64 - 1), (2, T63 + 5), (T63 + 3, 2), (T64 - 2, 1), (T63 + 2, T63 + 1)]
            out.append(rng_case(cap, [(1, n)], qs))
    # non-consecutive contents (two runs): the model follows the arithmetic literally
    for cap in (3, 4, 6):
        for _ in range(4 if tier == "quick" else 20):
            a, b = rng.randint(1, 50), rng.randint(1, 50)
            qs = [(rng.randint(0, 60), rng.randint(0, 60)) for _ in range(12)]
            out.append(rng_case(cap, [(a, rng.randint(1, cap)), (b, rng.randint(1, cap))], qs))


# ------------------------------------------------------------------ hist cases
V4 = {1: (0x0A000001, 0x0A00000C, 0x0A000001), 2: (0x0A000101, 0x0A000108, 0), 3: (0x0A000001, 0x0A00000C, 0x0A000001)}
NA_BASE = {1: 0x20010DB8 << 96, 2: (0x20010DB8 << 96) | (1 << 80)}
NA = {1: (NA_BASE[1] + 1, NA_BASE[1] + 10, 0), 2: (NA_BASE[2] + 1, NA_BASE[2] + 8, NA_BASE[2] + 1)}
PD = {1: ((0x20010DB8 << 96) | (0x100 << 80), 52, 56), 2: ((0x20010DB8 << 96) | (0x200 << 80), 60, 64)}
KIND = {1: "I", 2: "I", 3: "I", 4: "P", 5: "P", 6: "L", 7: "I", 8: "P", 10: "I", 12: "L"}


def pool_tokens(mode):
    t = []
    for n in (1, 2) + ((3,) if mode == "relall" else ()):
        t.append("4:%d:%d:%d:%d" % ((n,) + V4[n]))
    for n in (1, 2):
        t.append("6:%d:%d:%d:%d" % ((n,) + NA[n]))
    for n in (1, 2):
        t.append("7:%d:%d:%d:%d" % ((n,) + PD[n]))
    return t


class Active:
    """A well-behaved active node: live sessions never share an address (per family; per pool in mode relall)."""

    def __init__(self, rng, mode):
        self.rng, self.mode = rng, mode
        self.live = {}      # sid -> dict of fields
        self.used = {4: set(), 6: set(), 7: set()}

    def pick(self, fam, sid):
        r = self.rng
        par = sid % 2      # the two SRG streams are not ordered against each other: they never trade addresses
        if fam == 4:
            if self.mode == "relall":
                pool = r.choice([1, 3])
                cands = [(pool, a) for a in range(V4[pool][0] + 1, V4[pool][0] + 5)
                         if (pool, a) not in self.used[4] and a % 2 == par]
                if not cands:
                    return None
                c = r.choice(cands)
                self.used[4].add(c)
                return c
            pool = r.choice([1, 1, 2])
            cands = [a for a in range(V4[pool][0], V4[pool][1] + 1)
                     if a not in self.used[4] and a != V4[pool][2] and a % 2 == par]
            cands = cands[:4]          # few addresses: reuse after release is frequent
            x = r.random()
            if x < 0.04:
                a = 0xC0A80000 + sid   # outside every pool
                if a in self.used[4]:
                    return None
                self.used[4].add(a)
                return (r.choice([0, 9, 1]), a)
            if not cands:
                return None
            a = r.choice(cands)
            self.used[4].add(a)
            return (r.choice([pool, pool, 0, 9]), a)
        if fam == 6:
            pool = r.choice([1, 2])
            cands = [a for a in range(NA[pool][0], NA[pool][1] + 1)
                     if a not in self.used[6] and a != NA[pool][2] and a % 2 == par][:3]
            if not cands:
                return None
            a = r.choice(cands)
            self.used[6].add(a)
            return (r.choice([pool, pool, 0, 9]), a)
        pool = r.choice([1, 2])
        net, nb, pl = PD[pool]
        cnt = 1 << (pl - nb)
        idxs = [i for i in list(range(0, 6)) + [cnt - 2, cnt - 1] if (pool, i) not in self.used[7] and i % 2 == par]
        if not idxs:
            return None
        i = r.choice(idxs)
        self.used[7].add((pool, i))
        host = r.choice([0, 0, 1, (1 << (128 - pl)) - 1])     # host bits set: ParseCIDR masks them
        return (r.choice([pool, pool, 0, 9]), net + (i << (128 - pl)) + host, pl, (pool, i))

    def free(self, s):
        if s.get("v4") is not None:
            self.used[4].discard((s["v4pool"], s["v4"]) if self.mode == "relall" else s["v4"])
        if s.get("v6") is not None:
            self.used[6].discard(s["v6"])
        if s.get("pdslot") is not None:
            self.used[7].discard(s["pdslot"])

    def fresh(self, sid):
        r = self.rng
        k = KIND[sid]
        s = dict(kind=k, sid=sid, srg=1 if sid % 2 else 2, mac=0x020000000000 + sid * 257 + r.randint(0, 3),
                 ov=r.choice([0, 100, 4094]), iv=r.choice([0, 7, 200]), user=r.choice([0, 1, 2, sid]),
                 v4=None, v4pool=0, v6=None, napool=0, pd=None, pdlen=0, pdpool=0, pdslot=None,
                 vrf=r.choice([0, 0, 1, 2]), circ=r.choice(["-", "-", "5"]), rem=r.choice(["-", "-", "8"]),
                 ppp=r.randint(1, 65535) if k == "P" else 0,
                 misc=r.choice([0, 3600, 65535] + ([] if k == "L" else [4294967295])))
        if sid == 7 and r.random() < 0.5:
            s["srg"] = r.choice([0, 3])          # not replicated
        if k != "L":
            self.give(s, 4, 0.8)
            self.give(s, 6, 0.5)
            self.give(s, 7, 0.5)
        return s

    def give(self, s, fam, p):
        if self.rng.random() >= p:
            return
        c = self.pick(fam, s["sid"])
        if c is None:
            return
        if fam == 4:
            s["v4pool"], s["v4"] = c
        elif fam == 6:
            s["napool"], s["v6"] = c
        else:
            s["pdpool"], s["pd"], s["pdlen"], s["pdslot"] = c
            if self.rng.random() < 0.05:
                s["pdlen"] = 200            # unparseable prefix string: nothing replicated for it
                self.used[7].discard(s["pdslot"])
                s["pdslot"] = None

    def drop(self, s, fam):
        if fam == 4 and s["v4"] is not None:
            self.used[4].discard((s["v4pool"], s["v4"]) if self.mode == "relall" else s["v4"])
            s["v4"], s["v4pool"] = None, 0
        if fam == 6 and s["v6"] is not None:
            self.used[6].discard(s["v6"])
            s["v6"], s["napool"] = None, 0
        if fam == 7 and s["pd"] is not None:
            if s["pdslot"] is not None:
                self.used[7].discard(s["pdslot"])
            s["pd"], s["pdlen"], s["pdpool"], s["pdslot"] = None, 0, 0, None


def ev_token(s, rel):
    o = lambda v: "-" if v is None else str(v)
    return "E:%s:%d:%d:%d:%d:%d:%d:%d:%s:%d:%s:%d:%s:%d:%d:%d:%s:%s:%d:%d" % (
        s["kind"], s["sid"], s["srg"], 1 if rel else 0, s["mac"], s["ov"], s["iv"], s["user"], o(s["v4"]), s["v4pool"],
        o(s["v6"]), s["napool"], o(s["pd"]), s["pdlen"], s["pdpool"], s["vrf"], s["circ"], s["rem"], s["ppp"], s["misc"])


def gen_hist(rng, mode, nops):
    cap = rng.choice([2, 3, 4, 8, 64])
    fresh = mode == "fresh"       # SRG 2's standby side is fresh: nothing is delivered until a bulk sync at the end,
    latest = mode == "latest"     # duplicates of the newest delivered message OF A SESSION (hypothesis of C11_*_head)
    if latest:
        mode = "drop"             # addresses may change or be dropped by updates
    replay = mode == "replay"     # frequent replays of backlog ranges that reach the newest delivered message
    if replay:                    # (delivery_runs), while addresses change hands: no pool theorem for HEAD — generated
        mode = "drop"
        cap = rng.choice([8, 64])
    wrapped = mode == "freshwrap" # which runs while the active node keeps renewing a session (ring exactly full);
    if fresh:                     # freshwrap: the same with a backlog that has wrapped before the bulk sync
        mode = "clean"
        cap = rng.choice([2, 3, 4, 6])
    if wrapped:
        fresh, mode = True, "clean"
        cap = rng.choice([2, 3, 4])
    lag = mode == "lagbulk"       # SRG 2's standby side has state, then misses messages (one of them a DELETE of a
    if lag:                       # session it holds) and catches up by a bulk sync
        mode = "clean"
        cap = rng.choice([2, 3, 8, 64])
    hold2 = False
    act = Active(rng, mode)
    ops = []
    sent = {1: [], 2: []}      # per srg: list of (is_delete, key)
    nxt = {1: 0, 2: 0}
    while len(ops) < nops:
        if lag and not hold2 and len(ops) >= nops // 2:
            while nxt[2] < len(sent[2]):
                ops.append("D:2")
                nxt[2] += 1
            hold2 = True
            live2 = [s for s in act.live.values() if s["srg"] == 2]
            if live2:
                s = rng.choice(live2)
                ops.append(ev_token(s, True))
                sent[2].append((True, (s["kind"], s["sid"])))
                act.free(s)
                del act.live[s["sid"]]
        x = rng.random()
        if x < 0.55:
            sid = rng.randint(1, 7)
            if fresh and not wrapped:
                # every SRG-2 session gets exactly one event (so that the replayed window has one entry per session)
                sid = rng.choice([1, 2, 3, 4, 5, 6, 7, 8, 10, 12])
                if sid % 2 == 0 and (len(sent[2]) >= cap or sid in act.live):
                    sid = rng.choice([1, 3, 5, 7])
            if wrapped:
                sid = rng.choice([1, 2, 2, 3, 4, 4, 5, 6, 6, 7, 8, 10, 12])
            s = act.live.get(sid)
            if s is None:
                s = act.fresh(sid)
                act.live[sid] = s
                rel = False
            elif rng.random() < 0.3 and not (fresh and not wrapped and s["srg"] == 2):
                rel = True
            else:
                rel = False
                s["user"] = rng.choice([0, 1, 2, 3])
                s["misc"] = rng.choice([0, 60, 86400 if s["kind"] != "L" else 4094])
                if s["kind"] != "L":
                    for fam in (4, 6, 7):
                        has = {4: s["v4"], 6: s["v6"], 7: s["pd"]}[fam] is not None
                        if not has:
                            act.give(s, fam, 0.3)              # gaining an address is allowed in every mode
                        elif mode == "drop" and rng.random() < 0.45:
                            act.drop(s, fam)
                            act.give(s, fam, 0.5)              # change or drop
            if rel and rng.random() < 0.35:
                # release events of the access components are sparse (DHCPv4 RELEASE: IPv4 only, no pool names; expiry:
                # no prefix): the DELETE carries less addressing than the session's last UPDATE
                sp = dict(s)
                for fld, val in rng.choice([(("v6", None), ("napool", 0), ("pd", None), ("pdlen", 0), ("pdpool", 0), ("v4pool", 0)),
                                            (("pd", None), ("pdlen", 0), ("pdpool", 0), ("v4pool", 0), ("napool", 0)),
                                            (("v4", None), ("v4pool", 0))]):
                    sp[fld] = val
                ops.append(ev_token(sp, True))
            elif not rel and rng.random() < 0.15:
                # the same update arrives as the result of a subscriber mutation (HandleMutationResult); a failed
                # mutation (ok=0) of an already live session is not replicated and changes nothing
                ops.append("M:1:" + ev_token(s, False)[2:])
            else:
                ops.append(ev_token(s, rel))
            if not rel and rng.random() < 0.05:
                ops.append("M:0:" + ev_token(s, False)[2:])         # failed mutation: ignored
            if s["srg"] in (1, 2):
                sent[s["srg"]].append((rel, (s["kind"], sid)))
            if rel:
                act.free(s)
                del act.live[sid]
        elif x < 0.85:
            g = 1 if fresh or hold2 else rng.choice([1, 2])
            if nxt[g] < len(sent[g]) and rng.random() < 0.12:
                # the standby's store write fails: the request is lost and retransmitted before anything newer
                nxt[g] += 1
                ops += ["DF:%d" % g, "R:%d:%d" % (g, nxt[g])]
                if rng.random() < 0.3:
                    ops.append("RF:%d:%d" % (g, nxt[g]))
                continue
            ops.append("D:%d" % g)
            if nxt[g] < len(sent[g]):
                nxt[g] += 1
        else:
            g = 1 if fresh or hold2 else rng.choice([1, 2])
            m = nxt[g]
            y = rng.random()
            if replay and m >= 1:
                ops.append("P:%d:%d:%d" % (g, rng.randint(1, m) if rng.random() < 0.5 else rng.randint(max(1, m - 6), m), m))
            elif latest and m >= 1:
                cand = [k for k in range(1, m + 1) if not any(key == sent[g][k - 1][1] for _, key in sent[g][k:m])]
                ops.append("R:%d:%d" % (g, rng.choice(cand)))
            elif mode == "stale" and m >= 2 and y < 0.6:
                if rng.random() < 0.6:
                    # prefer an update of a session whose release has been delivered since
                    cand = [k for k in range(1, m) if not sent[g][k - 1][0] and
                            any(d and key == sent[g][k - 1][1] for d, key in sent[g][k:m])]
                    k = rng.choice(cand) if cand and rng.random() < 0.7 else rng.randint(1, m - 1)
                    ops.append("R:%d:%d" % (g, k))
                else:
                    a = rng.randint(1, m - 1)
                    ops.append("P:%d:%d:%d" % (g, a, rng.randint(a, m - 1)))
            elif mode == "bulk" and y < 0.6:
                # bulk replay when the standby is caught up
                while nxt[g] < len(sent[g]):
                    ops.append("D:%d" % g)
                    nxt[g] += 1
                ops.append("B:%d" % g)
            elif mode == "clean" and y < 0.15:
                # bulk replay is harmless when the standby is caught up and the retained window holds no delete
                win = sent[g][-cap:]
                if nxt[g] == len(sent[g]) and not any(d for d, _ in win):
                    ops.append("B:%d" % g)
            elif m >= 1:
                if y < 0.8 or mode in ("relall", "bulk"):
                    ops.append("R:%d:%d" % (g, m))                      # duplicate of the newest delivered message
                else:
                    ops.append("P:%d:%d:%d" % (g, rng.randint(0, m), m))  # replay ending at the newest delivered one
    page = rng.choice([1, 2, 1000])
    if fresh:
        page = rng.choice([1, 1, 2])
        while wrapped and len(sent[2]) <= cap:   # make sure the backlog has wrapped
            sid = rng.choice([2, 4, 6, 8, 10, 12])
            if sid not in act.live:
                act.live[sid] = act.fresh(sid)
            act.live[sid]["user"] = rng.choice([0, 1, 2, 3])
            ops.append(ev_token(act.live[sid], False))
            sent[2].append((False, (KIND[sid], sid)))
        for sid in (2, 4, 6, 8, 10, 12):          # fill the ring of SRG 2 exactly
            if wrapped:
                break
            if len(sent[2]) < cap and sid not in act.live:
                act.live[sid] = act.fresh(sid)
                ops.append(ev_token(act.live[sid], False))
                sent[2].append((False, (KIND[sid], sid)))
        live2 = [s for s in act.live.values() if s["srg"] == 2]
        if live2 and not (wrapped and rng.random() < 0.7):
            k = rng.randint(1, 3)
            ops.append("C:2:%d:%s" % (k, ev_token(rng.choice(live2), False)[2:]))
            ops += ["D:2"] * (cap * k + 2)
        else:
            ops.append("B:2")
        nxt[2] = len(sent[2])
    if lag:
        ops.append("B:2")
        nxt[2] = len(sent[2])
        if rng.random() < 0.5:                 # the live stream goes on after the bulk sync
            live2 = [s for s in act.live.values() if s["srg"] == 2]
            if live2:
                s = rng.choice(live2)
                s["user"] = rng.choice([0, 1, 2, 3])
                ops.append(ev_token(s, False))
                sent[2].append((False, (s["kind"], s["sid"])))
    for g in (1, 2):
        while nxt[g] < len(sent[g]):
            ops.append("D:%d" % g)
            nxt[g] += 1
    if mode == "stale":
        # late retransmissions after everything was delivered
        for g in (1, 2):
            m = nxt[g]
            for _ in range(rng.randint(0, 2)):
                if m < 2:
                    break
                cand = [k for k in range(1, m) if not sent[g][k - 1][0] and
                        any(d and key == sent[g][k - 1][1] for d, key in sent[g][k:m])]
                k = rng.choice(cand) if cand and rng.random() < 0.7 else rng.randint(1, m - 1)
                ops.append("R:%d:%d" % (g, k))
    if mode == "clean" and rng.random() < 0.2:
        ops.append("D:1")                      # nothing left: no-op
    return "hist %s %d %d %s %s" % ("replay" if replay else "lagbulk" if lag else "latest" if latest else "freshwrap" if wrapped else "fresh" if fresh else mode, cap, page, " ".join(pool_tokens(mode)), " ".join(ops))


def gen_conc(rng, tier, out):
    """HandleEvent run by concurrent handlers: every interleaving of start (up to the preemption point) and completion of
    2 and 3 handlers (exhaustive), random ones for 4-5 handlers mixed with uninterrupted events."""
    def interleavings(pending, started, acc):
        if not pending and not started:
            yield acc
            return
        if pending:
            yield from interleavings(pending[1:], started + [pending[0]], acc + ["H:%d:%d" % (pending[0], pending[0])])
        for i in started:
            yield from interleavings(pending, [x for x in started if x != i], acc + ["F:%d" % i])
    def emit(cap, ops):
        case = "conc x %d %s" % (cap, " ".join(ops))
        out.append(case.replace("conc x", "conc overlap" if _overlap(case) else "conc seq", 1))
    for n in (2, 3):
        for cap in (2, 4):
            for ops in interleavings(list(range(1, n + 1)), [], []):
                emit(cap, ops)
                if n == 2:   # the same with handler 2 (resp. both) entering through HandleMutationResult
                    emit(cap, [o.replace("H:2:", "G:2:") for o in ops])
                    emit(cap, [o.replace("H:", "G:") for o in ops])
    # role transitions of the sender (Manager.driveSync -> SetActive) between and during events: failover, failback,
    # repeated activation; counters and rings live as long as the process
    for cap in (2, 3, 8):
        for pre in (1, 3, 5):
            for post in (1, 2, 4):
                for mid in (["A:0", "A:1"], ["A:0", "E:9", "A:1"], ["A:1"], ["A:0", "A:0", "A:1", "A:1"],
                            ["H:7:7", "A:0", "F:7", "A:1"], ["A:0", "H:7:7", "A:1", "F:7"]):
                    emit(cap, ["E:%d" % (i + 1) for i in range(pre)] + mid + ["E:%d" % (i + 1) for i in range(post)])
    for _ in range(60 if tier == "quick" else 600):
        n = rng.randint(3, 5)
        pending, started, ops = list(range(1, n + 1)), [], []
        while pending or started:
            x = rng.random()
            if x < 0.12:
                ops.append("A:%d" % rng.randint(0, 1))
            elif pending and x < 0.4:
                i = pending.pop(0)
                started.append(i)
                ops.append("%s:%d:%d" % (rng.choice("HHG"), i, i))
            elif started and x < 0.8:
                i = rng.choice(started)
                started.remove(i)
                ops.append("F:%d" % i)
            else:
                ops.append("E:%d" % rng.randint(6, 9))
        emit(rng.choice([1, 2, 3, 8]), ops + ["A:1", "E:5"])


def gen_storm(rng, tier, out):
    """Many handlers released together, no gate: the scheduler may preempt a handler at EVERY point between the counter
    increment and the two pushes (the gated conc cases stop it at one point only).  Detection of a non-atomic sender is
    probabilistic per case (about 40 % measured for 'sequence number taken before the lock'), hence many cases; on a correct
    sender the output is schedule independent."""
    for cap, workers, rounds in [(8, 64, 20), (4, 16, 50), (64, 200, 5), (8, 8, 100), (2, 32, 30), (16, 128, 8)] * (5 if tier == "quick" else 20):
        out.append("storm x %d %d %d" % (cap, workers, rounds))


def gen_cases(rng, tier, budget):
    out = []
    gen_rng(rng, tier, out)
    gen_conc(rng, tier, out)
    gen_storm(rng, tier, out)
    n = (budget or 900) if tier == "quick" else (budget or 12000)
    modes = ["clean"] * 2 + ["fresh", "freshwrap", "lagbulk", "stale", "latest", "replay", "drop", "bulk", "relall"]
    for i in range(n):
        mode = modes[i % len(modes)]
        out.append(gen_hist(rng, mode, rng.randint(12, 45)))
    return out


# ------------------------------------------------------------------ verdict helpers
def _flags(line):
    m = re.search(r"conv=([\w-]+) pools=([\w-]+)$", line or "")
    return (m.group(1), m.group(2)) if m else (None, None)


def nontrivial(case, out):
    if case.startswith("storm"):
        return True
    if case.startswith("conc"):
        return case.split()[1] == "overlap"
    if case.startswith("rng"):
        parts = out.split(" ; ")[1:]
        return any(p == "nil" for p in parts) and any(p not in ("nil", "panic") for p in parts)
    if case.split()[1] in ("fresh", "freshwrap"):
        return "store=[]" not in out
    return "store=[]" not in out and ":1:" in "".join(t[:14] for t in case.split() if t.startswith("E:"))


def classify(case, impl, model):
    if case.startswith("storm"):
        bad = [m for m in ("ringconsec", "streamorder", "rangeexact") if (m + "=bad") in impl]
        return "P", ("sender under %s concurrent handlers: %s violated (number, ring push and enqueue are not one step)" %
                     (case.split()[3], ", ".join(bad) or "sequence count"))
    if case.startswith("conc"):
        bad = [m for m in ("ringconsec", "streamorder", "rangeexact") if (m + "=bad") in impl and (m + "=ok") in model]
        if bad:
            return "P", ("sender (concurrent handlers / role transitions): %s violated (ring/stream: %s)" %
                         (", ".join(bad), " ".join(impl.split()[1:3])))
        return "G", "sender state differs from the model: impl=%r model=%r" % (impl[:200], model[:200])
    if case.startswith("rng"):
        ip, mp = impl.split(" ; "), model.split(" ; ")
        k = [i for i, (a, b) in enumerate(zip(ip, mp)) if a != b]
        if ip[0] != mp[0]:
            return "P", "backlog size/oldest/newest differ: impl=%r model=%r" % (ip[0], mp[0])
        qs = [t for t in case.split() if not t.startswith("A:")]
        nseg = int(qs[3])
        q = qs[5 + nseg:]
        rw = [i for i in k if "~>" in ip[i]]
        if rw:
            i = rw[0]
            return "P", ("the answer of Range(%s,%s) changed while the caller still held it: %s (value@pushes after the call)"
                         % (q[2 * (i - 1)], q[2 * (i - 1) + 1], ip[i]))
        what = ["Range(%s,%s): impl=%s expected=%s" % (q[2 * (i - 1)], q[2 * (i - 1) + 1], ip[i], mp[i]) for i in k[:3]]
        return "P", "Range does not return exactly the retained entries of the requested range: " + "; ".join(what)
    ic, ipl = _flags(impl)
    mc, mpl = _flags(model)
    if "fields=bad" in impl:
        return "P", ("a stored checkpoint of a live session differs from the session in a field: " +
                     re.search(r"fields=(\S+)", impl).group(1)[:300])
    if "MODEL-DOES-NOT-CONVERGE" in model:
        return "P", ("every message was delivered, yet neither the implementation nor the repaired model converges "
                     "(impl conv=%s pools=%s): the property is violated and the model shares the defect" % (ic, ipl))
    if mc == "ok" and ic != "ok":
        return "P", "standby store differs from the active node's live sessions after complete delivery (impl conv=%s)" % ic
    if mpl == "ok" and ipl != "ok":
        return "P", "standby pool reservations differ from the live sessions' addresses after complete delivery (impl pools=%s)" % ipl
    if "panics=0" in model and "panics=0" not in impl:
        return "P", "a replication handler panicked"
    return "G", "end state differs from the model: impl=%r model=%r" % (impl[:300], model[:300])


def _triggers(case):
    """Which recorded-finding triggers the history contains (decided from the case text alone)."""
    t = case.split()
    cap = int(t[2])
    sent, m, last = {1: [], 2: []}, {1: 0, 2: 0}, {1: 0, 2: 0}
    dels = {1: [], 2: []}
    out = set()
    for tok in t[4:]:
        f = tok.split(":")
        if f[0] == "M":
            if f[1] == "0":
                continue
            f = ["E"] + f[2:]
        if f[0] == "E":
            g = int(f[3])
            if g in (1, 2):
                sent[g].append((f[1], f[2]))
                dels[g].append(f[4] == "1")
        elif f[0] in ("D", "DF"):
            g = int(f[1])
            if m[g] < len(sent[g]):
                m[g] += 1
                last[g] = m[g]
        elif f[0] in ("R", "RF", "P"):
            g = int(f[1])
            lo = int(f[2])
            hi = lo if f[0] != "P" else min(int(f[3]), len(sent[g]))
            lo = max(lo, len(sent[g]) - cap + 1) if f[0] == "P" else lo
            for i in range(max(lo, 1), hi + 1):
                if i <= len(sent[g]):
                    if i < m[g]:
                        out.add("stale")      # older than the newest delivered message (lastSeq goes backwards; the
                                              # store changes when a later one is of the same session)
                    m[g] = max(m[g], i)
                    last[g] = i
        elif f[0] in ("B", "C"):
            g = int(f[1])
            n = len(sent[g])
            if n > cap and last[g] + 1 < n - cap + 1:
                out.add("window")             # the standby is behind the retained window
            if 0 < last[g] < n:
                out.add("lagdel")             # the standby has state and is behind: a missed DELETE or an address that
                                              # changed hands in the gap cannot be conveyed by bare checkpoints
            if n:
                m[g], last[g] = max(m[g], n), n
            if f[0] == "C":
                break                         # the number of events handled during the bulk sync depends on the paging
    return out


def signature(case, impl, models):
    """Known-finding signature = input class of the case, and only when the case text really contains the trigger."""
    t = case.split()
    mode = t[1]
    if t[0] != "hist":
        return None
    trig = _triggers(case)
    if mode == "stale" and "stale" in trig:
        return SIG["stale"]
    if mode == "latest" and "stale" in trig:
        # a message is delivered again only while it is the newest delivered one of its session: HEAD's lastSeq goes
        # backwards (the finding) but store and pools must be right (C11_converges_head, C11_pools_exact_head)
        return SIG["stale"] if _flags(impl) == ("ok", "ok") else None
    if mode == "lagbulk" and "lagdel" in trig:
        return SIG["lagdel"]
    return None


def _overlap(case):
    """conc case: some handler is between its steps while another one completes."""
    started = set()
    for tok in case.split()[3:]:
        f = tok.split(":")
        if f[0] in ("H", "G"):
            started.add(f[1])
        elif f[0] == "F":
            started.discard(f[1])
            if started:
                return True
        elif f[0] == "E" and started:
            return True
    return False


def shrink(case):
    t = case.split()
    if t[0] == "storm":
        return
    if t[0] == "conc":
        ids = sorted({x.split(":")[1] for x in t[3:] if x[0] in "HGF"})
        for i in ids:
            yield " ".join(t[:3] + [x for x in t[3:] if not (x[0] in "HGF" and x.split(":")[1] == i)])
        for k, x in enumerate(t[3:]):
            if x.startswith("E:"):
                yield " ".join(t[:3 + k] + t[4 + k:])
        return
    if t[0] == "rng":
        aft = [x for x in t if x.startswith("A:")]
        t = [x for x in t if not x.startswith("A:")]
        nseg = int(t[3])
        segs = t[4:4 + nseg]
        q = t[5 + nseg:]
        qs = [(q[2 * i], q[2 * i + 1]) for i in range(len(q) // 2)]

        def emit(segs, qs):
            return " ".join(["rng %s %s %d %s %d %s" % (t[1], t[2], len(segs), " ".join(segs), len(qs),
                                                        " ".join("%s %s" % x for x in qs))] + aft)
        if len(qs) > 1:
            yield emit(segs, qs[:len(qs) // 2])
            yield emit(segs, qs[len(qs) // 2:])
            for x in qs:
                yield emit(segs, [x])
        for i in range(len(segs)):
            yield emit(segs[:i] + segs[i + 1:], qs)
            a, n = segs[i].split("+")
            if int(n) > 1:
                yield emit(segs[:i] + ["%s+%d" % (a, int(n) - 1)] + segs[i + 1:], qs)
        return
    head, rest = t[:4], t[4:]
    n = len(rest)
    if n > 4:
        yield " ".join(head + rest[:n // 2])
        yield " ".join(head + rest[n // 2:])
    for i in range(n):
        yield " ".join(head + rest[:i] + rest[i + 1:])
    # simplify events: drop optional fields
    for i, tok in enumerate(rest):
        if tok.startswith("C:"):
            f = tok.split(":")
            if int(f[2]) > 1:
                yield " ".join(head + rest[:i] + [":".join(f[:2] + [str(int(f[2]) - 1)] + f[3:])] + rest[i + 1:])
        if tok.startswith("M:"):
            yield " ".join(head + rest[:i] + ["E:" + ":".join(tok.split(":")[2:])] + rest[i + 1:])
        if tok.startswith("E:"):
            f = tok.split(":")
            for j, v in ((9, "-"), (11, "-"), (13, "-"), (17, "-"), (18, "-"), (8, "0"), (16, "0")):
                if f[j] != v:
                    g = list(f)
                    g[j] = v
                    yield " ".join(head + rest[:i] + [":".join(g)] + rest[i + 1:])


def distribution(cases, impl):
    d = {"rng": 0, "rng_queries": 0, "rng_nil": 0, "rng_panic": 0, "hist": 0, "events": 0, "releases": 0, "deliver": 0,
         "redeliver": 0, "replay": 0, "bulk": 0, "bulk_churn": 0, "store_failures": 0, "conv_bad": 0, "pools_bad": 0, "handler_panics": 0,
         "kinds": {"I": 0, "P": 0, "L": 0}, "with_v4": 0, "with_v6": 0, "with_pd": 0, "ops_max": 0}
    for c, o in zip(cases, impl):
        if c.startswith("storm"):
            d["storm"] = d.get("storm", 0) + 1
            d["storm_handlers"] = d.get("storm_handlers", 0) + int(c.split()[3]) * int(c.split()[4])
            continue
        if c.startswith("conc"):
            d["conc"] = d.get("conc", 0) + 1
            d["conc_overlap"] = d.get("conc_overlap", 0) + (c.split()[1] == "overlap")
            d["conc_ring_out_of_order"] = d.get("conc_ring_out_of_order", 0) + ("ringconsec=bad" in (o or ""))
            d["conc_role_transitions"] = d.get("conc_role_transitions", 0) + sum(x.startswith("A:") for x in c.split())
            d["conc_mutation_handlers"] = d.get("conc_mutation_handlers", 0) + sum(x.startswith("G:") for x in c.split())
            continue
        if c.startswith("rng"):
            d["rng"] += 1
            p = [x.split("~>")[0] for x in (o or "").split(" ; ")[1:]]
            d["rng_queries"] += len(p)
            d["rng_nil"] += p.count("nil")
            d["rng_panic"] += p.count("panic")
            continue
        d["hist"] += 1
        d.setdefault("hist_modes", {})
        d["hist_modes"][c.split()[1]] = d["hist_modes"].get(c.split()[1], 0) + 1
        toks = c.split()[4:]
        nops = 0
        for t in toks:
            k = t[0]
            if k == "M":
                d["mutation_results"] = d.get("mutation_results", 0) + 1
                if t.split(":")[1] == "0":
                    nops += 1
                    continue
                t = "E:" + ":".join(t.split(":")[2:])
                k = "E"
            if k == "E":
                f = t.split(":")
                d["events"] += 1
                d["releases"] += f[4] == "1"
                d["kinds"][f[1]] += 1
                d["with_v4"] += f[9] != "-"
                d["with_v6"] += f[11] != "-"
                d["with_pd"] += f[13] != "-"
            elif t.startswith(("DF", "RF")):
                d["store_failures"] += 1
            elif k in "DRPBC":
                d[{"D": "deliver", "R": "redeliver", "P": "replay", "B": "bulk", "C": "bulk_churn"}[k]] += 1
            else:
                continue
            nops += 1
        d["ops_max"] = max(d["ops_max"], nops)
        ic, ipl = _flags(o)
        d["conv_bad"] += ic == "bad"
        d["pools_bad"] += ipl == "bad"
        d["handler_panics"] += "panics=0" not in (o or "")
    return d
