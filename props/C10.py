"""C10 — HA redundancy-group election and failover (pkg/ha/{srg,manager,heartbeat,server}.go)."""
import itertools

ID = "C10"
HARNESSES = [dict(name="ha", pkg="./pkg/ha/", test="TestVerifC10", timeout=900,
                  files=[("pkg/ha/zz_verif_c10_test.go", "harness/C10/zz_verif_c10_test.go")]),
             # forced-overlap cases (two goroutines inside one Manager) and a slice of the ordinary ones: -race
             dict(name="ha_race", pkg="./pkg/ha/", test="TestVerifC10", timeout=900, race=True,
                  files=[("pkg/ha/zz_verif_c10_test.go", "harness/C10/zz_verif_c10_test.go")])]


def _split(case):
    """(head tokens incl. the optional G2 token, op tokens)"""
    t = case.split(" ")
    k = 10
    while len(t) > k and t[k][:3] in ("G2:", "IX:"):
        k += 1
    return t[:k], t[k:]


def route(case):
    t = case.split(" ")
    if any(o[:2] in ("pD", "pL", "pS") for o in t[10:]) or (len(case) % 16 == 0 and len(t) < 80):
        return "ha_race"
    return "ha"

# repaired = /repo HEAD (six C10 fixes committed, the last one f8a6845: heartbeats older than one already handled are
# ignored) + the one staleness filter that is still a specification:
#   sl: a heartbeat built before the receiver's last peer-loss detection is discarded (needs a common clock / epoch
#       handshake: `known:` finding stale-heartbeat-built-before-peer-loss, no patch)
# def_sl = HEAD.  Fixed defects have no variant: a regression to any of them is a VIOLATION.
VARIANTS = ["repaired", "def_sl"]
MODEL_NEEDS_IMPL = True   # only for the overflow policy outside the no-overflow domain (driver header)

RULE = ("case = configuration of both nodes (node id as a Go string, priority, preempt, decrement, #tracked interfaces) + "
        "history over the pair: start, send heartbeat, deliver/drop any in-flight heartbeat (requests are answered with a "
        "fresh snapshot), one-sided peer loss (direct and through checkPeerTimeout), interface down/up/deleted notifications "
        "incl. repeated and untracked ones, local-only / remote-only / complete switchovers (forced or not), and forced "
        "overlaps: one Manager call parked at a lock boundary (heartbeat handler after PeerDiscovered; handlePeerLost "
        "before / after sm.PeerLost) while whole calls run on the same node, under -race. Streams: (1) every event sequence "
        "up to depth D from four warm states over priorities {100,200}, preempt {f,t}^2, both id orders, decrement {0,50}; "
        "(2) random walks of length 40..200; (3) boundary configurations (priority 0, decrement > priority, priorities >= "
        "2^31); (4) node ids '9'/'10', 'node-2'/'node-10', 'a'/'B', shared prefixes, non-ASCII, equal, empty; (5) overlap "
        "schedules x 7 warm states x 4 configurations. Observed after every step, both nodes: state, effective priority, "
        "last seen peer priority/state, peer-known flag, interface down count, IsActive, published state changes. "
        "Non-trivial: at least one election and at least three distinct (stateA,stateB) pairs. Distinct: by case text.")
TRUSTED = ["interleavings of critical sections are modelled (Fine.v) and proved about; only the schedules with one call "
           "parked inside Publish can be forced on the real code, the others are tied through the per-section semantics",
           "one redundancy group per node pair (a second one exists only as parking device in pL cases)"]
ASSUMPTIONS = ["node ids are distinct and non-empty",
               "for the effective-priority theorem: priority < 2^31 and decrement * #interfaces < 2^31 (no int32 wrap)"]

W = "01"


def enc_id(x):
    """node id token: int n -> "node-%05d" (rendered by harness and driver), str -> s:<dotted bytes>"""
    if isinstance(x, int):
        return str(x)
    b = x.encode("utf-8")
    return "s:" + (".".join(str(c) for c in b) if b else "e")


def cfg(ida, pa, ra, da, na, idb, pb, rb, db, nb):
    return "%s %d %d %d %d %s %d %d %d %d" % (enc_id(ida), pa, ra, da, na, enc_id(idb), pb, rb, db, nb)


# ids whose order as Go strings differs from the numeric / natural one, shared prefixes, case, equal, empty
STR_IDS = [("9", "10"), ("10", "9"), ("node-2", "node-10"), ("node-10", "node-2"), ("a", "B"), ("B", "a"),
           ("bng", "bng-1"), ("bng-1", "bng"), ("x", "x"), ("", "n1"), ("n1", ""), ("", ""), ("\u00e9", "z"),
           ("bng-9", "bng-10")]


def two_group_cases(rng, quick):
    out = []
    g2s = ["G2:100,0,50,1,200,0,50,1", "G2:200,1,50,2,100,0,0,0", "G2:100,0,0,0,100,1,0,0", "G2:200,0,50,1,100,0,50,1"]
    confs = [cfg(1, 200, 0, 50, 2, 2, 100, 0, 50, 2), cfg("9", 100, 1, 50, 1, "10", 200, 0, 50, 1),
             cfg(2, 100, 0, 0, 0, 1, 100, 0, 0, 0)]
    ops = []
    for w in W:
        ops += ["st" + w, "sd" + w, "dl%s:0" % w, "d1%s:0" % w, "d2%s:0" % w, "d1%s:1" % w, "d2%s:1" % w, "dr%s:0" % w,
                "pl" + w, "pt" + w, "sw%s:0" % w, "sw%s:1" % w, "SW%s:0" % w, "SW%s:1" % w, "S1%s:0" % w, "S2%s:1" % w,
                "S2%s:0" % w, "rs" + w, "dg%s:0" % w, "SU%s:0" % w, "SU%s:2" % w, "SU%s:3" % w, "SU%s:4" % w, "tk%s:2" % w, "tk%s:13" % w, "tk%s:5" % w, "dn%s:0" % w, "up%s:0" % w, "dn%s:100" % w, "up%s:100" % w, "de%s:100" % w,
                "dn%s:1" % w, "dn%s:101" % w]
    settle = ["sd0", "dl1:9", "dl0:9", "sd1", "dl0:9", "dl1:9"]
    # every single op and (thorough: every pair) after the warm states, then settle
    for c in confs:
        for g in g2s:
            for k in (1, 2, 3):
                for o1 in ops:
                    out.append(" ".join([c, g] + warm(k) + [o1] + settle))
                if not quick:
                    for o1 in ops:
                        for o2 in ops:
                            out.append(" ".join([c, g] + warm(k) + [o1, o2] + settle))
    # random walks with partial heartbeats
    n = 250 if quick else 4000
    for _ in range(n):
        c, g = rng.choice(confs), rng.choice(g2s) + (",%d" % rng.randrange(5) if rng.random() < 0.6 else "")
        if rng.random() < 0.5:
            c = c + " IX:%d" % rng.randrange(7)
        walk = ["st0", "st1"]
        for _ in range(rng.randint(20, 120)):
            r = rng.random()
            w = rng.choice(W)
            o = "1" if w == "0" else "0"
            if r < 0.35:
                walk += ["sd" + w, rng.choice(["dl", "dl", "d1", "d2"]) + "%s:9" % o, rng.choice(["dl", "dl", "d1", "d2"]) + "%s:9" % w]
            elif r < 0.5:
                walk += [rng.choice(["pl", "pt"]) + w, "sd" + o, rng.choice(["dl", "d1", "d2"]) + "%s:9" % w]
            else:
                walk.append(rng.choice(ops))
        out.append(" ".join([c, g] + walk))
    return out


def overlap_cases(rng, quick):
    """one Manager call parked at a lock boundary while whole calls run on the same node"""
    out = []
    confs = [cfg(1, 200, 0, 50, 2, 2, 100, 0, 50, 2), cfg(2, 100, 1, 50, 2, 1, 200, 0, 50, 2),
             cfg(1, 100, 0, 0, 0, 2, 100, 1, 0, 0), cfg("9", 100, 1, 50, 1, "10", 100, 0, 50, 1)]
    warms = [warm(1), warm(2), warm(3), ["st0", "st1"], warm(1) + ["pl0"], warm(1) + ["pl1", "sw1:1"],
             warm(1) + ["dn0:0", "dn1:0"]]
    settle = ["sd0", "dl1:9", "dl0:9", "sd1", "dl0:9", "dl1:9", "sd0", "dl1:9", "dl0:9"]
    for c in confs:
        for wm in warms:
            for w in W:
                o = "1" if w == "0" else "0"
                mids = [[], ["pl" + w], ["sw%s:1" % w], ["sw%s:0" % w], ["rs" + w], ["dn%s:0" % w], ["up%s:0" % w],
                        ["sd" + o, "dl%s:9" % w], ["sd" + o, "dl%s:9" % w, "pl" + w], ["pl" + w, "sd" + o, "dl%s:9" % w],
                        ["dn%s:0" % w, "pl" + w], ["sd" + o, "sd" + o, "dl%s:0" % w, "dl%s:0" % w]]
                if quick:
                    mids = [m for m in mids if rng.random() < 0.5]
                for mid in mids:
                    # heartbeat handler parked after PeerDiscovered
                    out.append(c + " " + " ".join(wm + ["sd" + o, "pD%s:9" % w] + mid + ["rl" + w] + settle))
                    # handlePeerLost parked before / after sm.PeerLost
                    out.append(c + " " + " ".join(wm + ["sd" + o, "pL" + w] + mid + ["rl" + w] + settle))
                    out.append(c + " " + " ".join(wm + ["sd" + o, "pS" + w] + mid + ["rl" + w] + settle))
    return out


def warm(kind):
    """op prefixes leading to interesting states: A active / B standby etc."""
    if kind == 0:
        return []
    if kind == 1:   # both started, one full exchange initiated by A
        return ["st0", "st1", "sd0", "dl1:0", "dl0:0"]
    if kind == 2:   # ... then a complete switchover on the active side
        return ["st0", "st1", "sd0", "dl1:0", "dl0:0", "SW0:0"]
    if kind == 3:   # both came up isolated (true partition): both ACTIVE_SOLO
        return ["st0", "st1", "pl0", "pl1"]
    return []


def all_ops(nifs):
    ops = []
    for w in W:
        ops += ["st" + w, "sd" + w, "dl%s:0" % w, "dl%s:1" % w, "dr%s:0" % w, "pl" + w, "pt" + w,
                "sw%s:0" % w, "sw%s:1" % w, "SW%s:0" % w, "SW%s:1" % w, "rs" + w]
        for k in range(nifs + 1):
            ops += ["dn%s:%d" % (w, k), "up%s:%d" % (w, k)]
        ops += ["de%s:0" % w, "xa%s:0" % w, "xu%s:0" % w]   # xa/xu: down/up with the m.mu lock probe
        ops += ["dg%s:0" % w]                                # heartbeat with statuses of unknown groups
        ops += ["xg%s:0" % w, "xh%s:0" % w]                  # xg/xh: down/up with the gap reader (one critical section?)
        ops += ["SU%s:0" % w, "SU%s:3" % w]                      # switchover naming an unknown group first / last
        ops += ["tk%s:%d" % (w, b) for b in (0, 2, 5, 9, 13)]   # checkPeerTimeout: not connected (+ timeout), old hb, skew, both
    return ops


def random_walk(rng, nifs, length):
    ops = ["st0", "st1"] if rng.random() < 0.8 else []
    base = all_ops(nifs)
    while len(ops) < length:
        r = rng.random()
        w = rng.choice(W)
        o = "1" if w == "0" else "0"
        if r < 0.30:      # a complete fresh exchange
            ops += ["sd" + w, "dl%s:%d" % (o, 999), "dl%s:%d" % (w, 999)]
        elif r < 0.40:    # crossed exchange
            ops += ["sd0", "sd1", "dl0:0", "dl1:0", "dl0:0", "dl1:0"]
        elif r < 0.50:    # one-sided loss then heal
            ops += [rng.choice(["pl" + w, "pt" + w, "tk%s:%d" % (w, rng.randrange(16))]), "sd" + o, "dl%s:999" % w, "dl%s:999" % o]
        elif r < 0.58:    # flap an interface
            k = rng.randrange(nifs + 1)
            ops += [rng.choice(["dn", "dn", "de", "up", "xa", "xu", "xg", "xh"]) + "%s:%d" % (w, k) for _ in range(rng.randint(1, 3))]
        elif r < 0.64:
            ops += [rng.choice(["SW", "SW", "sw"]) + "%s:%d" % (w, rng.randint(0, 1))]
        elif r < 0.68:    # partition: both lose, drop everything in flight
            ops += ["pl0", "pl1"] + ["dr0:0", "dr1:0"] * 2
        else:
            ops.append(rng.choice(base).replace(":0", ":%d" % rng.randint(0, 3)) if rng.random() < 0.3 else rng.choice(base))
    return ops[:length]


def gen_cases(rng, tier, budget):
    cases = []
    quick = tier == "quick"
    # (1) exhaustive short sequences from warm states over the small configuration domain
    depth = 2 if quick else 3
    confs = []
    for pa, pb in ((100, 200), (200, 100), (100, 100)):
        for ra, rb in itertools.product((0, 1), repeat=2):
            for ida, idb in ((1, 2), (2, 1)):
                for dec in (0, 50):
                    confs.append(cfg(ida, pa, ra, dec, 2, idb, pb, rb, dec, 2))
    ops = all_ops(1)
    seqs = [list(t) for d in range(1, depth + 1) for t in itertools.product(ops, repeat=d)]
    if quick:
        # every configuration sees every warm state and a rotating slice of the sequences
        for ci, c in enumerate(confs):
            for k in range(4):
                sl = [s for j, s in enumerate(seqs) if (j + ci + k) % 24 == 0]
                for s in sl:
                    cases.append(c + " " + " ".join(warm(k) + s + ["sd0", "dl1:9", "dl0:9", "sd1", "dl0:9", "dl1:9"]))
    else:
        for c in confs:
            for k in range(4):
                sl = [s for j, s in enumerate(seqs) if len(s) < 3 or (j + k) % 30 == 0]
                for s in sl:
                    cases.append(c + " " + " ".join(warm(k) + s + ["sd0", "dl1:9", "dl0:9", "sd1", "dl0:9", "dl1:9"]))
    # (2) random walks
    nwalk = budget or (1500 if quick else 12000)
    for _ in range(nwalk):
        pa, pb = rng.choice([(100, 200), (200, 100), (100, 100), (150, 100), (0, 0), (1, 0), (255, 254)])
        dec = rng.choice([0, 50, 50, 100, 300, 1])
        na, nb = rng.randint(0, 3), rng.randint(0, 3)
        ida, idb = rng.choice([(1, 2), (2, 1), (10, 9), (99999, 1), ("9", "10"), ("node-10", "node-2"), ("B", "a")])
        c = cfg(ida, pa, rng.randint(0, 1), dec, na, idb, pb, rng.randint(0, 1), rng.choice([dec, 0, 50]), nb)
        ix = ["IX:%d" % rng.randrange(7)] if rng.random() < 0.5 else []
        cases.append(" ".join([c] + ix + random_walk(rng, max(na, nb), rng.randint(40, 200))))
    # (4) node ids as arbitrary strings (Go compares them bytewise), equal priorities so that the id decides
    for ida, idb in STR_IDS:
        for ra, rb in ((0, 0), (1, 0), (1, 1)):
            c = cfg(ida, 100, ra, 50, 1, idb, 100, rb, 50, 1)
            for k in (1, 2, 3):
                cases.append(c + " " + " ".join(warm(k) + ["sd0", "dl1:9", "dl0:9", "sd1", "dl0:9", "dl1:9", "pl0", "pl1",
                                                        "sd1", "dl0:9", "dl1:9", "sd0", "dl1:9", "dl0:9"]))
            cases.append(c + " " + " ".join(random_walk(rng, 1, 60)))
    # (9) identifiers: sw_if_index values that cross byte boundaries / are huge / alias modulo 2^8 and 2^16 (IX:n),
    #     group names that are prefixes of each other or differ in case (9th G2 field): every (down k, up k') pair on
    #     three interfaces of group 1 and two of group 2, then peer loss (the down count decides the promotion)
    c3 = cfg(1, 200, 0, 50, 3, 2, 100, 0, 50, 3)
    for ix in range(7):
        for k in range(4):
            for k2 in range(4):
                for w in W:
                    cases.append(" ".join([c3, "IX:%d" % ix] + warm(1) + ["dn%s:%d" % (w, k), "up%s:%d" % (w, k2), "xg%s:%d" % (w, (k + 1) % 3),
                                           "de%s:%d" % (w, k2), "pl" + w, "sd0", "dl1:9", "dl0:9"]))
        for nm in range(5):
            g = "G2:100,0,50,2,200,0,50,2,%d" % nm
            for k in (0, 1, 100, 101, 2, 102):
                for k2 in (0, 100, 101):
                    cases.append(" ".join([c3, "IX:%d" % ix, g] + warm(1) + ["dn0:%d" % k, "dn1:%d" % k2, "up0:%d" % k2, "d10:9" if False else "sd1",
                                           "d20:9", "pl0", "pl1", "S10:1", "sd0", "dg1:9", "dl0:9"]))
    # (8) gap reader: every down/up order on two tracked interfaces of one group, moving and non-moving notifications
    for c in (cfg(1, 200, 0, 50, 2, 2, 100, 0, 50, 2), cfg(1, 255, 1, 100, 3, 2, 10, 0, 1, 2)):
        seq = ["xg", "xh", "dn", "up"]
        for a1 in seq:
            for a2 in seq:
                for a3 in ("xg", "xh"):
                    for w in W:
                        cases.append(" ".join([c, "st0", "st1", "%s%s:0" % (a1, w), "%s%s:1" % (a2, w), "%s%s:0" % (a3, w),
                                               "xg%s:1" % w, "xh%s:1" % w, "xh%s:0" % w]))
    # (7) checkPeerTimeout: all 16 input combinations from every warm state, on both nodes, one and two groups
    #     (hasWaitingSRGs is node-global: a WAITING group makes the tick hit the other group too)
    for c in (cfg(1, 200, 0, 50, 2, 2, 100, 0, 50, 2), cfg(2, 100, 1, 0, 0, 1, 100, 0, 0, 0)):
        for pre in ([], ["st0"], ["st0", "st1"], warm(1), warm(2), warm(3), warm(1) + ["dn0:0", "dn1:0"], warm(1) + ["pl0"]):
            for b in range(16):
                for w in W:
                    cases.append(" ".join([c] + pre + ["tk%s:%d" % (w, b), "sd0", "dl1:9", "dl0:9", "sd1", "dl0:9", "dl1:9"]))
        for g in ("G2:100,0,50,1,200,0,50,1",):
            for pre in (["st0"], ["st0", "st1", "sd0", "d11:0", "dl0:9"], warm(1), ["st0", "st1", "sd1", "d20:0", "dl1:9"]):
                for b in range(16):
                    for w in W:
                        cases.append(" ".join([c, g] + pre + ["tk%s:%d" % (w, b), "sd0", "dl1:9", "dl0:9"]))
    # (6) two redundancy groups per Manager (mirrored priorities = active/active deployment), heartbeats that omit
    #     one group's status, per-group interfaces and switchovers
    cases += two_group_cases(rng, quick)
    # (5) forced overlaps
    cases += overlap_cases(rng, quick)
    # (3) boundary configurations
    big = [2147483647, 2147483648, 4294967295, 4294967295 - 49]
    for p in big:
        for dec in (0, 50, 2147483648, 4294967295):
            c = cfg(1, p, 0, dec, 2, 2, 100, 1, 50, 1)
            cases.append(c + " st0 st1 dn0:0 sd0 dl1:0 dl0:0 dn0:1 dn0:0 up0:0 up0:1 up0:0 sd1 dl0:0 dl1:0")
    return cases


def _steps(line):
    return line.split(" ")


def nontrivial(case, out):
    st = set()
    elect = False
    for tok2 in out.split(" ")[1:]:
        for tok in tok2.split("#"):
            p = tok.split("|")
            if len(p) != 3:
                return False
            st.add((p[0].split(",")[0], p[1].split(",")[0]))
            if "R>" in p[2]:
                elect = True
    return elect and len(st) >= 3


def _first_diff(a, b):
    x, y = a.split(" "), b.split(" ")
    for i in range(min(len(x), len(y))):
        if x[i] != y[i]:
            return i, x[i], y[i]
    if len(x) != len(y):
        return min(len(x), len(y)), "<end>", "<end>"
    return None


def classify(case, impl, model):
    d = _first_diff(impl, model)
    if d is None:
        return "G", "no difference"
    i, xi, yi = d
    ops = _split(case)[1]
    op = ops[i - 1] if 0 < i <= len(ops) else "<init>"
    if impl.startswith(("panic", "hang")):
        return "P", "implementation %s" % impl[:200]

    def core(tok2):   # state, effective priority, down count, IsActive of both nodes + published transitions
        r = []
        for tok in tok2.split("#"):
            p = tok.split("|")
            if len(p) != 3:
                return tok2
            pick = lambda n: [n.split(",")[j] for j in (0, 1, 5, 6)] if n.count(",") == 6 else n
            r.append((pick(p[0]), pick(p[1]), p[2]))
        return r
    if core(xi) == core(yi):
        # only the recorded peer view differs here: look for a later difference in state / priority / events
        x, y = impl.split(" "), model.split(" ")
        for j in range(min(len(x), len(y))):
            if core(x[j]) != core(y[j]):
                opj = ops[j - 1] if 0 < j <= len(ops) else "<init>"
                return "P", ("peer view differs from step %d (%s); after step %d (%s) the pair is %s but the HEAD "
                             "model (for which the C10 theorems hold) says %s" % (i, op, j, opj, x[j], y[j]))
        return "G", ("after step %d (%s) only the recorded peer view (peer priority/state, peer-known flag) differs: "
                     "%s vs model %s" % (i, op, xi, yi))
    return "P", ("after step %d (%s) the pair is %s but the model of HEAD (for which the C10 theorems hold) says %s"
                 % (i, op, xi, yi))


def signature(case, impl, models):
    """Called when the whole implementation line equals def_sl (= HEAD).  Specific: the FIRST divergence from the
    repaired model must be the handling of a heartbeat (dl/d1/d2/pD, or rl finishing a parked handler)."""
    if impl != models.get("def_sl"):
        return None
    d = _first_diff(impl, models["repaired"])
    if d is None:
        return None
    i = d[0]
    ops = _split(case)[1]
    if 0 < i <= len(ops) and ops[i - 1][:2] in ("dl", "dg", "d1", "d2", "pD", "rl"):
        return "stale-heartbeat-built-before-peer-loss"
    return None


def shrink(case):
    head, ops = _split(case)
    n = len(ops)
    # drop chunks, then single ops
    size = n // 2
    while size >= 1:
        for i in range(0, n, size):
            yield " ".join(head + ops[:i] + ops[i + size:])
        size //= 2
    # simplify configuration: fewer interfaces, no preempt
    for idx, val in ((4, "1"), (9, "1"), (4, "0"), (9, "0"), (2, "0"), (7, "0"), (3, "0"), (8, "0")):
        if head[idx] != val:
            h = list(head)
            h[idx] = val
            yield " ".join(h + ops)


def distribution(cases, impl):
    d = {"cases": len(cases), "ops": {}, "pair_states": {}, "transitions": 0, "elections": 0, "max_len": 0,
         "dual_active_steps": 0, "dual_standby_steps": 0, "panics": 0}
    for c, o in zip(cases, impl):
        ops = _split(c)[1]
        d["max_len"] = max(d["max_len"], len(ops))
        for op in ops:
            d["ops"][op[:2]] = d["ops"].get(op[:2], 0) + 1
        if o is None or o.startswith(("panic", "hang", "bad")):
            d["panics"] += 1
            continue
        d["two_group_cases"] = d.get("two_group_cases", 0) + ("#" in o)
        for tok in o.replace("#", " ").split(" "):
            p = tok.split("|")
            if len(p) != 3:
                continue
            k = p[0].split(",")[0] + "/" + p[1].split(",")[0]
            d["pair_states"][k] = d["pair_states"].get(k, 0) + 1
            if p[2] != "-":
                d["transitions"] += p[2].count(">")
                d["elections"] += p[2].count("R>")
            a, b = p[0].split(",")[-1], p[1].split(",")[-1]
            d["dual_active_steps"] += (a == "1" and b == "1")
            d["dual_standby_steps"] += (k == "S/S")
    return d
