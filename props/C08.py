"""C08 — RADIUS messages take effect only when authenticated with the shared secret
(plugins/auth/radius/{transport.go,provider.go,coa.go,accounting.go}, internal/subscriber/mutation.go)."""
import hashlib
import hmac as _hmac
import re
import struct

ID = "C08"
HARNESSES = [dict(name="radius", pkg="./plugins/auth/radius/", test="TestVerifC08", timeout=900,
                  files=[("plugins/auth/radius/zz_verif_c08_test.go", "harness/C08/zz_verif_c08_test.go")])]
MODEL_NEEDS_IMPL = True
# model variants: "repaired" = every repair (full theorems); "head" = /repo HEAD (the six committed fixes; not the
# Event-Timestamp requirement: the one recorded known finding).  Regressions of committed fixes match neither: VIOLATIONs.
VARIANTS = ["repaired", "head"]
RULE = ("reply: 1-3 sequential exchanges on one real radiusConn over loopback UDP (identifier and request authenticator "
        "forced, identifier often re-used between rounds; 30 % of non-final rounds are HELD, i.e. overlap with the next "
        "exchange, mostly on the same identifier); per round 1-5 datagrams from the classes genuine / genuine+MA / "
        "RA-ok-MA-bad / RA-bad-MA-ok / forged / wrong-secret / bit-flipped attribute, authenticator or code / other "
        "identifier / stale (genuine for the previous request) / replayed / short / bad length / trailing padding / "
        "shorter declared length / malformed attribute / MA of wrong length / REPEATED Message-Authenticator (2-3 copies: valid, garbage, "
        "wrong length in every order; plus a deterministic block of 48 such exchanges over Access-Accept/Reject/Challenge and "
        "Accounting-Response, 24 Authenticate and 8 fail-over cases) / reflected request, in random order. "
        "coa: one real CoA listener per case (1-3 client nets incl. overlapping ones, replay window 300/10/0, optional "
        "NAS-Identifier and custom VSA mappings) receiving 1-4 CoA/Disconnect/other packets from configured and "
        "unconfigured loopback sources; request authenticator right / wrong key / zero / random, Message-Authenticator "
        "absent / RFC 5176 / as-transmitted / garbage / one bit flipped / irregular (wrong length, repeated: either answer admissible), request authenticator also with one bit flipped in any octet, Event-Timestamp absent / inside / at +-window / one past / far / zero, "
        "targets of all four kinds, mutable, stripped, non-whitelisted and vendor attributes, Proxy-State, length field "
        "off by some octets, trailing octets (incl. a fake attribute 80), literal junk; in 45 % of the cases a byte-identical copy "
        "of an earlier datagram of the case is re-sent later (in the `ttl` family a chosen number of milliseconds later, against a 1 s window) (replay, possibly from another address). auth: Provider.Authenticate "
        "against a server that answers the live request with scripted genuine/forged/flipped replies (decision by the Coq "
        "function authenticate_radius; the model prints the request it expects on the wire). corpus: defect witnesses, "
        "Go literal tables (lits) and one CoA per pkg/aaa attribute name. "
        "Non-trivial: a reply case where some datagram is delivered and some is not; a coa case with at least one reply; "
        "every auth case; a fail case in which the second server was tried.  "
        "fail: Provider.Authenticate / StartAccounting over 2-3 servers with DISTINCT secrets (15 % equal), each with its own "
        "socket; earlier servers silent or answering only with datagrams signed with ANOTHER server's secret / forged / bad MA, "
        "later servers genuine, mixed or bad; compared: the request on each server's wire (expected under that server's secret), "
        "which servers are tried, and the final result.  Distinct: by case text.")
TRUSTED = ["MD5 is an argument of the model (OCaml Digest in the driver, crypto/md5 in Go, hashlib in the generator); HMAC-MD5 is "
           "defined in Coq from it (RFC 2104)",
           "layeh.com/radius Parse/Encode are transcribed in the model (parse, enc_attrs, build_request) and tied by correspondence only",
           "rendering of IP addresses/prefixes as strings is not modelled (such attributes never survive stripNonMutableAttrs)"]
ASSUMPTIONS = ["model variant head = /repo HEAD (Event-Timestamp not required while the window is enabled: the one known finding "
               "coa-without-event-timestamp-bypasses-window); C08_coa_admission is proved for repaired, the HEAD guarantee is "
               "C08_coa_admission_head_window_only_if_timestamped",
               "authenticity conclusions are relative to the unforgeability of MD5/HMAC-MD5 under the shared secret: the theorems "
               "state that the verification equations hold; C08_forged_not_acted_on takes unforgeability as an explicit premise",
               "UDP datagrams on loopback between one socket pair are delivered in order"]


def md5(b):
    return hashlib.md5(b).digest()


def hm(k, b):
    return _hmac.new(k, b, hashlib.md5).digest()


def hx(b):
    return b.hex() if b else "-"


def attr(t, v):
    return bytes([t, len(v) + 2]) + v


Z16 = bytes(16)


# ------------------------------------------------------------------ reply cases
def build_request(secret, code, ident, auth, attrs):
    hdr = bytes([code, ident]) + struct.pack(">H", 20 + len(attrs))
    if code == 4:
        auth = md5(hdr + Z16 + attrs + secret)
    raw = bytearray(hdr + auth + attrs)
    off = find80(raw)
    if off >= 0:
        raw[off:off + 16] = hm(secret, bytes(raw))
    return bytes(raw)


def find80(raw):
    i = 20
    while i + 2 <= len(raw):
        al = raw[i + 1]
        if al < 2 or i + al > len(raw):
            return -1
        if raw[i] == 80 and al == 18:
            return i + 2
        i += al
    return -1


def mk_reply(code, ident, reqauth, attrs, key, ma=None, ma_key=None):
    """RFC reply: optional Message-Authenticator (computed with the request authenticator in place), then RA."""
    body = attrs
    if ma is not None:
        body = attrs + attr(80, Z16)
    hdr = bytes([code, ident]) + struct.pack(">H", 20 + len(body))
    if ma is not None:
        mac = hm(ma_key or key, hdr + reqauth + body)
        if ma == "bad":
            mac = bytes([mac[0] ^ 0x40]) + mac[1:]
        body = attrs + attr(80, mac)
    return hdr + md5(hdr + reqauth + body + key) + body


MA_COMBOS = ["VV", "VG", "GV", "GG", "WV", "VW", "WG", "GW", "VGV", "GVV", "VVG", "GGG"]


def mk_reply_multi(code, ident, reqauth, attrs, key, combo, salt=0):
    """Reply with SEVERAL attributes 80 (irregular: RFC 3579 allows one).  V = an 18-octet attribute whose value is the HMAC a
    verifier that checks THIS copy would expect (computed over the final packet with the request authenticator in place and only
    this copy zeroed; copies are filled in from the last to the first), G = 18 octets of garbage, W = attribute 80 of length 7.
    The Response Authenticator is genuine for the final bytes."""
    body = bytearray(attrs)
    offs = []
    for i, c in enumerate(combo):
        if c == "W":
            body += attr(80, bytes([0x11 + i + salt] * 5))
            offs.append(None)
        else:
            offs.append(20 + len(body) + 2)
            body += attr(80, bytes([(0xa0 + 7 * i + salt) & 0xff] * 16))
    hdr = bytes([code, ident]) + struct.pack(">H", 20 + len(body))
    pkt = bytearray(hdr + reqauth + bytes(body))
    for i in reversed(range(len(combo))):
        if combo[i] == "V":
            o = offs[i]
            tmp = bytearray(pkt)
            tmp[o:o + 16] = Z16
            pkt[o:o + 16] = hm(key, bytes(tmp))
    final_body = bytes(pkt[20:])
    return hdr + md5(hdr + reqauth + final_body + key) + final_body


def gen_reply_multi_ma():
    """Deterministic block: for every reply code and every combination of repeated Message-Authenticator attributes, one
    exchange receiving the irregular datagram first and a plain genuine reply second."""
    out = []
    secret = b"s3cret"
    k = 0
    for reqcode, code in ((1, 2), (1, 3), (1, 11), (4, 5)):
        for combo in MA_COMBOS:
            k += 1
            ident = (17 * k) % 250
            auth = bytes((k * 13 + j) & 0xff for j in range(16))
            attrs = attr(1, b"alice") + (attr(80, Z16) if reqcode == 1 else b"")
            req = build_request(secret, reqcode, ident, auth, attrs)
            reqauth = req[4:20]
            irr = mk_reply_multi(code, ident, reqauth, attr(18, b"irr-" + combo.encode()), secret, combo, salt=k)
            gen = mk_reply(code, ident, reqauth, attr(18, b"plain"), secret)
            out.append("reply secret=%s 1 %d %d %s %s 2 %s %s" % (hx(secret), ident, reqcode, hx(auth), hx(attrs), hx(irr), hx(gen)))
    return out


REPLY_CLASSES = ["genuine", "genuine", "genuine_ma", "ra_ok_ma_bad", "ra_bad_ma_ok", "forged_zero", "forged_rand",
                 "wrong_secret", "flip_attr", "flip_auth", "flip_code", "other_id", "stale", "replay", "short", "badlen",
                 "len_lt20", "trailing", "trunc_decl", "malformed_attr", "ma_wrong_len", "reflect", "wrong_secret_ma", "multi_ma", "multi_ma"]


def gen_reply(rng):
    secret = rng.choice([b"s3cret", b"x", bytes(range(1, 71)), b"\x00\xff\x10", b"testing123"])
    rounds = rng.choice([1, 1, 2, 2, 3])
    toks = ["reply", "secret=" + hx(secret), str(rounds)]
    prev = None  # (ident, reqauth, a genuine datagram for it)
    classes = []
    for r in range(rounds):
        if prev and rng.random() < 0.6:
            ident = prev[0]
        else:
            ident = rng.choice([0, 1, 7, 128, 200, 254])
        code = rng.choice([1, 1, 4])
        auth = bytes(rng.randrange(256) for _ in range(16))
        attrs = attr(1, rng.choice([b"alice", b"bob", b"u" * 40]))
        if rng.random() < 0.5:
            attrs += attr(44, b"sess%d" % rng.randrange(100))
        if code == 1 and rng.random() < 0.9:
            attrs += attr(80, Z16)
        req = build_request(secret, code, ident, auth, attrs)
        reqauth = req[4:20]
        okcode = {1: rng.choice([2, 2, 3, 11]), 4: 5}[code]
        n = rng.choice([1, 2, 2, 3, 3, 4, 5])
        dgs = []
        genuine_here = None
        for k in range(n):
            cls = rng.choice(REPLY_CLASSES)
            mark = attr(18, b"d%d.%d" % (r, k))
            extra = rng.choice([b"", attr(27, struct.pack(">I", rng.randrange(1, 100000))), attr(8, bytes([10, 0, 0, k + 1])),
                                attr(25, bytes(rng.randrange(256) for _ in range(rng.randrange(1, 30))))])
            a = mark + extra
            g = mk_reply(okcode, ident, reqauth, a, secret)
            if cls == "genuine":
                d = g
            elif cls == "genuine_ma":
                d = mk_reply(okcode, ident, reqauth, a, secret, ma="ok")
            elif cls == "ra_ok_ma_bad":
                d = mk_reply(okcode, ident, reqauth, a, secret, ma="bad")
            elif cls == "ra_bad_ma_ok":
                d = bytearray(mk_reply(okcode, ident, reqauth, a, secret, ma="ok"))
                d[4 + rng.randrange(16)] ^= 1 << rng.randrange(8)
                d = bytes(d)
            elif cls == "wrong_secret_ma":
                d = mk_reply(okcode, ident, reqauth, a, secret + b"!", ma="ok")
            elif cls == "forged_zero":
                d = g[:4] + Z16 + g[20:]
            elif cls == "forged_rand":
                d = g[:4] + bytes(rng.randrange(256) for _ in range(16)) + g[20:]
            elif cls == "wrong_secret":
                d = mk_reply(okcode, ident, reqauth, a, rng.choice([secret + b"!", secret[:-1] or b"y", b""]))
            elif cls == "flip_attr":
                d = bytearray(g)
                d[20 + rng.randrange(len(d) - 20)] ^= 1 << rng.randrange(8)
                d = bytes(d)
            elif cls == "flip_auth":
                d = bytearray(g)
                d[4 + rng.randrange(16)] ^= 1 << rng.randrange(8)
                d = bytes(d)
            elif cls == "flip_code":
                g3 = mk_reply(3 if code == 1 else 5, ident, reqauth, a, secret)
                d = bytes([2]) + g3[1:]
            elif cls == "other_id":
                d = mk_reply(okcode, (ident + rng.choice([1, 255, 128])) % 256, reqauth, a, secret)
            elif cls == "stale":
                d = mk_reply(okcode, ident, prev[1] if prev else Z16, a, secret)
            elif cls == "replay":
                d = prev[2] if prev else g
            elif cls == "short":
                d = g[:rng.choice([0, 1, 4, 19])]
            elif cls == "badlen":
                d = g[:2] + struct.pack(">H", len(g) + rng.choice([1, 7, 4000])) + g[4:]
            elif cls == "len_lt20":
                d = g[:2] + struct.pack(">H", rng.choice([0, 19])) + g[4:]
            elif cls == "trailing":
                d = g + rng.choice([b"\x00", b"\x50\x12" + bytes(16), bytes(rng.randrange(256) for _ in range(9))])
            elif cls == "trunc_decl":
                # declared length covers only the marker attribute; authenticator genuine for that prefix
                d = mk_reply(okcode, ident, reqauth, mark, secret) + extra + b"\x01"
            elif cls == "malformed_attr":
                bad = a + rng.choice([b"\x12\x01", b"\x12\x09ab", b"\x12"])
                d = mk_reply(okcode, ident, reqauth, bad, secret)
            elif cls == "multi_ma":
                d = mk_reply_multi(okcode, ident, reqauth, a, secret, rng.choice(MA_COMBOS), salt=rng.randrange(50))
            elif cls == "ma_wrong_len":
                d = mk_reply(okcode, ident, reqauth, a + attr(80, bytes(rng.choice([0, 15, 17]))), secret)
            else:  # reflect
                d = req
            if cls in ("genuine", "genuine_ma") and genuine_here is None:
                genuine_here = d
            classes.append(cls)
            dgs.append(d)
        # a held round overlaps with the next one: both exchanges are outstanding when the datagrams arrive
        hold = "h" if (r + 1 < rounds and rng.random() < 0.3) else ""
        toks += [hold + str(ident), str(code), hx(auth), hx(attrs), str(len(dgs))] + [hx(d) if d else "00" for d in dgs]
        prev = (ident, reqauth, genuine_here or mk_reply(okcode, ident, reqauth, attr(18, b"old"), secret))
    return " ".join(toks)


# ------------------------------------------------------------------ CoA cases
K1, K2, K3 = b"k1-secret", b"another", b"\x01\x02\x03"
CLIENT_SETS = [
    [("127.0.0.2", K1)],
    [("127.0.1.0/24", K2), ("127.0.0.2", K1)],
    [("127.0.1.0/24", K2), ("127.0.1.5", K3)],           # the /32 is shadowed by the /24 before it
    [("127.0.1.5", K3), ("127.0.1.0/24", K2), ("127.0.0.2/31", K1)],
    [("0.0.0.0/0", K1)],
]
SOURCES = ["127.0.0.2", "127.0.0.3", "127.0.1.5", "127.0.1.77", "127.0.0.9", "127.0.2.1"]
MAPSETS = ["-", "-", "9:1:" + b"qos.egress-policy".hex(), "9:1:" + b"vrf".hex() + ",9:2:" + b"service-group".hex(),
           "9:1:" + b"qos.egress-policy".hex() + ",9:1:" + b"acl.ingress".hex()]


def vsa(vid, vt, data):
    return struct.pack(">I", vid) + bytes([vt, len(data) + 2]) + data


def client_for(clients, src):
    import ipaddress
    for h, k in clients:
        net = ipaddress.ip_network(h if "/" in h else h + "/32", strict=False)
        if ipaddress.ip_address(src) in net:
            return k
    return None


def gen_coa_packet(rng, clients, win, nasid, force_ts=False):
    known = [x for x in SOURCES if client_for(clients, x)]
    src = rng.choice(known) if known and rng.random() < 0.93 else rng.choice(SOURCES)
    key = client_for(clients, src) or K1
    code = rng.choice([43] * 22 + [40] * 18 + [41, 1, 99])
    attrs = []
    # target
    good_t = [(44, b"sess-%d" % rng.randrange(50)), (8, bytes([10, 1, 2, rng.randrange(256)])), (1, b"alice"),
              (168, bytes([0x20, 1, 0xd, 0xb8]) + bytes(11) + bytes([rng.randrange(256)])),
              (168, bytes(10) + b"\xff\xff" + bytes([10, 0, 0, 1]))]
    bad_t = [(44, b""), (8, b"\x0a\x01"), (1, b""), (168, bytes(4))]
    for _ in range(rng.choice([1, 1, 1, 1, 1, 1, 2, 2, 0])):
        attrs.append(rng.choice(good_t * 3 + bad_t))
    if rng.random() < 0.4:
        attrs.append((32, rng.choice([nasid or b"bng1", nasid or b"bng1", nasid or b"bng1", b"other", b"", b"bng2", b"bng", b"bng12", b"Bng1"])))
    ts = rng.choice([None, "TS+0", "TS+1", "TS-1", "TS+0", "TS-3", "TS+2", "TS-4", "TS+0", "TS-1", "TS-5", "TS+7", "TS-2", "TS-%d" % win, "TS-%d" % (win + 1), "TS+%d" % win,
                     "TS+%d" % (win + 1), "TS-100000", "TS+100000", bytes(4), b"\x00\x00\x01", "TS-%d" % max(win - 1, 0)])
    if force_ts and not (isinstance(ts, str)):
        ts = rng.choice(["TS+0", "TS-1", "TS+2", "TS-%d" % win, "TS+%d" % (win + 1), "TS-100000"])
    if ts is not None:
        attrs.append((55, ts))
    if code == 43 and rng.random() < 0.8:
        attrs.append(rng.choice([(27, struct.pack(">I", rng.choice([0, 60, 3600, 2 ** 32 - 1]))), (28, struct.pack(">I", 600)),
                                 (85, struct.pack(">I", 300)), (26, vsa(9, 1, b"policy-gold"))]))
    if code == 40 and rng.random() < 0.3:
        # a Disconnect-Request must carry identification attributes only
        attrs.append(rng.choice([(27, struct.pack(">I", 60)), (27, struct.pack(">I", 60)), (28, struct.pack(">I", 60)), (85, struct.pack(">I", 60)),
                                 (6, struct.pack(">I", 2)), (11, b"f"), (25, b"c"), (88, b"p"), (26, vsa(9, 1, b"x")), (2, bytes(16)),
                                 (7, struct.pack(">I", 1)), (9, bytes(4)), (30, b"called"), (97, bytes(4)), (100, b"x"), (123, bytes(4))]))
    if code == 43 or rng.random() < 0.1:
        for _ in range(rng.choice([0, 0, 0, 1, 1, 2, 3])):
            attrs.append(rng.choice([
                (27, struct.pack(">I", rng.choice([0, 60, 3600, 2 ** 32 - 1]))), (28, struct.pack(">I", 600)),
                (85, struct.pack(">I", 300)), (27, b"\x00\x10"), (88, b"pool-a"), (22, b"10.0.0.0/24 10.1.1.1"),
                (9, bytes([255, 255, 255, 0])), (100, b"v6pool"), (97, bytes([0, 64]) + bytes(8)), (171, b"pdpool"),
                (123, bytes([0, 56]) + bytes(7)),
                (26, vsa(311, 28, bytes([8, 8, 8, 8]))), (26, vsa(32473, 1, b"grp")), (26, vsa(32473, 2, b"100")),
                (26, vsa(32473, 3, b"")), (26, vsa(9, 1, b"policy-gold")), (26, vsa(9, 2, b"sg1")), (26, vsa(9, 1, b"")),
                (26, vsa(9, 1, b"a") + bytes([2, 5]) + b"xyz"), (26, b"\x00\x00\x00\x09\x01"), (26, vsa(9, 1, b"q")[:-1] + b""),
                (6, struct.pack(">I", 8)), (6, struct.pack(">I", 2)), (6, b"\x08"), (11, b"filter"), (25, b"class"),
            ]))
    for _ in range(rng.choice([0, 0, 0, 1, 2])):
        attrs.append((33, bytes(rng.randrange(256) for _ in range(rng.randrange(0, 6)))))
    mamode = rng.choice(["none"] * 14 + ["rfc", "rfc", "rfc", "rfc", "rfc", "asis", "lit", "rfcwrong", "asiswrong", "rfcflip", "asisflip"])
    if mamode != "none":
        attrs.insert(rng.randrange(len(attrs) + 1), (80, "MA"))
        if rng.random() < 0.1:
            attrs.append((80, "MA"))
    if rng.random() < 0.06:
        # irregular Message-Authenticator (length other than 18): HEAD treats it as absent; refusing it is admissible too
        attrs.insert(rng.randrange(len(attrs) + 1), (80, bytes(rng.choice([0, 3, 15, 17]))))
    rng.shuffle(attrs) if rng.random() < 0.3 else None
    sign = rng.choice(["S:" + hx(key)] * 26 + ["X%d:%s" % (rng.randrange(16), hx(key)), "X%d:%s" % (rng.choice([0, 7, 8, 15]), hx(key)),"S:" + hx(key + b"x"), "Z", "L:" + hx(bytes(rng.randrange(256) for _ in range(16))),
                                              "S:" + hx(K2 if key != K2 else K1)])
    ma = {"none": "none", "rfc": "rfc:" + hx(key), "asis": "asis:" + hx(key), "rfcwrong": "rfc:" + hx(key + b"z"),
          "asiswrong": "asis:" + hx(b"zz"), "rfcflip": "rfcflip%d:%s" % (rng.randrange(16), hx(key)),
          "asisflip": "asisflip%d:%s" % (rng.randrange(16), hx(key)), "lit": "lit:" + hx(bytes(rng.randrange(256) for _ in range(16)))}[mamode]
    lend = rng.choice([0] * 25 + [1, -1, -3, 5])
    trail = rng.choice(["-"] * 20 + ["00", "5012" + "00" * 16, hx(bytes(rng.randrange(256) for _ in range(5)))])
    bus = rng.choice(["ok", "ok", "ok", "nf", "e0", "e401"])
    at = ",".join("%d:%s" % (t, v if isinstance(v, str) else hx(v)) for t, v in attrs) or "-"
    if rng.random() < 0.04:
        raw = rng.choice([b"", b"\x2b", bytes(19), bytes([43, 1, 0, 20]) + bytes(16), bytes([43, 1, 0, 21]) + bytes(17),
                          bytes([40, 1, 0, 22]) + bytes(16) + b"\x2c\x01", bytes(rng.randrange(256) for _ in range(rng.randrange(20, 60)))])
        return "src=%s bus=%s raw=%s" % (src, bus, hx(raw) if raw else "-")
    return "src=%s bus=%s code=%d id=%d sign=%s ma=%s lend=%d trail=%s attrs=%s" % (
        src, bus, code, rng.randrange(256), sign, ma, lend, trail, at)


def gen_coa_ttl(rng):
    """Lifetime of the duplicate cache: window 1 s (lifetime 2 s on HEAD).  A correctly signed request stamped 0 or 1 s ahead
    is sent early in a wall-clock second, then re-sent byte-identically a chosen time later: inside the lifetime, in the last
    admitted second (where an entry with a lifetime of exactly 2*window would have expired), after the window closed."""
    key = K1
    tgt = rng.choice(["1:" + hx(b"alice"), "8:0a010203", "44:" + hx(b"sess-ttl")])
    code = rng.choice([40, 43])
    attrs = tgt + (",27:0000003c" if code == 43 else "") + ",55:" + rng.choice(["TS+1", "TS+1", "TS+0"])
    first = "src=127.0.0.2 bus=ok align=300 code=%d id=%d sign=S:%s ma=none lend=0 trail=- attrs=%s" % (code, rng.randrange(256), hx(key), attrs)
    after = rng.choice([2350, 2350, 2350, 1200, 1900, 3300, 2050])
    pk = [first, "src=127.0.0.2 bus=ok dup=0 after=0:%d" % after]
    return "coa win=1 nasid=- maps=- clients=127.0.0.2/%s %d " % (hx(key), len(pk)) + " | ".join(pk) + " |"


def gen_coa(rng):
    clients = rng.choice(CLIENT_SETS)
    win = rng.choice([300, 300, 10, 0])
    nasid = rng.choice([b"", b"bng1"])
    cfg = "coa win=%d nasid=%s maps=%s clients=%s" % (win, hx(nasid), rng.choice(MAPSETS),
                                                      ",".join("%s/%s" % (h, hx(k)) for h, k in clients))
    n = rng.choice([1, 2, 3, 4])
    with_dup = rng.random() < 0.45
    pk = [gen_coa_packet(rng, clients, win, nasid) for _ in range(n)]
    # replays: byte-identical copies of earlier datagrams of the case (possibly from another address of the client net,
    # possibly after other requests for the same target)
    if with_dup and pk:
        for _ in range(1):
            cand = [i for i, p in enumerate(pk) if " dup=" not in p]
            if not cand:
                break
            k = rng.choice(cand)
            src = re.search(r"src=(\S+)", pk[k]).group(1)
            if rng.random() < 0.2:
                src = rng.choice(SOURCES)
            pk.insert(rng.randrange(k + 1, len(pk) + 1), "src=%s bus=%s dup=%d" % (src, rng.choice(["ok", "ok", "nf"]), k))
            # indices of earlier dup references stay valid only if we insert after k; later dups refer to original indices
            break
    n = len(pk)
    return cfg + " %d " % n + " | ".join(pk) + " |"


# ------------------------------------------------------------------ Authenticate cases
def gen_auth(rng):
    secret = rng.choice([b"s3cret", b"testing123", bytes(range(1, 71))])
    pw = rng.choice(["-", hx(b"pw"), hx(b"a-much-longer-password-than-16")])
    n = rng.choice([1, 2, 2, 3])
    rec = []
    for k in range(n):
        kind = rng.choice(["ok", "ok", "okma", "badma", "forge", "wrong", "flip", "otherid", "mm" + rng.choice(MA_COMBOS)])
        code = rng.choice([2, 2, 3, 11, 5])
        a = rng.choice([b"", attr(27, struct.pack(">I", 100 + k)), attr(8, bytes([10, 9, 8, k + 1])) + attr(28, struct.pack(">I", 60 + k)),
                        attr(88, b"pool%d" % k)])
        rec.append("%s:%d:%s" % (kind, code, hx(a)))
    return "auth secret=%s pw=%s %d %s" % (hx(secret), pw, n, " ".join(rec))


# ------------------------------------------------------------------ fail-over cases
FAIL_SECRETS = [b"secret-A", b"secret-B", b"third", b"s3cret"]


def gen_fail(rng):
    kind = rng.choice(["auth", "auth", "auth", "acct"])
    n = rng.choice([2, 2, 2, 3])
    secs = rng.sample(FAIL_SECRETS, n)
    if rng.random() < 0.15:
        secs[1] = secs[0]                 # equal secrets: replies for A are then legitimately valid on B
    pw = rng.choice(["-", hx(b"pw")])
    okcode = 5 if kind == "acct" else None
    toks = ["fail", "kind=" + kind, "pw=" + pw, str(n)]
    for i in range(n):
        # earlier servers mostly fail (silent, or answering only with datagrams that must not be accepted)
        mode = rng.choice(["silent", "silent", "bad", "good"]) if i < n - 1 else rng.choice(["good", "good", "bad", "silent", "mixed"])
        rec = []

        def a(k):
            return rng.choice([b"", attr(27, struct.pack(">I", 100 * (i + 1) + k)), attr(88, b"pool%d%d" % (i, k)),
                               attr(28, struct.pack(">I", 60 + k))])
        code = lambda: okcode or rng.choice([2, 2, 2, 3])
        others = [j for j in range(n) if j != i]
        if mode in ("bad", "mixed"):
            for k in range(rng.choice([1, 2])):
                j = rng.choice(others)
                rec.append(rng.choice(["sk%d:%d:%s" % (j, code(), hx(a(k))), "skma%d:%d:%s" % (j, code(), hx(a(k))),
                                       "sk%d:%d:%s" % (j, code(), hx(a(k))), "forge:%d:%s" % (code(), hx(a(k))),
                                       "wrong:%d:%s" % (code(), hx(a(k))), "badma:%d:%s" % (code(), hx(a(k)))]))
        if mode in ("good", "mixed"):
            rec.append(rng.choice(["ok:%d:%s" % (code(), hx(a(7))), "okma:%d:%s" % (code(), hx(a(8)))]))
            if rng.random() < 0.3:
                rec.append("sk%d:%d:%s" % (rng.choice(others), code(), hx(a(9))))
        toks += ["secret=" + hx(secs[i]), str(len(rec))] + rec
    return " ".join(toks)


def gen_cases(rng, tier, budget):
    q = tier == "quick"
    nr, nc, na, nf = (300, 900, 80, 90) if q else (4000, 10000, 800, 900)
    if budget:
        nr, nc, na, nf = budget, budget, max(10, budget // 5), max(10, budget // 5)
    cases = [gen_coa_ttl(rng) for _ in range(5 if q else 40)]
    cases += gen_reply_multi_ma()
    for combo in MA_COMBOS:          # Authenticate: irregular Access-Accept first, genuine Access-Reject second (and the reverse codes)
        cases.append("auth secret=%s pw=- 2 mm%s:2:%s ok:3:-" % (hx(b"s3cret"), combo, hx(attr(27, struct.pack(">I", 77)))))
        cases.append("auth secret=%s pw=- 2 mm%s:3:- ok:2:%s" % (hx(b"s3cret"), combo, hx(attr(28, struct.pack(">I", 88)))))
    for combo in ("GG", "GV", "VG", "WG"):   # fail-over: server A answers only with the irregular reply, B genuinely
        cases.append("fail kind=auth pw=- 2 secret=%s 1 mm%s:2:- secret=%s 1 ok:3:-" % (hx(b"secret-A"), combo, hx(b"secret-B")))
        cases.append("fail kind=acct pw=- 2 secret=%s 1 mm%s:5:- secret=%s 1 ok:5:-" % (hx(b"secret-A"), combo, hx(b"secret-B")))
    for i in range(max(nr, nc, na, nf)):
        if i < nf:
            cases.append(gen_fail(rng))
        if i < nr:
            cases.append(gen_reply(rng))
        if i < nc:
            cases.append(gen_coa(rng))
        if i < na:
            cases.append(gen_auth(rng))
    return cases


# ------------------------------------------------------------------ classification
def _segs(line):
    return line.split(" ; ")


def _tok(seg, key):
    m = re.search(r"(?:^| )%s=(\S+)" % key, seg)
    return m.group(1) if m else None


def _coa_proj(seg):
    t = seg.split()
    outcome = next((x for x in t if x in ("drop", "silent", "reply")), "?")
    return outcome, _tok(seg, "ev"), _tok(seg, "ra"), _tok(seg, "ma")


def classify(case, impl, model):
    kind = case.split(" ", 1)[0]
    if impl.startswith(("panic", "hang", "ENV", "BADCASE")) or "SYNCFAIL" in impl:
        return ("P" if impl.startswith(("panic", "hang")) else "G"), "harness reports %s" % impl[:120]
    if kind == "reply":
        for k, (a, b) in enumerate(zip(_segs(impl), _segs(model))):
            if _tok(a, "got") != _tok(b, "got"):
                return "P", "round %d: exchange returned %s, the model (reply must verify against the pending request) says %s" % (
                    k, (_tok(a, "got") or a)[:90], (_tok(b, "got") or b)[:90])
        return "G", "request bytes differ from the model's encoding"
    if kind == "coa":
        si, sm = _segs(impl), _segs(model)
        for k, (a, b) in enumerate(zip(si, sm)):
            pa, pb = _coa_proj(a), _coa_proj(b)
            if pa != pb:
                return "P", "packet %d: listener did %s, model says %s" % (k, pa, pb)
        return "G", "statistics or reply bytes differ while decision, events and authenticator validity agree"
    if kind == "fail":
        si, sm = _segs(impl), _segs(model)
        if si[-1] != sm[-1]:
            return "P", "after fail-over the provider returned %s, the model (a reply counts only under the secret of the server it arrived from) says %s" % (si[-1], sm[-1])
        for k, (a, b) in enumerate(zip(si, sm)):
            if a != b:
                return "P", "server %d: request on the wire / servers tried differ: impl %s model %s" % (k, a[:80], b[:80])
        return "G", "fail line differs"
    if kind == "auth":
        if _tok(impl, "got") != _tok(model, "got") or _tok(impl, "reqma") != _tok(model, "reqma"):
            return "P", "Authenticate returned %s (request Message-Authenticator valid=%s), model says %s (valid=%s)" % (
                _tok(impl, "got"), _tok(impl, "reqma"), _tok(model, "got"), _tok(model, "reqma"))
        return "G", "auth line differs"
    return "G", "unknown case kind"


def _pkts(case):
    t = case.split()
    return [dict(x.split("=", 1) for x in p.split()) for p in " ".join(t[6:]).split("|") if p.strip()]


def _usable_ts(kv, pk):
    if "dup" in kv:
        k = int(kv["dup"])
        return _usable_ts(pk[k], pk) if k < len(pk) and "dup" not in pk[k] else None
    if "raw" in kv:
        return None
    ts = [x.split(":", 1)[1] for x in kv.get("attrs", "-").split(",") if x.startswith("55:")]
    return any(x.startswith("TS") or (len(x) == 8 and x != "00000000") for x in ts)


def signature(case, impl, models):
    """One finding is recorded.  A mismatch against [repaired] is attributed to it only if the implementation's line equals
    the [head] model's line and every differing packet has the input class of the finding: window > 0, recipe (or, for a
    `dup=` packet, the recipe it copies) without usable Event-Timestamp, answered by the implementation, dropped by
    [repaired].  Anything else is a VIOLATION."""
    if case.split(" ", 1)[0] != "coa" or models.get("head") != impl:
        return None
    rep = models.get("repaired", "")
    pk = _pkts(case)
    win = int(case.split()[1].split("=", 1)[1])
    si, sr = _segs(impl), _segs(rep)
    if win <= 0 or len(pk) != len(si) or len(si) != len(sr):
        return None
    hit = False
    for kv, a, b in zip(pk, si, sr):
        if a == b:
            continue
        if _usable_ts(kv, pk) is not False or _coa_proj(a)[0] != "reply" or _coa_proj(b)[0] != "drop":
            return None
        hit = True
    return "coa-without-event-timestamp-bypasses-window" if hit else None


def nontrivial(case, out):
    kind = case.split(" ", 1)[0]
    if kind == "reply":
        g = [_tok(s, "got") for s in _segs(out)]
        return any(x and x != "timeout" for x in g)
    if kind == "coa":
        return " reply " in out
    if kind == "fail":
        return out.count("req=-") < out.count(":req=") and "s1:req=-" not in out   # a fail-over really happened
    return True


def distribution(cases, impl):
    d = {"reply_cases": 0, "reply_rounds": 0, "reply_delivered": 0, "reply_timeout": 0, "coa_cases": 0, "coa_packets": 0,
         "coa_drop": 0, "coa_silent": 0, "coa_reply": 0, "coa_mutation_events": 0, "coa_terminate_events": 0,
         "coa_reply_with_ma": 0, "auth_cases": 0, "auth_allowed": 0, "auth_denied": 0, "auth_error": 0}
    codes = {}
    for c, o in zip(cases, impl):
        k = c.split(" ", 1)[0]
        if o is None:
            continue
        if k == "reply":
            d["reply_cases"] += 1
            d["reply_overlapping_rounds"] = d.get("reply_overlapping_rounds", 0) + len(re.findall(r" h\d+ ", c))
            for s in _segs(o):
                d["reply_rounds"] += 1
                if _tok(s, "got") == "timeout":
                    d["reply_timeout"] += 1
                else:
                    d["reply_delivered"] += 1
        elif k == "coa":
            d["coa_cases"] += 1
            for s in _segs(o):
                d["coa_packets"] += 1
                oc = _coa_proj(s)
                if oc[0] in ("drop", "silent", "reply"):
                    d["coa_" + oc[0]] += 1
                ev = oc[1] or ""
                d["coa_mutation_events"] += ev.startswith("mut:")
                d["coa_terminate_events"] += ev.startswith("term:")
                d["coa_reply_with_ma"] += oc[3] in ("0", "1")
                r = _tok(s, "reply")
                if r:
                    codes[r[:2]] = codes.get(r[:2], 0) + 1
            d["coa_duplicate_packets"] = d.get("coa_duplicate_packets", 0) + c.count(" dup=")
            d["coa_timed_replays"] = d.get("coa_timed_replays", 0) + c.count(" after=")
        if k in ("auth", "fail"):
            d["repeated_ma_recipes"] = d.get("repeated_ma_recipes", 0) + len(re.findall(r" mm[VGW]+:", c))
        elif k == "fail":
            d["failover_cases"] = d.get("failover_cases", 0) + 1
            d["failover_second_server_tried"] = d.get("failover_second_server_tried", 0) + ("s1:req=-" not in o)
            g = o.split("got=")[-1]
            key = "failover_" + ("allowed" if g.startswith("allowed") else g if g in ("denied", "error", "ok") else "other")
            d[key] = d.get(key, 0) + 1
        elif k == "auth":
            d["auth_cases"] += 1
            g = _tok(o, "got") or ""
            d["auth_" + ("allowed" if g.startswith("allowed") else g if g in ("denied", "error") else "error")] += 1
    d["coa_reply_codes_hex"] = codes
    return d


# ------------------------------------------------------------------ shrinking
def _parse_reply(case):
    t = case.split()
    rounds = []
    p = 3
    for _ in range(int(t[2])):
        n = int(t[p + 4])
        rounds.append((t[p:p + 4], t[p + 5:p + 5 + n]))
        p += 5 + n
    return t[1], rounds


def _emit_reply(sec, rounds):
    toks = ["reply", sec, str(len(rounds))]
    for head, dgs in rounds:
        toks += head + [str(len(dgs))] + dgs
    return " ".join(toks)


def shrink(case):
    t = case.split()
    if t[0] == "reply":
        sec, rounds = _parse_reply(case)
        for i in range(len(rounds)):
            if len(rounds) > 1:
                yield _emit_reply(sec, rounds[:i] + rounds[i + 1:])
        for i, (h, dgs) in enumerate(rounds):
            for j in range(len(dgs)):
                yield _emit_reply(sec, rounds[:i] + [(h, dgs[:j] + dgs[j + 1:])] + rounds[i + 1:])
        return
    if t[0] == "coa":
        head = t[1:5]
        body = " ".join(t[6:])
        pk = [p.strip() for p in body.split("|") if p.strip()]

        def emit(head, pk):
            return "coa " + " ".join(head) + " %d " % len(pk) + " | ".join(pk) + " |"
        def drop(pk, i):
            outp = []
            for j, p in enumerate(pk):
                if j == i:
                    continue
                m = re.search(r" dup=(\d+)", p)
                if m:
                    k = int(m.group(1))
                    if k == i:
                        continue
                    if k > i:
                        p = p.replace(" dup=%d" % k, " dup=%d" % (k - 1))
                outp.append(p)
            return outp
        if len(pk) > 1:
            for i in range(len(pk)):
                yield emit(head, drop(pk, i))
        for i, p in enumerate(pk):
            kv = dict(x.split("=", 1) for x in p.split())
            if "attrs" in kv and kv["attrs"] != "-":
                al = kv["attrs"].split(",")
                for j in range(len(al)):
                    kv2 = dict(kv)
                    kv2["attrs"] = ",".join(al[:j] + al[j + 1:]) or "-"
                    yield emit(head, pk[:i] + [" ".join("%s=%s" % (k, kv2[k]) for k in kv)] + pk[i + 1:])
            for k, v in (("trail", "-"), ("lend", "0"), ("bus", "ok")):
                if kv.get(k, v) != v:
                    kv2 = dict(kv)
                    kv2[k] = v
                    yield emit(head, pk[:i] + [" ".join("%s=%s" % (kk, kv2[kk]) for kk in kv)] + pk[i + 1:])
        cl = head[3].split("=", 1)[1].split(",")
        if len(cl) > 1:
            for i in range(len(cl)):
                yield emit(head[:3] + ["clients=" + ",".join(cl[:i] + cl[i + 1:])], pk)
        if head[2] != "maps=-":
            yield emit(head[:2] + ["maps=-"] + head[3:], pk)
        return
    if t[0] == "fail":
        n = int(t[3])
        srv = []
        p = 4
        for _ in range(n):
            k = int(t[p + 1])
            srv.append((t[p], t[p + 2:p + 2 + k]))
            p += 2 + k

        def emitf(srv):
            toks = t[:3] + [str(len(srv))]
            for sec, rec in srv:
                toks += [sec, str(len(rec))] + rec
            return " ".join(toks)
        for i, (sec, rec) in enumerate(srv):
            for j in range(len(rec)):
                yield emitf(srv[:i] + [(sec, rec[:j] + rec[j + 1:])] + srv[i + 1:])
        if n > 2:
            for i in range(n):
                s2 = srv[:i] + srv[i + 1:]
                # recipes refer to server indices: keep them in range
                yield emitf([(sec, [re.sub(r"^(sk(?:ma)?)(\d+)", lambda m: m.group(1) + str(int(m.group(2)) % len(s2)), r) for r in rec]) for sec, rec in s2])
        return
    if t[0] == "auth":
        rec = t[4:]
        for i in range(len(rec)):
            if len(rec) > 1:
                r2 = rec[:i] + rec[i + 1:]
                yield " ".join(t[:3] + [str(len(r2))] + r2)
