"""C16 — L2TP control channel: exactly once, in order, within the window
(pkg/l2tp/control_channel.go, internal/l2tp/dispatch.go)."""
import itertools
import re

ID = "C16"
HARNESSES = [
    dict(name="chan", pkg="./pkg/l2tp/", test="TestVerifC16",
         files=[("pkg/l2tp/zz_verif_c16_test.go", "harness/C16/zz_verif_c16_test.go")]),
    dict(name="disp", pkg="./internal/l2tp/", test="TestVerifC16Dispatch", timeout=900,
         files=[("internal/l2tp/zz_verif_c16_dispatch_test.go", "harness/C16/zz_verif_c16_dispatch_test.go")]),
]
# one model = what /repo HEAD does; every C16 finding is fixed (last: 1a77bf9), so a regression to any of them is a VIOLATION
VARIANTS = ["repaired"]
# the runner cases run on real timers: the model driver reads the observed write times and accepts them within a
# tolerance around the runner_next-driven prediction (everything else is compared exactly)
MODEL_NEEDS_IMPL = True
RULE = ("pair: two real ControlChannels (origins from {0,1,0x7ffd..0x8001,0xfffc..0xffff,random}, windows 1-4/8/16/default, "
        "max-retries 1-5, small RTO/ZLB delays) driven by a schedule of submit / deliver k-th in transit / duplicate / drop / "
        "tick / set-window / inject ops, each optionally with failing send-callback writes (f<j>: the (j+1)-th write of the "
        "operation returns an error; first transmissions from Send and from the ACK path, retransmissions, ZLBs); random "
        "schedules under six network profiles, long runs (60 messages), bursts reaching a window of 16, a send-fault stream, "
        "and enumeration to depth 4 (5 thorough) over an 8-op alphabet after three preludes. disp / full / sccrq / rws / "
        "sccrqdup / stopccn / overlap / idle / estab / runner / e2e: the real internal/l2tp Component (e2e: TWO real Components, LAC and "
        "LNS, joined by a faulty network, compared with the pair model driven by runner_next) — Dispatch on wire bytes for every message "
        "type first-time and retransmitted, establishment with an advertised Receive Window Size, duplicate SCCRQ, StopCCN "
        "acknowledgement, forced overlap of the runner's Tick with Recv, and the real runner loop with real timers on an idle "
        "tunnel receiving a Hello. seqless: boundary pairs. Every op's observable (every write passed to the send callback "
        "with its failed flag, handed-to-machine flag, Tick return, dead callback, ns/nr/cwnd/ssthresh/queue length/in-flight/"
        "ZLB deadline) is compared with the model. Non-trivial: at least one message handed to a protocol machine and at "
        "least one drop/duplicate/out-of-order delivery/retransmission. Distinct: by case text.")
TRUSTED = ["pkg/l2tp harness replicates the dispatch rule of internal/l2tp/dispatch.go (ZLB -> RecvZLB, else Recv); the "
           "internal/l2tp harness checks the real Dispatch against the same Gallina function",
           "time.Duration arithmetic is modelled on unbounded integers in ms (no int64 overflow of rtoInitial<<attempts)"]
ASSUMPTIONS = ["fewer than 2^15 messages are submitted per direction (exactly-once theorem); beyond that a bounded packet "
               "lifetime is needed, which is not modelled",
               "PeerRWS >= 1 and MaxRetries >= 1 after defaulting",
               "C16_ack_owed: the writes issued by Tick succeed (Tick forgets a ZLB whose write failed)"]


def route(case):
    return "disp" if case.startswith(("disp", "sccrq", "full", "rws", "overlap", "stopccn", "sccrqdup", "idle", "runner", "estab", "e2e", "multi")) else "chan"


ORIGINS = [0, 0, 1, 0x7ffd, 0x7ffe, 0x7fff, 0x8000, 0x8001, 0xfffc, 0xfffd, 0xfffe, 0xffff]
PROFILES = {
    #            submit deliver0 deliverK dup drop tick
    "reliable": (25, 45, 0, 0, 0, 30),
    "lossy":    (20, 30, 0, 0, 20, 30),
    "dup":      (20, 30, 5, 25, 0, 20),
    "reorder":  (20, 20, 30, 5, 0, 25),
    "silent":   (15, 5, 0, 0, 20, 60),
    "mixed":    (20, 25, 12, 10, 10, 23),
}


def gen_conf(rng, small=True):
    return [rng.choice([100, 100, 300, 1000, 0]), rng.choice([400, 400, 1000, 8000, 0]),
            rng.choice([1, 2, 3, 3, 4, 5, 6, 0]), rng.choice([50, 50, 200, 0]),
            rng.choice([1, 1, 2, 2, 3, 4, 0, 16])]


def origin(rng):
    return rng.choice(ORIGINS) if rng.random() < 0.85 else rng.randrange(65536)


def add_faults(rng, ops, rate):
    """append failing-write tokens: f<j> = the (j+1)-th write of that operation returns an error"""
    out = []
    for o in ops:
        if o[0] in "sdujt" and rng.random() < rate:
            o += ":f" + rng.choice(["0", "0", "0", "1", "0.1", "2"] if o[0] == "t" else ["0", "0", "0", "1", "2"])
        out.append(o)
    return out


def gen_faulty(rng, n):
    """send-callback failures: in Send, in the ACK path (window opened by an acknowledgement), in Tick
    (retransmissions and ZLBs); then enough Ticks for the retransmit machinery to repair or give up"""
    out = []
    for i in range(n):
        oa, ob = origin(rng), origin(rng)
        w = rng.choice([1, 1, 2, 4])
        maxr = rng.choice([2, 3, 5])
        t, ops, k = 0, [], 0
        for _ in range(rng.randrange(1, 4)):
            ops.append("sA:%d:0:%d" % (100 + k, t) + rng.choice(["", "", ":f0"]))
            k += 1
        for _ in range(rng.randrange(1, 5)):
            t += 20
            ops += ["dB:0:%d" % t, "tB:%d" % (t + 60) + rng.choice(["", "", ":f0"]),
                    "dA:0:%d" % (t + 70) + rng.choice(["", ":f0", ":f0", ":f1"])]
            t += 100
            if rng.random() < 0.4:
                ops.append("sA:%d:0:%d" % (100 + k, t) + rng.choice(["", ":f0"]))
                k += 1
        for _ in range(rng.randrange(2, 14)):
            t += rng.choice([110, 250, 450, 900])
            ops.append(rng.choice(["tA:%d", "tA:%d", "tA:%d:f0", "dB:0:%d", "tB:%d", "dA:0:%d"]) % t)
        out.append("pair %d %d 100 400 %d 50 %d 100 400 3 50 4 %s" % (oa, ob, maxr, w, " ".join(ops)))
    return out


def gen_pair(rng, nops, profile, hostile=False, nmsg=8, bigwin=False):
    oa, ob = origin(rng), origin(rng)
    ca, cb = gen_conf(rng), gen_conf(rng)
    if bigwin:
        ca[4], cb[4] = rng.choice([8, 16]), rng.choice([8, 16])
        ca[2], cb[2] = 5, 5
    w = PROFILES[profile]
    t = 0
    nsub = {"A": 0, "B": 0}
    ops = []
    for _ in range(nops):
        t += rng.choice([0, 0, 10, 10, 60, 60, 120, 250, 450, 1100, 9000])
        x = rng.choice("AB")
        r = rng.randrange(100)
        if r < w[0]:
            if nsub[x] >= nmsg:
                ops.append("t%s:%d" % (x, t))
                continue
            body = (100 if x == "A" else 200) + nsub[x]
            nsub[x] += 1
            ops.append("s%s:%d:%d:%d" % (x, body, rng.choice([0, 0, 7, 255, 256, 257, 0x1234, 65535]), t))
        elif r < w[0] + w[1]:
            ops.append("d%s:0:%d" % (x, t))
        elif r < w[0] + w[1] + w[2]:
            ops.append("d%s:%d:%d" % (x, rng.randrange(1, 5), t))
        elif r < w[0] + w[1] + w[2] + w[3]:
            ops.append("u%s:%d:%d" % (x, rng.choice([0, 0, 1, 2]), t))
        elif r < w[0] + w[1] + w[2] + w[3] + w[4]:
            ops.append("x%s:%d" % (x, rng.choice([0, 0, 0, 1])))
        else:
            ops.append("t%s:%d" % (x, t))
        if rng.random() < 0.02:
            ops.append("w%s:%d" % (x, rng.choice([-1, 0, 1, 2, 3, 4, 8])))
        if hostile and rng.random() < 0.15:
            o_mine, o_peer = (oa, ob) if x == "A" else (ob, oa)
            ns = (o_peer + rng.choice([0, 0, 1, 2, 5, 0x7fff, 0x8000, 0x8001, 0xffff, 0xfffe])) % 65536
            nr = (o_mine + rng.choice([0, 1, 1, 2, 3, 9, 0x7fff, 0x8000, 0x8001, 0xffff])) % 65536
            ops.append("j%s:%s:%d:%d:%d:%d" % (x, rng.choice(["z", "999"]), rng.choice([0, 3]), ns, nr, t))
    # drain: a few reliable exchanges so that in honest runs things get delivered
    for _ in range(rng.choice([0, 0, 6, 12])):
        t += rng.choice([10, 60, 250])
        x = rng.choice("AB")
        ops.append(rng.choice(["d%s:0:%d", "t%s:%d"]) % ((x, t)))
    return "pair %d %d %s %s %s" % (oa, ob, " ".join(map(str, ca)), " ".join(map(str, cb)), " ".join(ops))


ALPHABET = ["sA", "dA", "dB", "uB", "xB", "tA", "tB", "dB1"]
PRELUDES = [
    # (config A, config B, origin A, origin B, prelude ops)
    ("100 400 2 50 2", "100 400 2 50 2", 0xffff, 0, ["sA:100:0:0"]),
    ("100 400 3 50 4", "100 400 3 50 1", 0x7fff, 0xfffe, ["sA:100:0:0", "sB:200:7:0", "dB:0:10", "dA:0:10"]),
    ("100 400 1 50 1", "100 400 5 50 3", 0, 0x8000, ["sB:200:0:0", "sB:201:0:0", "sA:100:0:5"]),
]


def enum_cases(depth):
    out = []
    for ca, cb, oa, ob, pre in PRELUDES:
        for seqn in itertools.product(ALPHABET, repeat=depth):
            t = 20
            nb = 101
            ops = list(pre)
            for a in seqn:
                t += 70
                if a == "sA":
                    ops.append("sA:%d:0:%d" % (nb, t))
                    nb += 1
                elif a == "dB1":
                    ops.append("dB:1:%d" % t)
                elif a[0] in "du":
                    ops.append("%s:0:%d" % (a, t))
                elif a[0] == "x":
                    ops.append("%s:0" % a)
                else:
                    ops.append("%s:%d" % (a, t))
            out.append("pair %d %d %s %s %s" % (oa, ob, ca, cb, " ".join(ops)))
    return out


def gen_burst(rng, n):
    """open the congestion window with acknowledged traffic, then submit a burst: in-flight reaches the window"""
    out = []
    fixed = [(16, 17, 19), (16, 16, 17), (8, 9, 10), (4, 5, 6), (2, 3, 4), (0, 5, 6), (16, 20, 40)]
    for i in range(n):
        if i < len(fixed):      # the window is filled exactly and at least one more message waits behind it
            w, warm, burst = fixed[i]
        else:
            w, warm, burst = rng.choice([2, 3, 4, 8, 16, 0]), rng.randrange(1, 20), rng.randrange(2, 22)
        oa, ob = origin(rng), origin(rng)
        t, ops, k = 0, [], 0
        for _ in range(warm):
            ops += ["sA:%d:0:%d" % (100 + k, t), "dB:0:%d" % (t + 5), "tB:%d" % (t + 70), "dA:0:%d" % (t + 75)]
            k += 1
            t += 100
        for _ in range(burst):
            ops.append("sA:%d:%d:%d" % (100 + k, rng.choice([0, 9]), t))
            k += 1
        for _ in range(rng.randrange(0, 30)):
            t += rng.choice([5, 30, 400])
            ops.append(rng.choice(["dB:0:%d", "dB:0:%d", "tB:%d", "dA:0:%d", "tA:%d", "uB:1:%d", "dB:2:%d"]) % t)
        out.append("pair %d %d 1000 8000 5 50 %d 1000 8000 5 50 4 %s" % (oa, ob, w, " ".join(ops)))
    return out


ESTAB = {"lns": ["sccrq", "scccn", "icrq", "iccn", "hello", "cdn", "stop"],
         "lac": ["sccrp", "icrp", "hello", "cdn", "stop"]}


def gen_estab(rng, n):
    """complete control connections through the real Dispatch with LATE COPIES of every establishment message in every
    later state (also during and after teardown)."""
    out = []
    for role, base in ESTAB.items():
        # exhaustive: after every prefix, every earlier message once more (one case per state, all copies packed)
        for i in range(1, len(base) + 1):
            steps = list(base[:i])
            for k in range(i):
                steps.append("r%d" % k)
            steps += base[i:]
            out.append("estab %s %s" % (role, " ".join(steps)))
        # one copy at a time, at every later position
        for k in range(len(base)):
            for pos in range(k + 1, len(base) + 1):
                out.append("estab %s %s" % (role, " ".join(base[:pos] + ["r%d" % k] + base[pos:])))
    for _ in range(n):
        role = rng.choice(["lns", "lac"])
        base = list(ESTAB[role])
        if role == "lns":       # more sessions, more traffic
            extra = rng.randrange(0, 3)
            base = base[:2] + ["icrq"] * extra + base[2:4] + ["hello"] * rng.randrange(0, 3) + base[4:]
        if rng.random() < 0.3:
            base = base[:-1]    # no teardown
        steps, sent = [], 0
        for st in base:
            steps.append(st)
            sent += 1
            for _ in range(rng.choice([0, 0, 1, 2, 4])):
                steps.append("r%d" % rng.randrange(sent))
        out.append("estab %s %s" % (role, " ".join(steps)))
    return out


def gen_multi(rng, n):
    """several control connections in one LNS whose keys (peer address, peer's Assigned Tunnel ID) differ in exactly one
    component — each address byte in turn, tunnel ids with the same low / same high byte — driven through the real Dispatch:
    SCCRQs and their copies, in-order traffic, sessions, a message arriving from the other connection's source address,
    teardown and late copies.  Our own tunnel ids are allocated per peer, so connections of different peers share them."""
    out = []
    keys = [("A", 99), ("B", 99), ("C", 99), ("D", 99), ("E", 99), ("A", 355), ("A", 25443), ("A", 25344)]
    pairs = [(keys[0], k) for k in keys[1:]] + [(keys[5], keys[6]), (keys[1], ("B", 355)), (keys[2], ("D", 355))]
    for (p1, a1), (p2, a2) in pairs:
        k1, k2 = "%s:%d" % (p1, a1), "%s:%d" % (p2, a2)
        out.append("multi q:%s q:%s q:%s h:%s h:%s i:%s i:%s c:%s:1 h:%s w:%s:%s w:%s:%s i:%s s:%s q:%s q:%s h:%s s:%s q:%s q:%s" % (
            k1, k2, k1, k1, k2, k1, k1, k1, k2, k1, p2, k2, p1, k2, k1, k1, k2, k2, k2, k2, k1))
        # a connection opened only AFTER its neighbour (one key component away) was torn down must still open, once
        out.append("multi q:%s h:%s s:%s q:%s q:%s q:%s h:%s s:%s q:%s q:%s" % (k1, k1, k1, k2, k1, k2, k2, k2, k1, k2))
    allk = ["%s:%d" % (p, a) for p in "ABCDE" for a in (99, 355, 25443)]
    for _ in range(n):
        ks = rng.sample(allk, rng.choice([2, 3, 4]))
        ops = ["q:" + k for k in ks[:rng.randrange(1, len(ks))]]      # the others are opened later, also after teardowns
        for _ in range(rng.randrange(4, 24)):
            k = rng.choice(ks)
            r = rng.random()
            if r < 0.2:
                ops.append("q:" + k)
            elif r < 0.5:
                ops.append("h:" + k)
            elif r < 0.65:
                ops.append("i:" + k)
            elif r < 0.75:
                ops.append("c:%s:%d" % (k, rng.choice([1, 1, 2, 3])))
            elif r < 0.9:
                ops.append("w:%s:%s" % (k, rng.choice("ABCDE")))
            else:
                ops.append("s:" + k)
        out.append("multi " + " ".join(ops))
    return out


def gen_e2e(rng, quick):
    """two real Components (LAC and LNS) over a faulty network: every single fault on the first six control packets of each
    direction, random double/triple faults; thorough adds consecutive losses of the same message (3 s and 7 s recoveries).
    All cases run concurrently."""
    out = ["e2e"]
    for d in "ab":
        for k in range(6):
            for kind in "xulv":
                out.append("e2e %s%s%d" % (kind, d, k))
    for _ in range(30 if quick else 120):
        fs = set()
        for _ in range(rng.choice([2, 2, 3])):
            fs.add("%s%s%d" % (rng.choice("xulv"), rng.choice("ab"), rng.randrange(7)))
        # never drop the same original message and its first retransmission in the quick tier (3 s recovery)
        out.append("e2e " + " ".join(sorted(fs)))
    # transport write errors through the real runner.sendBody / Dispatch / handlers: the k-th write attempt of a side fails
    for d, n in (("a", 5), ("b", 3)):
        for k in range(n):
            out.append("e2e w3500 f%s%d" % (d, k))
    for _ in range(12 if quick else 60):
        fs = {"f%s%d" % (rng.choice("ab"), rng.randrange(5))}
        for _ in range(rng.choice([1, 1, 2])):
            fs.add("%s%s%d" % (rng.choice("xulv"), rng.choice("ab"), rng.randrange(6)))
        out.append("e2e w3500 " + " ".join(sorted(fs)))
    # "... or the sender declares the tunnel dead": a direction of the link is cut for good, the real channels exhaust their
    # retransmissions on the real timers (1+2+4+8+8 s) and the dead callback of startTunnelRunner must unregister the tunnel
    out += ["e2e w26000 Xb0", "e2e w26000 Xb1", "e2e w26000 Xa1"]
    if not quick:
        out += ["e2e w26000 Xa0", "e2e w26000 Xa2 ub0", "e2e w26000 Xb2", "e2e w26000 Xa3 Xb3"]
        out += ["e2e xa0 xa1", "e2e xb0 xb1", "e2e xa0 xb0 xa1", "e2e xa0 xa1 xa2"]
    return out


def gen_runner():
    """scripted peers against the real runner loop (real timers, all cases run concurrently, ~2.6 s).  The watch window
    extends past the latest admissible acknowledgement time of the last inbound message (+1100 ms idle, RTO + 600)."""
    out = ["runner 1500", "runner 1300 5:scccn"]
    for h in range(330, 1331, 100):                       # idle tunnel, then a Hello (the C16_q3 class)
        out.append("runner %d 5:scccn %d:hello" % (h + 1100, h))
    for h in range(430, 1231, 100):                       # our ICRP in flight (RTO at 1300 pending), then a Hello
        out.append("runner %d 5:scccn 300:icrq %d:hello" % (max(h + 1100, 1900), h))
    for h in range(530, 1131, 100):                       # ICRP acknowledged, tunnel idle again, then a Hello
        out.append("runner %d 5:scccn 300:icrq 430:ack %d:hello" % (h + 1100, h))
    for h in (330, 630, 1130):                            # SCCRP never acknowledged: retransmission carries the ack
        out.append("runner 3600 %d:hello" % h)        # the Hello at 1130 is acknowledged by the SCCRP retransmission at 3000
    out.append("runner 2000 5:scccn 330:hello 380:hello 830:hello")
    out.append("runner 2100 5:scccn 300:icrq 360:icrq 430:ack 930:hello")
    return out


def gen_disp(rng, n):
    out = []
    for _ in range(n):
        rws = rng.choice([1, 2, 4, 16])
        ops = []
        nr = 0       # what a correct endpoint expects next
        sent = 0
        # prelude: move the origins a little with plain in-order traffic
        for _ in range(rng.choice([0, 0, 1, 3, 20])):
            ops.append("i:m:%d:0" % nr)
            nr += 1
        for _ in range(rng.randrange(1, 14)):
            r = rng.random()
            if r < 0.3:
                ops.append("s:%d:%d" % (300 + sent, rng.choice([0, 5])))
                sent += 1
            else:
                kind = rng.choice("mmz")
                d = rng.choice([0, 0, 0, 0, 1, 2, -1, -2, 0x8000, 0x7fff])
                ack = rng.choice([0, sent, sent, max(sent - 1, 0), sent + 1, 0x8000]) % 65536
                ops.append("i:%s:%d:%d" % (kind, (nr + d) % 65536, ack))
                if kind == "m" and d == 0:
                    nr = (nr + 1) % 65536
        out.append("disp %d %s" % (rws, " ".join(ops)))
    return out


MTYPES = ["sccrq", "sccrp", "scccn", "stop", "hello", "icrq", "icrp", "iccn", "cdn", "unk", "zlb"]


def gen_full(rng, n):
    """Real Component.Dispatch: every control message type, first-time and retransmitted (same Ns again after
    the handler ran, also after it deleted the session / the tunnel), unknown session ids and tunnel ids."""
    out = []

    def build(role, plan):
        # plan: list of (type, tid, sid, mode) with mode c = in order, p = retransmission of the previous
        # accepted message, f = one ahead; Ns literals are computed with the in-order rule
        nr, alive, ops = 0, True, []
        for ty, tid, sid, mode in plan:
            ns = {"c": nr, "p": (nr - 1) % 65536, "f": (nr + 1) % 65536}[mode]
            ops.append("%s:%d:%d:%d:%s" % (ty, tid, sid, ns, "a"))
            if alive and tid == 7 and ty not in ("zlb", "sccrq") and mode == "c":
                nr = (nr + 1) % 65536
                if ty == "stop":
                    alive = False
        return "full %s %s" % (role, " ".join(ops))
    # systematic: each type x {existing session, unknown session, no session} first-time then retransmitted twice
    for role in ("lns", "lac"):
        for ty in MTYPES:
            for sid in (5, 6, 0):
                out.append(build(role, [("hello", 7, 0, "c"), (ty, 7, sid, "c"), (ty, 7, sid, "p"), (ty, 7, sid, "p"),
                                        ("hello", 7, 0, "c"), (ty, 7, sid, "c"), (ty, 7, sid, "p")]))
                out.append(build(role, [(ty, 8, sid, "c"), (ty, 7, sid, "f"), (ty, 7, sid, "c"), (ty, 8, sid, "p"),
                                        (ty, 7, sid, "p")]))
        # session created by ICRQ (local id 1), used, torn down, and every later message retransmitted
        out.append(build(role, [("icrq", 7, 0, "c"), ("icrq", 7, 0, "p"), ("iccn", 7, 1, "c"), ("iccn", 7, 1, "p"),
                                ("cdn", 7, 1, "c"), ("cdn", 7, 1, "p"), ("cdn", 7, 1, "p"), ("iccn", 7, 1, "c"),
                                ("icrp", 7, 1, "c"), ("stop", 7, 0, "c"), ("stop", 7, 0, "p"), ("hello", 7, 0, "c")]))
    for _ in range(n):
        plan = []
        for _ in range(rng.randrange(2, 14)):
            ty = rng.choice(MTYPES)
            if ty == "stop" and rng.random() < 0.6:
                ty = "cdn"
            plan.append((ty, rng.choice([7, 7, 7, 7, 8]), rng.choice([5, 5, 1, 6, 0]), rng.choice("cccppf")))
        out.append(build(rng.choice(["lns", "lac"]), plan))
    return out


def gen_cases(rng, tier, budget):
    cases = []
    quick = tier == "quick"
    # seqLess boundaries
    for a in [0, 1, 2, 0x7ffe, 0x7fff, 0x8000, 0x8001, 0xfffe, 0xffff]:
        for d in [0, 1, 2, 0x7ffe, 0x7fff, 0x8000, 0x8001, 0xfffe, 0xffff]:
            cases.append("seqless %d %d" % (a, (a + d) % 65536))
    for _ in range(200 if quick else 5000):
        cases.append("seqless %d %d" % (rng.randrange(65536), rng.randrange(65536)))
    cases += gen_disp(rng, 150 if quick else 2000)
    cases += gen_full(rng, 150 if quick else 2000)
    for op in ("recv", "zlb", "send", "setwin", "flush", "nr"):      # every exported entry point vs the runner's Tick
        cases.append("overlap " + op)
    cases.append("stopccn")
    cases.append("sccrqdup")
    cases.append("idle 700")
    cases += gen_runner()
    cases += gen_estab(rng, 120 if quick else 1500)
    cases += gen_e2e(rng, quick)
    cases += gen_multi(rng, 60 if quick else 600)
    # advertised Receive Window Size through the real establishment path; exhaustive over the small grid
    for w in ["-", "0", "1", "2", "3", "4", "8", "16", "32"]:
        cases.append("rws lac %s 0 0" % w)
        for k, a in [(1, 0), (3, 0), (6, 2), (8, 3), (12, 12), (20, 20), (20, 8)]:
            cases.append("rws lns %s %d %d" % (w, k, a))
    for ns in [0, 1, 2, 0x7fff, 0x8000, 0xffff]:
        for nr in [0, 1, 0x8000]:
            cases.append("sccrq %d %d" % (ns, nr))
    nrand = (budget or 4000) if quick else (budget or 40000)
    profs = sorted(PROFILES)
    for i in range(nrand):
        prof = profs[i % len(profs)]
        c = gen_pair(rng, rng.choice([8, 20, 40, 80]), prof, hostile=(i % 7 == 0))
        if i % 5 == 2:
            t = c.split()
            c = " ".join(t[:13] + add_faults(rng, t[13:], rng.choice([0.05, 0.2, 0.5])))
        cases.append(c)
    # long runs crossing the 16-bit wrap with many messages
    for i in range(40 if quick else 300):
        cases.append(gen_pair(rng, 400, ["reliable", "dup", "mixed"][i % 3] if i % 2 else profs[i % len(profs)],
                              nmsg=60, bigwin=(i % 2 == 1)))
    cases += gen_burst(rng, 150 if quick else 2000)
    cases += gen_faulty(rng, 300 if quick else 4000)
    cases += enum_cases(4 if quick else 5)
    return cases


# ---------------------------------------------------------------- reading lines
def parse_pair(case):
    t = case.split()
    return dict(oa=int(t[1]), ob=int(t[2]), ca=list(map(int, t[3:8])), cb=list(map(int, t[8:13])), ops=t[13:])


def split_line(line):
    if " | " in line:
        body, tail = line.rsplit(" | ", 1)
    elif line.startswith("| "):
        body, tail = "", line[2:]
    else:
        return line.split(), {}
    kv = {}
    for item in tail.split():
        k, _, v = item.partition("=")
        kv[k] = v
    return body.split(), kv


def lst(v):
    return [x for x in v.split(".") if x != ""]


def monitor(case, line):
    """The property evaluated on an observed trace: None or text of the violation."""
    if case.startswith("disp"):
        return monitor_disp(case, line)
    if case.startswith("full"):
        return monitor_full(case, line)
    if case.startswith("estab"):
        steps = case.split()[2:]
        toks = line.split()[1:]
        off = len(toks) - len(steps)          # lac prints one extra token for StartLACSession
        for i, st in enumerate(steps):
            if st[0] == "r" and st[1:].isdigit() and 0 <= i + off < len(toks) and i + off >= 1:
                if toks[i + off] != toks[i + off - 1]:
                    return ("step %d (%s): a late copy of peer message #%s changed the tunnel/session/reply counts from %s to %s: "
                            "delivered to the protocol machine a second time" % (i, st, st[1:], toks[i + off - 1], toks[i + off]))
        return None
    if case.startswith("e2e"):
        if any(t[0] == "X" for t in case.split()[1:]):
            if "lac=T0" not in line or "lns=T0" not in line:
                return ("a direction of the link was cut for good (%s): after the retransmissions ran out (23 s) a side still has its "
                        "tunnel registered — the messages it accepted are neither delivered nor is the tunnel declared dead: %s"
                        % ([t for t in case.split()[1:] if t[0] == "X"], line))
            return None
        if any(t[0] == "f" for t in case.split()[1:]):
            return None     # a failed transport write may legitimately end the bring-up (the LAC gives up): exact comparison only
        if "lac=T1S1," not in line or "lns=T1S1," not in line or not line.endswith("est=11"):
            return ("the LAC/LNS bring-up over a network with faults %s did not end with exactly one tunnel and one established "
                    "session on each side: %s" % (case.split()[1:], line))
        return None
    if case.startswith("runner"):
        return None
    if case.startswith("idle"):
        if line.endswith("acked=0"):
            return ("idle tunnel: an in-order Hello was accepted but no acknowledgement left within zlbDelay + 500 ms + slack: "
                    "the runner does not come back for a ZLB deadline armed by Recv")
        return None
    if case.startswith("sccrqdup"):
        if "tunnels=1 sccrp=1" not in line:
            return "one SCCRQ received twice (retransmission) was handed to the protocol machine twice: %s" % line
        return None
    if case.startswith("stopccn"):
        if line.endswith("acked=0"):
            return "an in-order StopCCN was accepted (Nr advanced) but no acknowledgement was ever sent: the runner is stopped with the ZLB timer armed"
        return None
    if case.startswith("overlap"):
        if line.endswith("recv=returned"):
            return ("the tunnel runner's Tick and the punt consumer's Recv were inside the same ControlChannel at the "
                    "same time (Dispatch returned while Tick was held in its send callback): channel steps are not atomic")
        return None
    if case.startswith("rws"):
        t = case.split()
        adv = 4 if t[2] == "-" else max(1, int(t[2]))
        m = re.search(r"infl=(\d+)", line)
        if m and int(m.group(1)) > adv:
            return "%s: the peer advertised a Receive Window Size of %s but %s messages are outstanding (unacknowledged)" % (
                t[1].upper(), "4 (AVP absent)" if t[2] == "-" else adv, m.group(1))
        return None
    if not case.startswith("pair"):
        return None
    c = parse_pair(case)
    toks, kv = split_line(line)
    if not kv or len(toks) != len(c["ops"]):
        return None
    wmax = {"A": c["ca"][4] or 4, "B": c["cb"][4] or 4}
    maxr = {"A": c["ca"][2] or 5, "B": c["cb"][2] or 5}
    orig = {"A": c["oa"], "B": c["ob"]}
    subs = {"A": [], "B": []}
    tx = {"A": {}, "B": {}}      # transmissions per body since the last dead callback
    ever = {"A": set(), "B": set()}
    zlbdl = {"A": "z", "B": "z"}   # ZLB deadline of each side after its previous op
    lastq = {"A": 0, "B": 0}
    for op, tok in zip(c["ops"], toks):
        x = op[1]
        if op[0] == "t" and tok.startswith("T") and zlbdl[x] != "z" and int(op.split(":")[1]) >= int(zlbdl[x]):
            inner = tok.split("[", 1)[1].split("]")[0]
            if not inner and not tok.split("/")[0].endswith("!"):
                return "side %s ticked at %s, at/after its ZLB deadline %s, and sent nothing: the owed acknowledgement is lost" % (
                    x, op.split(":")[1], zlbdl[x])
        if "/" in tok:
            st0 = tok.rsplit("/", 1)[1].split(",")
            if len(st0) >= 7:
                zlbdl[x] = st0[6]
                lastq[x] = int(st0[4])
        if op[0] == "s" and not tok.startswith("R/"):      # R = refused by a dead channel: never accepted for sending
            subs[x].append(op.split(":")[1])
        if "[" in tok and "]" in tok:
            for q in [y for y in tok.split("[", 1)[1].split("]")[0].split(",") if y]:
                if not q.lstrip("!").startswith("z."):
                    ever.setdefault(x, set()).add(q.split(".")[0].lstrip("!"))
            for q in [y for y in tok.split("[", 1)[1].split("]")[0].split(",") if y]:
                b, _, ns, _ = q.split(".")
                b = b.lstrip("!")
                if b == "z":
                    continue
                if subs[x].count(b) == 1 and int(ns) != (orig[x] + subs[x].index(b)) % 65536:
                    return "side %s sent its submission #%d (%s) with Ns %s, expected %d: the peer can never accept it in order" % (
                        x, subs[x].index(b), b, ns, (orig[x] + subs[x].index(b)) % 65536)
                tx[x][b] = tx[x].get(b, 0) + 1
                if maxr[x] >= 1 and tx[x][b] > maxr[x]:
                    return "side %s transmitted message %s %d times, MaxRetries is %d" % (x, b, tx[x][b], maxr[x])
        if tok.startswith("T") and tok.split("/")[0].endswith("!"):
            if maxr[x] >= 1 and max(tx[x].values(), default=0) < maxr[x]:
                return "side %s declared the tunnel dead at op %s although no message had been transmitted MaxRetries=%d times" % (x, op, maxr[x])
            tx[x] = {}
        if op[0] == "w":
            wmax[x] = max(wmax[x], max(1, int(op.split(":")[1])))
        if "/" in tok:
            st = tok.rsplit("/", 1)[1].split(",")
            if len(st) >= 6 and int(st[5]) > max(wmax[x], 1):
                return "side %s has %s messages in flight, peer window never exceeded %d" % (x, st[5], wmax[x])
            if len(st) >= 6 and int(st[4]) > 0 and int(st[5]) == 0:
                return ("side %s after op %s: %s message(s) queued but none in flight (attempts = 0): nothing will ever "
                        "retransmit them or declare the tunnel dead" % (x, op, st[4]))
            if len(st) >= 7 and tok[:1] == "D" and tok[2:3] == "m" and st[6] == "z":
                return "side %s processed a data message at op %s but no acknowledgement (ZLB timer) is scheduled" % (x, op)
    for x in "AB":
        for i in lst(kv.get("ack" + x, "")):
            if int(i) < len(subs[x]) and subs[x][int(i)] not in ever[x]:
                return "side %s treats its message #%s (%s) as acknowledged although it was never transmitted" % (x, i, subs[x][int(i)])
    for x in "AB":
        if kv.get("dead" + x) == "0" and len(lst(kv.get("ack" + x, ""))) + lastq[x] != len(subs[x]):
            return "side %s: %d submissions, %d acknowledged, %d still queued, never dead: a message left the queue with neither an acknowledgement nor the dead callback" % (
                x, len(subs[x]), len(lst(kv.get("ack" + x, ""))), lastq[x])
    if any(op[0] == "j" for op in c["ops"]):
        return None
    sub = subs
    for snd, rcv in (("A", "B"), ("B", "A")):
        d = lst(kv.get("del" + rcv, ""))
        if d != sub[snd][:len(d)]:
            return "messages handed to %s's protocol machine %s are not a prefix of %s's submissions %s" % (rcv, d, snd, sub[snd])
        for i in lst(kv.get("ack" + snd, "")):
            if int(i) >= len(d):
                return "%s treats its message #%s (%s) as acknowledged but it was never handed to %s's protocol machine" % (
                    snd, i, sub[snd][int(i)] if int(i) < len(sub[snd]) else "?", rcv)
    return None


def monitor_full(case, line):
    """Every non-ZLB message for a registered tunnel must be acknowledged (first time and retransmitted)."""
    ops = case.split()[2:]
    toks = line.split()
    if len(toks) != len(ops) + 1:
        return None
    for i, (op, tok) in enumerate(zip(ops, toks)):
        if tok.endswith(":A0"):
            a = op.split(":")
            again = any(o.split(":")[:4] == a[:4] for o in ops[:i])
            return "%s message %s (tunnel 7, session %s, Ns %s) reached Dispatch for a registered tunnel but is never acknowledged: %s" % (
                "retransmitted" if again else "first-time", a[0], a[2], a[3],
                "no packet carries the current Nr and no ZLB is scheduled (the receive step was skipped)")
    return None


def monitor_disp(case, line):
    """Real Dispatch: exactly the in-order data messages reach the message switch, ZLBs never do."""
    ops = case.split()[2:]
    toks = line.split()
    if len(toks) != len(ops) + 1:
        return None
    expect = 0
    for op, tok in zip(ops, toks):
        a = op.split(":")
        if a[0] != "i":
            continue
        handed = tok.startswith("D1")
        if a[1] == "z":
            if handed:
                return "Dispatch handed a ZLB to the message switch (%s)" % op
            continue
        if handed and int(a[2]) != expect:
            return "Dispatch handed message Ns=%s to the protocol machine while Ns=%d was expected (duplicate or out of order)" % (a[2], expect)
        if not handed and int(a[2]) == expect and tok.startswith("D0"):
            # only a finding if the channel itself still expects this Ns (i.e. no ZLB moved Nr before)
            try:
                nr_after = int(tok.rsplit("/", 1)[1].split(",")[1])
            except (IndexError, ValueError):
                return None
            if nr_after == expect:
                return "Dispatch discarded the in-order message Ns=%d" % expect
            return None   # Nr had drifted: the ZLB-through-Recv signature, left to the variant comparison
        if handed:
            expect = (expect + 1) % 65536
    return None


def first_diff(a, b):
    ta, tb = a.split(), b.split()
    for i, (x, y) in enumerate(zip(ta, tb)):
        if x != y:
            return i, x, y
    if len(ta) != len(tb):
        return min(len(ta), len(tb)), "", ""
    return None


def classify(case, impl, model):
    if case.startswith("multi"):
        d = first_diff(impl, model)
        ops = case.split()[1:]
        where = ops[d[0] - 1] if d and 0 < d[0] <= len(ops) else "?"
        return "P", ("several control connections in one LNS: after %s the tunnels are %r but must be %r (peerIP/peerTunnelID/localID:Nr{sessions}) — "
                     "a message or SCCRQ was delivered to the wrong control connection, twice, or not at all" % (where, d and d[1], d and d[2]))
    if case.startswith("runner"):
        return "P", ("the tunnel runner violates its contract: a (re)transmission more than -120/+400 ms off its deadline, or an inbound "
                     "message not acknowledged by max(arrival + 500 ms, earliest pending retransmission deadline) + 400 ms "
                     "(any idle poll <= 500 ms and any ZLB deadline <= zlbDelay are admissible): observed %r, HEAD-policy replay %r" % (impl, model))
    m = monitor(case, impl)
    if m:
        return "P", m
    d = first_diff(impl, model)
    if case.startswith("seqless"):
        return "P", "seqLess differs from 16-bit serial-number comparison: impl=%s model=%s" % (impl, model)
    if impl.startswith("panic") or impl == "hang":
        return "P", "implementation %s" % impl
    where = ""
    if d and case.startswith("pair"):
        ops = parse_pair(case)["ops"]
        where = " at op #%d %s" % (d[0], ops[d[0]] if d[0] < len(ops) else "(final logs)")
    elif d:
        where = " at token #%d" % d[0]
    return "G", "observable differs from the model%s: impl=%r model=%r" % (where, d and d[1], d and d[2])


def signature(case, impl, models):
    # no finding is open: nothing can be explained away, every mismatch is a VIOLATION
    return "none"


def nontrivial(case, out):
    if case.startswith("seqless"):
        return True
    toks, kv = split_line(out)
    if case.startswith("disp"):
        return any(t.startswith("D1") for t in toks)
    if case.startswith("full"):
        return any(t.endswith(":A1") for t in toks)
    if case.startswith("runner"):
        return len(toks) > 2
    if case.startswith("multi"):
        return ";" in out
    if case.startswith("estab"):
        return any(x[0] == "r" for x in case.split()[2:])
    if case.startswith("e2e"):
        return len(case.split()) > 1
    if not kv:
        return False
    if not (kv.get("delA") or kv.get("delB")):
        return False
    ops = parse_pair(case)["ops"]
    return any(o[0] in "xu" or (o[0] == "d" and o.split(":")[1] != "0") for o in ops) or any(
        t.startswith("T") and "[" in t and not t.split("[")[1].startswith("]") for t in toks)


def shrink(case):
    t = case.split()
    if t[0] == "pair":
        head, ops = t[:13], t[13:]
    elif t[0] == "disp":
        head, ops = t[:2], t[2:]
    elif t[0] in ("e2e", "multi"):
        head, ops = t[:1], t[1:]
    elif t[0] in ("full", "runner", "estab"):
        head, ops = t[:2], t[2:]
    else:
        return
    n = len(ops)
    k = n // 2
    while k >= 1:
        for i in range(0, n, k):
            yield " ".join(head + ops[:i] + ops[i + k:])
        k //= 2
    if t[0] == "pair":
        for i in (1, 2):
            if t[i] != "0":
                yield " ".join(t[:i] + ["0"] + t[i + 1:])


def distribution(cases, impl):
    d = {"pair": 0, "disp": 0, "seqless": 0, "ops": {}, "handed": 0, "rejected_deliveries": 0, "retransmissions": 0,
         "zlbs_sent": 0, "dead": 0, "wrap_crossed": 0, "with_inject": 0, "origin_class": {"0": 0, "7fff": 0, "ffff": 0, "other": 0},
         "max_inflight": 0, "delivered_total": 0}
    for c, o in zip(cases, impl):
        k = c.split(" ", 1)[0]
        d[k] = d.get(k, 0) + 1
        if k == "e2e":
            for t in c.split()[1:]:
                d.setdefault("e2e_faults", {})
                if t[0] == "w":
                    continue
                name = {"x": "drop", "u": "duplicate", "l": "delay", "v": "duplicate+delay", "f": "write-error", "X": "link-cut(dead)"}.get(t[0], t[0])
                d["e2e_faults"][name] = d["e2e_faults"].get(name, 0) + 1
            if o and o.endswith("est=11"):
                d["e2e_established"] = d.get("e2e_established", 0) + 1
        if k == "estab":
            d["estab_late_copies"] = d.get("estab_late_copies", 0) + sum(1 for t in c.split()[2:] if t[0] == "r")
        if k != "pair" or o is None:
            continue
        p = parse_pair(c)
        for oc in (p["oa"], p["ob"]):
            cl = "0" if oc < 4 else "7fff" if 0x7ff0 <= oc <= 0x8010 else "ffff" if oc >= 0xfff0 else "other"
            d["origin_class"][cl] += 1
        toks, kv = split_line(o)
        d["with_inject"] += any(x[0] == "j" for x in p["ops"])
        seen_hi = seen_lo_after = False
        for op, tok in zip(p["ops"], toks):
            d["ops"][op[0]] = d["ops"].get(op[0], 0) + 1
            if tok.startswith("D1"):
                d["handed"] += 1
            elif tok.startswith("D0"):
                d["rejected_deliveries"] += 1
            if "[" in tok and not tok.startswith("T"):
                for q in [x for x in tok.split("[", 1)[1].split("]")[0].split(",") if x]:
                    if q.startswith("!"):
                        cls = "failed_write_send" if tok.startswith("S") else "failed_write_ackpath"
                        d[cls] = d.get(cls, 0) + 1
            if tok.startswith("T"):
                inner = tok.split("[", 1)[1].split("]")[0]
                for q in [x for x in inner.split(",") if x]:
                    if q.startswith("!"):
                        cls = "failed_write_tick_zlb" if q.startswith("!z.") else "failed_write_tick_retransmit"
                        d[cls] = d.get(cls, 0) + 1
                    if q.lstrip("!").startswith("z."):
                        d["zlbs_sent"] += 1
                    else:
                        d["retransmissions"] += 1
                if tok.split("/")[0].endswith("!"):
                    d["dead"] += 1
            if "/" in tok:
                st = tok.rsplit("/", 1)[1].split(",")
                ns = int(st[0])
                d["max_inflight"] = max(d["max_inflight"], int(st[5]))
                if int(st[5]) >= 16 and int(st[4]) > int(st[5]):
                    d["window16_full_and_queued"] = d.get("window16_full_and_queued", 0) + 1
                if ns >= 0xfff0:
                    seen_hi = True
                if seen_hi and ns < 16:
                    seen_lo_after = True
        d["wrap_crossed"] += seen_lo_after
        d["delivered_total"] += len(lst(kv.get("delA", ""))) + len(lst(kv.get("delB", "")))
    return d
