(* C03/Model.v — executable gate automata, definitions only.

   Part 1 (PPPoE): transcribes, per session,
     pkg/ppp/fsm.go                    the RFC 1661 automaton as coded (Up/Down/Open/Close/Kill/Timeout/Input)
     internal/ppp/dispatcher.go        HandleFrame, handleLCP, inNetworkPhase
     internal/pppoe/session.go         up, handlePAPPacket, handleCHAPPacket, publishAAARequest, onLCPUp,
                                       onLCPDown, startAuth, handleCHAPTimeout, onAuthResult, onAuthSuccess,
                                       startNCP (address decisions symbolically), onIPCPUp/Down, onIPv6CPUp/Down,
                                       checkOpen, onVPPSessionCreated (success), handleProtocolReject, terminate
     internal/pppoe/component.go       handlePADR (session creation), handlePADT, handleDeadPeer,
                                       handleAAAResponse (request-id correlation)
   Part 2 (IPoE): the approved / in-flight / created / closing flags of
     internal/ipoe/dhcpv4.go handleDiscover, handleRequest; dhcpv6.go handleDHCPv6Solicit, handleDHCPv6Request;
     setup.go handleAAAResponse, setupSession/onSessionCreated.
   Part 3: the RADIUS provider's decision (plugins/auth/radius/provider.go Authenticate) and the AAA
     component's publishResponse mapping (internal/aaa/component.go handleAAARequest) as a pure function.

   [rep : bool] selects the variant: true = repaired (the behaviour the theorems are proved for; equals the
   /repo HEAD: fixes 8b06a36, 99f4417, c6c869c, 671f51c; PPPoE [mkV true rfc] also e9950ea, 0709f1b), false = the code before those fixes (historical, only [_refuted] witnesses). *)
From OV Require Import Common.Base.

(* ------------------------------------------------------------------ *)
(* pkg/ppp/fsm.go *)
Inductive fstate := Initial | Starting | Closed | Stopped | Closing | Stopping | ReqSent | AckRcvd | AckSent | Opened.
Definition fstate_num (s : fstate) : nat :=
  match s with Initial => 0 | Starting => 1 | Closed => 2 | Stopped => 3 | Closing => 4 | Stopping => 5
             | ReqSent => 6 | AckRcvd => 7 | AckSent => 8 | Opened => 9 end.
Record fsm := mkF { fs : fstate; frc : nat (* restartCount *) }.
Definition fsm0 := mkF Initial 0.
Definition max_conf := 10.
Definition max_term := 2.

(* codes *)
Definition cConfReq := 1. Definition cConfAck := 2. Definition cConfNak := 3. Definition cConfRej := 4.
Definition cTermReq := 5. Definition cTermAck := 6. Definition cCodeRej := 7. Definition cProtoRej := 8.
Definition cEchoRep := 10.

Inductive act := Send (code : nat) | Tlu | Tld | Tlf | Tls.
Inductive quality := QGood | QNak | QRej.

Definition fsm_up (f : fsm) : fsm * list act :=
  match fs f with
  | Initial => (mkF Closed (frc f), [])
  | Starting => (mkF ReqSent max_conf, [Send cConfReq])
  | _ => (f, [])
  end.
Definition fsm_down (f : fsm) : fsm * list act :=
  match fs f with
  | Closed | Closing => (mkF Initial (frc f), [])
  | Stopped => (mkF Starting (frc f), [Tls])
  | Stopping | ReqSent | AckRcvd | AckSent => (mkF Starting (frc f), [])
  | Opened => (mkF Starting (frc f), [Tld])
  | _ => (f, [])
  end.
(* [rfc]: the eleven cells of the RFC 1661 4.1 table in which fsm.go departs from the RFC (fixes/C05_*.patch
   repairs them).  The gate property does not depend on them; the harness reports which table the code has. *)
Definition fsm_open (rfc : bool) (f : fsm) : fsm * list act :=
  match fs f with
  | Initial => (mkF Starting (frc f), [Tls])
  | Closed => (mkF ReqSent max_conf, [Send cConfReq])
  | Closing => if rfc then (mkF Stopping (frc f), []) else (f, [])
  | _ => (f, [])
  end.
Definition fsm_close (f : fsm) : fsm * list act :=
  match fs f with
  | Starting => (mkF Initial (frc f), [Tlf])
  | Stopped => (mkF Closed (frc f), [])
  | Stopping => (mkF Closing (frc f), [])
  | Opened => (mkF Closing max_term, [Tld; Send cTermReq])
  | ReqSent | AckRcvd | AckSent => (mkF Closing max_term, [Send cTermReq])
  | _ => (f, [])
  end.
Definition fsm_kill (f : fsm) : fsm := mkF Closed (frc f).
Definition fsm_timeout (f : fsm) : fsm * list act :=
  match frc f with
  | S n =>
    match fs f with
    | Closing | Stopping => (mkF (fs f) n, [Send cTermReq])
    | ReqSent | AckSent => (mkF (fs f) n, [Send cConfReq])
    | AckRcvd => (mkF ReqSent n, [Send cConfReq])
    | _ => (mkF (fs f) n, [])
    end
  | O =>
    match fs f with
    | Closing => (mkF Closed 0, [Tlf])
    | Stopping => (mkF Stopped 0, [Tlf])
    | ReqSent | AckRcvd | AckSent => (mkF Stopped 0, [Tlf])
    | _ => (f, [])
    end
  end.
(* reply to a Configure-Request of the given quality: sca / scj / scn and the state it leads to *)
Definition rcr_reply (q : quality) (good_to other_to : fstate) : fstate * list act :=
  match q with
  | QGood => (good_to, [Send cConfAck])
  | QRej => (other_to, [Send cConfRej])
  | QNak => (other_to, [Send cConfNak])
  end.
Definition fsm_rcr (q : quality) (f : fsm) : fsm * list act :=
  match fs f with
  | Closed => (f, [Send cTermAck])
  | Stopped => let '(s, a) := rcr_reply q AckSent ReqSent in (mkF s max_conf, Send cConfReq :: a)
  | ReqSent => let '(s, a) := rcr_reply q AckSent ReqSent in (mkF s (frc f), a)
  | AckRcvd =>
    match q with
    | QGood => (mkF Opened (frc f), [Send cConfAck; Tlu])
    | QRej => (f, [Send cConfRej])
    | QNak => (f, [Send cConfNak])
    end
  | AckSent => let '(s, a) := rcr_reply q AckSent ReqSent in (mkF s (frc f), a)
  | Opened => let '(s, a) := rcr_reply q AckSent ReqSent in (mkF s (frc f), Tld :: Send cConfReq :: a)
  | _ => (f, [])
  end.
Definition fsm_rca (rfc : bool) (f : fsm) : fsm * list act :=
  match fs f with
  | Closed | Stopped => (f, [Send cTermAck])
  | ReqSent => (mkF AckRcvd max_conf, [])
  | AckRcvd => (mkF ReqSent (frc f), [Send cConfReq])
  | AckSent => (mkF Opened (if rfc then max_conf else frc f), [Tlu])
  | Opened => (mkF ReqSent (frc f), [Tld; Send cConfReq])
  | _ => (f, [])
  end.
Definition fsm_rcn (rfc : bool) (f : fsm) : fsm * list act :=
  match fs f with
  | Closed | Stopped => (f, [Send cTermAck])
  | ReqSent => (mkF ReqSent max_conf, [Send cConfReq])
  | AckRcvd => (mkF ReqSent (frc f), [Send cConfReq])
  | AckSent => (mkF (if rfc then AckSent else ReqSent) max_conf, [Send cConfReq])
  | Opened => (mkF ReqSent (frc f), [Tld; Send cConfReq])
  | _ => (f, [])
  end.
Definition fsm_rtr (rfc : bool) (f : fsm) : fsm * list act :=
  match fs f with
  | Closed | Stopped | Closing | Stopping => (f, [Send cTermAck])
  | ReqSent | AckRcvd | AckSent => (if rfc then mkF ReqSent (frc f) else f, [Send cTermAck])
  | Opened => (mkF Stopping 0, [Tld; Send cTermAck])
  | _ => (f, [])
  end.
Definition fsm_rta (rfc : bool) (f : fsm) : fsm * list act :=
  match fs f with
  | Closing => (mkF Closed (frc f), [Tlf])
  | Stopping => (mkF Stopped (frc f), [Tlf])
  | AckSent => if rfc then (f, []) else (mkF ReqSent (frc f), [])
  | AckRcvd => if rfc then (mkF ReqSent (frc f), []) else (f, [])
  | Opened => (mkF ReqSent (frc f), [Tld; Send cConfReq])
  | _ => (f, [])
  end.
Definition fsm_rxj (rfc : bool) (f : fsm) : fsm * list act :=
  match fs f with
  | Closed | Stopped => if rfc then (f, [Tlf]) else (f, [])
  | Closing => if rfc then (mkF Closed (frc f), [Tlf]) else (f, [])
  | Stopping => if rfc then (mkF Stopped (frc f), [Tlf]) else (f, [])
  | ReqSent | AckRcvd | AckSent => (mkF Stopped (frc f), [Tlf])
  | Opened => (mkF Stopping max_term, [Tld; Send cTermReq])
  | _ => (f, [])
  end.

(* client control frames as the harness builds them (FSM.Input) *)
Inductive cframe :=
| FCreq (q : quality) | FCreqBad                 (* Configure-Request; FCreqBad: options do not parse *)
| FCack (idok : bool) | FCnak (idok : bool) | FCrej (idok : bool)
| FTreq | FTack | FCdrej | FUnk.                 (* Terminate-Request/Ack, Code-Reject, unknown code *)
Definition fsm_input (rfc : bool) (c : cframe) (f : fsm) : fsm * list act :=
  match c with
  | FCreq q => fsm_rcr q f
  | FCreqBad => (f, [])
  | FCack true => fsm_rca rfc f
  | FCnak true | FCrej true => fsm_rcn rfc f
  | FCack false | FCnak false | FCrej false => (f, [])
  | FTreq => fsm_rtr rfc f
  | FTack => fsm_rta rfc f
  | FCdrej => fsm_rxj rfc f
  | FUnk => (f, [Send cCodeRej])
  end.

(* variant: [vrep] session logic of /repo HEAD (true) or of the code before the C03 fixes (false); [vrfc] FSM table flavour *)
Record vr := mkVr { vrep : bool; vrfc : bool;
                     vtd : bool;  (* the session is torn down when LCP leaves Opened on an authenticated link
                                     (e9950ea); false = the code before it *)
                     vhl : bool   (* an AAA answer that was matched to a session before that session was torn down is
                                     dropped when it gets the session lock (0709f1b); false = the code before it *);
                     vsf : bool   (* a dataplane failure report for a session that has already been through terminate() is
                                     ignored (7b3d79c); false = the code before it *);
                     vnm : bool   (* the local DHCPv6 provider keeps the pool name of a lease it re-reserves for the same
                                     session and address (277708f); false = the code before it *) }.
(* the code before 277708f, everything else fixed: only in historical [_refuted] examples *)
Definition pre_277708f (rfc : bool) : vr := mkVr true rfc true true true false.
Definition mkV5 (rep rfc td hl sf : bool) : vr := mkVr rep rfc td hl sf true.
(* the code before 7b3d79c, everything else fixed: only in historical [_refuted] examples *)
Definition pre_7b3d79c (rfc : bool) : vr := mkV5 true rfc true true false.
Definition mkV4 (rep rfc td hl : bool) : vr := mkV5 rep rfc td hl true.
Definition mkV3 (rep rfc td : bool) : vr := mkV4 rep rfc td td.
Definition mkV (rep rfc : bool) : vr := mkV3 rep rfc true.

(* ------------------------------------------------------------------ *)
(* PPPoE session *)
Inductive phase := PDead | PEstablish | PAuth | PNetwork | POpen | PTerminate.
Definition in_net (p : phase) : bool := match p with PNetwork | POpen => true | _ => false end.
Inductive ptype := PtNone | PtPap | PtChap.
Inductive addr := ANone | APool | AStatic | AFallback.
Definition addr_eqb (a b : addr) : bool :=
  match a, b with ANone, ANone | APool, APool | AStatic, AStatic | AFallback, AFallback => true | _, _ => false end.

(* IPv6 leases of one session.  Addresses (prefixes) this session has taken from the registry pool are numbered
   0,1,.. in the order taken; none goes back before terminate.  Three places refer to them:
     s.IPv6Address / s.IPv6Prefix        (xs)  -- what terminate releases
     s.AllocCtx.IPv6Address / IPv6Prefix (xc)  -- what dhcp.ResolveV6 reuses; a NEW AllocCtx is built at every accept
     the local DHCPv6 provider's lease for the client DUID (xl), with "PoolName != """ (ReleaseLease releases only then) *)
Record fam6 := mkF6 { xs : option nat; xc : option nat; xl : option (nat * bool); xn : nat }.
Definition fam0 : fam6 := mkF6 None None None 0.
Record v6st := mkV6 { na : fam6; pd : fam6 }.
Definition v60 : v6st := mkV6 fam0 fam0.
Definition onat_eqb (a b : option nat) : bool :=
  match a, b with Some x, Some y => Nat.eqb x y | None, None => true | _, _ => false end.
(* what terminate + cleanupSession give back: s.IPv6Address and, if it is another one, the address of a provider lease
   that still knows its pool *)
Definition released (f : fam6) : nat :=
  match xs f, xl f with
  | Some a, Some (b, true) => if Nat.eqb a b then 1 else 2
  | Some _, _ => 1
  | None, Some (_, true) => 1
  | None, _ => 0
  end.

Record sess := mkS {
  live : bool;          (* present in the component's indexes *)
  gen : nat;            (* incarnation number of this subscriber slot (a new PADR makes a new SessionState) *)
  ph : phase;
  lcp : fsm; ipcp : fsm; ip6cp : fsm;
  auth_chap : bool;     (* lcp.local.AuthProto == CHAP *)
  chap_retry : nat;
  pend : option nat;    (* pendingAuthRequestID, as the ordinal of the published AAA request *)
  pty : ptype;          (* pendingAuthType *)
  ipcp_open : bool; ip6cp_open : bool;
  static_attr : bool;   (* s.Attributes holds an AAA ipv4_address *)
  cur4 : addr;          (* s.IPv4Address *)
  assigned4 : addr;     (* ipcp.peer.PeerAddress *)
  acked4 : addr;        (* ipcp.peer.Address: what the client's last parsable Configure-Request carried *)
  alloc_pool : bool;    (* s.allocatedPool != "": a pool address is leased to this session *)
  v6 : v6st             (* IPv6 leases of the IPv6 profile: IA_NA addresses and delegated prefixes *)
}.
Definition sess0 : sess :=
  mkS false 0 PDead fsm0 fsm0 fsm0 true 0 None PtNone false false false ANone ANone ANone false v60.

Inductive out :=
| OPads | OLcp (c : nat) | OPap (c : nat) | OChap (c : nat) | OIpcp (c : nat) | OIp6cp (c : nat)
| ORa | ONa | OReq (k : nat) | OLifeA | OLifeR | OSbAdd | OSbDel | OProg
| ODh6Adv | ODh6Reply | OSb6Add      (* DHCPv6 over PPP: ADVERTISE, REPLY with an address, dataplane IPv6 binding *)
| OSb6Del | OSbPdAdd | OSbPdDel       (* bindDHCPv6: old IPv6 binding removed; delegated-prefix route added / removed *)
(* ghost markers, not visible to the harness *)
| GAlloc | GLcpDown | GLcpUp.

(* what the property calls service *)
Definition service (o : out) : bool :=
  match o with
  | OIpcp _ | OIp6cp _ | ORa | ONa | OLifeA | OSbAdd | GAlloc | ODh6Adv | ODh6Reply | OSb6Add | OSbPdAdd => true
  | _ => false
  end.

(* the machine threaded through one session's handlers *)
Record mach := mkM { ms : sess; mn : nat (* AAA requests published so far *); mfree : nat (* free pool addresses *);
                     mq : list (nat * nat) (* queued southbound adds: slot, gen *); mo : list out (* reversed *);
                     mfree6 : nat * nat (* free IA_NA addresses, free delegated prefixes *) }.
Definition emit (o : out) (m : mach) : mach := mkM (ms m) (mn m) (mfree m) (mq m) (o :: mo m) (mfree6 m).
Definition upd (f : sess -> sess) (m : mach) : mach := mkM (f (ms m)) (mn m) (mfree m) (mq m) (mo m) (mfree6 m).

Definition set_ph p s := mkS (live s) (gen s) p (lcp s) (ipcp s) (ip6cp s) (auth_chap s) (chap_retry s) (pend s) (pty s)
  (ipcp_open s) (ip6cp_open s) (static_attr s) (cur4 s) (assigned4 s) (acked4 s) (alloc_pool s) (v6 s).
Definition set_lcp f s := mkS (live s) (gen s) (ph s) f (ipcp s) (ip6cp s) (auth_chap s) (chap_retry s) (pend s) (pty s)
  (ipcp_open s) (ip6cp_open s) (static_attr s) (cur4 s) (assigned4 s) (acked4 s) (alloc_pool s) (v6 s).
Definition set_ipcp f s := mkS (live s) (gen s) (ph s) (lcp s) f (ip6cp s) (auth_chap s) (chap_retry s) (pend s) (pty s)
  (ipcp_open s) (ip6cp_open s) (static_attr s) (cur4 s) (assigned4 s) (acked4 s) (alloc_pool s) (v6 s).
Definition set_ip6cp f s := mkS (live s) (gen s) (ph s) (lcp s) (ipcp s) f (auth_chap s) (chap_retry s) (pend s) (pty s)
  (ipcp_open s) (ip6cp_open s) (static_attr s) (cur4 s) (assigned4 s) (acked4 s) (alloc_pool s) (v6 s).
Definition set_auth_chap b s := mkS (live s) (gen s) (ph s) (lcp s) (ipcp s) (ip6cp s) b (chap_retry s) (pend s) (pty s)
  (ipcp_open s) (ip6cp_open s) (static_attr s) (cur4 s) (assigned4 s) (acked4 s) (alloc_pool s) (v6 s).
Definition set_retry n s := mkS (live s) (gen s) (ph s) (lcp s) (ipcp s) (ip6cp s) (auth_chap s) n (pend s) (pty s)
  (ipcp_open s) (ip6cp_open s) (static_attr s) (cur4 s) (assigned4 s) (acked4 s) (alloc_pool s) (v6 s).
Definition set_pend p t s := mkS (live s) (gen s) (ph s) (lcp s) (ipcp s) (ip6cp s) (auth_chap s) (chap_retry s) p t
  (ipcp_open s) (ip6cp_open s) (static_attr s) (cur4 s) (assigned4 s) (acked4 s) (alloc_pool s) (v6 s).
Definition set_ipcp_open b s := mkS (live s) (gen s) (ph s) (lcp s) (ipcp s) (ip6cp s) (auth_chap s) (chap_retry s) (pend s) (pty s)
  b (ip6cp_open s) (static_attr s) (cur4 s) (assigned4 s) (acked4 s) (alloc_pool s) (v6 s).
Definition set_ip6cp_open b s := mkS (live s) (gen s) (ph s) (lcp s) (ipcp s) (ip6cp s) (auth_chap s) (chap_retry s) (pend s) (pty s)
  (ipcp_open s) b (static_attr s) (cur4 s) (assigned4 s) (acked4 s) (alloc_pool s) (v6 s).
Definition set_addr st c a k al s := mkS (live s) (gen s) (ph s) (lcp s) (ipcp s) (ip6cp s) (auth_chap s) (chap_retry s) (pend s) (pty s)
  (ipcp_open s) (ip6cp_open s) st c a k al (v6 s).
Definition set_v6 b s := mkS (live s) (gen s) (ph s) (lcp s) (ipcp s) (ip6cp s) (auth_chap s) (chap_retry s) (pend s) (pty s)
  (ipcp_open s) (ip6cp_open s) (static_attr s) (cur4 s) (assigned4 s) (acked4 s) (alloc_pool s) b.
Definition set_live b s := mkS b (gen s) (ph s) (lcp s) (ipcp s) (ip6cp s) (auth_chap s) (chap_retry s) (pend s) (pty s)
  (ipcp_open s) (ip6cp_open s) (static_attr s) (cur4 s) (assigned4 s) (acked4 s) (alloc_pool s) (v6 s).

(* ---- IPv6 leases ---- *)
Definition pool_of (pdf : bool) (p : nat * nat) : nat := if pdf then snd p else fst p.
Definition pool_set (pdf : bool) (n : nat) (p : nat * nat) : nat * nat := if pdf then (fst p, n) else (n, snd p).
Definition fam_of (pdf : bool) (x : v6st) : fam6 := if pdf then pd x else na x.
Definition fam_set (pdf : bool) (f : fam6) (x : v6st) : v6st := if pdf then mkV6 (na x) f else mkV6 f (pd x).
Definition on_fam (pdf : bool) (g : fam6 -> fam6) (s : sess) : sess := set_v6 (fam_set pdf (g (fam_of pdf (v6 s))) (v6 s)) s.
(* registry.AllocateIANAFromProfile / AllocatePDFromProfile for this session: the next address of the pool, whatever the
   session holds already (PoolAllocator.Allocate does not look at the owner) *)
Definition alloc6 (pdf : bool) (m : mach) : option (nat * mach) :=
  match pool_of pdf (mfree6 m) with
  | O => None
  | S n =>
    let k := xn (fam_of pdf (v6 (ms m))) in
    Some (k, emit GAlloc (mkM (on_fam pdf (fun f => mkF6 (xs f) (xc f) (xl f) (S k)) (ms m)) (mn m) (mfree m) (mq m) (mo m)
                              (pool_set pdf n (mfree6 m))))
  end.
(* dhcp.ResolveV6, one family: reuse what the AllocCtx has, else take one from the pool; the pool NAME is reported
   only by the call that takes it *)
Definition resolve6 (pdf : bool) (m : mach) : mach * bool :=
  match xc (fam_of pdf (v6 (ms m))) with
  | Some _ => (m, false)
  | None =>
    match alloc6 pdf m with
    | Some (k, m2) => (upd (on_fam pdf (fun f => mkF6 (xs f) (Some k) (xl f) (xn f))) m2, true)
    | None => (m, false)
    end
  end.
(* plugins/dhcp6/local reserveIANA / reservePD with the resolved value *)
Definition reserve6 (keep pdf named : bool) (s : sess) : sess :=
  on_fam pdf (fun f => match xc f with
                       | Some a =>
                         (* [keep]: a lease of the same address that knows its pool keeps knowing it *)
                         let nm := named || (keep && match xl f with Some (b, true) => Nat.eqb a b | _ => false end) in
                         mkF6 (xs f) (xc f) (Some (a, nm)) (xn f)
                       | None => f end) s.
Definition reserved6 (pdf : bool) (s : sess) : bool :=
  let f := fam_of pdf (v6 s) in
  match xc f, xl f with Some _, None => false | _, _ => true end.
(* pppoe/dhcpv6.go forwardDHCPv6 for a client message that asks for IA_NA and IA_PD ([req]: REQUEST, else SOLICIT),
   with the local provider; bindDHCPv6 after a REPLY.  When neither an address nor a prefix can be resolved
   (resolved == nil) the message is not answered and nothing changes (e76425b; before it the local provider answered
   from its own view of the pools, outside the registry). *)
Definition dh6 (keep req : bool) (m : mach) : mach :=
  let '(m1, n_na) := resolve6 false m in
  let '(m2, n_pd) := resolve6 true m1 in
  let s := ms m2 in
  match xc (na (v6 s)), xc (pd (v6 s)) with
  | None, None => m2
  | _, _ =>
    if req then
      let s1 := reserve6 keep true n_pd (reserve6 keep false n_na s) in
      let old_na := xs (na (v6 s1)) in let new_na := xc (na (v6 s1)) in
      let old_pd := xs (pd (v6 s1)) in let new_pd := xc (pd (v6 s1)) in
      let s2 := on_fam true (fun f => mkF6 (xc f) (xc f) (xl f) (xn f))
                (on_fam false (fun f => mkF6 (xc f) (xc f) (xl f) (xn f)) s1) in
      let m3 := emit ODh6Reply (upd (fun _ => s2) m2) in
      let m4 := match old_na with Some _ => if onat_eqb old_na new_na then m3 else emit OSb6Del m3 | None => m3 end in
      let m5 := match new_na with Some _ => emit OSb6Add m4 | None => m4 end in
      let m6 := match old_pd with Some _ => if onat_eqb old_pd new_pd then m5 else emit OSbPdDel m5 | None => m5 end in
      match new_pd with Some _ => emit OSbPdAdd m6 | None => m6 end
    else
      let s1 := if reserved6 false s && reserved6 true s then s
                else reserve6 keep true n_pd (reserve6 keep false n_na s) in
      emit ODh6Adv (upd (fun _ => s1) m2)
  end.

Inductive ncp := Ipcp | Ip6cp.
Definition ncp_out (n : ncp) (c : nat) : out := match n with Ipcp => OIpcp c | Ip6cp => OIp6cp c end.
Definition get_ncp (n : ncp) (s : sess) : fsm := match n with Ipcp => ipcp s | Ip6cp => ip6cp s end.
Definition set_ncp (n : ncp) (f : fsm) (s : sess) : sess := match n with Ipcp => set_ipcp f s | Ip6cp => set_ip6cp f s end.

(* session.go checkOpen (slot i is needed for the southbound queue) *)
Definition check_open (i : nat) (m : mach) : mach :=
  let s := ms m in
  match ph s with
  | PNetwork =>
    if ipcp_open s || ip6cp_open s then
      let m1 := emit OLifeA (upd (set_ph POpen) m) in
      match cur4 s with
      | ANone => m1                                   (* setupSession: no IPv4 address, nothing queued *)
      | _ => let m2 := emit OSbAdd m1 in mkM (ms m2) (mn m2) (mfree m2) (mq m2 ++ [(i, gen s)]) (mo m2) (mfree6 m2)
      end
    else m
  | _ => m
  end.

(* NCP callbacks and action interpretation *)
Definition ncp_act (i : nat) (n : ncp) (a : act) (m : mach) : mach :=
  match a with
  | Send c => emit (ncp_out n c) m
  | Tlu =>
    match n with
    | Ipcp => check_open i (upd (fun s => set_ipcp_open true
                (set_addr (static_attr s) (match acked4 s with ANone => cur4 s | a => a end)
                          (assigned4 s) (acked4 s) (alloc_pool s) s)) m)                               (* onIPCPUp *)
    | Ip6cp => check_open i (upd (set_ip6cp_open true) m)                                             (* onIPv6CPUp *)
    end
  | Tld => match n with Ipcp => upd (set_ipcp_open false) m | Ip6cp => upd (set_ip6cp_open false) m end
  | Tlf | Tls => m
  end.
Definition ncp_apply (i : nat) (n : ncp) (g : fsm -> fsm * list act) (m : mach) : mach :=
  let '(f', acts) := g (get_ncp n (ms m)) in
  fold_left (fun m a => ncp_act i n a m) acts (upd (set_ncp n f') m).

(* session.go startNCP, in three parts *)
(* allocateFromPool / ReserveIP *)
Definition start_v4 (m : mach) : mach :=
  let s := ms m in
  match cur4 s with
  | ANone =>
    match mfree m with
    | S fr => emit GAlloc (mkM (set_addr (static_attr s) APool (assigned4 s) (acked4 s) true s) (mn m) fr (mq m) (mo m) (mfree6 m))
    | O => m
    end
  | APool =>
    (* ReserveIP of the address the session holds: no effect.  For a session that has been through terminate() (a held
       answer before 0709f1b, [vhl] = false) the address went back to the pool and is reserved again *)
    if live s then m else
    match mfree m with
    | S fr => emit GAlloc (mkM s (mn m) fr (mq m) (mo m) (mfree6 m))
    | O => m
    end
  | _ => m        (* ReserveIP of an address outside every pool: no effect *)
  end.
Definition rereserve6 (pdf : bool) (m : mach) : mach :=
  match pool_of pdf (mfree6 m) with
  | S n => emit GAlloc (mkM (ms m) (mn m) (mfree m) (mq m) (mo m) (pool_set pdf n (mfree6 m)))
  | O => m
  end.
(* allocateIANAFromPool: an IA_NA address of the IPv6 profile is taken at the accept unless the session has one *)
Definition start_na (m : mach) : mach :=
  match xs (na (v6 (ms m))) with
  | Some _ =>
    (* ReserveIANA of the address the session already has: no effect; AllocCtx is NOT updated.  After terminate()
       (held answer, as above) it is taken from the pool again *)
    if live (ms m) then m else rereserve6 false m
  | None =>
    match alloc6 false m with
    | Some (k, m2) => upd (on_fam false (fun f => mkF6 (Some k) (Some k) (xl f) (xn f))) m2
    | None => m
    end
  end.
(* ReservePD of s.IPv6Prefix (set by a DHCPv6 REPLY): no effect, except after terminate() as above *)
Definition start_pd (m : mach) : mach :=
  match xs (pd (v6 (ms m))) with
  | Some _ => if live (ms m) then m else rereserve6 true m
  | None => m
  end.
(* no constant fall-back address any more (24c9504): without a usable IPv4 address IPCP is not started and
   IPv4Address stays nil; IPv6CP is started in any case *)
Definition start_ncps (v : vr) (i : nat) (m1 : mach) : mach :=
  let m4 :=
    match cur4 (ms m1) with
    | ANone => m1
    | _ =>
      let m3 := upd (fun s => set_addr (static_attr s) (cur4 s) (cur4 s) (acked4 s) (alloc_pool s) s) m1 in  (* SetPeerAddress *)
      ncp_apply i Ipcp (fsm_open (vrfc v)) (ncp_apply i Ipcp fsm_up m3)
    end in
  ncp_apply i Ip6cp (fsm_open (vrfc v)) (ncp_apply i Ip6cp fsm_up m4).
Definition start_ncp (v : vr) (i : nat) (m : mach) : mach := start_ncps v i (start_pd (start_na (start_v4 m))).

(* session.go onLCPUp / onLCPDown *)
Definition on_lcp_up (m : mach) : mach :=
  let m1 := emit GLcpUp (upd (set_ph PAuth) m) in
  if auth_chap (ms m1) then emit (OChap 1) (upd (set_retry 0) m1) else m1.
Definition on_lcp_down (v : vr) (i : nat) (m : mach) : mach :=
  let m1 :=
    if vrep v then
      ncp_apply i Ip6cp fsm_down (ncp_apply i Ipcp fsm_down (upd (set_pend None PtNone) m))
    else m in
  emit GLcpDown (upd (set_ph PEstablish) m1).
Definition lcp_act (v : vr) (i : nat) (a : act) (m : mach) : mach :=
  match a with
  | Send c => emit (OLcp c) m
  | Tlu => on_lcp_up m
  | Tld => on_lcp_down v i m
  | Tlf | Tls => m
  end.
Definition lcp_apply (v : vr) (i : nat) (g : fsm -> fsm * list act) (m : mach) : mach :=
  let '(f', acts) := g (lcp (ms m)) in
  fold_left (fun m a => lcp_act v i a m) acts (upd (set_lcp f') m).

(* session.go publishAAARequest *)
Definition publish_aaa (t : ptype) (m : mach) : mach :=
  let k := S (mn m) in
  emit (OReq k) (mkM (set_pend (Some k) t (ms m)) k (mfree m) (mq m) (mo m) (mfree6 m)).

(* s.AllocCtx = s.buildAllocContext(attributes): a NEW context, which knows no IPv6 address or prefix *)
Definition new_ctx (m : mach) : mach :=
  upd (on_fam true (fun f => mkF6 (xs f) None (xl f) (xn f))) (upd (on_fam false (fun f => mkF6 (xs f) None (xl f) (xn f))) m).

(* session.go onAuthResult *)
Definition on_auth_result (v : vr) (i : nat) (allowed : bool) (static : bool) (m : mach) : mach :=
  let m' :=
    if allowed then
      let m1 := upd (fun s => let st := static_attr s || static in
                              set_addr st (if st then AStatic else cur4 s) (assigned4 s) (acked4 s) (alloc_pool s) s) m in
      let m1 := new_ctx m1 in
      let m2 := match pty (ms m1) with PtPap => emit (OPap 2) m1 | PtChap => emit (OChap 3) m1 | PtNone => m1 end in
      start_ncp v i (upd (set_ph PNetwork) m2)
    else
      let m1 := match pty (ms m) with PtPap => emit (OPap 3) m | PtChap => emit (OChap 4) m | PtNone => m end in
      lcp_apply v i fsm_close m1 in
  upd (set_pend None PtNone) m'.

(* session.go terminate *)
Definition terminate (m : mach) : mach :=
  let s := ms m in
  let fr := if alloc_pool s && addr_eqb (cur4 s) APool then S (mfree m) else mfree m in
  let s1 := if in_net (ph s) then set_ip6cp (fsm_kill (ip6cp s)) (set_ipcp (fsm_kill (ipcp s)) s) else s in
  let s2 := set_ph PTerminate (set_lcp (fsm_kill (lcp s1)) s1) in
  (* ReleaseIANA / ReleasePDByPrefix of s.IPv6Address / s.IPv6Prefix; cleanupSession: provider.ReleaseLease(DUID) *)
  let fr6 := (fst (mfree6 m) + released (na (v6 s)), snd (mfree6 m) + released (pd (v6 s))) in
  emit OLifeR (emit OSbDel (mkM s2 (mn m) fr (mq m) (mo m) fr6)).

(* ------------------------------------------------------------------ *)
(* events *)
Inductive lcpx :=      (* LCP codes the dispatcher or the LCP option handler treats specially *)
| XEchoReq | XEchoRep | XDiscReq | XPrejIpcp | XPrejIp6cp | XPrejOther | XCrejAuth | XCnakPap | XCnakChap.
Inductive frame :=
| FrLcp (c : cframe) | FrLcpX (x : lcpx)
| FrIpcp (c : cframe) | FrIp6cp (c : cframe)
| FrPapReq | FrPapBad | FrPapOther | FrChapResp | FrChapBad | FrChapOther
| FrRs | FrNs | FrIp6Junk | FrUnkProto | FrShort
| FrDh6Sol | FrDh6Req.     (* DHCPv6 SOLICIT / REQUEST (RENEW) carried in PPP 0x0057, UDP 547 *)
Inductive timer := TLcp | TIpcp | TIp6cp | TChap.
Inductive akind := AAcc | AAccIp | ARej | AErr.
Definition allowed_of (a : akind) : bool := match a with AAcc | AAccIp => true | _ => false end.
Inductive event :=
| EvOpen (i : nat) | EvFrame (i : nat) (f : frame) | EvAAA (k : nat) (a : akind)
| EvTimer (i : nat) (t : timer) | EvPadt (i : nat) | EvDead (i : nat) | EvSbOk
(* an AAA answer for request k that handleAAAResponse matched to slot i's session (by the pending id, under the
   component lock) BEFORE the previous event was handled, and that only now gets the session lock: it re-checks the
   pending id there — and, with [vhl], that the session has not been through terminate() *)
| EvAAAHeld (i k : nat) (a : akind)
(* the dataplane reports that the oldest queued session add FAILED (onVPPSessionCreated with an error) *)
| EvSbFail.

(* dispatcher.HandleFrame + the session's handlers, for a live session *)
Definition handle_frame (v : vr) (i : nat) (f : frame) (m : mach) : mach :=
  let s := ms m in
  match f with
  | FrLcp c => lcp_apply v i (fsm_input (vrfc v) c) m
  (* session.go OnEchoReq since 1b41d89: answered whenever LCP is Opened (RFC 1661 5.8), not only in Network/Open *)
  | FrLcpX XEchoReq => match fs (lcp s) with Opened => emit (OLcp cEchoRep) m | _ => m end
  | FrLcpX XEchoRep | FrLcpX XDiscReq | FrLcpX XPrejOther => m
  | FrLcpX XPrejIpcp => ncp_apply i Ipcp fsm_close m
  | FrLcpX XPrejIp6cp => ncp_apply i Ip6cp fsm_close m
  | FrLcpX XCrejAuth => lcp_apply v i (fsm_input (vrfc v) (FCrej true)) m
  | FrLcpX XCnakPap => lcp_apply v i (fsm_input (vrfc v) (FCnak true)) (upd (set_auth_chap false) m)
  | FrLcpX XCnakChap => lcp_apply v i (fsm_input (vrfc v) (FCnak true)) (upd (set_auth_chap true) m)
  | FrIpcp c =>
    if in_net (ph s) then
      let m1 := match c with
                | FCreq QGood => upd (fun s => set_addr (static_attr s) (cur4 s) (assigned4 s) (assigned4 s) (alloc_pool s) s) m
                | _ => m end in
      ncp_apply i Ipcp (fsm_input (vrfc v) c) m1
    else m
  | FrIp6cp c => if in_net (ph s) then ncp_apply i Ip6cp (fsm_input (vrfc v) c) m else m
  | FrPapReq => match ph s with PAuth => publish_aaa PtPap m | _ => m end
  | FrChapResp => match ph s with PAuth => publish_aaa PtChap m | _ => m end
  | FrPapBad | FrPapOther | FrChapBad | FrChapOther => m
  | FrRs => if in_net (ph s) then match fs (ip6cp s) with Opened => emit ORa m | _ => m end else m
  | FrNs => if in_net (ph s) then match fs (ip6cp s) with Opened => emit ONa m | _ => m end else m
  | FrIp6Junk => m
  (* dispatcher: network phase and IPv6CP Opened; pppoe/dhcpv6.go forwardDHCPv6: ipv6cpOpen; a REPLY to a
     REQUEST binds the address in the dataplane (bindDHCPv6) *)
  | FrDh6Sol => if in_net (ph s) then match fs (ip6cp s) with Opened => if ip6cp_open s then dh6 (vnm v) false m else m | _ => m end else m
  | FrDh6Req => if in_net (ph s) then match fs (ip6cp s) with
                                     | Opened => if ip6cp_open s then dh6 (vnm v) true m else m
                                     | _ => m end else m
  | FrUnkProto => emit (OLcp cProtoRej) m
  | FrShort => m
  end.

Definition handle_timer (v : vr) (i : nat) (t : timer) (m : mach) : mach :=
  match t with
  | TLcp => lcp_apply v i fsm_timeout m
  | TIpcp => ncp_apply i Ipcp fsm_timeout m
  | TIp6cp => ncp_apply i Ip6cp fsm_timeout m
  | TChap =>                                                    (* handleCHAPTimeout *)
    match ph (ms m) with
    | PAuth =>
      let n := S (chap_retry (ms m)) in
      let m1 := upd (set_retry n) m in
      if 10 <=? n then lcp_apply v i fsm_close m1 else emit (OChap 1) m1
    | _ => m
    end
  end.

(* ------------------------------------------------------------------ *)
(* component *)
Record state := mkSt { sl : list sess; nreq : nat; free : nat; queue : list (nat * nat); free6 : nat * nat }.
Definition nslots := 3.
Definition init3 (pool pool6 poolpd : nat) : state := mkSt (repeat sess0 nslots) 0 pool [] (pool6, poolpd).
(* [init pool]: the IPv6 profile's IA_NA pool has 16 addresses and its PD pool 16 prefixes *)
Definition init (pool : nat) : state := init3 pool 16 16.

Fixpoint set_nth {A} (n : nat) (x : A) (l : list A) : list A :=
  match l, n with
  | [], _ => []
  | _ :: r, O => x :: r
  | y :: r, S n => y :: set_nth n x r
  end.

Definition tag (i : nat) (l : list out) : list (nat * out) := map (fun o => (i, o)) l.

Definition is_lcp_down (o : out) : bool := match o with GLcpDown => true | _ => false end.

(* run handler h on slot i *)
Definition on_slot (st : state) (i : nat) (h : mach -> mach) : state * list (nat * out) :=
  match nth_error (sl st) i with
  | None => (st, [])
  | Some s =>
    let m := h (mkM s (nreq st) (free st) (queue st) [] (free6 st)) in
    (mkSt (set_nth i (ms m) (sl st)) (mn m) (mfree m) (mq m) (mfree6 m), tag i (rev (mo m)))
  end.

(* handlePADR with a valid cookie: a new SessionState replaces whatever the slot held *)
Definition open_session (v : vr) (i : nat) (m : mach) : mach :=
  let s0 := mkS true (S (gen (ms m))) PEstablish fsm0 fsm0 fsm0 true 0 None PtNone false false false ANone ANone ANone false v60 in
  let m1 := emit OPads (mkM s0 (mn m) (mfree m) (mq m) (mo m) (mfree6 m)) in
  lcp_apply v i (fsm_open (vrfc v)) (lcp_apply v i fsm_up m1).

(* component.handleAAAResponse: first live session whose pending id equals the response's id.
   Ordinal 0 stands for the empty request id, which equals the pending id of every session that has
   no request outstanding. *)
Definition pend_matches (v : vr) (k : nat) (s : sess) : bool :=
  live s &&
  match k, pend s with
  | O, None => negb (vrep v)
  | S _, Some k' => Nat.eqb k k'
  | _, _ => false
  end.
Fixpoint find_idx {A} (p : A -> bool) (l : list A) (i : nat) : option nat :=
  match l with
  | [] => None
  | x :: r => if p x then Some i else find_idx p r (S i)
  end.

(* handleAAAResponse once it has the session lock: onAuthResult; since c6c869c a rejected or failed authentication
   then runs the dead-peer teardown of that session at once (removed from the indexes, terminate()) *)
Definition aaa_apply (v : vr) (i : nat) (a : akind) (m : mach) : mach :=
  let m1 := on_auth_result v i (allowed_of a) (match a with AAccIp => true | _ => false end) m in
  (* handleDeadPeer(sid): nothing when the session is not in the indexes any more (a held answer before 0709f1b) *)
  if vrep v && negb (allowed_of a) && live (ms m1) then terminate (upd (set_live false) m1) else m1.
(* the re-check under the session lock for an answer matched earlier: terminate() does not clear the pending id *)
Definition held_matches (v : vr) (k : nat) (s : sess) : bool :=
  pend_matches v k s || (negb (vhl v) && match k, pend s with S _, Some k' => Nat.eqb k k' | _, _ => false end).
(* session.go onVPPSessionCreated(err) -> component.go tearDownSessionAfterVPPFailure: out of the indexes, Released, PADT
   (discovery egress, not a compared output), terminate().  The callback is the session's own method: it also runs for a
   session that was torn down while the add was queued — before 7b3d79c ([vsf] = false) terminate() then ran a second time:
   Released and the dataplane delete are repeated, and its Release calls are no-ops only as long as nobody else has taken
   the addresses since (when somebody had, the OTHER subscriber's leases were freed — witness in notes/C03.md; the counter
   pools of this model cannot express that).  Since 7b3d79c the report is ignored for such a session.  GLcpDown: the link is
   over, the monitor forgets the accept. *)
Definition sb_fail (v : vr) (m : mach) : mach :=
  if live (ms m) then emit GLcpDown (terminate (upd (set_live false) (emit OLifeR m)))
  else if vsf v then m
  else emit OLifeR (emit OSbDel (emit OLifeR m)).
Definition step (v : vr) (st : state) (e : event) : state * list (nat * out) :=
  match e with
  | EvOpen i => on_slot st i (open_session v i)
  | EvFrame i f =>
    (* handleSession: handlePPP under the session lock; with [vtd], when the frame made LCP leave Opened on a link that
       had been authenticated (onLCPDown ran — GLcpDown — with the session in Network/Open, and set linkEnded) the
       dead-peer teardown follows at once *)
    on_slot st i (fun m =>
      if live (ms m) then
        let m1 := handle_frame v i f m in
        if vtd v && in_net (ph (ms m)) && existsb is_lcp_down (mo m1) then terminate (upd (set_live false) m1) else m1
      else m)
  | EvAAA k a =>
    match find_idx (pend_matches v k) (sl st) 0 with
    | Some i => on_slot st i (aaa_apply v i a)
    | None => (st, [])
    end
  | EvAAAHeld i k a =>
    match nth_error (sl st) i with
    | Some s => if held_matches v k s then on_slot st i (aaa_apply v i a) else (st, [])
    | None => (st, [])
    end
  | EvSbFail =>
    match queue st with
    | [] => (st, [])
    | (i, g) :: q =>
      let st' := mkSt (sl st) (nreq st) (free st) q (free6 st) in
      match nth_error (sl st) i with
      | Some s => if Nat.eqb (gen s) g then on_slot st' i (sb_fail v)
                  else (st', [(nslots, OLifeR)])     (* a superseded incarnation (re-PADR): outside the model *)
      | None => (st', [])
      end
    end
  | EvTimer i t => on_slot st i (handle_timer v i t)
  | EvPadt i | EvDead i =>
    on_slot st i (fun m => if live (ms m) then terminate (upd (set_live false) m) else m)
  | EvSbOk =>
    match queue st with
    | [] => (st, [])
    | (i, g) :: q =>
      let st' := mkSt (sl st) (nreq st) (free st) q (free6 st) in
      match nth_error (sl st) i with
      | Some s => if Nat.eqb (gen s) g then (st', [(i, OProg)]) else (st', [(nslots, OProg)])
      | None => (st', [])
      end
    end
  end.

Fixpoint run (v : vr) (st : state) (evs : list event) : state * list (event * list (nat * out)) :=
  match evs with
  | [] => (st, [])
  | e :: r =>
    let '(st1, o) := step v st e in
    let '(st2, tr) := run v st1 r in
    (st2, (e, o) :: tr)
  end.

(* ------------------------------------------------------------------ *)
(* The property as a monitor over the observable trace, per subscriber slot.
   [mcur]: the latest AAA request this session published since its last authentication reset;
   [mok]: that request was answered with an accept and no reset happened since.
   Resets: a new PADR for the slot, LCP leaving Opened, session termination. *)
Record mon := mkMon { mcur : option nat; mok : bool }.
Definition mon0 := mkMon None false.

Definition mon_in (i : nat) (e : event) (mn : mon) : mon :=
  match e with
  | EvOpen j | EvPadt j | EvDead j => if Nat.eqb i j then mon0 else mn
  | EvAAA k a | EvAAAHeld _ k a =>
    match mcur mn with
    | Some k' => if Nat.eqb k k' && allowed_of a then mkMon (mcur mn) true else mn
    | None => mn
    end
  | _ => mn
  end.
(* None = the property is violated at this output *)
Definition mon_out (o : out) (mn : mon) : option mon :=
  match o with
  | GLcpDown => Some mon0
  | OReq k => Some (mkMon (Some k) (mok mn))
  | _ => if service o then (if mok mn then Some mn else None) else Some mn
  end.
Fixpoint mon_l (l : list out) (mn : mon) : option mon :=
  match l with
  | [] => Some mn
  | o :: r => match mon_out o mn with Some mn' => mon_l r mn' | None => None end
  end.
Fixpoint mon_outs (i : nat) (l : list (nat * out)) (mn : mon) : option mon :=
  match l with
  | [] => Some mn
  | (j, o) :: r =>
    if Nat.eqb i j then match mon_out o mn with Some mn' => mon_outs i r mn' | None => None end
    else mon_outs i r mn
  end.
Fixpoint mon_run (i : nat) (tr : list (event * list (nat * out))) (mn : mon) : option mon :=
  match tr with
  | [] => Some mn
  | (e, o) :: r =>
    match mon_outs i o (mon_in i e mn) with
    | Some mn' => mon_run i r mn'
    | None => None
    end
  end.

(* what a never-authorised subscriber may hold: nothing *)
Definition holds_nothing (s : sess) : bool :=
  negb (alloc_pool s) && Nat.eqb (xn (na (v6 s))) 0 && Nat.eqb (xn (pd (v6 s))) 0 &&
  addr_eqb (cur4 s) ANone && negb (in_net (ph s)).

(* IPv6 leases taken from the registry and not given back yet *)
Definition holds6 (s : sess) : bool := negb (Nat.eqb (xn (na (v6 s))) 0 && Nat.eqb (xn (pd (v6 s))) 0).
(* what a session that has been through terminate still owns in the registry: a pool address shadowed by a Framed-IP,
   IPv6 addresses / prefixes that neither s.IPv6Address / s.IPv6Prefix nor a named provider lease refers to *)
Definition leaks (s : sess) : bool :=
  (alloc_pool s && negb (addr_eqb (cur4 s) APool)) ||
  negb (Nat.eqb (xn (na (v6 s))) (released (na (v6 s)))) || negb (Nat.eqb (xn (pd (v6 s))) (released (pd (v6 s)))).

(* ------------------------------------------------------------------ *)
(* Part 3: plugins/auth/radius/provider.go Authenticate followed by internal/aaa/component.go handleAAARequest
   (an error from the provider is published as Allowed=false with the error text). *)
Inductive srv := SrvAccept | SrvReject | SrvOtherCode | SrvNoAnswer.
Inductive verdict := VAllow | VDeny | VError.
Definition radius_decide (fallback : bool) (r : srv) : verdict :=
  if fallback then VDeny
  else match r with SrvAccept => VAllow | SrvReject => VDeny | SrvOtherCode | SrvNoAnswer => VError end.
Definition aaa_allowed (fallback : bool) (r : srv) : bool :=
  match radius_decide fallback r with VAllow => true | _ => false end.
