(* C03/GateReject.v — C03_reject_clean for the repaired reject path (RejectTeardown.step_rt = Model.step followed
   by the dead-peer teardown of the rejected slot): for EVERY component state, after a reject / error answer that
   matches a session, that session is out of the indexes and its pool lease is back in the pool. *)
From OV Require Import Common.Base C03.Model C03.Proofs C03.GateInv C03.GateMain C03.RejectTeardown.

(* what the reject path must not touch before the teardown runs *)
Definition keep (m m' : mach) : Prop :=
  live (ms m') = live (ms m) /\ cur4 (ms m') = cur4 (ms m) /\ alloc_pool (ms m') = alloc_pool (ms m) /\
  mfree m' = mfree m.
Lemma keep_refl : forall m, keep m m.
Proof. intros m; repeat split. Qed.
Lemma keep_trans : forall a b c, keep a b -> keep b c -> keep a c.
Proof. intros a b c (h1 & h2 & h3 & h4) (k1 & k2 & k3 & k4). repeat split; congruence. Qed.
Lemma keep_emit : forall o m, keep m (emit o m).
Proof. intros o [s n fr q l]; repeat split. Qed.
Lemma keep_upd : forall f m,
  (forall s, live (f s) = live s /\ cur4 (f s) = cur4 s /\ alloc_pool (f s) = alloc_pool s) -> keep m (upd f m).
Proof. intros f [s n fr q l] H. destruct (H s) as (h1 & h2 & h3). repeat split; auto. Qed.

Lemma ncp_fold_silent_keep : forall i n acts m, forallb silent_a acts = true ->
  keep m (fold_left (fun m a => ncp_act i n a m) acts m).
Proof.
  induction acts as [|a acts IH]; intros m H; cbn [fold_left]; [apply keep_refl|].
  cbn [forallb] in H. apply andb_true_iff in H. destruct H as [Ha H].
  eapply keep_trans; [|apply IH; auto].
  destruct a; try discriminate; cbn [ncp_act]; try apply keep_refl.
  destruct n; apply keep_upd; intros []; repeat split.
Qed.
Lemma ncp_down_keep : forall i n m, keep m (ncp_apply i n fsm_down m).
Proof.
  intros i n m. unfold ncp_apply. pose proof (proj2 (fsm_down_quiet (get_ncp n (ms m)))) as Q.
  destruct (fsm_down (get_ncp n (ms m))) as [f' acts]. cbn [snd] in Q.
  eapply keep_trans; [|apply ncp_fold_silent_keep; auto].
  apply keep_upd. intros s. destruct n, s; repeat split.
Qed.
Lemma on_lcp_down_keep : forall v i m, keep m (on_lcp_down v i m).
Proof.
  intros v i m. unfold on_lcp_down.
  eapply keep_trans; [|apply keep_emit]. eapply keep_trans; [|apply keep_upd; intros []; repeat split].
  destruct (vrep v); [|apply keep_refl].
  eapply keep_trans; [|apply ncp_down_keep]. eapply keep_trans; [|apply ncp_down_keep].
  apply keep_upd; intros []; repeat split.
Qed.
Lemma on_lcp_up_keep : forall m, keep m (on_lcp_up m).
Proof.
  intros m. unfold on_lcp_up.
  assert (K : keep m (emit GLcpUp (upd (set_ph PAuth) m))).
  { eapply keep_trans; [|apply keep_emit]. apply keep_upd; intros []; repeat split. }
  destruct (auth_chap (ms (emit GLcpUp (upd (set_ph PAuth) m)))); auto.
Qed.
Lemma lcp_apply_keep : forall v i g m, keep m (lcp_apply v i g m).
Proof.
  intros v i g m. unfold lcp_apply. destruct (g (lcp (ms m))) as [f' acts].
  eapply keep_trans; [apply (keep_upd (set_lcp f')); intros []; repeat split|].
  generalize (upd (set_lcp f') m). clear m.
  induction acts as [|a acts IH]; intros m; cbn [fold_left]; [apply keep_refl|].
  eapply keep_trans; [|apply IH].
  destruct a; cbn [lcp_act]; try apply keep_refl.
  - apply keep_emit. - apply on_lcp_up_keep. - apply on_lcp_down_keep.
Qed.
Lemma on_auth_denied_keep : forall v i static m, keep m (on_auth_result v i false static m).
Proof.
  intros v i static m. unfold on_auth_result.
  eapply keep_trans; [|apply keep_upd; intros []; repeat split].
  eapply keep_trans; [|apply lcp_apply_keep].
  destruct (pty (ms m)); try apply keep_refl; apply keep_emit.
Qed.

Lemma length_set_nth : forall A (l : list A) n x, length (set_nth n x l) = length l.
Proof. induction l as [|a l IH]; intros [|n] x; cbn; auto. Qed.

(* the dead-peer / PADT teardown of a live session *)
Lemma dead_step : forall v st i s, nth_error (sl st) i = Some s -> live s = true ->
  exists s', nth_error (sl (fst (step v st (EvDead i)))) i = Some s' /\ live s' = false /\
             free (fst (step v st (EvDead i))) = free st + (if alloc_pool s && addr_eqb (cur4 s) APool then 1 else 0).
Proof.
  intros v st i s Hn Hl. cbn [step]. unfold on_slot. rewrite Hn. cbn [ms]. rewrite Hl. cbn [fst sl free].
  eexists. split; [apply (nth_set_nth_eq _ _ _ _ _ Hn)|]. destruct s; cbn in *.
  destruct (in_net ph); cbn; (split; [reflexivity|]); destruct alloc_pool, cur4; cbn; lia.
Qed.
(* the reject answer itself: delivered to slot i, leaves liveness, address, lease flag and pool alone *)
Lemma reject_step : forall v st k a i s, allowed_of a = false ->
  find_idx (pend_matches v k) (sl st) 0 = Some i -> nth_error (sl st) i = Some s ->
  exists s1, nth_error (sl (fst (step v st (EvAAA k a)))) i = Some s1 /\
             live s1 = live s /\ cur4 s1 = cur4 s /\ alloc_pool s1 = alloc_pool s /\
             free (fst (step v st (EvAAA k a))) = free st.
Proof.
  intros v st k a i s Ea Hf Hn. cbn [step]. rewrite Hf, Ea. unfold on_slot. rewrite Hn. cbn [fst sl free].
  destruct (on_auth_denied_keep v i (match a with AAccIp => true | _ => false end)
              (mkM s (nreq st) (free st) (queue st) [])) as (k1 & k2 & k3 & k4).
  eexists. split; [apply (nth_set_nth_eq _ _ _ _ _ Hn)|]. auto.
Qed.

(* C03_reject_clean *)
Theorem reject_teardown_clean : forall v st k a i,
  reject_target v st (EvAAA k a) = Some i ->
  exists s s',
    nth_error (sl st) i = Some s /\ live s = true /\ pend_matches v k s = true /\ allowed_of a = false /\
    nth_error (sl (fst (step_rt v st (EvAAA k a)))) i = Some s' /\
    live s' = false /\
    free (fst (step_rt v st (EvAAA k a))) =
      free st + (if alloc_pool s && addr_eqb (cur4 s) APool then 1 else 0).
Proof.
  intros v st k a i Ht. unfold step_rt. rewrite Ht. unfold reject_target in Ht.
  destruct (allowed_of a) eqn:Ea; [discriminate|].
  destruct (find_idx_spec _ _ _ _ _ Ht) as (s & _ & Hn & Hp). rewrite Nat.sub_0_r in Hn.
  assert (Hl : live s = true).
  { unfold pend_matches in Hp. apply andb_true_iff in Hp. tauto. }
  destruct (reject_step v st k a i s Ea Ht Hn) as (s1 & Hn1 & r1 & r2 & r3 & r4).
  destruct (step v st (EvAAA k a)) as [st1 o1]. cbn [fst] in *.
  assert (Hl1 : live s1 = true) by congruence.
  destruct (dead_step v st1 i s1 Hn1 Hl1) as (s' & Hn' & Hd & Hfr).
  destruct (step v st1 (EvDead i)) as [st2 o2]. cbn [fst] in *.
  exists s, s'. repeat split; auto. rewrite Hfr, r2, r3, r4. reflexivity.
Qed.
