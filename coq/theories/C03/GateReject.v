(* C03/GateReject.v — C03_reject_clean for Model.step (which since c6c869c tears the session down inside the
   reject answer): for EVERY component state a reject / error answer that matches a session's outstanding request
   leaves that session out of the indexes with its pool lease back in the pool; and over histories: it stays out
   until the subscriber's next PADR. *)
From OV Require Import Common.Base C03.Model C03.Proofs C03.GateInv C03.GateMain.

(* what the reject path must not touch before the teardown runs *)
Definition keep (m m' : mach) : Prop :=
  live (ms m') = live (ms m) /\ cur4 (ms m') = cur4 (ms m) /\ alloc_pool (ms m') = alloc_pool (ms m) /\
  mfree m' = mfree m /\ v6 (ms m') = v6 (ms m) /\ mfree6 m' = mfree6 m.
Lemma keep_refl : forall m, keep m m.
Proof. intros m; repeat split. Qed.
Lemma keep_trans : forall a b c, keep a b -> keep b c -> keep a c.
Proof. intros a b c (h1 & h2 & h3 & h4 & h5 & h6) (k1 & k2 & k3 & k4 & k5 & k6). repeat split; congruence. Qed.
Lemma keep_emit : forall o m, keep m (emit o m).
Proof. intros o [s n fr q l f6]; repeat split. Qed.
Lemma keep_upd : forall f m,
  (forall s, live (f s) = live s /\ cur4 (f s) = cur4 s /\ alloc_pool (f s) = alloc_pool s /\ v6 (f s) = v6 s) -> keep m (upd f m).
Proof. intros f [s n fr q l f6] H. destruct (H s) as (h1 & h2 & h3 & h4). repeat split; auto. Qed.

Lemma ncp_fold_silent_keep : forall i n acts m, forallb silent_a acts = true ->
  keep m (fold_left (fun m a => ncp_act i n a m) acts m).
Proof.
  induction acts as [|a acts IH]; intros m H; cbn [fold_left]; [apply keep_refl|].
  cbn [forallb] in H. apply andb_true_iff in H. destruct H as [Ha H].
  eapply keep_trans; [|apply IH; auto].
  destruct a; try discriminate; cbn [ncp_act]; try apply keep_refl.
  destruct n; apply keep_upd; intros []; repeat split.
Qed.
Lemma ncp_down_keep : forall i n m, keep m (ncp_apply i n fsm_down m).
Proof.
  intros i n m. unfold ncp_apply. pose proof (proj2 (fsm_down_quiet (get_ncp n (ms m)))) as Q.
  destruct (fsm_down (get_ncp n (ms m))) as [f' acts]. cbn [snd] in Q.
  eapply keep_trans; [|apply ncp_fold_silent_keep; auto].
  apply keep_upd. intros s. destruct n, s; repeat split.
Qed.
Lemma on_lcp_down_keep : forall v i m, keep m (on_lcp_down v i m).
Proof.
  intros v i m. unfold on_lcp_down.
  eapply keep_trans; [|apply keep_emit]. eapply keep_trans; [|apply keep_upd; intros []; repeat split].
  destruct (vrep v); [|apply keep_refl].
  eapply keep_trans; [|apply ncp_down_keep]. eapply keep_trans; [|apply ncp_down_keep].
  apply keep_upd; intros []; repeat split.
Qed.
Lemma on_lcp_up_keep : forall m, keep m (on_lcp_up m).
Proof.
  intros m. unfold on_lcp_up.
  assert (K : keep m (emit GLcpUp (upd (set_ph PAuth) m))).
  { eapply keep_trans; [|apply keep_emit]. apply keep_upd; intros []; repeat split. }
  destruct (auth_chap (ms (emit GLcpUp (upd (set_ph PAuth) m)))); auto.
Qed.
Lemma lcp_apply_keep : forall v i g m, keep m (lcp_apply v i g m).
Proof.
  intros v i g m. unfold lcp_apply. destruct (g (lcp (ms m))) as [f' acts].
  eapply keep_trans; [apply (keep_upd (set_lcp f')); intros []; repeat split|].
  generalize (upd (set_lcp f') m). clear m.
  induction acts as [|a acts IH]; intros m; cbn [fold_left]; [apply keep_refl|].
  eapply keep_trans; [|apply IH].
  destruct a; cbn [lcp_act]; try apply keep_refl.
  - apply keep_emit. - apply on_lcp_up_keep. - apply on_lcp_down_keep.
Qed.
Lemma on_auth_denied_keep : forall v i static m, keep m (on_auth_result v i false static m).
Proof.
  intros v i static m. unfold on_auth_result.
  eapply keep_trans; [|apply keep_upd; intros []; repeat split].
  eapply keep_trans; [|apply lcp_apply_keep].
  destruct (pty (ms m)); try apply keep_refl; apply keep_emit.
Qed.


(* the leases terminate() gives back: the IPv4 pool address; IPv6 addresses / prefixes (Model.released) *)
Definition lease (s : sess) : nat := if alloc_pool s && addr_eqb (cur4 s) APool then 1 else 0.
Definition add6 (p : nat * nat) (s : sess) : nat * nat :=
  (fst p + released (na (v6 s)), snd p + released (pd (v6 s))).

(* one reject / error answer, ANY state (repaired variant) *)
Theorem reject_step_clean : forall v st k a i, vrep v = true -> allowed_of a = false ->
  find_idx (pend_matches v k) (sl st) 0 = Some i ->
  exists s s',
    nth_error (sl st) i = Some s /\ live s = true /\ pend s = Some k /\
    nth_error (sl (fst (step v st (EvAAA k a)))) i = Some s' /\
    live s' = false /\ ph s' = PTerminate /\
    free (fst (step v st (EvAAA k a))) = free st + lease s /\
    free6 (fst (step v st (EvAAA k a))) = add6 (free6 st) s.
Proof.
  intros v st k a i Hv Ea Hf.
  destruct (find_idx_spec _ _ _ _ _ Hf) as (s & _ & Hn & Hp). rewrite Nat.sub_0_r in Hn.
  destruct (aaa_needs_pending v k s Hv Hp) as (Hl & Hpe & _).
  cbn [step]. rewrite Hf. unfold on_slot. rewrite Hn. unfold aaa_apply. rewrite Ea, Hv. cbn [andb negb fst sl free].
  destruct (on_auth_denied_keep v i (match a with AAccIp => true | _ => false end)
              (mkM s (nreq st) (free st) (queue st) [] (free6 st))) as (k1 & k2 & k3 & k4 & k5 & k6).
  set (m1 := on_auth_result v i false (match a with AAccIp => true | _ => false end) (mkM s (nreq st) (free st) (queue st) [] (free6 st))) in *.
  cbn [ms] in k1. rewrite k1, Hl.
  exists s. eexists. split; [reflexivity|]. split; [exact Hl|]. split; [exact Hpe|].
  split; [apply (nth_set_nth_eq _ _ _ _ _ Hn)|].
  cbn [ms mfree mfree6] in k1, k2, k3, k4, k5, k6. unfold lease, add6. rewrite <- k2, <- k3, <- k4, <- k5, <- k6.
  destruct m1 as [s1 n1 f1 q1 o1 g1]. destruct s1. cbn [ms mfree mfree6 mn mq mo Model.v6 Model.alloc_pool Model.cur4 Model.ph Model.live
    terminate upd emit set_live set_ph set_lcp set_ipcp set_ip6cp fst snd free free6 sl].
  destruct (in_net ph); cbn; repeat split; destruct alloc_pool, cur4; cbn; lia.
Qed.

(* the dataplane reports that the queued add of a live session failed: ANY state, any variant *)
Theorem sb_fail_step_clean : forall v st i g q s,
  queue st = (i, g) :: q -> nth_error (sl st) i = Some s -> gen s = g -> live s = true ->
  exists s',
    nth_error (sl (fst (step v st EvSbFail))) i = Some s' /\
    live s' = false /\ ph s' = PTerminate /\
    free (fst (step v st EvSbFail)) = free st + lease s /\
    free6 (fst (step v st EvSbFail)) = add6 (free6 st) s /\
    queue (fst (step v st EvSbFail)) = q.
Proof.
  intros v st i g q s Hq Hn Hg Hl. cbn [step]. rewrite Hq, Hn, Hg, Nat.eqb_refl.
  unfold on_slot. cbn [sl nreq free queue free6]. rewrite Hn. unfold sb_fail. cbn [ms]. rewrite Hl.
  eexists. split; [apply (nth_set_nth_eq _ _ _ _ _ Hn)|].
  unfold lease, add6, terminate. destruct s.
  cbn [ms mfree mfree6 mn mq mo Model.v6 Model.alloc_pool Model.cur4 Model.ph Model.live
       upd emit set_live set_ph set_lcp set_ipcp set_ip6cp fst snd free free6 sl queue].
  match goal with |- context [in_net ?p] => destruct (in_net p) end; cbn; repeat split;
    match goal with |- context [alloc_pool] => idtac | _ => idtac end;
    try (destruct alloc_pool, cur4; cbn; lia).
Qed.

(* a session that is out of the indexes stays out until the subscriber's next PADR *)
Lemma ncp_act_live : forall i n a m, live (ms (ncp_act i n a m)) = live (ms m).
Proof.
  intros i n a [s nn fr q o f6]. destruct a, n; cbn; try reflexivity; destruct s; cbn;
    unfold check_open; cbn; repeat match goal with |- context [match ?x with _ => _ end] => destruct x; cbn end; reflexivity.
Qed.
Lemma ncp_apply_live : forall i n g m, live (ms (ncp_apply i n g m)) = live (ms m).
Proof.
  intros i n g m. unfold ncp_apply. destruct (g (get_ncp n (ms m))) as [f' acts].
  assert (E : live (ms (upd (set_ncp n f') m)) = live (ms m)) by (destruct m as [s ? ? ? ? ?]; destruct n, s; reflexivity).
  rewrite <- E. generalize (upd (set_ncp n f') m). clear. induction acts as [|a acts IH]; intros m; cbn [fold_left]; auto.
  rewrite IH. apply ncp_act_live.
Qed.
Lemma handle_timer_live : forall v i t m, live (ms (handle_timer v i t m)) = live (ms m).
Proof.
  intros v i t m. destruct t; cbn [handle_timer].
  - apply (lcp_apply_keep v i fsm_timeout m).
  - apply ncp_apply_live. - apply ncp_apply_live.
  - destruct (ph (ms m)); auto.
    destruct (10 <=? S (chap_retry (ms m))).
    + rewrite (proj1 (lcp_apply_keep v i fsm_close _)). destruct m as [s ? ? ? ? ?]; destruct s; reflexivity.
    + destruct m as [s ? ? ? ? ?]; destruct s; reflexivity.
Qed.

(* onAuthResult never changes [live] (only the teardown that may follow does, to false) *)
Lemma live_upd : forall f m, (forall s, live (f s) = live s) -> live (ms (upd f m)) = live (ms m).
Proof. intros f [s ? ? ? ? ?] H. apply H. Qed.
Lemma live_on_fam : forall pdf g s, live (on_fam pdf g s) = live s.
Proof. intros pdf g []; reflexivity. Qed.
Lemma rereserve6_live : forall pdf m, live (ms (rereserve6 pdf m)) = live (ms m).
Proof. intros pdf m. unfold rereserve6. destruct (pool_of pdf (mfree6 m)); reflexivity. Qed.
Lemma start_ncp_live : forall v i m, live (ms (start_ncp v i m)) = live (ms m).
Proof.
  intros v i m. unfold start_ncp.
  assert (A : live (ms (start_v4 m)) = live (ms m)).
  { unfold start_v4. destruct m as [s n fr q l f6]. cbn [ms mfree mn mq mo mfree6].
    destruct (cur4 s); try reflexivity.
    - destruct fr; [reflexivity|]. destruct s; reflexivity.
    - destruct (live s) eqn:E; cbn [ms]; [exact E|]. destruct fr; cbn; exact E. }
  assert (B : forall m, live (ms (start_na m)) = live (ms m)).
  { intros m0. unfold start_na. destruct (xs (na (v6 (ms m0)))).
    - destruct (live (ms m0)) eqn:E; auto. rewrite rereserve6_live. auto.
    - unfold alloc6. destruct (pool_of false (mfree6 m0)); [reflexivity|].
      destruct m0 as [s0 n0 fr0 q0 l0 f60]. cbn. destruct s0; reflexivity. }
  assert (C : forall m, live (ms (start_pd m)) = live (ms m)).
  { intros m0. unfold start_pd. destruct (xs (pd (v6 (ms m0)))); auto.
    destruct (live (ms m0)) eqn:E; auto. rewrite rereserve6_live. auto. }
  assert (D : forall m, live (ms (start_ncps v i m)) = live (ms m)).
  { intros m0. unfold start_ncps. rewrite !ncp_apply_live.
    destruct (cur4 (ms m0)); auto; rewrite !ncp_apply_live; destruct m0 as [s ? ? ? ? ?], s; reflexivity. }
  rewrite D, C, B, A. reflexivity.
Qed.
Lemma on_auth_allowed_live : forall v i static m, live (ms (on_auth_result v i true static m)) = live (ms m).
Proof.
  intros v i static m. unfold on_auth_result.
  rewrite live_upd by (intros []; reflexivity). rewrite start_ncp_live.
  rewrite live_upd by (intros []; reflexivity).
  set (m1 := new_ctx _).
  assert (E : live (ms m1) = live (ms m)).
  { unfold m1, new_ctx. rewrite !live_upd; auto; intros s; try apply live_on_fam; destruct s; reflexivity. }
  destruct (pty (ms m1)); cbn [emit ms]; exact E.
Qed.
Lemma aaa_apply_dead : forall v i a m, live (ms m) = false -> live (ms (aaa_apply v i a m)) = false.
Proof.
  intros v i a m Hl. unfold aaa_apply.
  assert (E : live (ms (on_auth_result v i (allowed_of a) match a with AAccIp => true | _ => false end m)) = false).
  { destruct (allowed_of a).
    - rewrite on_auth_allowed_live. exact Hl.
    - rewrite (proj1 (on_auth_denied_keep v i _ m)). exact Hl. }
  rewrite E, andb_false_r. exact E.
Qed.

Lemma dead_persists : forall v st e i s, nth_error (sl st) i = Some s -> live s = false -> e <> EvOpen i ->
  exists s', nth_error (sl (fst (step v st e))) i = Some s' /\ live s' = false.
Proof.
  intros v st e i s Hn Hl He.
  assert (OS : forall j h, (j = i -> live (ms (h (mkM s (nreq st) (free st) (queue st) [] (free6 st)))) = false) ->
               exists s', nth_error (sl (fst (on_slot st j h))) i = Some s' /\ live s' = false).
  { intros j h Hh. unfold on_slot. destruct (Nat.eq_dec j i) as [E|E].
    - subst j. rewrite Hn. cbn [fst sl]. eexists. split; [apply (nth_set_nth_eq _ _ _ _ _ Hn)|]. auto.
    - destruct (nth_error (sl st) j) as [sj|] eqn:Ej; cbn [fst sl]; exists s; split; auto.
      rewrite nth_set_nth_neq; auto. }
  destruct e as [j|j f|k a|j t|j|j| |jh k a| ]; cbn [step].
  - apply OS. intros E. subst j. congruence.
  - apply OS. intros E. cbn [ms]. rewrite Hl. auto.
  - destruct (find_idx (pend_matches v k) (sl st) 0) as [j|] eqn:Ef; [|exists s; auto].
    apply OS. intros E. subst j.
    destruct (find_idx_spec _ _ _ _ _ Ef) as (sj & _ & Hnj & Hp). rewrite Nat.sub_0_r in Hnj.
    rewrite Hn in Hnj. inversion Hnj; subst sj. unfold pend_matches in Hp. rewrite Hl in Hp. discriminate.
  - apply OS. intros E. rewrite handle_timer_live. auto.
  - apply OS. intros E. cbn [ms]. rewrite Hl. auto.
  - apply OS. intros E. cbn [ms]. rewrite Hl. auto.
  - destruct (queue st) as [|[j g] q]; [exists s; auto|].
    destruct (nth_error (sl st) j) as [sj|]; [destruct (Nat.eqb (gen sj) g)|]; cbn [fst sl]; exists s; auto.
  - destruct (nth_error (sl st) jh) as [sj|]; [|exists s; auto].
    destruct (held_matches v k sj); [|exists s; auto].
    apply OS. intros E. apply aaa_apply_dead. exact Hl.
  - destruct (queue st) as [|[j g] q]; [exists s; auto|].
    destruct (nth_error (sl st) j) as [sj|]; [destruct (Nat.eqb (gen sj) g)|]; cbn [fst sl]; try (exists s; auto; fail).
    assert (OS' : forall h, (j = i -> live (ms (h (mkM s (nreq st) (free st) q [] (free6 st)))) = false) ->
               exists s', nth_error (sl (fst (on_slot (mkSt (sl st) (nreq st) (free st) q (free6 st)) j h))) i = Some s' /\ live s' = false).
    { intros h Hh. unfold on_slot. cbn [sl nreq free queue free6]. destruct (Nat.eq_dec j i) as [E|E].
      - subst j. rewrite Hn. cbn [fst sl]. eexists. split; [apply (nth_set_nth_eq _ _ _ _ _ Hn)|]. auto.
      - destruct (nth_error (sl st) j) as [sj'|] eqn:Ej; cbn [fst sl]; exists s; split; auto.
        rewrite nth_set_nth_neq; auto. }
    apply OS'. intros E. unfold sb_fail. cbn [ms]. rewrite Hl. destruct (vsf v); cbn [emit ms]; exact Hl.
Qed.

Lemma dead_run : forall v evs st i s, nth_error (sl st) i = Some s -> live s = false ->
  Forall (fun e => e <> EvOpen i) evs ->
  exists s', nth_error (sl (fst (run v st evs))) i = Some s' /\ live s' = false.
Proof.
  induction evs as [|e r IH]; intros st i s Hn Hl Hf; [exists s; auto|].
  inversion Hf; subst. rewrite run_cons. cbn [fst].
  destruct (dead_persists v st e i s Hn Hl H1) as (s1 & Hn1 & Hl1). eapply IH; eauto.
Qed.

(* C03_reject_clean over histories *)
Theorem reject_clean_run : forall v pool p6 ppd evs1 k a evs2 i, vrep v = true -> allowed_of a = false ->
  find_idx (pend_matches v k) (sl (fst (run v (init3 pool p6 ppd) evs1))) 0 = Some i ->
  Forall (fun e => e <> EvOpen i) evs2 ->
  let st1 := fst (run v (init3 pool p6 ppd) evs1) in
  let st2 := fst (step v st1 (EvAAA k a)) in
  exists s s3,
    nth_error (sl st1) i = Some s /\ live s = true /\ pend s = Some k /\
    free st2 = free st1 + lease s /\ free6 st2 = add6 (free6 st1) s /\
    nth_error (sl (fst (run v st2 evs2))) i = Some s3 /\ live s3 = false.
Proof.
  intros v pool p6 ppd evs1 k a evs2 i Hv Ea Hf Hall st1 st2.
  destruct (reject_step_clean v st1 k a i Hv Ea Hf) as (s & s' & h1 & h2 & h3 & h4 & h5 & h6 & h7 & h8).
  destruct (dead_run v evs2 st2 i s' h4 h5 Hall) as (s3 & g1 & g2).
  exists s, s3. repeat split; auto.
Qed.

(* the end of an authenticated link ([vtd]): a frame that makes LCP leave Opened (marker GLcpDown, see
   GateObs.lcp_down_marked) while the session is in Network/Open tears the session down in the same step *)
Theorem link_end_teardown_step : forall v st i f s, vtd v = true ->
  nth_error (sl st) i = Some s -> live s = true -> in_net (ph s) = true ->
  In (i, GLcpDown) (snd (step v st (EvFrame i f))) ->
  exists s', nth_error (sl (fst (step v st (EvFrame i f)))) i = Some s' /\ live s' = false /\ ph s' = PTerminate.
Proof.
  intros v st i f s Hv Hn Hl Hp Hin. cbn [step] in *. unfold on_slot in *. rewrite Hn in *. cbn [ms fst snd sl] in *.
  rewrite Hl, Hv, Hp in *. cbn [andb] in *.
  set (m1 := handle_frame v i f (mkM s (nreq st) (free st) (queue st) [] (free6 st))) in *.
  destruct (existsb is_lcp_down (mo m1)) eqn:E.
  - eexists. split; [apply (nth_set_nth_eq _ _ _ _ _ Hn)|].
    destruct m1 as [s1 n1 f1 q1 o1 g1]. destruct s1. cbn. destruct (in_net ph); cbn; auto.
  - exfalso. unfold tag in Hin. apply in_map_iff in Hin. destruct Hin as (o & Ho & Io). inversion Ho; subst o.
    rewrite <- in_rev in Io. assert (K : existsb is_lcp_down (mo m1) = true) by (apply existsb_exists; exists GLcpDown; auto).
    congruence.
Qed.
