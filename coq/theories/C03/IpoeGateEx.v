(* C03/IpoeGateEx.v — concrete histories showing the hypotheses / conclusions of the unbounded IPoE theorems are
   met non-trivially (closed terms only; vm_compute). *)
From OV Require Import Common.Base C03.IpoeModel C03.IpoeProofs C03.IpoeGateMain.

Definition has_service (tr : list (ievent * owner * list (owner * iout))) : bool :=
  existsb (fun x => existsb (fun y => iservice (snd y)) (snd x)) tr.
Definition drop_aaa (tr : list (ievent * owner * list (owner * iout))) :=
  filter (fun x => match fst (fst x) with IeAAA _ _ _ => false | _ => true end) tr.
Definition iw_served := [IeDiscover 0; IeAAA 0 RCur true; IeCreated true; IeRequest 0; IeSolicit 0; IeRequest6 0].
Definition iw_rejected := [IeDiscover 0; IeAAA 0 RCur false].
Definition iw_pending := [IeDiscover 0; IeRequest 0; IeSolicit 0; IeRequest6 0; IeCreated true].

(* the gate is exercised: a served history has service outputs and is accepted; the same trace with the AAA answer
   struck out is flagged, so the monitor does look for the accept; a history with no answer / a reject has no
   service output at all *)
Lemma gate_nonvacuous :
  has_service (snd (irun true (iinit 2 8) iw_served)) = true /\
  imon_run (snd (irun true (iinit 2 8) iw_served)) imon0 = true /\
  imon_run (drop_aaa (snd (irun true (iinit 2 8) iw_served))) imon0 = false /\
  has_service (snd (irun true (iinit 2 8) iw_pending)) = false /\
  has_service (snd (irun true (iinit 2 8) (iw_rejected ++ iw_pending))) = false.
Proof. repeat split; timeout 20 (vm_compute; reflexivity). Qed.

Definition final_acc (evs : list ievent) (o : owner) : option bool :=
  option_map (fun mn => imem o (macc mn)) (imon_fin (snd (irun true (iinit 2 8) evs)) imon0).
Definition cur_of (evs : list ievent) (i : nat) : option isess :=
  option_map scur (nth_error (isl (fst (irun true (iinit 2 8) evs))) i).
Definition cur_clean (evs : list ievent) (i : nat) : option bool :=
  option_map (fun s => holds_nothing_i (fst (irun true (iinit 2 8) evs)) (i, igen s) s) (cur_of evs i).

(* reject-clean: a rejected attempt (incarnation 1 of subscriber 0) meets the hypothesis (no accept held) and holds
   nothing; so does one whose answer is missing; an accepted and bound one does not meet it and does hold a lease *)
Lemma reject_clean_nonvacuous :
  option_map igen (cur_of iw_rejected 0) = Some 1 /\ final_acc iw_rejected (0, 1) = Some false /\
  cur_clean iw_rejected 0 = Some true /\
  option_map igen (cur_of iw_pending 0) = Some 1 /\ final_acc iw_pending (0, 1) = Some false /\
  cur_clean iw_pending 0 = Some true /\
  option_map igen (cur_of iw_served 0) = Some 1 /\ final_acc iw_served (0, 1) = Some true /\
  cur_clean iw_served 0 = Some false /\
  held (0, 1) (p4 (fst (irun true (iinit 2 8) iw_served))) = 1.
Proof. repeat split; timeout 20 (vm_compute; reflexivity). Qed.
