(* C03/GateLeak.v — the per-family IPv6 lease invariant of a PPPoE session and its preservation by every handler and by
   the component step (C03_teardown_no_leak_partial); what is missing for the unconditional theorem is said in Properties.v. *)
From OV Require Import Common.Base C03.Model C03.Proofs C03.GateDefs C03.GateInv C03.GateMain C03.GateReject C03.GateObs.

(* ------------------------------------------------------------------ *)
(* one IPv6 family of one session: nothing taken, or exactly one taken (number 0), the AllocCtx knows it, and
   s.IPv6Address / s.IPv6Prefix or a provider lease that knows its pool refers to it *)
Definition famok (f : fam6) : Prop :=
  (xn f = 0 /\ xs f = None /\ xc f = None /\ xl f = None) \/
  (xn f = 1 /\ xc f = Some 0 /\ (xs f = None \/ xs f = Some 0) /\
   (xl f = None \/ xl f = Some (0, true) \/ xl f = Some (0, false)) /\ (xs f = Some 0 \/ xl f = Some (0, true))).
Definition v6ok (x : v6st) : Prop := famok (na x) /\ famok (pd x).

Lemma famok_released : forall f, famok f -> xn f = released f.
Proof.
  intros [s c l n] [(h1 & h2 & h3 & h4)|(h1 & h2 & h3 & h4 & h5)]; cbn in *; subst; cbn; auto.
  destruct h3 as [h3|h3], h4 as [h4|[h4|h4]], h5 as [h5|h5]; subst; try discriminate; reflexivity.
Qed.
Lemma famok0 : famok fam0. Proof. left. repeat split. Qed.

(* the IPv6 lease state after a DHCPv6 message, as a function of the state before and of "the pool has something" *)
Definition res_f (avail : bool) (f : fam6) : fam6 * bool :=
  match xc f with
  | Some _ => (f, false)
  | None => if avail then (mkF6 (xs f) (Some (xn f)) (xl f) (S (xn f)), true) else (f, false)
  end.
Definition rsv_f (named : bool) (f : fam6) : fam6 :=
  match xc f with
  | Some a => mkF6 (xs f) (xc f) (Some (a, named || (true && match xl f with Some (b, true) => Nat.eqb a b | _ => false end))) (xn f)
  | None => f
  end.
Definition rsvd_f (f : fam6) : bool := match xc f, xl f with Some _, None => false | _, _ => true end.
Definition bind_f (f : fam6) : fam6 := mkF6 (xc f) (xc f) (xl f) (xn f).
Definition dh6_v6 (req av_na av_pd : bool) (x : v6st) : v6st :=
  let '(fa, n_na) := res_f av_na (na x) in
  let '(fp, n_pd) := res_f av_pd (pd x) in
  match xc fa, xc fp with
  | None, None => mkV6 fa fp
  | _, _ =>
    if req then mkV6 (bind_f (rsv_f n_na fa)) (bind_f (rsv_f n_pd fp))
    else if rsvd_f fa && rsvd_f fp then mkV6 fa fp else mkV6 (rsv_f n_na fa) (rsv_f n_pd fp)
  end.
Definition avail (n : nat) : bool := match n with O => false | S _ => true end.

Lemma ms_emit : forall o m, ms (emit o m) = ms m. Proof. intros o []; reflexivity. Qed.
Lemma ms_upd : forall f m, ms (upd f m) = f (ms m). Proof. intros f []; reflexivity. Qed.
Lemma v6_on_fam : forall pdf g s, v6 (on_fam pdf g s) = fam_set pdf (g (fam_of pdf (v6 s))) (v6 s).
Proof. intros pdf g []; reflexivity. Qed.

(* dhcp.ResolveV6 for one family, projected on the lease state *)
Lemma resolve6_v6 : forall pdf m,
  v6 (ms (fst (resolve6 pdf m))) =
    fam_set pdf (fst (res_f (avail (pool_of pdf (mfree6 m))) (fam_of pdf (v6 (ms m))))) (v6 (ms m)) /\
  snd (resolve6 pdf m) = snd (res_f (avail (pool_of pdf (mfree6 m))) (fam_of pdf (v6 (ms m)))) /\
  pool_of (negb pdf) (mfree6 (fst (resolve6 pdf m))) = pool_of (negb pdf) (mfree6 m).
Proof.
  intros pdf [s n fr q o p]. unfold resolve6, res_f, alloc6. cbn [ms mfree6 mn mfree mq mo].
  destruct (xc (fam_of pdf (v6 s))) eqn:Ec.
  - cbn [fst snd ms mfree6]. repeat split. destruct pdf, (v6 s); cbn in *; destruct na, pd; cbn in *; reflexivity.
  - destruct (pool_of pdf p) eqn:Ep; cbn [avail fst snd ms mfree6].
    + repeat split. destruct pdf, (v6 s); cbn in *; destruct na, pd; cbn in *; reflexivity.
    + rewrite ms_upd, ms_emit. cbn [ms mfree6 upd emit]. rewrite !v6_on_fam. repeat split.
      * destruct pdf, (v6 s) as [[] []]; cbn in *; reflexivity.
      * destruct pdf, p; reflexivity.
Qed.

(* between ResolveV6 and the provider: either nothing new, or the one just taken, not yet leased *)
Definition famres (f : fam6) (nm : bool) : Prop :=
  (famok f /\ nm = false) \/ (nm = true /\ xn f = 1 /\ xc f = Some 0 /\ xs f = None /\ xl f = None).
Lemma res_f_ok : forall av f, famok f -> famres (fst (res_f av f)) (snd (res_f av f)).
Proof.
  intros av [s c l n] H. unfold res_f. cbn [xc xs xl xn].
  destruct H as [(h1 & h2 & h3 & h4)|(h1 & h2 & h3 & h4 & h5)]; cbn in *; subst.
  - destruct av; cbn; [right; repeat split|left; split; [left; repeat split|reflexivity]].
  - cbn. left. split; [right; repeat split; auto|reflexivity].
Qed.
Lemma rsv_f_ok : forall f nm, famres f nm -> famok (rsv_f nm f).
Proof.
  intros [s c l n] nm [[H E]|(E & h1 & h2 & h3 & h4)]; cbn in *; subst.
  - destruct H as [(h1 & h2 & h3 & h4)|(h1 & h2 & h3 & h4 & h5)]; cbn in *; subst; cbn.
    + left; repeat split.
    + right. destruct h4 as [h4|[h4|h4]]; subst; cbn; repeat split; auto.
      all: destruct h5 as [h5|h5]; auto; discriminate.
  - cbn. right. repeat split; auto.
Qed.
Lemma bind_f_ok : forall f, famok f -> famok (bind_f f).
Proof.
  intros [s c l n] [(h1 & h2 & h3 & h4)|(h1 & h2 & h3 & h4 & h5)]; cbn in *; subst; unfold bind_f; cbn.
  - left; repeat split.
  - right; repeat split; auto.
Qed.
Lemma famres_kept : forall f nm, famres f nm -> rsvd_f f = true -> famok f.
Proof. intros [s c l n] nm [[H _]|(E & h1 & h2 & h3 & h4)] R; auto. cbn in *; subst. discriminate. Qed.
Lemma famres_none : forall f nm, famres f nm -> xc f = None -> famok f.
Proof. intros f nm [[H _]|(E & h1 & h2 & h3 & h4)] R; auto. congruence. Qed.

Lemma na_set_t : forall f x, na (fam_set true f x) = na x. Proof. reflexivity. Qed.
Lemma pd_set_t : forall f x, pd (fam_set true f x) = f. Proof. reflexivity. Qed.
Lemma na_set_f : forall f x, na (fam_set false f x) = f. Proof. reflexivity. Qed.
Lemma pd_set_f : forall f x, pd (fam_set false f x) = pd x. Proof. reflexivity. Qed.

(* one DHCPv6 message (provider keeps pool names, 277708f) preserves the per-family invariant *)
Lemma dh6_v6ok : forall req m, v6ok (v6 (ms m)) -> v6ok (v6 (ms (dh6 true req m))).
Proof.
  intros req m [Ha Hp]. unfold dh6.
  destruct (resolve6_v6 false m) as (e1 & e2 & e3).
  destruct (resolve6 false m) as [m1 n_na]. cbn [fst snd negb] in e1, e2, e3.
  destruct (resolve6_v6 true m1) as (f1 & f2 & f3).
  destruct (resolve6 true m1) as [m2 n_pd]. cbn [fst snd negb] in f1, f2, f3.
  assert (Ra : famres (na (v6 (ms m2))) n_na).
  { rewrite f1. cbn [fam_set na pd]. rewrite e1. cbn [fam_set na pd fam_of]. rewrite e2. apply res_f_ok. exact Ha. }
  assert (Rp : famres (pd (v6 (ms m2))) n_pd).
  { rewrite f1. cbn [fam_set na pd]. rewrite f2. cbn [fam_of]. rewrite e1. cbn [fam_set na pd]. apply res_f_ok. exact Hp. }
  clear e1 e2 e3 f1 f2 f3 Ha Hp. set (s := ms m2) in *.
  assert (S1 : v6ok (v6 (reserve6 true true n_pd (reserve6 true false n_na s)))).
  { unfold reserve6. rewrite !v6_on_fam. cbn [fam_of fam_set na pd].
    split; [apply (rsv_f_ok _ _ Ra)|apply (rsv_f_ok _ _ Rp)]. }
  assert (Out : forall s', v6ok (v6 s') ->
     forall (P : mach -> Prop), (forall mm, ms mm = s' -> P mm) -> P (upd (fun _ => s') m2)).
  { intros s' _ P HP. apply HP. apply ms_upd. }
  destruct (xc (na (v6 s))) eqn:Ea, (xc (pd (v6 s))) eqn:Ep.
  4: { split; [eapply famres_none; eauto|eapply famres_none; eauto]. }
  all: destruct req.
  all: try (rewrite ms_emit, ms_upd;
            destruct (reserved6 false s && reserved6 true s) eqn:Er;
            [apply andb_true_iff in Er; destruct Er as [r1 r2]; split; [eapply famres_kept; eauto|eapply famres_kept; eauto]
            |exact S1]).
  all: repeat match goal with
       | |- v6ok (v6 (ms (match ?x with Some _ => _ | None => _ end))) => destruct x
       | |- v6ok (v6 (ms (if ?x then _ else _))) => destruct x
       | |- v6ok (v6 (ms (emit _ _))) => rewrite ms_emit
       end.
  all: rewrite ms_upd, !v6_on_fam; cbn [fam_of fam_set na pd];
       destruct S1 as [A B]; split; apply bind_f_ok; auto.
Qed.

(* ------------------------------------------------------------------ *)
(* everything else leaves the IPv6 lease state alone *)
Definition v6k (m m' : mach) : Prop := v6 (ms m') = v6 (ms m).
Lemma v6k_refl : forall m, v6k m m. Proof. reflexivity. Qed.
Lemma v6k_trans : forall a b c, v6k a b -> v6k b c -> v6k a c. Proof. unfold v6k; intros; congruence. Qed.
Lemma v6k_emit : forall o m, v6k m (emit o m). Proof. intros o []; reflexivity. Qed.
Lemma v6k_upd : forall f m, (forall s, v6 (f s) = v6 s) -> v6k m (upd f m). Proof. intros f [] H; apply H. Qed.
Lemma keep_v6k : forall m m', keep m m' -> v6k m m'. Proof. intros m m' (_ & _ & _ & _ & h & _). exact h. Qed.
Ltac v6s := repeat first [apply v6k_refl | apply v6k_emit | (apply v6k_upd; intros []; reflexivity)
                         | (eapply v6k_trans; [|apply v6k_emit]) | (eapply v6k_trans; [|apply v6k_upd; intros []; reflexivity])].
Lemma check_open_v6k : forall i m, v6k m (check_open i m).
Proof.
  intros i [s n fr q l f6]. unfold check_open. cbn [ms]. destruct (ph s); try apply v6k_refl.
  destruct (ipcp_open s || ip6cp_open s); try apply v6k_refl.
  destruct (cur4 s); destruct s; reflexivity.
Qed.
Lemma ncp_act_v6k : forall i n a m, v6k m (ncp_act i n a m).
Proof.
  intros i n a m. destruct a; cbn [ncp_act]; try apply v6k_refl.
  - apply v6k_emit.
  - destruct n; (eapply v6k_trans; [|apply check_open_v6k]); apply v6k_upd; intros []; reflexivity.
  - destruct n; apply v6k_upd; intros []; reflexivity.
Qed.
Lemma ncp_apply_v6k : forall i n g m, v6k m (ncp_apply i n g m).
Proof.
  intros i n g m. unfold ncp_apply. destruct (g (get_ncp n (ms m))) as [f' acts].
  eapply v6k_trans; [apply (v6k_upd (set_ncp n f')); intros []; destruct n; reflexivity|].
  generalize (upd (set_ncp n f') m). clear. induction acts as [|a acts IH]; intros m; cbn [fold_left]; [apply v6k_refl|].
  eapply v6k_trans; [apply ncp_act_v6k|apply IH].
Qed.
Lemma lcp_apply_v6k : forall v i g m, v6k m (lcp_apply v i g m).
Proof. intros. apply keep_v6k. apply lcp_apply_keep. Qed.
Lemma publish_aaa_v6k : forall t m, v6k m (publish_aaa t m).
Proof. intros t [s n fr q l f6]. destruct s; reflexivity. Qed.
Lemma terminate_v6k : forall m, v6k m (terminate (upd (set_live false) m)).
Proof. intros [s n fr q l f6]. unfold terminate. destruct s. cbn. match goal with |- context [in_net ?p] => destruct (in_net p) end; reflexivity. Qed.
Lemma handle_timer_v6k : forall v i t m, v6k m (handle_timer v i t m).
Proof.
  intros v i t m. destruct t; cbn [handle_timer].
  - apply lcp_apply_v6k. - apply ncp_apply_v6k. - apply ncp_apply_v6k.
  - destruct (ph (ms m)); try apply v6k_refl. destruct (10 <=? S (chap_retry (ms m))).
    + eapply v6k_trans; [|apply lcp_apply_v6k]. apply v6k_upd; intros []; reflexivity.
    + eapply v6k_trans; [|apply v6k_emit]. apply v6k_upd; intros []; reflexivity.
Qed.
Lemma v6k_ok : forall m m', v6k m m' -> v6ok (v6 (ms m)) -> v6ok (v6 (ms m')).
Proof. unfold v6k. intros m m' E H. rewrite E. exact H. Qed.

Lemma handle_frame_v6ok : forall v i f m, vnm v = true -> v6ok (v6 (ms m)) -> v6ok (v6 (ms (handle_frame v i f m))).
Proof.
  intros v i f m Hn H.
  assert (K : forall m', v6k m m' -> v6ok (v6 (ms m'))) by (intros m' E; eapply v6k_ok; eauto).
  destruct f as [c|x|c|c| | | | | | | | | | | | | ]; cbn [handle_frame]; try (apply K; apply v6k_refl).
  - apply K. apply lcp_apply_v6k.
  - destruct x; try (apply K; apply v6k_refl).
    + destruct (fs (lcp (ms m))); apply K; try apply v6k_refl; apply v6k_emit.
    + apply K. apply ncp_apply_v6k.
    + apply K. apply ncp_apply_v6k.
    + apply K. apply lcp_apply_v6k.
    + apply K. eapply v6k_trans; [|apply lcp_apply_v6k]. apply v6k_upd; intros []; reflexivity.
    + apply K. eapply v6k_trans; [|apply lcp_apply_v6k]. apply v6k_upd; intros []; reflexivity.
  - destruct (in_net (ph (ms m))); [|apply K; apply v6k_refl]. apply K.
    eapply v6k_trans; [|apply ncp_apply_v6k].
    destruct c as [q| | | | | | | | ]; try apply v6k_refl. destruct q; try apply v6k_refl.
    apply v6k_upd; intros []; reflexivity.
  - destruct (in_net (ph (ms m))); apply K; [apply ncp_apply_v6k|apply v6k_refl].
  - destruct (ph (ms m)); apply K; try apply v6k_refl; apply publish_aaa_v6k.
  - destruct (ph (ms m)); apply K; try apply v6k_refl; apply publish_aaa_v6k.
  - destruct (in_net (ph (ms m))); [|apply K; apply v6k_refl].
    destruct (fs (ip6cp (ms m))); apply K; try apply v6k_refl; apply v6k_emit.
  - destruct (in_net (ph (ms m))); [|apply K; apply v6k_refl].
    destruct (fs (ip6cp (ms m))); apply K; try apply v6k_refl; apply v6k_emit.
  - apply K. apply v6k_emit.
  - destruct (in_net (ph (ms m))); [|apply K; apply v6k_refl].
    destruct (fs (ip6cp (ms m))); try (apply K; apply v6k_refl).
    destruct (ip6cp_open (ms m)); [|apply K; apply v6k_refl]. rewrite Hn. apply dh6_v6ok; auto.
  - destruct (in_net (ph (ms m))); [|apply K; apply v6k_refl].
    destruct (fs (ip6cp (ms m))); try (apply K; apply v6k_refl).
    destruct (ip6cp_open (ms m)); [|apply K; apply v6k_refl]. rewrite Hn. apply dh6_v6ok; auto.
Qed.

(* the accept, on a session that has no IPv6 lease state yet *)
Lemma start_v4_v6k : forall m, v6k m (start_v4 m).
Proof.
  intros [s n fr q l f6]. unfold start_v4. cbn [ms mfree mn mq mo mfree6]. destruct (cur4 s); try apply v6k_refl.
  - destruct fr; [apply v6k_refl|]. destruct s; reflexivity.
  - destruct (live s); [apply v6k_refl|]. destruct fr; [apply v6k_refl|reflexivity].
Qed.
Lemma start_ncps_v6k : forall v i m, v6k m (start_ncps v i m).
Proof.
  intros v i m. unfold start_ncps.
  eapply v6k_trans; [|apply ncp_apply_v6k]. eapply v6k_trans; [|apply ncp_apply_v6k].
  destruct (cur4 (ms m)); try apply v6k_refl;
    (eapply v6k_trans; [|apply ncp_apply_v6k]); (eapply v6k_trans; [|apply ncp_apply_v6k]);
    apply v6k_upd; intros []; reflexivity.
Qed.
Lemma start_na_fresh : forall m, v6 (ms m) = v60 ->
  v6ok (v6 (ms (start_na m))) /\ xs (pd (v6 (ms (start_na m)))) = None.
Proof.
  intros [s n fr q l [p6 ppd]] E. unfold start_na, alloc6. cbn [ms mfree6 mn mfree mq mo pool_of fst] in *. rewrite E. cbn [v60 na xs fam0].
  destruct p6; cbn [ms].
  - rewrite E. split; [split; apply famok0|reflexivity].
  - rewrite ms_upd, ms_emit. cbn [ms]. rewrite !v6_on_fam, E. cbn.
    split; [split; [right; repeat split; auto|apply famok0]|reflexivity].
Qed.
Lemma start_ncp_fresh : forall v i m, v6 (ms m) = v60 -> v6ok (v6 (ms (start_ncp v i m))).
Proof.
  intros v i m E. unfold start_ncp.
  assert (E1 : v6 (ms (start_v4 m)) = v60) by (rewrite (start_v4_v6k m); exact E).
  destruct (start_na_fresh _ E1) as [H X].
  eapply v6k_ok; [apply start_ncps_v6k|]. unfold start_pd. rewrite X. exact H.
Qed.
Lemma new_ctx_fresh : forall m, v6 (ms m) = v60 -> v6 (ms (new_ctx m)) = v60.
Proof. intros m E. unfold new_ctx. rewrite !ms_upd, !v6_on_fam, E. reflexivity. Qed.
Lemma on_auth_allowed_v6ok : forall v i st m, v6 (ms m) = v60 -> v6ok (v6 (ms (on_auth_result v i true st m))).
Proof.
  intros v i st m E. unfold on_auth_result.
  eapply v6k_ok; [apply v6k_upd; intros []; reflexivity|].
  apply start_ncp_fresh. rewrite ms_upd.
  set (m1 := new_ctx _).
  assert (E1 : v6 (ms m1) = v60).
  { unfold m1. apply new_ctx_fresh. rewrite ms_upd. destruct (ms m); exact E. }
  destruct (pty (ms m1)); cbn [emit ms]; destruct (ms m1); exact E1.
Qed.
Lemma on_auth_denied_v6k : forall v i st m, v6k m (on_auth_result v i false st m).
Proof. intros. apply keep_v6k. apply on_auth_denied_keep. Qed.

(* ------------------------------------------------------------------ *)
(* the component step *)
Definition all_ok (st : state) : Prop := forall j s, nth_error (sl st) j = Some s -> v6ok (v6 s).
Lemma on_slot_all : forall st i h,
  (forall s, nth_error (sl st) i = Some s -> v6ok (v6 s) -> v6ok (v6 (ms (h (mkM s (nreq st) (free st) (queue st) [] (free6 st)))))) ->
  all_ok st -> all_ok (fst (on_slot st i h)).
Proof.
  intros st i h Hh Ha j s Hs. unfold on_slot in Hs. destruct (nth_error (sl st) i) as [si|] eqn:Ei; cbn [fst sl] in Hs.
  - destruct (Nat.eq_dec i j) as [E|E].
    + subst j. rewrite (nth_set_nth_eq _ _ _ _ _ Ei) in Hs. inversion Hs; subst. apply Hh; [auto|exact (Ha i si Ei)].
    + rewrite nth_set_nth_neq in Hs; auto. apply (Ha j s Hs).
  - apply (Ha j s Hs).
Qed.
Lemma aaa_apply_v6ok : forall v i a m,
  (allowed_of a = true -> v6 (ms m) = v60) -> v6ok (v6 (ms m)) -> v6ok (v6 (ms (aaa_apply v i a m))).
Proof.
  intros v i a m Hf H. unfold aaa_apply. destruct (allowed_of a) eqn:Ea.
  - rewrite andb_false_r. cbn [andb]. apply on_auth_allowed_v6ok. auto.
  - assert (K : v6ok (v6 (ms (on_auth_result v i false match a with AAccIp => true | _ => false end m))))
      by (eapply v6k_ok; [apply on_auth_denied_v6k|exact H]).
    destruct (vrep v && negb false && live (ms (on_auth_result v i false match a with AAccIp => true | _ => false end m))); auto.
    eapply v6k_ok; [apply terminate_v6k|exact K].
Qed.
Lemma open_session_v6ok : forall v i m, v6ok (v6 (ms (open_session v i m))).
Proof.
  intros v i m. unfold open_session.
  eapply v6k_ok; [eapply v6k_trans; [apply lcp_apply_v6k|apply lcp_apply_v6k]|].
  rewrite ms_emit. cbn. split; apply famok0.
Qed.
Lemma sb_fail_v6ok : forall v m, v6ok (v6 (ms m)) -> v6ok (v6 (ms (sb_fail v m))).
Proof.
  intros v m H. unfold sb_fail. destruct (live (ms m)).
  - rewrite ms_emit. eapply v6k_ok; [apply terminate_v6k|]. rewrite ms_emit. exact H.
  - destruct (vsf v); exact H.
Qed.

(* every allowed AAA answer that takes effect in this step hits a session without IPv6 lease state *)
Definition fresh_accepts (v : vr) (st : state) (e : event) : Prop :=
  match e with
  | EvAAA k a => allowed_of a = true -> forall j sj,
      find_idx (pend_matches v k) (sl st) 0 = Some j -> nth_error (sl st) j = Some sj -> v6 sj = v60
  | EvAAAHeld j k a => allowed_of a = true -> forall sj,
      nth_error (sl st) j = Some sj -> held_matches v k sj = true -> v6 sj = v60
  | _ => True
  end.

Theorem step_v6ok_partial : forall v st e, vnm v = true ->
  all_ok st -> fresh_accepts v st e -> all_ok (fst (step v st e)).
Proof.
  intros v st e Hn Ha Hf. destruct e as [j|j f|k a|j t|j|j| |jh k a| ]; cbn [step].
  - apply on_slot_all; auto. intros s _ _. apply open_session_v6ok.
  - apply on_slot_all; auto. intros s _ H. cbn [ms]. destruct (live s); auto.
    assert (K : v6ok (v6 (ms (handle_frame v j f (mkM s (nreq st) (free st) (queue st) [] (free6 st))))))
      by (apply handle_frame_v6ok; auto).
    destruct (vtd v && in_net (ph s) && existsb is_lcp_down (mo (handle_frame v j f (mkM s (nreq st) (free st) (queue st) [] (free6 st))))); auto.
    eapply v6k_ok; [apply terminate_v6k|exact K].
  - destruct (find_idx (pend_matches v k) (sl st) 0) as [j|] eqn:Ef; [|exact Ha].
    apply on_slot_all; auto. intros s Hs H. apply aaa_apply_v6ok; auto. intros Ea. cbn [ms]. apply (Hf Ea j s Ef Hs).
  - apply on_slot_all; auto. intros s _ H. eapply v6k_ok; [apply handle_timer_v6k|exact H].
  - apply on_slot_all; auto. intros s _ H. cbn [ms]. destruct (live s); auto. eapply v6k_ok; [apply terminate_v6k|exact H].
  - apply on_slot_all; auto. intros s _ H. cbn [ms]. destruct (live s); auto. eapply v6k_ok; [apply terminate_v6k|exact H].
  - destruct (queue st) as [|[j g] q]; [exact Ha|].
    destruct (nth_error (sl st) j) as [s|]; [destruct (Nat.eqb (gen s) g)|]; exact Ha.
  - destruct (nth_error (sl st) jh) as [sj|] eqn:Ej; [|exact Ha].
    destruct (held_matches v k sj) eqn:Eh; [|exact Ha].
    apply on_slot_all; auto. intros s Hs H. apply aaa_apply_v6ok; auto. intros Ea. cbn [ms].
    rewrite Ej in Hs. inversion Hs; subst. apply (Hf Ea s Ej Eh).
  - destruct (queue st) as [|[j g] q]; [exact Ha|].
    destruct (nth_error (sl st) j) as [s|] eqn:Ej; [destruct (Nat.eqb (gen s) g)|]; try exact Ha.
    apply (on_slot_all (mkSt (sl st) (nreq st) (free st) q (free6 st)) j (sb_fail v)); auto.
    intros s0 _ H. apply sb_fail_v6ok; auto.
Qed.

(* what the invariant buys at the teardown: terminate + ReleaseLease return exactly what the session took *)
Theorem v6ok_no_leak : forall s, v6ok (v6 s) ->
  xn (na (v6 s)) = released (na (v6 s)) /\ xn (pd (v6 s)) = released (pd (v6 s)).
Proof. intros s [A B]. split; apply famok_released; auto. Qed.
Lemma init3_all_ok : forall pool p6 ppd, all_ok (init3 pool p6 ppd).
Proof. intros pool p6 ppd j s Hs. apply nth_error_In in Hs. apply repeat_spec in Hs. subst s. split; apply famok0. Qed.

(* over histories, under the same hypothesis at every step *)
Fixpoint fresh_run (v : vr) (st : state) (evs : list event) : Prop :=
  match evs with
  | [] => True
  | e :: r => fresh_accepts v st e /\ fresh_run v (fst (step v st e)) r
  end.
Theorem run_v6ok_partial : forall v evs st, vnm v = true ->
  all_ok st -> fresh_run v st evs -> all_ok (fst (run v st evs)).
Proof.
  induction evs as [|e r IH]; intros st Hn Ha Hf; [exact Ha|].
  destruct Hf as [H1 H2]. rewrite run_cons. cbn [fst]. apply IH; auto. apply step_v6ok_partial; auto.
Qed.

Theorem teardown_no_leak_partial :
  (forall s, v6ok (v6 s) ->
     xn (na (v6 s)) = released (na (v6 s)) /\ xn (pd (v6 s)) = released (pd (v6 s))) /\
  (forall v st e, vnm v = true -> all_ok st -> fresh_accepts v st e -> all_ok (fst (step v st e))) /\
  (forall v evs pool p6 ppd, vnm v = true -> fresh_run v (init3 pool p6 ppd) evs ->
     all_ok (fst (run v (init3 pool p6 ppd) evs))).
Proof.
  split; [exact v6ok_no_leak|]. split; [exact step_v6ok_partial|].
  intros v evs pool p6 ppd Hn Hf. apply run_v6ok_partial; auto. apply init3_all_ok.
Qed.
