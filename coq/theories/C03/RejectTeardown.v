(* C03/RejectTeardown.v — repaired behaviour for a rejected (or failed) authentication: the session is torn down
   at once, exactly as handleDeadPeer does (removed from the indexes, addresses released, dataplane session
   deleted, lifecycle Released), instead of lingering with whatever an earlier, accepted authentication gave it.
   Today's code (fixes/C03_pppoe_reject_teardown.patch not applied) only closes LCP.

   The repaired step is the composition of two steps of Model.step, so every statement proved for all event
   sequences of Model.run (C03_gate, ...) covers it: see [run_rt_expand]. *)
From OV Require Import Common.Base C03.Model.

Definition reject_target (v : vr) (st : state) (e : event) : option nat :=
  match e with
  | EvAAA k a => if allowed_of a then None else find_idx (pend_matches v k) (sl st) 0
  | _ => None
  end.

Definition step_rt (v : vr) (st : state) (e : event) : state * list (nat * out) :=
  match reject_target v st e with
  | Some i =>
    let '(st1, o1) := step v st e in
    let '(st2, o2) := step v st1 (EvDead i) in
    (st2, o1 ++ o2)
  | None => step v st e
  end.

(* the event list whose plain run is the repaired run *)
Fixpoint expand (v : vr) (st : state) (evs : list event) : list event :=
  match evs with
  | [] => []
  | e :: r =>
    match reject_target v st e with
    | Some i => e :: EvDead i :: expand v (fst (step_rt v st e)) r
    | None => e :: expand v (fst (step_rt v st e)) r
    end
  end.

Fixpoint run_rt (v : vr) (st : state) (evs : list event) : state :=
  match evs with
  | [] => st
  | e :: r => run_rt v (fst (step_rt v st e)) r
  end.

Lemma run_rt_expand : forall v evs st, run_rt v st evs = fst (run v st (expand v st evs)).
Proof.
  intros v evs. induction evs as [|e r IH]; intros st; [reflexivity|].
  cbn [run_rt expand]. unfold step_rt. destruct (reject_target v st e) as [i|] eqn:E.
  - destruct (step v st e) as [st1 o1] eqn:E1. destruct (step v st1 (EvDead i)) as [st2 o2] eqn:E2.
    cbn [fst run]. rewrite E1, E2. rewrite IH.
    destruct (run v st2 (expand v st2 r)) as [a b]. reflexivity.
  - destruct (step v st e) as [st1 o1] eqn:E1. cbn [fst run]. rewrite E1. rewrite IH.
    destruct (run v st1 (expand v st1 r)) as [a b]. reflexivity.
Qed.
