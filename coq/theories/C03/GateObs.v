(* C03/GateObs.v — the ghost markers the monitor relies on, tied to observables (every state, every variant).

   The trace monitor of Model.v resets on the ghost output GLcpDown and counts the ghost GAlloc as a service output.
   Both are invisible to the harness.  What the harness does compare at every step is each slot's LCP state and the
   number of free pool addresses.  This file proves:
     lcp_down_marked     whenever a step moves a slot's LCP out of Opened (other than by the slot's own PADR / PADT /
                         dead-peer event, which reset the monitor as inputs) the step's outputs contain GLcpDown for
                         that slot — the monitor cannot miss a reset;
     alloc_needs_accept  the free count goes down in a step only if the event is an allowed AAA answer that matches a
                         live session's outstanding request, and then by exactly one — allocation is gated, stated on
                         the compared observable, without GAlloc. *)
From OV Require Import Common.Base C03.Model C03.Proofs C03.GateInv C03.GateMain C03.GateReject.

Definition lopen (m : mach) : bool := opb (fs (lcp (ms m))).
Definition ext (m m' : mach) : Prop := forall o, In o (mo m) -> In o (mo m').

(* same LCP automaton state, outputs only added, pool untouched *)
Definition same (m m' : mach) : Prop := lcp (ms m') = lcp (ms m) /\ ext m m' /\ mfree m' = mfree m.
(* LCP may have moved; leaving Opened is marked; pool untouched *)
Definition marks (m m' : mach) : Prop :=
  ext m m' /\ (lopen m = true -> lopen m' = false -> In GLcpDown (mo m')) /\ mfree m' = mfree m.

Lemma same_refl : forall m, same m m. Proof. intros m. split; [reflexivity|]. split; [intros o H; exact H|reflexivity]. Qed.
Lemma same_trans : forall a b c, same a b -> same b c -> same a c.
Proof.
  intros a b c (h1 & h2 & h3) (k1 & k2 & k3). split; [congruence|]. split; [|congruence].
  intros o H. apply k2, h2, H.
Qed.
Lemma same_marks : forall m m', same m m' -> marks m m'.
Proof. intros m m' (h1 & h2 & h3). split; [exact h2|]. split; [|exact h3]. unfold lopen. rewrite h1. congruence. Qed.
Lemma marks_trans : forall a b c, marks a b -> marks b c -> marks a c.
Proof.
  intros a b c (h1 & h2 & h3) (k1 & k2 & k3). split; [intros o H; apply k1, h1, H|]. split; [|congruence].
  intros Ha Hc. destruct (lopen b) eqn:Eb; auto.
Qed.
Lemma same_emit : forall o m, same m (emit o m).
Proof. intros o [s n fr q l f6]. split; [reflexivity|]. split; [intros x H; right; exact H|reflexivity]. Qed.
Lemma same_upd : forall f m, (forall s, lcp (f s) = lcp s) -> same m (upd f m).
Proof. intros f [s n fr q l f6] H. split; [apply H|]. split; [intros x K; exact K|reflexivity]. Qed.

Ltac prim := repeat first [apply same_refl | apply same_emit | (apply same_upd; intros []; reflexivity)
                          | (eapply same_trans; [|apply same_emit]) | (eapply same_trans; [|apply same_upd; intros []; reflexivity])].

Lemma check_open_same : forall i m, same m (check_open i m).
Proof.
  intros i [s n fr q l f6]. unfold check_open. cbn [ms]. destruct (ph s); try apply same_refl.
  destruct (ipcp_open s || ip6cp_open s); try apply same_refl.
  destruct (cur4 s); destruct s; repeat split; cbn; auto; intros x K; cbn; auto.
Qed.
Lemma ncp_act_same : forall i n a m, same m (ncp_act i n a m).
Proof.
  intros i n a m. destruct a; cbn [ncp_act]; try apply same_refl.
  - apply same_emit.
  - destruct n; (eapply same_trans; [|apply check_open_same]); apply same_upd; intros []; reflexivity.
  - destruct n; apply same_upd; intros []; reflexivity.
Qed.
Lemma ncp_apply_same : forall i n g m, same m (ncp_apply i n g m).
Proof.
  intros i n g m. unfold ncp_apply. destruct (g (get_ncp n (ms m))) as [f' acts].
  eapply same_trans; [apply (same_upd (set_ncp n f')); intros []; destruct n; reflexivity|].
  generalize (upd (set_ncp n f') m). clear. induction acts as [|a acts IH]; intros m; cbn [fold_left]; [apply same_refl|].
  eapply same_trans; [apply ncp_act_same|apply IH].
Qed.
Lemma on_lcp_up_same : forall m, same m (on_lcp_up m).
Proof.
  intros m. unfold on_lcp_up.
  assert (K : same m (emit GLcpUp (upd (set_ph PAuth) m))).
  { eapply same_trans; [|apply same_emit]. apply same_upd; intros []; reflexivity. }
  destruct (auth_chap (ms (emit GLcpUp (upd (set_ph PAuth) m)))); auto.
  eapply same_trans; [exact K|]. eapply same_trans; [|apply same_emit]. apply same_upd; intros []; reflexivity.
Qed.
Lemma on_lcp_down_same : forall v i m, same m (on_lcp_down v i m) /\ In GLcpDown (mo (on_lcp_down v i m)).
Proof.
  intros v i m. unfold on_lcp_down. split; [|destruct (vrep v); left; reflexivity].
  eapply same_trans; [|apply same_emit]. eapply same_trans; [|apply same_upd; intros []; reflexivity].
  destruct (vrep v); [|apply same_refl].
  eapply same_trans; [|apply ncp_apply_same]. eapply same_trans; [|apply ncp_apply_same].
  apply same_upd; intros []; reflexivity.
Qed.
Lemma lcp_act_same : forall v i a m, same m (lcp_act v i a m).
Proof.
  intros v i a m. destruct a; cbn [lcp_act]; try apply same_refl.
  - apply same_emit. - apply on_lcp_up_same. - apply on_lcp_down_same.
Qed.
Lemma lcp_fold_same : forall v i acts m, same m (fold_left (fun m a => lcp_act v i a m) acts m).
Proof.
  induction acts as [|a acts IH]; intros m; cbn [fold_left]; [apply same_refl|].
  eapply same_trans; [apply lcp_act_same|apply IH].
Qed.

(* the one place where the LCP automaton moves *)
Lemma lcp_apply_marks : forall v i g m, lcp_okg g -> marks m (lcp_apply v i g m).
Proof.
  intros v i g m Hg. unfold lcp_apply. pose proof (Hg (lcp (ms m))) as C.
  destruct (g (lcp (ms m))) as [f' acts] eqn:Eg. cbn [fst snd] in C.
  set (m1 := upd (set_lcp f') m).
  assert (E1 : ext m m1 /\ mfree m1 = mfree m) by (destruct m as [s n fr q l f6]; split; auto; intros o K; exact K).
  destruct (lcp_fold_same v i acts m1) as (s1 & s2 & s3).
  assert (L1 : lcp (ms m1) = f') by (destruct m as [s n fr q l f6]; destruct s; reflexivity).
  repeat split.
  - intros o K. apply s2. apply (proj1 E1). exact K.
  - unfold lopen. rewrite s1, L1. intros Ha Hb. unfold lcp_class in C. rewrite Ha, Hb in C.
    destruct acts as [|a r]; [discriminate|]. destruct a; try discriminate. cbn [fold_left lcp_act].
    destruct (on_lcp_down_same v i m1) as (d1 & d2).
    apply (proj1 (proj2 (lcp_fold_same v i r (on_lcp_down v i m1)))). exact d2.
  - rewrite s3. apply (proj2 E1).
Qed.
Lemma publish_aaa_same : forall t m, same m (publish_aaa t m).
Proof. intros t [s n fr q l f6]. destruct s; repeat split; cbn; auto. intros x K; right; exact K. Qed.

Lemma fsm_close_not_open : forall f, opb (fs (fst (fsm_close f))) = false.
Proof. intros [s rc]; destruct s; reflexivity. Qed.

(* DHCPv6 over PPP: the LCP automaton and the IPv4 pool are not involved *)
Lemma lcp_on_fam : forall pdf g s, lcp (on_fam pdf g s) = lcp s.
Proof. intros pdf g []; reflexivity. Qed.
Lemma same_set : forall s' m, lcp s' = lcp (ms m) -> same m (upd (fun _ => s') m).
Proof. intros s' [s n fr q l f6] H. split; [exact H|]. split; [intros x K; exact K|reflexivity]. Qed.
Lemma alloc6_same : forall pdf m k m2, alloc6 pdf m = Some (k, m2) -> same m m2.
Proof.
  intros pdf m k m2 E. unfold alloc6 in E. destruct (pool_of pdf (mfree6 m)); [discriminate|]. inversion E; subst; clear E.
  destruct m as [s n0 fr q l f6]. cbn [ms mn mfree mq mo mfree6]. split; [apply lcp_on_fam|].
  split; [intros x K; right; exact K|reflexivity].
Qed.
Lemma resolve6_same : forall pdf m, same m (fst (resolve6 pdf m)).
Proof.
  intros pdf m. unfold resolve6. destruct (xc (fam_of pdf (v6 (ms m)))); [apply same_refl|].
  destruct (alloc6 pdf m) as [[k m2]|] eqn:E; [|apply same_refl]. cbn [fst].
  eapply same_trans; [eapply alloc6_same; eauto|]. apply same_upd. intros s. apply lcp_on_fam.
Qed.
Lemma dh6_same : forall keep req m, same m (dh6 keep req m).
Proof.
  intros keep req m. unfold dh6.
  pose proof (resolve6_same false m) as H1. destruct (resolve6 false m) as [m1 n_na]. cbn [fst] in H1.
  pose proof (resolve6_same true m1) as H2. destruct (resolve6 true m1) as [m2 n_pd]. cbn [fst] in H2.
  eapply same_trans; [exact H1|]. eapply same_trans; [exact H2|]. clear.
  destruct (xc (na (v6 (ms m2)))), (xc (pd (v6 (ms m2)))); try apply same_refl; destruct req.
  all: repeat first
       [ match goal with
         | |- same _ (match ?x with Some _ => _ | None => _ end) => destruct x
         | |- same _ (if ?x then _ else _) => destruct x
         end
       | (eapply same_trans; [|apply same_emit]) ].
  all: apply same_set; unfold reserve6;
    try (destruct (reserved6 false (ms m2) && reserved6 true (ms m2))); repeat rewrite lcp_on_fam; reflexivity.
Qed.

Lemma handle_frame_marks : forall v i f m, marks m (handle_frame v i f m).
Proof.
  intros v i f m. destruct f as [c|x|c|c| | | | | | | | | | | | | ]; cbn [handle_frame];
    try (apply same_marks; apply same_refl).
  - apply lcp_apply_marks. apply fsm_input_ok.
  - destruct x; try (apply same_marks; apply same_refl).
    + destruct (fs (lcp (ms m))); apply same_marks; try apply same_refl; apply same_emit.
    + apply same_marks. apply ncp_apply_same.
    + apply same_marks. apply ncp_apply_same.
    + apply lcp_apply_marks. apply fsm_input_ok.
    + eapply marks_trans; [|apply lcp_apply_marks; apply fsm_input_ok]. apply same_marks; apply same_upd; intros []; reflexivity.
    + eapply marks_trans; [|apply lcp_apply_marks; apply fsm_input_ok]. apply same_marks; apply same_upd; intros []; reflexivity.
  - destruct (in_net (ph (ms m))); [|apply same_marks; apply same_refl]. apply same_marks.
    eapply same_trans; [|apply ncp_apply_same].
    destruct c as [q| | | | | | | | ]; try apply same_refl. destruct q; try apply same_refl.
    apply same_upd; intros []; reflexivity.
  - destruct (in_net (ph (ms m))); apply same_marks; [apply ncp_apply_same|apply same_refl].
  - destruct (ph (ms m)); apply same_marks; try apply same_refl. apply publish_aaa_same.
  - destruct (ph (ms m)); apply same_marks; try apply same_refl. apply publish_aaa_same.
  - destruct (in_net (ph (ms m))); [|apply same_marks; apply same_refl].
    destruct (fs (ip6cp (ms m))); apply same_marks; try apply same_refl; apply same_emit.
  - destruct (in_net (ph (ms m))); [|apply same_marks; apply same_refl].
    destruct (fs (ip6cp (ms m))); apply same_marks; try apply same_refl; apply same_emit.
  - apply same_marks. apply same_emit.
  - destruct (in_net (ph (ms m))); [|apply same_marks; apply same_refl].
    destruct (fs (ip6cp (ms m))); try (apply same_marks; apply same_refl).
    destruct (ip6cp_open (ms m)); apply same_marks; [apply dh6_same|apply same_refl].
  - destruct (in_net (ph (ms m))); [|apply same_marks; apply same_refl].
    destruct (fs (ip6cp (ms m))); try (apply same_marks; apply same_refl).
    destruct (ip6cp_open (ms m)); apply same_marks; [|apply same_refl]. apply dh6_same.
Qed.
Lemma handle_timer_marks : forall v i t m, marks m (handle_timer v i t m).
Proof.
  intros v i t m. destruct t; cbn [handle_timer].
  - apply lcp_apply_marks. apply fsm_timeout_ok.
  - apply same_marks. apply ncp_apply_same. - apply same_marks. apply ncp_apply_same.
  - destruct (ph (ms m)); try (apply same_marks; apply same_refl).
    destruct (10 <=? S (chap_retry (ms m))).
    + eapply marks_trans; [|apply lcp_apply_marks; apply fsm_close_ok]. apply same_marks; apply same_upd; intros []; reflexivity.
    + apply same_marks. eapply same_trans; [|apply same_emit]. apply same_upd; intros []; reflexivity.
Qed.

(* onAuthResult: marks; and it lowers the pool by at most one, only when allowed *)
Definition fstep (m m' : mach) : Prop := mfree m' = mfree m \/ (mfree m = S (mfree m')).
Lemma start_v4_marks : forall m, ext m (start_v4 m) /\ lcp (ms (start_v4 m)) = lcp (ms m) /\ fstep m (start_v4 m).
Proof.
  intros m. unfold start_v4.
  destruct m as [s n fr q l f6]. cbn [ms mfree mn mq mo mfree6]. destruct (cur4 s); try (repeat split; [intros o K; exact K|left; reflexivity]).
  - destruct fr; [repeat split; [intros o K; exact K|left; reflexivity]|].
    destruct s; repeat split; cbn; [intros o K; right; exact K|right; reflexivity].
  - destruct (live s); [repeat split; [intros o K; exact K|left; reflexivity]|].
    destruct fr; [repeat split; [intros o K; exact K|left; reflexivity]|].
    repeat split; cbn; [intros o K; right; exact K|right; reflexivity].
Qed.
Lemma rereserve6_same : forall pdf m, same m (rereserve6 pdf m).
Proof.
  intros pdf m. unfold rereserve6. destruct (pool_of pdf (mfree6 m)); [apply same_refl|].
  destruct m as [s n0 fr q l f6]. split; [reflexivity|]. split; [intros x K; right; exact K|reflexivity].
Qed.
Lemma start_na_same : forall m, same m (start_na m).
Proof.
  intros m. unfold start_na. destruct (xs (na (v6 (ms m)))).
  - destruct (live (ms m)); [apply same_refl|apply rereserve6_same].
  - destruct (alloc6 false m) as [[k m2]|] eqn:E; [|apply same_refl].
    eapply same_trans; [eapply alloc6_same; eauto|]. apply same_upd. intros s. apply lcp_on_fam.
Qed.
Lemma start_pd_same : forall m, same m (start_pd m).
Proof.
  intros m. unfold start_pd. destruct (xs (pd (v6 (ms m)))); [|apply same_refl].
  destruct (live (ms m)); [apply same_refl|apply rereserve6_same].
Qed.
Lemma start_ncps_same : forall v i m1, same m1 (start_ncps v i m1).
Proof.
  intros v i m1. unfold start_ncps.
  eapply same_trans; [|apply ncp_apply_same]. eapply same_trans; [|apply ncp_apply_same].
  destruct (cur4 (ms m1)); try apply same_refl;
    (eapply same_trans; [|apply ncp_apply_same]); (eapply same_trans; [|apply ncp_apply_same]);
    apply same_upd; intros []; reflexivity.
Qed.
Lemma start_ncp_marks : forall v i m, ext m (start_ncp v i m) /\ lcp (ms (start_ncp v i m)) = lcp (ms m) /\ fstep m (start_ncp v i m).
Proof.
  intros v i m. unfold start_ncp.
  destruct (start_v4_marks m) as (a1 & a2 & a3).
  assert (B : forall mm, same (start_v4 m) mm -> ext m mm /\ lcp (ms mm) = lcp (ms m) /\ fstep m mm).
  { intros mm (b1 & b2 & b3). repeat split; [intros o K; apply b2; apply a1; exact K|congruence|].
    destruct a3 as [a3|a3]; [left|right]; congruence. }
  apply B. eapply same_trans; [apply start_na_same|]. eapply same_trans; [apply start_pd_same|apply start_ncps_same].
Qed.
Lemma on_auth_denied_marks : forall v i st m, marks m (on_auth_result v i false st m).
Proof.
  intros v i st m. unfold on_auth_result.
  eapply marks_trans; [|apply same_marks; apply same_upd; intros []; reflexivity].
  eapply marks_trans; [|apply lcp_apply_marks; apply fsm_close_ok].
  destruct (pty (ms m)); apply same_marks; try apply same_refl; apply same_emit.
Qed.
Lemma on_auth_denied_closed : forall v i st m, lopen (on_auth_result v i false st m) = false.
Proof.
  intros v i st m. unfold on_auth_result, lopen.
  set (m0 := match pty (ms m) with PtPap => emit (OPap 3) m | PtChap => emit (OChap 4) m | PtNone => m end).
  assert (E : lcp (ms (upd (set_pend None PtNone) (lcp_apply v i fsm_close m0))) = lcp (ms (lcp_apply v i fsm_close m0)))
    by (destruct (lcp_apply v i fsm_close m0) as [s ? ? ? ? ?]; destruct s; reflexivity).
  rewrite E. unfold lcp_apply. destruct (fsm_close (lcp (ms m0))) as [f' acts] eqn:Ec.
  rewrite (proj1 (lcp_fold_same v i acts (upd (set_lcp f') m0))).
  assert (L : lcp (ms (upd (set_lcp f') m0)) = f') by (destruct m0 as [s ? ? ? ? ?]; destruct s; reflexivity).
  rewrite L. pose proof (fsm_close_not_open (lcp (ms m0))) as K. rewrite Ec in K. exact K.
Qed.
Lemma on_auth_allowed_free : forall v i st m,
  ext m (on_auth_result v i true st m) /\ lcp (ms (on_auth_result v i true st m)) = lcp (ms m) /\ fstep m (on_auth_result v i true st m).
Proof.
  intros v i st m. unfold on_auth_result.
  set (m1 := new_ctx (upd (fun s => let st0 := static_attr s || st in set_addr st0 (if st0 then AStatic else cur4 s) (assigned4 s) (acked4 s) (alloc_pool s) s) m)).
  set (m2 := match pty (ms m1) with PtPap => emit (OPap 2) m1 | PtChap => emit (OChap 3) m1 | PtNone => m1 end).
  assert (S2 : same m (upd (set_ph PNetwork) m2)).
  { assert (A1 : same m m1).
    { unfold m1, new_ctx. eapply same_trans; [|apply same_upd; intros s; apply lcp_on_fam].
      eapply same_trans; [|apply same_upd; intros s; apply lcp_on_fam]. apply same_upd; intros []; reflexivity. }
    assert (A2 : same m1 m2) by (unfold m2; destruct (pty (ms m1)); try apply same_refl; apply same_emit).
    assert (A3 : same m2 (upd (set_ph PNetwork) m2)) by (apply same_upd; intros []; reflexivity).
    eapply same_trans; [exact A1|]. eapply same_trans; [exact A2|exact A3]. }
  destruct S2 as (s1 & s2 & s3).
  destruct (start_ncp_marks v i (upd (set_ph PNetwork) m2)) as (n1 & n2 & n3).
  set (m3 := start_ncp v i (upd (set_ph PNetwork) m2)) in *.
  assert (F : same m3 (upd (set_pend None PtNone) m3)) by (apply same_upd; intros []; reflexivity).
  destruct F as (f1 & f2 & f3).
  split; [|split].
  - intros o K. apply f2, n1, s2, K.
  - congruence.
  - destruct n3 as [n3|n3]; [left|right]; congruence.
Qed.

(* ------------------------------------------------------------------ *)
(* component level *)
Lemma in_tag : forall i (o : out) l, In o l -> In (i, o) (tag i l).
Proof. intros i o l H. unfold tag. apply in_map_iff. exists o; auto. Qed.

Definition lcp_open_at (st : state) (i : nat) : bool :=
  match nth_error (sl st) i with Some s => opb (fs (lcp s)) | None => false end.

(* whenever a step moves slot i's LCP out of Opened — except by the slot's own PADR / PADT / dead-peer event, which
   reset the monitor as inputs — the outputs of the step contain the marker the monitor resets on *)
Lemma aaa_apply_marks : forall v j a m,
  ext m (aaa_apply v j a m) /\ (lopen m = true -> lopen (aaa_apply v j a m) = false -> In GLcpDown (mo (aaa_apply v j a m))).
Proof.
  intros v j a m0. unfold aaa_apply.
  destruct (allowed_of a) eqn:Ea.
  - rewrite andb_false_r. cbn [andb]. destruct (on_auth_allowed_free v j (match a with AAccIp => true | _ => false end) m0) as (a1 & a2 & _).
    split; auto. unfold lopen. rewrite a2. intros X Y. rewrite X in Y. discriminate Y.
  - destruct (on_auth_denied_marks v j (match a with AAccIp => true | _ => false end) m0) as (d1 & d2 & _).
    pose proof (on_auth_denied_closed v j (match a with AAccIp => true | _ => false end) m0) as C.
    destruct (vrep v && negb false && live (ms (on_auth_result v j false match a with AAccIp => true | _ => false end m0))).
    + split.
      * intros o K. unfold terminate. cbn. right. right. apply d1. exact K.
      * intros Ho _. unfold terminate. cbn. right. right. apply d2; auto.
    + split; auto.
Qed.

Theorem lcp_down_marked : forall v st e i,
  e <> EvOpen i -> e <> EvPadt i -> e <> EvDead i ->
  lcp_open_at st i = true -> lcp_open_at (fst (step v st e)) i = false ->
  In (i, GLcpDown) (snd (step v st e)).
Proof.
  intros v st e i N1 N2 N3 Ha Hb. unfold lcp_open_at in *.
  destruct (nth_error (sl st) i) as [s|] eqn:Hn; [|discriminate].
  assert (OS : forall j h,
     (j = i -> ext (mkM s (nreq st) (free st) (queue st) [] (free6 st)) (h (mkM s (nreq st) (free st) (queue st) [] (free6 st))) /\
               (lopen (mkM s (nreq st) (free st) (queue st) [] (free6 st)) = true ->
                lopen (h (mkM s (nreq st) (free st) (queue st) [] (free6 st))) = false ->
                In GLcpDown (mo (h (mkM s (nreq st) (free st) (queue st) [] (free6 st)))))) ->
     match nth_error (sl (fst (on_slot st j h))) i with Some s' => opb (fs (lcp s')) | None => false end = false ->
     In (i, GLcpDown) (snd (on_slot st j h))).
  { intros j h Hh Hb'. unfold on_slot in *. destruct (Nat.eq_dec j i) as [E|E].
    - subst j. rewrite Hn in *. cbn [fst snd sl] in *. rewrite (nth_set_nth_eq _ _ _ _ _ Hn) in Hb'.
      destruct (Hh eq_refl) as (_ & K). apply in_tag. rewrite <- in_rev. apply K; auto.
    - destruct (nth_error (sl st) j) as [sj|]; cbn [fst snd sl] in *.
      + rewrite nth_set_nth_neq in Hb'; auto. rewrite Hn in Hb'. congruence.
      + rewrite Hn in Hb'. congruence. }
  destruct e as [j|j f|k a|j t|j|j| |jh k a| ]; cbn [step] in *.
  - destruct (Nat.eq_dec j i); [subst; congruence|].
    unfold on_slot in *. destruct (nth_error (sl st) j); cbn [fst snd sl] in *;
      [rewrite nth_set_nth_neq in Hb; auto|]; rewrite Hn in Hb; congruence.
  - apply OS; auto. intros E. cbn [ms]. destruct (live s).
    + destruct (handle_frame_marks v j f (mkM s (nreq st) (free st) (queue st) [] (free6 st))) as (m1 & m2 & _).
      destruct (vtd v && in_net (ph s) && existsb is_lcp_down (mo (handle_frame v j f (mkM s (nreq st) (free st) (queue st) [] (free6 st))))) eqn:Et.
      * apply andb_true_iff in Et. destruct Et as [_ Et]. apply existsb_exists in Et. destruct Et as (o & Ho & Io).
        destruct o; try discriminate. split.
        -- intros o K. unfold terminate. cbn. right. right. apply m1. exact K.
        -- intros _ _. unfold terminate. cbn. right. right. exact Ho.
      * split; auto.
    + split; [intros o K; exact K|intros; congruence].
  - destruct (find_idx (pend_matches v k) (sl st) 0) as [j|] eqn:Ef; [|cbn [fst] in Hb; rewrite Hn in Hb; congruence].
    apply OS; auto. intros E. apply aaa_apply_marks.
  - apply OS; auto. intros E. destruct (handle_timer_marks v j t (mkM s (nreq st) (free st) (queue st) [] (free6 st))) as (m1 & m2 & _). split; auto.
  - destruct (Nat.eq_dec j i); [subst; congruence|].
    unfold on_slot in *. destruct (nth_error (sl st) j); cbn [fst snd sl] in *;
      [rewrite nth_set_nth_neq in Hb; auto|]; rewrite Hn in Hb; congruence.
  - destruct (Nat.eq_dec j i); [subst; congruence|].
    unfold on_slot in *. destruct (nth_error (sl st) j); cbn [fst snd sl] in *;
      [rewrite nth_set_nth_neq in Hb; auto|]; rewrite Hn in Hb; congruence.
  - destruct (queue st) as [|[j g] q]; [cbn [fst] in Hb; rewrite Hn in Hb; congruence|].
    destruct (nth_error (sl st) j) as [sj|]; [destruct (Nat.eqb (gen sj) g)|]; cbn [fst sl] in Hb; rewrite Hn in Hb; congruence.
  - destruct (nth_error (sl st) jh) as [sj|]; [|cbn [fst] in Hb; rewrite Hn in Hb; congruence].
    destruct (held_matches v k sj); [|cbn [fst] in Hb; rewrite Hn in Hb; congruence].
    apply OS; auto. intros E. apply aaa_apply_marks.
  - destruct (queue st) as [|[j g] q]; [cbn [fst] in Hb; rewrite Hn in Hb; congruence|].
    destruct (nth_error (sl st) j) as [sj|] eqn:Ej; [destruct (Nat.eqb (gen sj) g)|];
      try (cbn [fst sl] in Hb; rewrite Hn in Hb; congruence).
    unfold on_slot in *. cbn [sl nreq free queue free6] in *. destruct (Nat.eq_dec j i) as [E|E].
    + subst j. rewrite Hn in *. cbn [fst snd sl] in *. rewrite (nth_set_nth_eq _ _ _ _ _ Hn) in Hb.
      unfold sb_fail in *. cbn [ms] in *. destruct (live s).
      * apply in_tag. rewrite <- in_rev. cbn [emit mo]. left. reflexivity.
      * destruct (vsf v); cbn [emit ms] in Hb; congruence.
    + rewrite Ej in *. cbn [fst snd sl] in *. rewrite nth_set_nth_neq in Hb; auto. rewrite Hn in Hb. congruence.
Qed.

Lemma on_slot_free : forall st j h,
  free (fst (on_slot st j h)) =
  match nth_error (sl st) j with
  | Some s => mfree (h (mkM s (nreq st) (free st) (queue st) [] (free6 st)))
  | None => free st
  end.
Proof. intros. unfold on_slot. destruct (nth_error (sl st) j); reflexivity. Qed.
Lemma terminate_mfree : forall m, mfree m <= mfree (terminate (upd (set_live false) m)).
Proof.
  intros [s n fr q l f6]. unfold terminate. cbn [emit upd ms mn mfree mq mo mfree6].
  destruct (alloc_pool (set_live false s) && addr_eqb (cur4 (set_live false s)) APool); lia.
Qed.

Lemma aaa_apply_free : forall v j a m,
  (allowed_of a = false -> mfree m <= mfree (aaa_apply v j a m)) /\
  (allowed_of a = true -> mfree (aaa_apply v j a m) = mfree m \/ mfree m = S (mfree (aaa_apply v j a m))).
Proof.
  intros v j a m. unfold aaa_apply. split; intros Ea; rewrite Ea.
  - pose proof (proj2 (proj2 (on_auth_denied_marks v j (match a with AAccIp => true | _ => false end) m))) as D.
    destruct (vrep v && negb false && live (ms (on_auth_result v j false match a with AAccIp => true | _ => false end m))).
    + eapply Nat.le_trans; [|apply terminate_mfree]. rewrite D. auto.
    + rewrite D. auto.
  - rewrite andb_false_r. cbn [andb].
    destruct (on_auth_allowed_free v j (match a with AAccIp => true | _ => false end) m) as (_ & _ & [F|F]); auto.
Qed.

(* the pool: it shrinks only in an allowed AAA answer — one that matches a live session's outstanding request, or one
   that was matched earlier and is applied now (EvAAAHeld) — and then by one *)
Theorem alloc_needs_accept : forall v st e,
  free (fst (step v st e)) < free st ->
  exists k a i, (e = EvAAA k a /\ find_idx (pend_matches v k) (sl st) 0 = Some i \/ e = EvAAAHeld i k a) /\
                allowed_of a = true /\ free st = S (free (fst (step v st e))).
Proof.
  intros v st e Hlt.
  assert (OS : forall j h, (forall s, mfree (mkM s (nreq st) (free st) (queue st) [] (free6 st)) <= mfree (h (mkM s (nreq st) (free st) (queue st) [] (free6 st)))) ->
                           free st <= free (fst (on_slot st j h))).
  { intros j h Hh. unfold on_slot. destruct (nth_error (sl st) j) as [s|]; cbn [fst free]; auto. apply (Hh s). }
  pose proof terminate_mfree as TM.
  destruct e as [j|j f|k a|j t|j|j| |jh k a| ]; cbn [step] in *.
  - exfalso. apply (Nat.lt_irrefl (free st)). eapply Nat.le_lt_trans; [|exact Hlt]. apply OS. intros s.
    unfold open_session. cbn [ms mn mfree mq mo].
    rewrite (proj2 (proj2 (lcp_apply_marks v j (fsm_open (vrfc v)) _ (fsm_open_ok (vrfc v))))).
    rewrite (proj2 (proj2 (lcp_apply_marks v j fsm_up _ fsm_up_ok))). cbn. auto.
  - exfalso. apply (Nat.lt_irrefl (free st)). eapply Nat.le_lt_trans; [|exact Hlt]. apply OS. intros s. cbn [ms].
    destruct (live s); auto.
    pose proof (proj2 (proj2 (handle_frame_marks v j f (mkM s (nreq st) (free st) (queue st) [] (free6 st))))) as F. cbn [mfree] in F.
    destruct (vtd v && in_net (ph s) && existsb is_lcp_down (mo (handle_frame v j f (mkM s (nreq st) (free st) (queue st) [] (free6 st))))).
    + eapply Nat.le_trans; [|apply TM]. rewrite F. auto.
    + rewrite F. auto.
  - destruct (find_idx (pend_matches v k) (sl st) 0) as [j|] eqn:Ef; [|cbn [fst] in Hlt; lia].
    destruct (allowed_of a) eqn:Ea.
    + exists k, a, j. split; [left; split; [reflexivity|exact Ef]|]. split; [auto|].
      rewrite on_slot_free in Hlt |- *.
      destruct (nth_error (sl st) j) as [s|]; [|exfalso; exact (Nat.lt_irrefl _ Hlt)].
      destruct (proj2 (aaa_apply_free v j a (mkM s (nreq st) (free st) (queue st) [] (free6 st))) Ea) as [F|F]; cbn [mfree] in F.
      * exfalso. rewrite F in Hlt. exact (Nat.lt_irrefl _ Hlt).
      * exact F.
    + exfalso. apply (Nat.lt_irrefl (free st)). eapply Nat.le_lt_trans; [|exact Hlt]. apply OS. intros s.
      apply (proj1 (aaa_apply_free v j a _) Ea).
  - exfalso. apply (Nat.lt_irrefl (free st)). eapply Nat.le_lt_trans; [|exact Hlt]. apply OS. intros s.
    rewrite (proj2 (proj2 (handle_timer_marks v j t _))). auto.
  - exfalso. apply (Nat.lt_irrefl (free st)). eapply Nat.le_lt_trans; [|exact Hlt]. apply OS. intros s. cbn [ms].
    destruct (live s); auto.
  - exfalso. apply (Nat.lt_irrefl (free st)). eapply Nat.le_lt_trans; [|exact Hlt]. apply OS. intros s. cbn [ms].
    destruct (live s); auto.
  - exfalso. destruct (queue st) as [|[j g] q]; [cbn [fst] in Hlt; lia|].
    destruct (nth_error (sl st) j) as [sj|]; [destruct (Nat.eqb (gen sj) g)|]; cbn [fst free] in Hlt; lia.
  - destruct (nth_error (sl st) jh) as [sj|] eqn:Ej; [|cbn [fst] in Hlt; exfalso; exact (Nat.lt_irrefl _ Hlt)].
    destruct (held_matches v k sj); [|cbn [fst] in Hlt; exfalso; exact (Nat.lt_irrefl _ Hlt)].
    destruct (allowed_of a) eqn:Ea.
    + exists k, a, jh. split; [right; reflexivity|]. split; [auto|].
      rewrite on_slot_free in Hlt |- *. rewrite Ej in Hlt |- *.
      destruct (proj2 (aaa_apply_free v jh a (mkM sj (nreq st) (free st) (queue st) [] (free6 st))) Ea) as [F|F]; cbn [mfree] in F.
      * exfalso. rewrite F in Hlt. exact (Nat.lt_irrefl _ Hlt).
      * exact F.
    + exfalso. apply (Nat.lt_irrefl (free st)). eapply Nat.le_lt_trans; [|exact Hlt]. apply OS. intros s.
      apply (proj1 (aaa_apply_free v jh a _) Ea).
  - exfalso. destruct (queue st) as [|[j g] q]; [cbn [fst] in Hlt; exact (Nat.lt_irrefl _ Hlt)|].
    destruct (nth_error (sl st) j) as [sj|] eqn:Ej; [destruct (Nat.eqb (gen sj) g)|];
      try (cbn [fst free] in Hlt; exact (Nat.lt_irrefl _ Hlt)).
    rewrite on_slot_free in Hlt. cbn [sl nreq free queue free6] in Hlt. rewrite Ej in Hlt.
    apply (Nat.lt_irrefl (free st)). eapply Nat.le_lt_trans; [|exact Hlt].
    unfold sb_fail. cbn [ms]. destruct (live sj).
    + cbn [emit mfree]. eapply Nat.le_trans; [|apply terminate_mfree]. cbn [emit mfree]. auto.
    + destruct (vsf v); cbn [emit mfree]; auto.
Qed.
