(* C03/Properties.v — property theorems for the PPPoE gate model and the RADIUS decision.

   STATUS (be exact): the full statement
       C03_gate : forall v pool evs i, vrep v = true -> mon_run i (snd (run v (init pool) evs)) mon0 <> None
   ("on every event sequence the monitor never sees a service output for a subscriber whose current
   attempt has no accept") is NOT proved here: the invariant [Proofs.Rb] is written down and its preservation
   was machine-checked for the timer events and for single frame kinds by case analysis, but the whole case
   analysis did not finish inside the time budget.  What is proved at full strength (all states, both
   variants unless said) are the structural gates below; the unbounded statement is replaced by
   [C03_gate_bounded_sweep] (bound in the statement) and by the [_refuted] witnesses for today's code. *)
From OV Require Import Common.Base C03.Model C03.Proofs.

(* Outside the Network/Open phases an IPCP, IPv6CP or IPv6 (RS/NS) frame changes nothing and produces no
   output: internal/ppp/dispatcher.go inNetworkPhase. *)
Theorem C03_ncp_gated_partial : forall v i m c,
  in_net (ph (ms m)) = false ->
  handle_frame v i (FrIpcp c) m = m /\ handle_frame v i (FrIp6cp c) m = m /\
  handle_frame v i FrRs m = m /\ handle_frame v i FrNs m = m.
Proof. exact ncp_frames_gated. Qed.
Print Assumptions C03_ncp_gated_partial.

(* PAP/CHAP credentials are forwarded to AAA only in the Authenticate phase. *)
Theorem C03_auth_phase_only : forall v i m,
  ph (ms m) <> PAuth -> handle_frame v i FrPapReq m = m /\ handle_frame v i FrChapResp m = m.
Proof. exact auth_frames_gated. Qed.
Print Assumptions C03_auth_phase_only.

(* Repaired variant: an AAA answer is applied to a session only if that session is live and has exactly this,
   non-empty, request id outstanding; otherwise the answer changes nothing and outputs nothing. *)
Theorem C03_aaa_correlation : forall v k s,
  vrep v = true -> pend_matches v k s = true -> live s = true /\ pend s = Some k /\ k <> 0.
Proof. exact aaa_needs_pending. Qed.
Print Assumptions C03_aaa_correlation.
Theorem C03_aaa_unmatched_ignored : forall v st k a,
  find_idx (pend_matches v k) (sl st) 0 = None -> step v st (EvAAA k a) = (st, []).
Proof. exact aaa_unmatched_ignored. Qed.
Print Assumptions C03_aaa_unmatched_ignored.

(* Repaired variant: when LCP leaves Opened the outstanding request is forgotten (a late answer can no longer
   match, by C03_aaa_correlation), the phase is Establish (NCP frames are dropped, by C03_ncp_gated_partial) and
   both NCP automata are in a state from which neither a timeout nor a Protocol-Reject makes them send. *)
Theorem C03_renegotiation_reauth_partial : forall v i m,
  vrep v = true ->
  let m' := on_lcp_down v i m in
  pend (ms m') = None /\ pty (ms m') = PtNone /\ ph (ms m') = PEstablish /\
  quietb (ipcp (ms m')) = true /\ quietb (ip6cp (ms m')) = true.
Proof. exact lcp_down_resets. Qed.
Print Assumptions C03_renegotiation_reauth_partial.

(* RADIUS provider + AAA component: the published answer is Allowed exactly when the username was not the
   fallback and the server answered Access-Accept (whole finite table). *)
Theorem C03_radius_allow_iff : forall fb r, aaa_allowed fb r = true <-> fb = false /\ r = SrvAccept.
Proof. exact radius_allow_iff. Qed.
Print Assumptions C03_radius_allow_iff.

(* Bounded: from each of 11 situations (fresh, LCP open, request pending, network, open, renegotiated,
   renegotiated with a request pending, re-authenticating, rejected, terminated, nothing) every sequence of TWO
   events over the whole 87-event alphabet is accepted by the monitor, for both FSM tables. *)
Theorem C03_gate_bounded_sweep : sweep2 (mkV true false) = true /\ sweep2 (mkV true true) = true.
Proof. exact sweep2_repaired. Qed.
Print Assumptions C03_gate_bounded_sweep.

(* Today's code (defective variant) violates the gate: *)
Definition ev_lcp_up := [EvOpen 0; EvFrame 0 (FrLcp (FCreq QGood)); EvFrame 0 (FrLcp (FCack true))].
(* (1) an accept for a request made before an LCP renegotiation is honoured after it *)
Definition w_stale := ev_lcp_up ++ [EvFrame 0 FrChapResp; EvFrame 0 (FrLcp (FCreq QGood)); EvAAA 1 AAcc].
(* (2) an answer with an empty request id authorises a session that never authenticated *)
Definition w_empty := [EvOpen 0; EvAAA 0 AAcc].
(* (3) IPCP keeps retransmitting after LCP went down *)
Definition w_timer := ev_lcp_up ++ [EvFrame 0 FrChapResp; EvAAA 1 AAcc; EvFrame 0 (FrLcp (FCreq QGood)); EvTimer 0 TIpcp].
Theorem C03_gate_refuted : forall rfc,
  Forall (fun evs => mon_run 0 (snd (run (mkV false rfc) (init 2) evs)) mon0 = None) [w_stale; w_empty; w_timer].
Proof. intros []; repeat constructor; vm_compute; reflexivity. Qed.
Print Assumptions C03_gate_refuted.
(* ... and the repaired variant does not, on the same inputs *)
Example C03_gate_witnesses_repaired : forall rfc,
  Forall (fun evs => mon_run 0 (snd (run (mkV true rfc) (init 2) evs)) mon0 <> None) [w_stale; w_empty; w_timer].
Proof. intros []; repeat constructor; vm_compute; discriminate. Qed.
Print Assumptions C03_gate_witnesses_repaired.

(* Not repaired, both variants: a session that was accepted, renegotiated and then REJECTED keeps its pool
   address (free stays 1 of 2) and stays in the component's indexes until PADT / dead-peer. *)
Definition w_reauth_reject := ev_lcp_up ++ [EvFrame 0 FrChapResp; EvAAA 1 AAcc; EvFrame 0 (FrLcp (FCreq QGood));
  EvFrame 0 (FrLcp (FCack true)); EvFrame 0 FrChapResp; EvAAA 2 ARej].
Example C03_reject_after_reauth_keeps_lease : forall rep rfc,
  let st := fst (run (mkV rep rfc) (init 2) w_reauth_reject) in
  free st = 1 /\ option_map live (nth_error (sl st) 0) = Some true /\ option_map alloc_pool (nth_error (sl st) 0) = Some true.
Proof. intros [] []; vm_compute; auto. Qed.
Print Assumptions C03_reject_after_reauth_keeps_lease.

(* non-vacuity: the nominal dual-stack bring-up reaches Open with service outputs and is accepted *)
Definition w_nominal := ev_lcp_up ++ [EvFrame 0 FrChapResp; EvAAA 1 AAcc;
  EvFrame 0 (FrIpcp (FCreq QGood)); EvFrame 0 (FrIpcp (FCack true)); EvFrame 0 (FrIp6cp (FCreq QGood));
  EvFrame 0 (FrIp6cp (FCack true)); EvFrame 0 FrRs].
Example C03_nonvacuous :
  let r := run (mkV true false) (init 2) w_nominal in
  option_map ph (nth_error (sl (fst r)) 0) = Some POpen /\ free (fst r) = 1 /\
  existsb (fun eo => existsb (fun io => service (snd io)) (snd eo)) (snd r) = true /\
  mon_run 0 (snd r) mon0 <> None /\
  pend_matches (mkV true false) 1 (mkS true 1 PAuth fsm0 fsm0 fsm0 true 0 (Some 1) PtChap false false false ANone ANone ANone false) = true.
Proof. vm_compute. repeat split; auto; discriminate. Qed.
Print Assumptions C03_nonvacuous.
