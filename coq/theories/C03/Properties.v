(* C03/Properties.v — property theorems (wrappers only; proofs in the files named beside each group).

   STATUS.  Model.step is the step function of /repo HEAD: repaired session logic ([vrep v = true]: onLCPDown resets,
   empty request ids ignored, and — since c6c869c — a rejected or failed authentication tears the session down inside
   the same answer; [vtd v = true], e9950ea: the session ends when LCP leaves Opened on an authenticated link;
   [vhl v = true], 0709f1b: an answer matched before a teardown is dropped under the session lock) = [mkV true rfc].
   For it, over ALL event lists from the initial state, either FSM table, any pool size:
     PPPoE  C03_gate, C03_unaccepted_inert, C03_reject_clean (+ _step), C03_renegotiation_reauth (+ _events),
            C03_lcp_down_marked and C03_alloc_needs_accept (the monitor's ghost markers tied to compared observables)
     IPoE   C03_ipoe_gate, C03_ipoe_reject_clean, C03_ipoe_unapproved_holds_nothing
   The subscriber slots are fixed at 3 per component (Model.nslots, IpoeModel: three slots): theorems quantify over
   every slot index, the bound is that of the model, not of a theorem.  [vrep v = false] is the code before the
   fixes; only [_refuted] witnesses speak about it. *)
From OV Require Import Common.Base C03.Model C03.Proofs C03.GateDefs C03.GateInv C03.GateMain C03.GateReject C03.GateObs C03.GateLeak C03.GateLeakMain C03.GateLeakV4.

(* Outside the Network/Open phases an IPCP, IPv6CP or IPv6 (RS / NS / DHCPv6 SOLICIT / DHCPv6 REQUEST) frame changes
   nothing and produces no output: internal/ppp/dispatcher.go inNetworkPhase.  (Every state, every variant; the
   name keeps its historic suffix.) *)
Theorem C03_ncp_gated_partial : forall v i m c,
  in_net (ph (ms m)) = false ->
  handle_frame v i (FrIpcp c) m = m /\ handle_frame v i (FrIp6cp c) m = m /\
  handle_frame v i FrRs m = m /\ handle_frame v i FrNs m = m /\
  handle_frame v i FrDh6Sol m = m /\ handle_frame v i FrDh6Req m = m.
Proof. exact ncp_frames_gated. Qed.
Print Assumptions C03_ncp_gated_partial.

(* PAP/CHAP credentials are forwarded to AAA only in the Authenticate phase. *)
Theorem C03_auth_phase_only : forall v i m,
  ph (ms m) <> PAuth -> handle_frame v i FrPapReq m = m /\ handle_frame v i FrChapResp m = m.
Proof. exact auth_frames_gated. Qed.
Print Assumptions C03_auth_phase_only.

(* Repaired variant: an AAA answer is applied to a session only if that session is live and has exactly this,
   non-empty, request id outstanding; otherwise the answer changes nothing and outputs nothing. *)
Theorem C03_aaa_correlation : forall v k s,
  vrep v = true -> pend_matches v k s = true -> live s = true /\ pend s = Some k /\ k <> 0.
Proof. exact aaa_needs_pending. Qed.
Print Assumptions C03_aaa_correlation.
Theorem C03_aaa_unmatched_ignored : forall v st k a,
  find_idx (pend_matches v k) (sl st) 0 = None -> step v st (EvAAA k a) = (st, []).
Proof. exact aaa_unmatched_ignored. Qed.
Print Assumptions C03_aaa_unmatched_ignored.

(* Repaired variant: when LCP leaves Opened the outstanding request is forgotten (a late answer can no longer
   match, by C03_aaa_correlation), the phase is Establish (NCP frames are dropped, by C03_ncp_gated_partial) and
   both NCP automata are in a state from which neither a timeout nor a Protocol-Reject makes them send. *)
Theorem C03_lcp_down_resets : forall v i m,
  vrep v = true ->
  let m' := on_lcp_down v i m in
  pend (ms m') = None /\ pty (ms m') = PtNone /\ ph (ms m') = PEstablish /\
  quietb (ipcp (ms m')) = true /\ quietb (ip6cp (ms m')) = true.
Proof. exact lcp_down_resets. Qed.
Print Assumptions C03_lcp_down_resets.

(* RADIUS provider + AAA component: the published answer is Allowed exactly when the username was not the
   fallback and the server answered Access-Accept (whole finite table). *)
Theorem C03_radius_allow_iff : forall fb r, aaa_allowed fb r = true <-> fb = false /\ r = SrvAccept.
Proof. exact radius_allow_iff. Qed.
Print Assumptions C03_radius_allow_iff.

(* ---------------------------------------------------------------------------------------------------------
   The unbounded theorems (repaired session logic, either FSM table, any pool size, EVERY event list). *)

(* C03_gate.  For every history and every subscriber slot the trace monitor never flags: every service output
   (any IPCP/IPv6CP packet, RA/NA, pool allocation, lifecycle-Active, southbound add) for the slot is preceded
   by an allowed AAA answer for the request that slot most recently published, with no authentication reset
   (new PADR, LCP leaving Opened, termination) in between. *)
Theorem C03_gate : forall v pool p6 ppd evs i, vrep v = true -> vhl v = true ->
  mon_run i (snd (run v (init3 pool p6 ppd) evs)) mon0 <> None.
Proof. exact GateMain.gate. Qed.
Print Assumptions C03_gate.
Example C03_gate_nonvacuous :
  let r := run (mkV true false) (init 2) (
    [EvOpen 0; EvFrame 0 (FrLcp (FCreq QGood)); EvFrame 0 (FrLcp (FCack true)); EvFrame 0 FrChapResp; EvAAA 1 AAcc;
     EvFrame 0 (FrIpcp (FCreq QGood)); EvFrame 0 (FrIpcp (FCack true)); EvFrame 0 FrRs]) in
  vrep (mkV true false) = true /\ no_service 0 (snd r) = false /\ mon_run 0 (snd r) mon0 <> None /\
  (* the monitor is not trivially satisfied: the same outputs without the accept are flagged *)
  mon_run 0 [(EvFrame 0 FrRs, [(0, ORa)])] mon0 = None.
Proof. vm_compute. repeat split; auto; discriminate. Qed.
Print Assumptions C03_gate_nonvacuous.

(* C03_unaccepted_inert (was C03_reject_clean_partial).  [ever_ok i tr mon0 false = false]: since slot i's last PADR
   no allowed AAA answer has arrived for a request it had outstanding — the answer was a reject, an error, is still
   missing, belonged to another request, or nothing was ever asked.  Then, after ANY history, the slot's session holds
   nothing (no pool lease, no IPv4 address, not in Network/Open) and both NCP automata are in Initial/Starting/Closed. *)
Theorem C03_unaccepted_inert : forall v pool p6 ppd evs i s, vrep v = true -> vhl v = true ->
  nth_error (sl (fst (run v (init3 pool p6 ppd) evs))) i = Some s ->
  ever_ok i (snd (run v (init3 pool p6 ppd) evs)) mon0 false = false ->
  inert s = true.
Proof. exact GateMain.reject_clean. Qed.
Print Assumptions C03_unaccepted_inert.
Definition ev_pending := [EvOpen 0; EvFrame 0 (FrLcp (FCreq QGood)); EvFrame 0 (FrLcp (FCack true)); EvFrame 0 FrChapResp].
Example C03_unaccepted_inert_nonvacuous :
  let v := mkV true false in
  (* error answers, missing decision, answer for another request: hypothesis met *)
  Forall (fun evs => ever_ok 0 (snd (run v (init 2) evs)) mon0 false = false)
         [ev_pending ++ [EvAAA 1 ARej]; ev_pending ++ [EvAAA 1 AErr]; ev_pending; ev_pending ++ [EvAAA 7 AAcc]] /\
  option_map pend (nth_error (sl (fst (run v (init 2) ev_pending))) 0) = Some (Some 1) /\
  (* an accept falsifies the hypothesis and the session then does hold an address *)
  ever_ok 0 (snd (run v (init 2) (ev_pending ++ [EvAAA 1 AAcc]))) mon0 false = true /\
  option_map inert (nth_error (sl (fst (run v (init 2) (ev_pending ++ [EvAAA 1 AAcc])))) 0) = Some false.
Proof.
  intros v. repeat split; repeat (apply Forall_cons; [|]); try apply Forall_nil;
    timeout 20 (vm_compute; reflexivity).
Qed.
Print Assumptions C03_unaccepted_inert_nonvacuous.

(* C03_reject_clean.  After ANY history, when a reject or error answer arrives for the request a live session has
   outstanding (the only way an answer has any effect: C03_aaa_correlation, C03_aaa_unmatched_ignored), then in that
   very step the pool gets back the lease the session held ([lease s]: 1 iff it holds a pool lease that is its current
   address; [add6]: the IA_NA addresses and delegated prefixes s.IPv6Address / s.IPv6Prefix or a named provider lease
   refer to, Model.released) and the session is out of the indexes; and whatever happens afterwards — client frames, timers, further
   answers, dataplane completions — it stays out until the subscriber's next PADR.  With C03_unaccepted_inert
   (never-accepted attempts, incl. missing decisions, hold nothing) and C03_gate (nothing is served meanwhile) this is
   the "reject / error / missing decision leaves nothing" clause for the step function HEAD runs.
   Not claimed: a session whose address was replaced by a later Framed-IP accept while it still held a pool lease does
   not return that lease in terminate ([lease] = 0 there) — allocator conservation, C02. *)
Theorem C03_reject_clean : forall v pool p6 ppd evs1 k a evs2 i, vrep v = true -> allowed_of a = false ->
  find_idx (pend_matches v k) (sl (fst (run v (init3 pool p6 ppd) evs1))) 0 = Some i ->
  Forall (fun e => e <> EvOpen i) evs2 ->
  let st1 := fst (run v (init3 pool p6 ppd) evs1) in
  let st2 := fst (step v st1 (EvAAA k a)) in
  exists s s3,
    nth_error (sl st1) i = Some s /\ live s = true /\ pend s = Some k /\
    free st2 = free st1 + lease s /\ free6 st2 = add6 (free6 st1) s /\
    nth_error (sl (fst (run v st2 evs2))) i = Some s3 /\ live s3 = false.
Proof. exact GateReject.reject_clean_run. Qed.
Print Assumptions C03_reject_clean.
(* the single step, from EVERY component state (reachable or not) *)
Theorem C03_reject_clean_step : forall v st k a i, vrep v = true -> allowed_of a = false ->
  find_idx (pend_matches v k) (sl st) 0 = Some i ->
  exists s s',
    nth_error (sl st) i = Some s /\ live s = true /\ pend s = Some k /\
    nth_error (sl (fst (step v st (EvAAA k a)))) i = Some s' /\
    live s' = false /\ ph s' = PTerminate /\
    free (fst (step v st (EvAAA k a))) = free st + lease s /\
    free6 (fst (step v st (EvAAA k a))) = add6 (free6 st) s.
Proof. exact GateReject.reject_step_clean. Qed.
Print Assumptions C03_reject_clean_step.
Definition ev_reauth := ev_pending ++ [EvAAA 1 AAcc; EvFrame 0 (FrLcp (FCreq QGood)); EvFrame 0 (FrLcp (FCack true));
                                       EvFrame 0 FrChapResp].
Example C03_reject_clean_nonvacuous :
  let v := mkV3 true false false in   (* before e9950ea: without the link-end teardown a lease can coexist with an outstanding request *)
  let st := fst (run v (init 2) ev_reauth) in
  (* accepted, renegotiated, second request outstanding, lease held: the hypotheses are met ... *)
  find_idx (pend_matches v 2) (sl st) 0 = Some 0 /\ option_map lease (nth_error (sl st) 0) = Some 1 /\ free st = 1 /\
  (* ... the reject returns the lease and removes the session, an accept does neither *)
  free (fst (step v st (EvAAA 2 ARej))) = 2 /\ option_map live (nth_error (sl (fst (step v st (EvAAA 2 ARej)))) 0) = Some false /\
  free (fst (step v st (EvAAA 2 AAcc))) = 1 /\ option_map live (nth_error (sl (fst (step v st (EvAAA 2 AAcc)))) 0) = Some true /\
  (* the code before c6c869c / 8b06a36 kept lease and session on this path *)
  free (fst (run (mkV3 false false false) (init 2) (ev_reauth ++ [EvAAA 2 ARej]))) = 1 /\
  option_map live (nth_error (sl (fst (run (mkV3 false false false) (init 2) (ev_reauth ++ [EvAAA 2 ARej])))) 0) = Some true.
Proof. intros v st. repeat split; timeout 20 (vm_compute; reflexivity). Qed.
Print Assumptions C03_reject_clean_nonvacuous.

(* C03_link_end_teardown ([vtd v = true] = /repo HEAD since e9950ea; [vtd = false] = the code before it, fixed finding
   pppoe-reneg-keeps-dataplane).  From EVERY state: a frame that makes LCP leave Opened (marker GLcpDown — emitted whenever
   the compared LCP state leaves Opened, C03_lcp_down_marked) while the session is in Network/Open removes the session in
   the same step (terminate: lease released, dataplane session deleted, Released published); by C03_reject_clean's
   continuation lemma it stays removed until the next PADR.  So lease and dataplane entry never outlive the
   authenticated link, re-authentication of an accepted session does not exist any more (a missing answer cannot keep
   anything), and a Framed-IP accept can no longer land on a session that holds a pool lease. *)
Theorem C03_link_end_teardown : forall v st i f s, vtd v = true ->
  nth_error (sl st) i = Some s -> live s = true -> in_net (ph s) = true ->
  In (i, GLcpDown) (snd (step v st (EvFrame i f))) ->
  exists s', nth_error (sl (fst (step v st (EvFrame i f)))) i = Some s' /\ live s' = false /\ ph s' = PTerminate.
Proof. exact GateReject.link_end_teardown_step. Qed.
Print Assumptions C03_link_end_teardown.
Example C03_link_end_teardown_nonvacuous :
  let evs := ev_pending ++ [EvAAA 1 AAcc; EvFrame 0 (FrIpcp (FCreq QGood)); EvFrame 0 (FrIpcp (FCack true))] in
  let e := EvFrame 0 (FrLcp (FCreq QGood)) in
  (* open, lease held; the peer renegotiates: with the fix the session is gone and the lease is back ... *)
  free (fst (run (mkV true false) (init 2) evs)) = 1 /\
  free (fst (run (mkV true false) (init 2) (evs ++ [e]))) = 2 /\
  option_map live (nth_error (sl (fst (run (mkV true false) (init 2) (evs ++ [e])))) 0) = Some false /\
  (* ... before e9950ea it stayed, in Establish, with its lease (and its dataplane session) *)
  free (fst (run (mkV3 true false false) (init 2) (evs ++ [e]))) = 1 /\
  option_map (fun s => (live s, ph s, alloc_pool s)) (nth_error (sl (fst (run (mkV3 true false false) (init 2) (evs ++ [e])))) 0)
    = Some (true, PEstablish, true).
Proof. intros evs e. repeat split; timeout 20 (vm_compute; reflexivity). Qed.
Print Assumptions C03_link_end_teardown_nonvacuous.

(* IPv6 leases of a PPPoE session (IPv6 profile with an IA_NA pool and a PD pool; [init3 pool p6 ppd]).  C03_gate counts
   every address or prefix taken from the registry as a service output (ghost GAlloc, emitted by Model.alloc6 and only
   there), C03_unaccepted_inert says a never-accepted session has taken none ([holds_nothing] includes them), and
   C03_reject_clean(_step) gives back what terminate releases ([add6]).  What is NOT proved: that on the repaired code a
   torn-down session never keeps an IPv6 lease ([leaks] = false) — on both sides a monitor checks it at every teardown
   (harness: the registry holds nothing for the session id; driver: Model.leaks), see notes.  Before e9950ea it was false: *)
Definition ev_open6 := ev_pending ++ [EvAAA 1 AAcc; EvFrame 0 (FrIp6cp (FCreq QGood)); EvFrame 0 (FrIp6cp (FCack true))].
Example C03_ipv6_leases_nonvacuous :
  let v := mkV true false in
  let st := fst (run v (init3 2 16 16) ev_open6) in
  (* nothing before the accept, not even for a DHCPv6 REQUEST; the IA_NA address at the accept *)
  free6 (fst (run v (init3 2 16 16) ev_pending)) = (16, 16) /\
  step v (fst (run v (init3 2 16 16) ev_pending)) (EvFrame 0 FrDh6Req) = (fst (run v (init3 2 16 16) ev_pending), []) /\
  free6 st = (15, 16) /\
  (* the prefix at the first DHCPv6 message; the REPLY binds both in the dataplane; PADT returns everything *)
  map snd (snd (step v st (EvFrame 0 FrDh6Sol))) = [GAlloc; ODh6Adv] /\
  map snd (snd (step v st (EvFrame 0 FrDh6Req))) = [GAlloc; ODh6Reply; OSb6Add; OSbPdAdd] /\
  free6 (fst (run v st [EvFrame 0 FrDh6Sol; EvFrame 0 FrDh6Req])) = (15, 15) /\
  free6 (fst (run v st [EvFrame 0 FrDh6Sol; EvFrame 0 FrDh6Req; EvPadt 0])) = (16, 16) /\
  (* an exhausted IA_NA pool: the session opens without an address and only the prefix is bound *)
  map snd (snd (step v (fst (run v (init3 2 0 16) ev_open6)) (EvFrame 0 FrDh6Req))) = [GAlloc; ODh6Reply; OSbPdAdd] /\
  free6 (fst (run v (init3 2 0 16) (ev_open6 ++ [EvFrame 0 FrDh6Req; EvPadt 0]))) = (0, 16).
Proof. intros v st. repeat match goal with |- _ /\ _ => split end; timeout 20 (vm_compute; reflexivity). Qed.
Print Assumptions C03_ipv6_leases_nonvacuous.
(* neither an address nor a prefix resolves (both pools empty): the DHCPv6 message is not answered and nothing changes
   (forwardDHCPv6 since e76425b); RS is still answered — the session is Open *)
Example C03_dh6_unresolved_nonvacuous :
  let v := mkV true false in
  let st := fst (run v (init3 2 0 0) ev_open6) in
  option_map (fun s => (ph s, ip6cp_open s)) (nth_error (sl st) 0) = Some (POpen, true) /\
  step v st (EvFrame 0 FrDh6Sol) = (st, []) /\ step v st (EvFrame 0 FrDh6Req) = (st, []) /\
  map snd (snd (step v st (EvFrame 0 FrRs))) = [ORa].
Proof. intros v st. repeat match goal with |- _ /\ _ => split end; timeout 20 (vm_compute; reflexivity). Qed.
Print Assumptions C03_dh6_unresolved_nonvacuous.
(* before e9950ea (no link-end teardown): the re-authentication built a new AllocCtx that does not know the session's
   IA_NA address, the next DHCPv6 REQUEST takes a second one and rebinds, and the teardown returns only that one *)
Example C03_ipv6_reneg_leak_refuted :
  let evs := ev_open6 ++ [EvFrame 0 (FrLcp (FCreq QGood)); EvFrame 0 (FrLcp (FCack true)); EvFrame 0 FrChapResp; EvAAA 2 AAcc;
                          EvFrame 0 (FrIp6cp (FCreq QGood)); EvFrame 0 (FrIp6cp (FCack true)); EvFrame 0 FrDh6Req; EvPadt 0] in
  free6 (fst (run (mkV3 true false false) (init3 2 16 16) evs)) = (15, 16) /\
  option_map leaks (nth_error (sl (fst (run (mkV3 true false false) (init3 2 16 16) evs))) 0) = Some true /\
  free6 (fst (run (mkV true false) (init3 2 16 16) evs)) = (16, 16) /\
  option_map leaks (nth_error (sl (fst (run (mkV true false) (init3 2 16 16) evs))) 0) = Some false.
Proof. intros evs. repeat match goal with |- _ /\ _ => split end; timeout 20 (vm_compute; reflexivity). Qed.
Print Assumptions C03_ipv6_reneg_leak_refuted.

(* Held answers ([EvAAAHeld i k a]: the answer was matched to slot i's session before the previous event was handled and
   gets the session lock only now; [vhl v = true] = /repo HEAD since 0709f1b; [vhl = false] = the code
   before it, fixed finding pppoe-aaa-answer-after-teardown).  C03_gate, C03_unaccepted_inert and
   C03_renegotiation_reauth(_events) quantify over histories that contain held answers and need [vhl].  Without it: *)
Example C03_held_answer_refuted :
  let evs := ev_pending ++ [EvPadt 0; EvAAAHeld 0 1 AAcc] in
  (* before 0709f1b: the accept is applied to the session PADT has just torn down: service outputs, leases nobody returns *)
  mon_run 0 (snd (run (mkV3 true false false) (init3 2 16 16) evs)) mon0 = None /\
  free (fst (run (mkV3 true false false) (init3 2 16 16) evs)) = 1 /\
  free6 (fst (run (mkV3 true false false) (init3 2 16 16) evs)) = (15, 16) /\
  option_map live (nth_error (sl (fst (run (mkV3 true false false) (init3 2 16 16) evs))) 0) = Some false /\
  (* with the fix the held answer is dropped ... *)
  mon_run 0 (snd (run (mkV true false) (init3 2 16 16) evs)) mon0 <> None /\
  free (fst (run (mkV true false) (init3 2 16 16) evs)) = 2 /\
  snd (step (mkV true false) (fst (run (mkV true false) (init3 2 16 16) (ev_pending ++ [EvPadt 0]))) (EvAAAHeld 0 1 AAcc)) = [] /\
  (* ... and one that still finds its session live with the request outstanding is applied as usual *)
  option_map ph (nth_error (sl (fst (run (mkV true false) (init3 2 16 16) (ev_pending ++ [EvTimer 0 TLcp; EvAAAHeld 0 1 AAcc])))) 0)
    = Some PNetwork.
Proof.
  intros evs. repeat match goal with |- _ /\ _ => split end; try (timeout 20 (vm_compute; reflexivity)).
  vm_compute. discriminate.
Qed.
Print Assumptions C03_held_answer_refuted.

(* The dataplane add fails ([EvSbFail]: onVPPSessionCreated with an error -> tearDownSessionAfterVPPFailure).  From EVERY
   state, every variant: when the oldest queued add belongs to a live session, that session is out of the indexes in the
   same step and the pools get back what terminate releases.  C03_gate, C03_unaccepted_inert, C03_reject_clean's
   continuation, C03_lcp_down_marked and C03_alloc_needs_accept quantify over histories containing this event. *)
Theorem C03_dataplane_failure_teardown : forall v st i g q s,
  queue st = (i, g) :: q -> nth_error (sl st) i = Some s -> gen s = g -> live s = true ->
  exists s',
    nth_error (sl (fst (step v st EvSbFail))) i = Some s' /\
    live s' = false /\ ph s' = PTerminate /\
    free (fst (step v st EvSbFail)) = free st + lease s /\
    free6 (fst (step v st EvSbFail)) = add6 (free6 st) s /\
    queue (fst (step v st EvSbFail)) = q.
Proof. exact GateReject.sb_fail_step_clean. Qed.
Print Assumptions C03_dataplane_failure_teardown.
Example C03_dataplane_failure_nonvacuous :
  let v := mkV true false in
  let evs := ev_open6 ++ [EvFrame 0 (FrIpcp (FCreq QGood)); EvFrame 0 (FrIpcp (FCack true)); EvFrame 0 FrDh6Req] in
  let st := fst (run v (init3 2 16 16) evs) in
  (* Open, add queued, IPv4 + IA_NA + prefix held: the hypotheses are met ... *)
  queue st = [(0, 1)] /\ option_map (fun s => (live s, gen s, ph s)) (nth_error (sl st) 0) = Some (true, 1, POpen) /\
  free st = 1 /\ free6 st = (15, 15) /\
  (* ... the failure report ends the session and returns all three leases; the next frame is not served *)
  free (fst (step v st EvSbFail)) = 2 /\ free6 (fst (step v st EvSbFail)) = (16, 16) /\
  map snd (snd (step v st EvSbFail)) = [OLifeR; OSbDel; OLifeR; GLcpDown] /\
  snd (step v (fst (step v st EvSbFail)) (EvFrame 0 FrRs)) = [] /\
  (* the success report keeps it *)
  free (fst (step v st EvSbOk)) = 1 /\ map snd (snd (step v st EvSbOk)) = [OProg] /\
  (* a failure report with nothing queued changes nothing *)
  step v (fst (step v st EvSbOk)) EvSbFail = (fst (step v st EvSbOk), []) /\
  (* a failure report for a session PADT has already torn down: ignored; the code before 7b3d79c ([vsf] = false, fixed
     finding pppoe-vpp-failure-after-teardown) ran the teardown a second time *)
  snd (step v (fst (step v st (EvPadt 0))) EvSbFail) = [] /\
  map snd (snd (step (pre_7b3d79c false) (fst (step v st (EvPadt 0))) EvSbFail)) = [OLifeR; OSbDel; OLifeR].
Proof. intros v evs st. repeat match goal with |- _ /\ _ => split end; timeout 20 (vm_compute; reflexivity). Qed.
Print Assumptions C03_dataplane_failure_nonvacuous.

(* Trying to prove "on the repaired code a torn-down session owns nothing ([leaks] = false)" refuted it for the code
   before 277708f ([vnm] = false, fixed finding pppoe-dhcpv6-rereserve-drops-pool-name): subscriber 1 solicits while the only IA_NA
   address is taken (a prefix is resolved and leased with its pool name), the address comes back, it solicits again: the
   address is resolved, the provider reserves both again and the prefix lease forgets its pool; PADT before any REPLY then
   returned the address but not the prefix.  Since 277708f ([vnm]) it returns both.
   The general theorem for the repaired code is C03_teardown_no_leak below. *)
Definition ev_relate :=
  let up i k := [EvOpen i; EvFrame i (FrLcp (FCreq QGood)); EvFrame i (FrLcp (FCack true)); EvFrame i FrChapResp; EvAAA k AAcc;
                 EvFrame i (FrIp6cp (FCreq QGood)); EvFrame i (FrIp6cp (FCack true))] in
  up 0 1 ++ up 1 2 ++ [EvFrame 1 FrDh6Sol; EvPadt 0; EvFrame 1 FrDh6Sol; EvPadt 1].
Example C03_teardown_leak_pre_277708f_refuted :
  let head := pre_277708f false in
  free6 (fst (run head (init3 2 1 16) ev_relate)) = (1, 15) /\
  option_map leaks (nth_error (sl (fst (run head (init3 2 1 16) ev_relate))) 1) = Some true /\
  free6 (fst (run (mkV true false) (init3 2 1 16) ev_relate)) = (1, 16) /\
  option_map leaks (nth_error (sl (fst (run (mkV true false) (init3 2 1 16) ev_relate))) 1) = Some false.
Proof. intros head. repeat match goal with |- _ /\ _ => split end; timeout 20 (vm_compute; reflexivity). Qed.
Print Assumptions C03_teardown_leak_pre_277708f_refuted.

(* C03_teardown_no_leak (GateLeak.v, GateLeakMain.v): teardown returns every IPv6 lease on the repaired code.
   [good v]: vrep, vhl (0709f1b), vtd (e9950ea), vnm (277708f) — /repo HEAD, either FSM table.  After ANY history from any
   pool sizes, every session of every slot — live, torn down, or at the very step of its teardown — has per IPv6 family
   taken nothing, or exactly one address / prefix to which s.IPv6Address / s.IPv6Prefix or a provider lease that knows its
   pool refers: so terminate + ReleaseLease return exactly what it took ([xn = released]: the IPv6 disjuncts of
   Model.leaks are false whenever the session is torn down), and a live session that is not in Network/Open has no IPv6
   lease state at all.  Ingredients: GateInv.Inv (an accept needs Authenticate), "in Network/Open with LCP Opened a handler
   stays there or emits GLcpDown" (then [vtd] tears the session down), "Timeout in LCP Opened does nothing", "the accept
   ends in Network/Open", and the preservation of the per-family invariant by DHCPv6 with late resolution and
   re-reservation.  Each of vtd / vnm is needed: C03_ipv6_reneg_leak_refuted, C03_teardown_leak_pre_277708f_refuted.
   The IPv4 disjunct of [leaks]: C03_no_leaks below. *)
Theorem C03_teardown_no_leak : forall v pool p6 ppd evs i s, good v ->
  nth_error (sl (fst (run v (init3 pool p6 ppd) evs))) i = Some s ->
  xn (na (v6 s)) = released (na (v6 s)) /\ xn (pd (v6 s)) = released (pd (v6 s)) /\
  (live s = true -> in_net (ph s) = false -> v6 s = v60).
Proof. exact GateLeakMain.teardown_no_leak. Qed.
Print Assumptions C03_teardown_no_leak.
Example C03_teardown_no_leak_nonvacuous :
  good (mkV true false) /\ good (mkV true true) /\
  (* the history of C03_teardown_leak_pre_277708f_refuted: subscriber 1 is torn down holding a prefix known only to the
     provider's lease; it took one and one is returned *)
  option_map (fun s => (live s, xn (pd (v6 s)), released (pd (v6 s)), xs (pd (v6 s))))
    (nth_error (sl (fst (run (mkV true false) (init3 2 1 16) ev_relate))) 1) = Some (false, 1, 1, None) /\
  (* an Open session with both leases bound by a REPLY *)
  option_map (fun s => (live s, xn (na (v6 s)), released (na (v6 s)), xn (pd (v6 s)), released (pd (v6 s))))
    (nth_error (sl (fst (run (mkV true false) (init3 2 16 16) (ev_open6 ++ [EvFrame 0 FrDh6Req])))) 0) = Some (true, 1, 1, 1, 1).
Proof.
  split; [repeat split|]. split; [repeat split|]. split; timeout 20 (vm_compute; reflexivity).
Qed.
Print Assumptions C03_teardown_no_leak_nonvacuous.

(* C03_no_leaks (GateLeakV4.v): the whole [Model.leaks] predicate, i.e. also the IPv4 pool lease.  On the repaired code,
   after ANY history, no session of any slot owns anything its teardown does not (did not) return: no pool lease shadowed
   by another s.IPv4Address (a Framed-IP of a second accept, or what onIPCPUp copies from the client's acknowledged
   Configure-Request: always the assigned address), no IA_NA address, no delegated prefix.  This is the statement both
   teardown monitors check at run time (harness: the registry holds nothing for the session id; driver: Model.leaks). *)
Theorem C03_no_leaks : forall v pool p6 ppd evs i s, good v ->
  nth_error (sl (fst (run v (init3 pool p6 ppd) evs))) i = Some s -> leaks s = false.
Proof. exact GateLeakV4.no_leaks. Qed.
Print Assumptions C03_no_leaks.

(* C03_renegotiation_reauth.  Split any history at a point where slot i's monitor holds no accept (mn1; in
   particular right after LCP left Opened, [C03_lcp_down_clears_accept]).  If in the continuation no allowed AAA
   answer arrives for the request the slot has most recently published, the continuation contains no service
   output (no IPCP/IPv6CP packet, RA/NA, allocation, activation, southbound add) for the slot. *)
Theorem C03_renegotiation_reauth : forall v pool p6 ppd evs1 evs2 i mn1, vrep v = true -> vhl v = true ->
  mon_run i (snd (run v (init3 pool p6 ppd) evs1)) mon0 = Some mn1 -> mok mn1 = false ->
  accepted_in i (snd (run v (fst (run v (init3 pool p6 ppd) evs1)) evs2)) mn1 = false ->
  no_service i (snd (run v (fst (run v (init3 pool p6 ppd) evs1)) evs2)) = true.
Proof. exact GateMain.reauth. Qed.
Print Assumptions C03_renegotiation_reauth.
Theorem C03_lcp_down_clears_accept : forall v pool p6 ppd evs e i mn1,
  mon_run i (snd (run v (init3 pool p6 ppd) (evs ++ [e]))) mon0 = Some mn1 ->
  lcp_down_for i (snd (step v (fst (run v (init3 pool p6 ppd) evs)) e)) = true -> mok mn1 = false.
Proof. exact GateMain.lcp_down_clears. Qed.
Print Assumptions C03_lcp_down_clears_accept.
(* the same on events only: LCP of slot i leaves Opened at event e; as long as no allowed AAA answer is
   delivered afterwards, nothing the client or the timers do produces a service output for the slot *)
Theorem C03_renegotiation_reauth_events : forall v pool p6 ppd evs1 e evs2 i, vrep v = true -> vhl v = true ->
  lcp_down_for i (snd (step v (fst (run v (init3 pool p6 ppd) evs1)) e)) = true ->
  (forall e', In e' evs2 -> not_allowed e') ->      (* no allowed answer, delivered at once or held *)
  no_service i (snd (run v (fst (run v (init3 pool p6 ppd) (evs1 ++ [e]))) evs2)) = true.
Proof. exact GateMain.reauth_events. Qed.
Print Assumptions C03_renegotiation_reauth_events.
Example C03_renegotiation_reauth_nonvacuous :
  let v := mkV3 true false false in   (* the code before e9950ea; with [vtd] the renegotiation of an open session ends it, below *)
  let evs1 := ev_pending ++ [EvAAA 1 AAcc; EvFrame 0 (FrIpcp (FCreq QGood)); EvFrame 0 (FrIpcp (FCack true))] in
  let e := EvFrame 0 (FrLcp (FCreq QGood)) in
  let st1 := fst (run v (init 2) (evs1 ++ [e])) in
  let probe := [EvFrame 0 (FrIpcp (FCreq QGood)); EvTimer 0 TIpcp; EvFrame 0 FrRs] in
  (* the session was Open and served; the renegotiation is seen as LCP down *)
  option_map ph (nth_error (sl (fst (run v (init 2) evs1))) 0) = Some POpen /\
  lcp_down_for 0 (snd (step v (fst (run v (init 2) evs1)) e)) = true /\
  (* re-authentication rejected: hypotheses met *)
  (forall e', In e' ([EvFrame 0 (FrLcp (FCack true)); EvFrame 0 FrChapResp; EvAAA 2 ARej] ++ probe) -> not_allowed e') /\
  (* re-authentication accepted: service resumes, so the conclusion does depend on the hypothesis *)
  no_service 0 (snd (run v st1 ([EvFrame 0 (FrLcp (FCack true)); EvFrame 0 FrChapResp; EvAAA 2 AAcc] ++ probe))) = false /\
  (* the code before 8b06a36: accepted, renegotiated before IPCP converged: the probes are served without any new accept *)
  no_service 0 (snd (run (mkV3 false false false) (fst (run (mkV3 false false false) (init 2) (ev_pending ++ [EvAAA 1 AAcc; e]))) probe)) = false.
Proof.
  intros v evs1 e st1 probe. repeat split; try (timeout 20 (vm_compute; reflexivity)).
  intros e' H. cbn [app In] in H.
  repeat (destruct H as [H|H]; [subst e'; cbn; auto|]). destruct H.
Qed.
Print Assumptions C03_renegotiation_reauth_nonvacuous.

(* The monitor's ghost markers, tied to what the harness compares at every step (GateObs.v; every state, every
   variant).  (1) Whenever a step moves slot i's LCP out of Opened — other than by the slot's own PADR / PADT /
   dead-peer event, which reset the monitor as inputs — the step's outputs contain GLcpDown for the slot: the monitor
   cannot miss an authentication reset.  The per-slot LCP state is part of the status line the correspondence check
   compares with the real FSM after every event, and the Go-side monitor resets on exactly that observable. *)
Theorem C03_lcp_down_marked : forall v st e i,
  e <> EvOpen i -> e <> EvPadt i -> e <> EvDead i ->
  lcp_open_at st i = true -> lcp_open_at (fst (step v st e)) i = false ->
  In (i, GLcpDown) (snd (step v st e)).
Proof. exact GateObs.lcp_down_marked. Qed.
Print Assumptions C03_lcp_down_marked.
(* (2) Allocation, without the ghost GAlloc: the number of free pool addresses (compared at every step) goes down only
   in an allowed AAA answer — one that matches a live session's outstanding request, or one matched earlier and applied
   now (EvAAAHeld) — and then by exactly one. *)
Theorem C03_alloc_needs_accept : forall v st e,
  free (fst (step v st e)) < free st ->
  exists k a i, (e = EvAAA k a /\ find_idx (pend_matches v k) (sl st) 0 = Some i \/ e = EvAAAHeld i k a) /\
                allowed_of a = true /\ free st = S (free (fst (step v st e))).
Proof. exact GateObs.alloc_needs_accept. Qed.
Print Assumptions C03_alloc_needs_accept.
Example C03_observables_nonvacuous :
  let v := mkV true false in
  let st := fst (run v (init 2) (ev_pending ++ [EvAAA 1 AAcc])) in
  lcp_open_at st 0 = true /\ lcp_open_at (fst (step v st (EvFrame 0 (FrLcp (FCreq QGood))))) 0 = false /\
  free (fst (run v (init 2) ev_pending)) = 2 /\ free st = 1.
Proof. intros v st. repeat split; timeout 20 (vm_compute; reflexivity). Qed.
Print Assumptions C03_observables_nonvacuous.

(* Bounded: from each of 11 situations (fresh, LCP open, request pending, network, open, renegotiated,
   renegotiated with a request pending, re-authenticating, rejected, terminated, nothing) every sequence of TWO
   events over the whole 97-event alphabet is accepted by the monitor, for both FSM tables. *)
Theorem C03_gate_bounded_sweep : sweep2 (mkV true false) = true /\ sweep2 (mkV true true) = true.
Proof. exact sweep2_repaired. Qed.
Print Assumptions C03_gate_bounded_sweep.

(* The code before the fixes (vrep = false; fixed in 8b06a36 and 99f4417) violated the gate: *)
Definition ev_lcp_up := [EvOpen 0; EvFrame 0 (FrLcp (FCreq QGood)); EvFrame 0 (FrLcp (FCack true))].
(* (1) an accept for a request made before an LCP renegotiation is honoured after it *)
Definition w_stale := ev_lcp_up ++ [EvFrame 0 FrChapResp; EvFrame 0 (FrLcp (FCreq QGood)); EvAAA 1 AAcc].
(* (2) an answer with an empty request id authorises a session that never authenticated *)
Definition w_empty := [EvOpen 0; EvAAA 0 AAcc].
(* (3) IPCP keeps retransmitting after LCP went down *)
Definition w_timer := ev_lcp_up ++ [EvFrame 0 FrChapResp; EvAAA 1 AAcc; EvFrame 0 (FrLcp (FCreq QGood)); EvTimer 0 TIpcp].
Theorem C03_gate_refuted : forall rfc,
  Forall (fun evs => mon_run 0 (snd (run (mkV3 false rfc false) (init 2) evs)) mon0 = None) [w_stale; w_empty; w_timer].
Proof. intros []; repeat constructor; vm_compute; reflexivity. Qed.
Print Assumptions C03_gate_refuted.
(* ... and the repaired variant does not, on the same inputs *)
Example C03_gate_witnesses_repaired : forall rfc,
  Forall (fun evs => mon_run 0 (snd (run (mkV true rfc) (init 2) evs)) mon0 <> None) [w_stale; w_empty; w_timer].
Proof. intros []; repeat constructor; vm_compute; discriminate. Qed.
Print Assumptions C03_gate_witnesses_repaired.

(* non-vacuity: the nominal dual-stack bring-up reaches Open with service outputs and is accepted *)
Definition w_nominal := ev_lcp_up ++ [EvFrame 0 FrChapResp; EvAAA 1 AAcc;
  EvFrame 0 (FrIpcp (FCreq QGood)); EvFrame 0 (FrIpcp (FCack true)); EvFrame 0 (FrIp6cp (FCreq QGood));
  EvFrame 0 (FrIp6cp (FCack true)); EvFrame 0 FrRs].
Example C03_nonvacuous :
  let r := run (mkV true false) (init 2) w_nominal in
  option_map ph (nth_error (sl (fst r)) 0) = Some POpen /\ free (fst r) = 1 /\
  existsb (fun eo => existsb (fun io => service (snd io)) (snd eo)) (snd r) = true /\
  mon_run 0 (snd r) mon0 <> None /\
  pend_matches (mkV true false) 1 (mkS true 1 PAuth fsm0 fsm0 fsm0 true 0 (Some 1) PtChap false false false ANone ANone ANone false v60) = true.
Proof. vm_compute. repeat split; auto; discriminate. Qed.
Print Assumptions C03_nonvacuous.

(* ====================================================================== *)
(* IPoE: per-handler gates, every machine state (IpoeModel.v / IpoeProofs.v) *)
From OV Require Import C03.IpoeModel C03.IpoeProofs.

(* a DISCOVER / REQUEST / SOLICIT / REQUEST6(RENEW) handled for a session that is not approved yields no OFFER, ACK,
   ADVERTISE, REPLY, no dataplane call and no Active lifecycle *)
Theorem C03_ipoe_unapproved_gated : forall slot m, iappr (jms m) = false -> nosvc (jmo m) ->
  nosvc (jmo (h_discover slot m)) /\ nosvc (jmo (h_request slot m)) /\
  nosvc (jmo (h_solicit slot m)) /\ nosvc (jmo (h_request6 slot m)).
Proof.
  intros slot m Ha Hn. repeat split.
  - exact (discover_unapproved slot m Ha Hn). - exact (request_unapproved slot m Ha Hn).
  - exact (solicit_unapproved slot m Ha Hn). - exact (request6_unapproved slot m Ha Hn).
Qed.
Print Assumptions C03_ipoe_unapproved_gated.

(* RELEASE / RELEASE6 never yield a service output *)
Theorem C03_ipoe_release_no_service : forall slot good m, nosvc (jmo m) ->
  nosvc (jmo (h_release slot good m)) /\ nosvc (jmo (h_release6 slot m)).
Proof. intros slot good m Hn. split; [exact (release_nosvc slot good m Hn) | exact (release6_nosvc slot m Hn)]. Qed.
Print Assumptions C03_ipoe_release_no_service.

(* repaired: an AAA answer is ignored unless the session has a request in flight (late, duplicate, unsolicited) *)
Theorem C03_ipoe_answer_needs_request : forall slot allowed m, iinfl (jms m) = false -> h_aaa true slot allowed m = m.
Proof. exact aaa_needs_inflight. Qed.
Print Assumptions C03_ipoe_answer_needs_request.

(* repaired: a reject / error emits nothing, queues nothing, touches neither pool nor provider lease table, and
   leaves the session unapproved and removed, with whatever (nothing, see the sweep) it held unchanged *)
Theorem C03_ipoe_reject_step : forall slot m,
  let m' := h_aaa true slot false m in
  jmo m' = jmo m /\ jmq m' = jmq m /\ jm4 m' = jm4 m /\ jm6 m' = jm6 m /\ jpv4 m' = jpv4 m /\ jpv6 m' = jpv6 m /\
  (iinfl (jms m) = true -> iappr (jms m') = false /\ iex (jms m') = false /\
     ic4 (jms m') = ic4 (jms m) /\ ib4 (jms m') = ib4 (jms m) /\ icreated (jms m') = icreated (jms m)).
Proof. exact aaa_reject. Qed.
Print Assumptions C03_ipoe_reject_step.

(* repaired: approval comes only from an accept that finds a request in flight *)
Theorem C03_ipoe_approval_source : forall slot allowed m,
  iappr (jms (h_aaa true slot allowed m)) = true -> iappr (jms m) = true \/ (allowed = true /\ iinfl (jms m) = true).
Proof. exact aaa_approves. Qed.
Print Assumptions C03_ipoe_approval_source.

(* answers carrying an earlier or unknown session id, and answers for a subscriber with no stored session *)
Theorem C03_ipoe_foreign_answers_ignored : forall rep st i a,
  istep rep st (IeAAA i ROld a) = (st, []) /\ istep rep st (IeAAA i RUnk a) = (st, []).
Proof. exact aaa_foreign_ignored. Qed.
Print Assumptions C03_ipoe_foreign_answers_ignored.
Theorem C03_ipoe_no_session_no_effect : forall rep st i sl a,
  nth_error (isl st) i = Some sl -> iex (scur sl) = false ->
  istep rep st (IeAAA i RCur a) = (st, []) /\ istep rep st (IeRequest6 i) = (st, []) /\
  istep rep st (IeRelease6 i) = (st, []) /\ (forall g, istep rep st (IeRelease i g) = (st, [])).
Proof. exact no_session_no_effect. Qed.
Print Assumptions C03_ipoe_no_session_no_effect.

(* Bounded: from each of 15 situations every sequence of THREE events over the 14-event alphabet (one subscriber,
   2 IPv4 / 8 IPv6 addresses): the gate monitor accepts the trace and every attempt that is not approved at the end
   holds no registry lease, no address, no dataplane session and no queued dataplane add. *)
Theorem C03_ipoe_bounded_sweep : isweep3 = true.
Proof. exact isweep3_ok. Qed.
Print Assumptions C03_ipoe_bounded_sweep.

(* the code before 671f51c (rep = false): (1) accept, bind, then a second answer "reject": the unapproved, removed session still holds its
   lease and dataplane session; (2) a second accept makes the next DISCOVER take the pool's last address.
   The repaired variant does neither. *)
Theorem C03_ipoe_refuted :
  unapproved_clean (fst (irun false (iinit 2 8) iw_reject_after_bind)) = false /\
  length (pfree (p4 (fst (irun false (iinit 2 8) iw_second_accept)))) = 0 /\
  unapproved_clean (fst (irun true (iinit 2 8) iw_reject_after_bind)) = true /\
  length (pfree (p4 (fst (irun true (iinit 2 8) iw_second_accept)))) = 1.
Proof. exact ipoe_refuted. Qed.
Print Assumptions C03_ipoe_refuted.

(* ====================================================================== *)
(* IPoE gate over ALL event sequences (IpoeGateBase.v / IpoeGateHandlers.v / IpoeGateMain.v / IpoeGateEx.v) —
   wrappers only.  For the repaired variant (rep = true, = /repo HEAD since 671f51c "ipoe: ignore AAA responses when
   the session has no request in flight") the two statements of the property hold for every pool size and EVERY event
   list from the initial state; C03_ipoe_bounded_sweep above is redundant (kept as an end-to-end vm_compute). *)
From OV Require C03.IpoeGateMain C03.IpoeGateEx.

(* gate: the monitor of IpoeModel.v never flags — every service output (OFFER, ACK, ADVERTISE, REPLY, dataplane
   session add, IPv4/IPv6 programming, Active lifecycle event) of an attempt (subscriber, incarnation) is preceded by
   an accept that answered that very attempt's outstanding AAA request, with no reject for it in between *)
Theorem C03_ipoe_gate : forall n4 n6 evs, imon_run (snd (irun true (iinit n4 n6) evs)) imon0 = true.
Proof. exact IpoeGateMain.ipoe_gate. Qed.
Print Assumptions C03_ipoe_gate.

Example C03_ipoe_gate_nonvacuous :
  IpoeGateEx.has_service (snd (irun true (iinit 2 8) IpoeGateEx.iw_served)) = true /\
  imon_run (snd (irun true (iinit 2 8) IpoeGateEx.iw_served)) imon0 = true /\
  imon_run (IpoeGateEx.drop_aaa (snd (irun true (iinit 2 8) IpoeGateEx.iw_served))) imon0 = false /\
  IpoeGateEx.has_service (snd (irun true (iinit 2 8) IpoeGateEx.iw_pending)) = false /\
  IpoeGateEx.has_service (snd (irun true (iinit 2 8) (IpoeGateEx.iw_rejected ++ IpoeGateEx.iw_pending))) = false.
Proof. exact IpoeGateEx.gate_nonvacuous. Qed.
Print Assumptions C03_ipoe_gate_nonvacuous.

(* reject-clean: at the end of any history, an attempt (session object s of subscriber i, current or earlier
   incarnation) for which the monitor holds no accept — its request was last answered reject / error, is still
   unanswered, or was never made — is not approved and holds nothing: no lease in the IPv4 / IPv6 registry pool,
   no address (bound, pending binding, allocator context), no dataplane session, no queued dataplane add.
   [imon_fin] is the monitor of imon_run returning its final state. *)
Theorem C03_ipoe_reject_clean : forall n4 n6 evs mn i sl s,
  IpoeGateMain.imon_fin (snd (irun true (iinit n4 n6) evs)) imon0 = Some mn ->
  nth_error (isl (fst (irun true (iinit n4 n6) evs))) i = Some sl -> In s (scur sl :: shist sl) ->
  imem (i, igen s) (macc mn) = false ->
  iappr s = false /\ holds_nothing_i (fst (irun true (iinit n4 n6) evs)) (i, igen s) s = true.
Proof. exact IpoeGateMain.ipoe_reject_clean. Qed.
Print Assumptions C03_ipoe_reject_clean.

Example C03_ipoe_reject_clean_nonvacuous :
  option_map igen (IpoeGateEx.cur_of IpoeGateEx.iw_rejected 0) = Some 1 /\
  IpoeGateEx.final_acc IpoeGateEx.iw_rejected (0, 1) = Some false /\
  IpoeGateEx.cur_clean IpoeGateEx.iw_rejected 0 = Some true /\
  option_map igen (IpoeGateEx.cur_of IpoeGateEx.iw_pending 0) = Some 1 /\
  IpoeGateEx.final_acc IpoeGateEx.iw_pending (0, 1) = Some false /\
  IpoeGateEx.cur_clean IpoeGateEx.iw_pending 0 = Some true /\
  option_map igen (IpoeGateEx.cur_of IpoeGateEx.iw_served 0) = Some 1 /\
  IpoeGateEx.final_acc IpoeGateEx.iw_served (0, 1) = Some true /\
  IpoeGateEx.cur_clean IpoeGateEx.iw_served 0 = Some false /\
  held (0, 1) (p4 (fst (irun true (iinit 2 8) IpoeGateEx.iw_served))) = 1.
Proof. exact IpoeGateEx.reject_clean_nonvacuous. Qed.
Print Assumptions C03_ipoe_reject_clean_nonvacuous.

(* the same on the state alone, and as the predicate of the bounded sweep, for every history: an attempt that is
   not approved holds nothing *)
Theorem C03_ipoe_unapproved_holds_nothing : forall n4 n6 evs i sl s,
  nth_error (isl (fst (irun true (iinit n4 n6) evs))) i = Some sl -> In s (scur sl :: shist sl) ->
  iappr s = false -> holds_nothing_i (fst (irun true (iinit n4 n6) evs)) (i, igen s) s = true.
Proof. exact IpoeGateMain.ipoe_unapproved_holds_nothing. Qed.
Print Assumptions C03_ipoe_unapproved_holds_nothing.
Theorem C03_ipoe_unapproved_clean : forall n4 n6 evs, unapproved_clean (fst (irun true (iinit n4 n6) evs)) = true.
Proof. exact IpoeGateMain.ipoe_unapproved_clean. Qed.
Print Assumptions C03_ipoe_unapproved_clean.

(* the monitor's verdict is its final state being defined *)
Theorem C03_ipoe_monitor_final : forall tr mn,
  imon_run tr mn = match IpoeGateMain.imon_fin tr mn with Some _ => true | None => false end.
Proof. exact IpoeGateMain.imon_run_fin. Qed.
Print Assumptions C03_ipoe_monitor_final.
