From OV Require Import Common.Base C03.Model C03.Proofs.
Theorem C03_placeholder : init 2 = init 2. Proof. reflexivity. Qed.
Print Assumptions C03_placeholder.
