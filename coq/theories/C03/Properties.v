(* C03/Properties.v — property theorems for the PPPoE gate model and the RADIUS decision.

   STATUS (be exact): the unbounded theorems over ALL event lists from the initial state are proved for the
   repaired session logic ([vrep v = true], either FSM table): [C03_gate], [C03_reject_clean_partial],
   [C03_renegotiation_reauth] (+ [_events] form), by the inductive invariant [GateInv.Inv] (proofs in
   GateInv.v / GateMain.v; trace predicates used in the statements in GateDefs.v).
   [C03_reject_clean_partial] is partial in exactly one respect: it covers attempts of a session that has not
   been accepted since its PADR; a REJECTED RE-authentication of a session that had been accepted keeps the
   lease in this model because the code keeps it ([C03_reject_clean_reauth_refuted], defect 3 of notes/C03.md).
   For today's (defective) session logic see the [_refuted] witnesses. *)
From OV Require Import Common.Base C03.Model C03.Proofs C03.GateDefs C03.GateInv C03.GateMain.

(* Outside the Network/Open phases an IPCP, IPv6CP or IPv6 (RS/NS) frame changes nothing and produces no
   output: internal/ppp/dispatcher.go inNetworkPhase. *)
Theorem C03_ncp_gated_partial : forall v i m c,
  in_net (ph (ms m)) = false ->
  handle_frame v i (FrIpcp c) m = m /\ handle_frame v i (FrIp6cp c) m = m /\
  handle_frame v i FrRs m = m /\ handle_frame v i FrNs m = m.
Proof. exact ncp_frames_gated. Qed.
Print Assumptions C03_ncp_gated_partial.

(* PAP/CHAP credentials are forwarded to AAA only in the Authenticate phase. *)
Theorem C03_auth_phase_only : forall v i m,
  ph (ms m) <> PAuth -> handle_frame v i FrPapReq m = m /\ handle_frame v i FrChapResp m = m.
Proof. exact auth_frames_gated. Qed.
Print Assumptions C03_auth_phase_only.

(* Repaired variant: an AAA answer is applied to a session only if that session is live and has exactly this,
   non-empty, request id outstanding; otherwise the answer changes nothing and outputs nothing. *)
Theorem C03_aaa_correlation : forall v k s,
  vrep v = true -> pend_matches v k s = true -> live s = true /\ pend s = Some k /\ k <> 0.
Proof. exact aaa_needs_pending. Qed.
Print Assumptions C03_aaa_correlation.
Theorem C03_aaa_unmatched_ignored : forall v st k a,
  find_idx (pend_matches v k) (sl st) 0 = None -> step v st (EvAAA k a) = (st, []).
Proof. exact aaa_unmatched_ignored. Qed.
Print Assumptions C03_aaa_unmatched_ignored.

(* Repaired variant: when LCP leaves Opened the outstanding request is forgotten (a late answer can no longer
   match, by C03_aaa_correlation), the phase is Establish (NCP frames are dropped, by C03_ncp_gated_partial) and
   both NCP automata are in a state from which neither a timeout nor a Protocol-Reject makes them send. *)
Theorem C03_lcp_down_resets : forall v i m,
  vrep v = true ->
  let m' := on_lcp_down v i m in
  pend (ms m') = None /\ pty (ms m') = PtNone /\ ph (ms m') = PEstablish /\
  quietb (ipcp (ms m')) = true /\ quietb (ip6cp (ms m')) = true.
Proof. exact lcp_down_resets. Qed.
Print Assumptions C03_lcp_down_resets.

(* RADIUS provider + AAA component: the published answer is Allowed exactly when the username was not the
   fallback and the server answered Access-Accept (whole finite table). *)
Theorem C03_radius_allow_iff : forall fb r, aaa_allowed fb r = true <-> fb = false /\ r = SrvAccept.
Proof. exact radius_allow_iff. Qed.
Print Assumptions C03_radius_allow_iff.

(* ---------------------------------------------------------------------------------------------------------
   The unbounded theorems (repaired session logic, either FSM table, any pool size, EVERY event list). *)

(* C03_gate.  For every history and every subscriber slot the trace monitor never flags: every service output
   (any IPCP/IPv6CP packet, RA/NA, pool allocation, lifecycle-Active, southbound add) for the slot is preceded
   by an allowed AAA answer for the request that slot most recently published, with no authentication reset
   (new PADR, LCP leaving Opened, termination) in between. *)
Theorem C03_gate : forall v pool evs i, vrep v = true ->
  mon_run i (snd (run v (init pool) evs)) mon0 <> None.
Proof. exact GateMain.gate. Qed.
Print Assumptions C03_gate.
Example C03_gate_nonvacuous :
  let r := run (mkV true false) (init 2) (
    [EvOpen 0; EvFrame 0 (FrLcp (FCreq QGood)); EvFrame 0 (FrLcp (FCack true)); EvFrame 0 FrChapResp; EvAAA 1 AAcc;
     EvFrame 0 (FrIpcp (FCreq QGood)); EvFrame 0 (FrIpcp (FCack true)); EvFrame 0 FrRs]) in
  vrep (mkV true false) = true /\ no_service 0 (snd r) = false /\ mon_run 0 (snd r) mon0 <> None /\
  (* the monitor is not trivially satisfied: the same outputs without the accept are flagged *)
  mon_run 0 [(EvFrame 0 FrRs, [(0, ORa)])] mon0 = None.
Proof. vm_compute. repeat split; auto; discriminate. Qed.
Print Assumptions C03_gate_nonvacuous.

(* C03_reject_clean (partial, see STATUS).  [ever_ok i tr mon0 false = false]: since slot i's last PADR no
   allowed AAA answer has arrived for a request it had outstanding — the answer was a reject, an error, is
   still missing, belonged to another request, or nothing was ever asked.  Then, after ANY history, the slot's
   session holds nothing (no pool lease, no IPv4 address, not in Network/Open) and both NCP automata are in
   Initial/Starting/Closed. *)
Theorem C03_reject_clean_partial : forall v pool evs i s, vrep v = true ->
  nth_error (sl (fst (run v (init pool) evs))) i = Some s ->
  ever_ok i (snd (run v (init pool) evs)) mon0 false = false ->
  inert s = true.
Proof. exact GateMain.reject_clean. Qed.
Print Assumptions C03_reject_clean_partial.
Definition ev_pending := [EvOpen 0; EvFrame 0 (FrLcp (FCreq QGood)); EvFrame 0 (FrLcp (FCack true)); EvFrame 0 FrChapResp].
Example C03_reject_clean_nonvacuous :
  let v := mkV true false in
  (* reject, error, missing decision, answer for another request: hypothesis met, request was outstanding *)
  Forall (fun evs => ever_ok 0 (snd (run v (init 2) evs)) mon0 false = false /\
                     option_map live (nth_error (sl (fst (run v (init 2) evs))) 0) = Some true)
         [ev_pending ++ [EvAAA 1 ARej]; ev_pending ++ [EvAAA 1 AErr]; ev_pending; ev_pending ++ [EvAAA 7 AAcc]] /\
  option_map pend (nth_error (sl (fst (run v (init 2) ev_pending))) 0) = Some (Some 1) /\
  (* an accept falsifies the hypothesis and the session then does hold an address *)
  ever_ok 0 (snd (run v (init 2) (ev_pending ++ [EvAAA 1 AAcc]))) mon0 false = true /\
  option_map inert (nth_error (sl (fst (run v (init 2) (ev_pending ++ [EvAAA 1 AAcc])))) 0) = Some false.
Proof.
  intros v. repeat split; repeat (apply Forall_cons; [split|]); try apply Forall_nil;
    timeout 20 (vm_compute; reflexivity).
Qed.
Print Assumptions C03_reject_clean_nonvacuous.
(* what is missing for the full statement: accepted, renegotiated, re-authentication REJECTED (last event) — the
   session keeps its lease (both variants; the code has no teardown on this path) *)
Theorem C03_reject_clean_reauth_refuted : forall rep rfc,
  let evs := ev_pending ++ [EvAAA 1 AAcc; EvFrame 0 (FrLcp (FCreq QGood)); EvFrame 0 (FrLcp (FCack true));
                            EvFrame 0 FrChapResp; EvAAA 2 ARej] in
  option_map holds_nothing (nth_error (sl (fst (run (mkV rep rfc) (init 2) evs))) 0) = Some false /\
  free (fst (run (mkV rep rfc) (init 2) evs)) = 1.
Proof. intros [] []; vm_compute; auto. Qed.
Print Assumptions C03_reject_clean_reauth_refuted.

(* C03_renegotiation_reauth.  Split any history at a point where slot i's monitor holds no accept (mn1; in
   particular right after LCP left Opened, [C03_lcp_down_clears_accept]).  If in the continuation no allowed AAA
   answer arrives for the request the slot has most recently published, the continuation contains no service
   output (no IPCP/IPv6CP packet, RA/NA, allocation, activation, southbound add) for the slot. *)
Theorem C03_renegotiation_reauth : forall v pool evs1 evs2 i mn1, vrep v = true ->
  mon_run i (snd (run v (init pool) evs1)) mon0 = Some mn1 -> mok mn1 = false ->
  accepted_in i (snd (run v (fst (run v (init pool) evs1)) evs2)) mn1 = false ->
  no_service i (snd (run v (fst (run v (init pool) evs1)) evs2)) = true.
Proof. exact GateMain.reauth. Qed.
Print Assumptions C03_renegotiation_reauth.
Theorem C03_lcp_down_clears_accept : forall v pool evs e i mn1,
  mon_run i (snd (run v (init pool) (evs ++ [e]))) mon0 = Some mn1 ->
  lcp_down_for i (snd (step v (fst (run v (init pool) evs)) e)) = true -> mok mn1 = false.
Proof. exact GateMain.lcp_down_clears. Qed.
Print Assumptions C03_lcp_down_clears_accept.
(* the same on events only: LCP of slot i leaves Opened at event e; as long as no allowed AAA answer is
   delivered afterwards, nothing the client or the timers do produces a service output for the slot *)
Theorem C03_renegotiation_reauth_events : forall v pool evs1 e evs2 i, vrep v = true ->
  lcp_down_for i (snd (step v (fst (run v (init pool) evs1)) e)) = true ->
  (forall k a, In (EvAAA k a) evs2 -> allowed_of a = false) ->
  no_service i (snd (run v (fst (run v (init pool) (evs1 ++ [e]))) evs2)) = true.
Proof. exact GateMain.reauth_events. Qed.
Print Assumptions C03_renegotiation_reauth_events.
Example C03_renegotiation_reauth_nonvacuous :
  let v := mkV true false in
  let evs1 := ev_pending ++ [EvAAA 1 AAcc; EvFrame 0 (FrIpcp (FCreq QGood)); EvFrame 0 (FrIpcp (FCack true))] in
  let e := EvFrame 0 (FrLcp (FCreq QGood)) in
  let st1 := fst (run v (init 2) (evs1 ++ [e])) in
  let probe := [EvFrame 0 (FrIpcp (FCreq QGood)); EvTimer 0 TIpcp; EvFrame 0 FrRs] in
  (* the session was Open and served; the renegotiation is seen as LCP down *)
  option_map ph (nth_error (sl (fst (run v (init 2) evs1))) 0) = Some POpen /\
  lcp_down_for 0 (snd (step v (fst (run v (init 2) evs1)) e)) = true /\
  (* re-authentication rejected: hypotheses met *)
  (forall k a, In (EvAAA k a) ([EvFrame 0 (FrLcp (FCack true)); EvFrame 0 FrChapResp; EvAAA 2 ARej] ++ probe) ->
               allowed_of a = false) /\
  (* re-authentication accepted: service resumes, so the conclusion does depend on the hypothesis *)
  no_service 0 (snd (run v st1 ([EvFrame 0 (FrLcp (FCack true)); EvFrame 0 FrChapResp; EvAAA 2 AAcc] ++ probe))) = false /\
  (* today's code: accepted, renegotiated before IPCP converged: the probes are served without any new accept *)
  no_service 0 (snd (run (mkV false false) (fst (run (mkV false false) (init 2) (ev_pending ++ [EvAAA 1 AAcc; e]))) probe)) = false.
Proof.
  intros v evs1 e st1 probe. repeat split; try (timeout 20 (vm_compute; reflexivity)).
  intros k a H. cbn [app In] in H.
  repeat (destruct H as [H|H]; [try discriminate H; inversion H; subst; reflexivity|]). destruct H.
Qed.
Print Assumptions C03_renegotiation_reauth_nonvacuous.

(* Bounded: from each of 11 situations (fresh, LCP open, request pending, network, open, renegotiated,
   renegotiated with a request pending, re-authenticating, rejected, terminated, nothing) every sequence of TWO
   events over the whole 87-event alphabet is accepted by the monitor, for both FSM tables. *)
Theorem C03_gate_bounded_sweep : sweep2 (mkV true false) = true /\ sweep2 (mkV true true) = true.
Proof. exact sweep2_repaired. Qed.
Print Assumptions C03_gate_bounded_sweep.

(* Today's code (defective variant) violates the gate: *)
Definition ev_lcp_up := [EvOpen 0; EvFrame 0 (FrLcp (FCreq QGood)); EvFrame 0 (FrLcp (FCack true))].
(* (1) an accept for a request made before an LCP renegotiation is honoured after it *)
Definition w_stale := ev_lcp_up ++ [EvFrame 0 FrChapResp; EvFrame 0 (FrLcp (FCreq QGood)); EvAAA 1 AAcc].
(* (2) an answer with an empty request id authorises a session that never authenticated *)
Definition w_empty := [EvOpen 0; EvAAA 0 AAcc].
(* (3) IPCP keeps retransmitting after LCP went down *)
Definition w_timer := ev_lcp_up ++ [EvFrame 0 FrChapResp; EvAAA 1 AAcc; EvFrame 0 (FrLcp (FCreq QGood)); EvTimer 0 TIpcp].
Theorem C03_gate_refuted : forall rfc,
  Forall (fun evs => mon_run 0 (snd (run (mkV false rfc) (init 2) evs)) mon0 = None) [w_stale; w_empty; w_timer].
Proof. intros []; repeat constructor; vm_compute; reflexivity. Qed.
Print Assumptions C03_gate_refuted.
(* ... and the repaired variant does not, on the same inputs *)
Example C03_gate_witnesses_repaired : forall rfc,
  Forall (fun evs => mon_run 0 (snd (run (mkV true rfc) (init 2) evs)) mon0 <> None) [w_stale; w_empty; w_timer].
Proof. intros []; repeat constructor; vm_compute; discriminate. Qed.
Print Assumptions C03_gate_witnesses_repaired.

(* Not repaired, both variants: a session that was accepted, renegotiated and then REJECTED keeps its pool
   address (free stays 1 of 2) and stays in the component's indexes until PADT / dead-peer. *)
Definition w_reauth_reject := ev_lcp_up ++ [EvFrame 0 FrChapResp; EvAAA 1 AAcc; EvFrame 0 (FrLcp (FCreq QGood));
  EvFrame 0 (FrLcp (FCack true)); EvFrame 0 FrChapResp; EvAAA 2 ARej].
Example C03_reject_after_reauth_keeps_lease : forall rep rfc,
  let st := fst (run (mkV rep rfc) (init 2) w_reauth_reject) in
  free st = 1 /\ option_map live (nth_error (sl st) 0) = Some true /\ option_map alloc_pool (nth_error (sl st) 0) = Some true.
Proof. intros [] []; vm_compute; auto. Qed.
Print Assumptions C03_reject_after_reauth_keeps_lease.

(* non-vacuity: the nominal dual-stack bring-up reaches Open with service outputs and is accepted *)
Definition w_nominal := ev_lcp_up ++ [EvFrame 0 FrChapResp; EvAAA 1 AAcc;
  EvFrame 0 (FrIpcp (FCreq QGood)); EvFrame 0 (FrIpcp (FCack true)); EvFrame 0 (FrIp6cp (FCreq QGood));
  EvFrame 0 (FrIp6cp (FCack true)); EvFrame 0 FrRs].
Example C03_nonvacuous :
  let r := run (mkV true false) (init 2) w_nominal in
  option_map ph (nth_error (sl (fst r)) 0) = Some POpen /\ free (fst r) = 1 /\
  existsb (fun eo => existsb (fun io => service (snd io)) (snd eo)) (snd r) = true /\
  mon_run 0 (snd r) mon0 <> None /\
  pend_matches (mkV true false) 1 (mkS true 1 PAuth fsm0 fsm0 fsm0 true 0 (Some 1) PtChap false false false ANone ANone ANone false) = true.
Proof. vm_compute. repeat split; auto; discriminate. Qed.
Print Assumptions C03_nonvacuous.

(* ====================================================================== *)
(* IPoE gate (IpoeModel.v / IpoeProofs.v) and the reject teardown (RejectTeardown.v) — wrappers only.
   STATUS: the per-handler gates below hold for every machine state; the statement over all event sequences
   (gate monitor accepted, every unapproved attempt holds nothing) is the bounded sweep C03_ipoe_bounded_sweep. *)
From OV Require Import C03.IpoeModel C03.IpoeProofs C03.RejectTeardown.

(* a DISCOVER / REQUEST / SOLICIT / REQUEST6(RENEW) handled for a session that is not approved yields no OFFER, ACK,
   ADVERTISE, REPLY, no dataplane call and no Active lifecycle *)
Theorem C03_ipoe_unapproved_gated : forall slot m, iappr (jms m) = false -> nosvc (jmo m) ->
  nosvc (jmo (h_discover slot m)) /\ nosvc (jmo (h_request slot m)) /\
  nosvc (jmo (h_solicit slot m)) /\ nosvc (jmo (h_request6 slot m)).
Proof.
  intros slot m Ha Hn. repeat split.
  - exact (discover_unapproved slot m Ha Hn). - exact (request_unapproved slot m Ha Hn).
  - exact (solicit_unapproved slot m Ha Hn). - exact (request6_unapproved slot m Ha Hn).
Qed.
Print Assumptions C03_ipoe_unapproved_gated.

(* RELEASE / RELEASE6 never yield a service output *)
Theorem C03_ipoe_release_no_service : forall slot good m, nosvc (jmo m) ->
  nosvc (jmo (h_release slot good m)) /\ nosvc (jmo (h_release6 slot m)).
Proof. intros slot good m Hn. split; [exact (release_nosvc slot good m Hn) | exact (release6_nosvc slot m Hn)]. Qed.
Print Assumptions C03_ipoe_release_no_service.

(* repaired: an AAA answer is ignored unless the session has a request in flight (late, duplicate, unsolicited) *)
Theorem C03_ipoe_answer_needs_request : forall slot allowed m, iinfl (jms m) = false -> h_aaa true slot allowed m = m.
Proof. exact aaa_needs_inflight. Qed.
Print Assumptions C03_ipoe_answer_needs_request.

(* repaired: a reject / error emits nothing, queues nothing, touches neither pool nor provider lease table, and
   leaves the session unapproved and removed, with whatever (nothing, see the sweep) it held unchanged *)
Theorem C03_ipoe_reject_step : forall slot m,
  let m' := h_aaa true slot false m in
  jmo m' = jmo m /\ jmq m' = jmq m /\ jm4 m' = jm4 m /\ jm6 m' = jm6 m /\ jpv4 m' = jpv4 m /\ jpv6 m' = jpv6 m /\
  (iinfl (jms m) = true -> iappr (jms m') = false /\ iex (jms m') = false /\
     ic4 (jms m') = ic4 (jms m) /\ ib4 (jms m') = ib4 (jms m) /\ icreated (jms m') = icreated (jms m)).
Proof. exact aaa_reject. Qed.
Print Assumptions C03_ipoe_reject_step.

(* repaired: approval comes only from an accept that finds a request in flight *)
Theorem C03_ipoe_approval_source : forall slot allowed m,
  iappr (jms (h_aaa true slot allowed m)) = true -> iappr (jms m) = true \/ (allowed = true /\ iinfl (jms m) = true).
Proof. exact aaa_approves. Qed.
Print Assumptions C03_ipoe_approval_source.

(* answers carrying an earlier or unknown session id, and answers for a subscriber with no stored session *)
Theorem C03_ipoe_foreign_answers_ignored : forall rep st i a,
  istep rep st (IeAAA i ROld a) = (st, []) /\ istep rep st (IeAAA i RUnk a) = (st, []).
Proof. exact aaa_foreign_ignored. Qed.
Print Assumptions C03_ipoe_foreign_answers_ignored.
Theorem C03_ipoe_no_session_no_effect : forall rep st i sl a,
  nth_error (isl st) i = Some sl -> iex (scur sl) = false ->
  istep rep st (IeAAA i RCur a) = (st, []) /\ istep rep st (IeRequest6 i) = (st, []) /\
  istep rep st (IeRelease6 i) = (st, []) /\ (forall g, istep rep st (IeRelease i g) = (st, [])).
Proof. exact no_session_no_effect. Qed.
Print Assumptions C03_ipoe_no_session_no_effect.

(* Bounded: from each of 15 situations every sequence of THREE events over the 14-event alphabet (one subscriber,
   2 IPv4 / 8 IPv6 addresses): the gate monitor accepts the trace and every attempt that is not approved at the end
   holds no registry lease, no address, no dataplane session and no queued dataplane add. *)
Theorem C03_ipoe_bounded_sweep : isweep3 = true.
Proof. exact isweep3_ok. Qed.
Print Assumptions C03_ipoe_bounded_sweep.

(* today's code: (1) accept, bind, then a second answer "reject": the unapproved, removed session still holds its
   lease and dataplane session; (2) a second accept makes the next DISCOVER take the pool's last address.
   The repaired variant does neither. *)
Theorem C03_ipoe_refuted :
  unapproved_clean (fst (irun false (iinit 2 8) iw_reject_after_bind)) = false /\
  length (pfree (p4 (fst (irun false (iinit 2 8) iw_second_accept)))) = 0 /\
  unapproved_clean (fst (irun true (iinit 2 8) iw_reject_after_bind)) = true /\
  length (pfree (p4 (fst (irun true (iinit 2 8) iw_second_accept)))) = 1.
Proof. exact ipoe_refuted. Qed.
Print Assumptions C03_ipoe_refuted.

(* PPPoE reject teardown: the repaired step is two steps of Model.step (the answer, then the dead-peer teardown of
   the session it rejected), so everything proved for all event sequences of Model.run covers it *)
Theorem C03_reject_teardown_is_run : forall v evs st, run_rt v st evs = fst (run v st (expand v st evs)).
Proof. exact run_rt_expand. Qed.
Print Assumptions C03_reject_teardown_is_run.
(* with the teardown a rejected re-authentication gives the address back and removes the session; without it
   (today) it does not (C03_reject_after_reauth_keeps_lease above) *)
Example C03_reject_teardown_releases : forall rfc,
  let st := run_rt (mkV true rfc) (init 2) w_reauth_reject in
  free st = 2 /\ option_map live (nth_error (sl st) 0) = Some false.
Proof. intros []; vm_compute; auto. Qed.
Print Assumptions C03_reject_teardown_releases.

(* C03_reject_clean for the repaired reject path (step_rt), EVERY component state (reachable or not), any variant:
   when a reject / error answer matches a session (the only way it has any effect, C03_aaa_unmatched_ignored),
   then after the step that session is out of the component's indexes (live = false: it can receive no frame and
   no AAA answer any more) and the pool has its lease back — exactly: [free] grows by one iff the session held a
   pool lease that was its current address.  (A session whose address was overridden by a later Framed-IP accept
   while it still held a pool lease does not give the lease back: [alloc_pool && cur4 = APool] is false then —
   a C02-type leak of terminate, outside this property.)  With [C03_reject_clean_partial] (never-accepted
   attempts hold nothing, whatever happens) this covers reject, error and missing decision. *)
From OV Require C03.GateReject.
Theorem C03_reject_clean : forall v st k a i,
  reject_target v st (EvAAA k a) = Some i ->
  exists s s',
    nth_error (sl st) i = Some s /\ live s = true /\ pend_matches v k s = true /\ allowed_of a = false /\
    nth_error (sl (fst (step_rt v st (EvAAA k a)))) i = Some s' /\
    live s' = false /\
    free (fst (step_rt v st (EvAAA k a))) =
      free st + (if alloc_pool s && addr_eqb (cur4 s) APool then 1 else 0).
Proof. exact GateReject.reject_teardown_clean. Qed.
Print Assumptions C03_reject_clean.
Example C03_reject_clean_teardown_nonvacuous :
  let v := mkV true false in
  let st := fst (run v (init 2) (ev_pending ++ [EvAAA 1 AAcc; EvFrame 0 (FrLcp (FCreq QGood));
                                                EvFrame 0 (FrLcp (FCack true)); EvFrame 0 FrChapResp])) in
  reject_target v st (EvAAA 2 ARej) = Some 0 /\ reject_target v st (EvAAA 2 AErr) = Some 0 /\
  option_map (fun s => alloc_pool s && addr_eqb (cur4 s) APool) (nth_error (sl st) 0) = Some true /\
  free st = 1 /\ free (fst (step_rt v st (EvAAA 2 ARej))) = 2.
Proof. intros v st. repeat split; timeout 20 (vm_compute; reflexivity). Qed.
Print Assumptions C03_reject_clean_teardown_nonvacuous.

(* ====================================================================== *)
(* IPoE gate over ALL event sequences (IpoeGateBase.v / IpoeGateHandlers.v / IpoeGateMain.v / IpoeGateEx.v) —
   wrappers only.  This supersedes the STATUS note above: for the repaired variant (rep = true, = /repo HEAD with
   "ipoe: ignore AAA responses when the session has no request in flight") the two statements of the property are
   proved for every pool size and EVERY event list from the initial state; C03_ipoe_bounded_sweep is redundant. *)
From OV Require C03.IpoeGateMain C03.IpoeGateEx.

(* gate: the monitor of IpoeModel.v never flags — every service output (OFFER, ACK, ADVERTISE, REPLY, dataplane
   session add, IPv4/IPv6 programming, Active lifecycle event) of an attempt (subscriber, incarnation) is preceded by
   an accept that answered that very attempt's outstanding AAA request, with no reject for it in between *)
Theorem C03_ipoe_gate : forall n4 n6 evs, imon_run (snd (irun true (iinit n4 n6) evs)) imon0 = true.
Proof. exact IpoeGateMain.ipoe_gate. Qed.
Print Assumptions C03_ipoe_gate.

Example C03_ipoe_gate_nonvacuous :
  IpoeGateEx.has_service (snd (irun true (iinit 2 8) IpoeGateEx.iw_served)) = true /\
  imon_run (snd (irun true (iinit 2 8) IpoeGateEx.iw_served)) imon0 = true /\
  imon_run (IpoeGateEx.drop_aaa (snd (irun true (iinit 2 8) IpoeGateEx.iw_served))) imon0 = false /\
  IpoeGateEx.has_service (snd (irun true (iinit 2 8) IpoeGateEx.iw_pending)) = false /\
  IpoeGateEx.has_service (snd (irun true (iinit 2 8) (IpoeGateEx.iw_rejected ++ IpoeGateEx.iw_pending))) = false.
Proof. exact IpoeGateEx.gate_nonvacuous. Qed.
Print Assumptions C03_ipoe_gate_nonvacuous.

(* reject-clean: at the end of any history, an attempt (session object s of subscriber i, current or earlier
   incarnation) for which the monitor holds no accept — its request was last answered reject / error, is still
   unanswered, or was never made — is not approved and holds nothing: no lease in the IPv4 / IPv6 registry pool,
   no address (bound, pending binding, allocator context), no dataplane session, no queued dataplane add.
   [imon_fin] is the monitor of imon_run returning its final state. *)
Theorem C03_ipoe_reject_clean : forall n4 n6 evs mn i sl s,
  IpoeGateMain.imon_fin (snd (irun true (iinit n4 n6) evs)) imon0 = Some mn ->
  nth_error (isl (fst (irun true (iinit n4 n6) evs))) i = Some sl -> In s (scur sl :: shist sl) ->
  imem (i, igen s) (macc mn) = false ->
  iappr s = false /\ holds_nothing_i (fst (irun true (iinit n4 n6) evs)) (i, igen s) s = true.
Proof. exact IpoeGateMain.ipoe_reject_clean. Qed.
Print Assumptions C03_ipoe_reject_clean.

Example C03_ipoe_reject_clean_nonvacuous :
  option_map igen (IpoeGateEx.cur_of IpoeGateEx.iw_rejected 0) = Some 1 /\
  IpoeGateEx.final_acc IpoeGateEx.iw_rejected (0, 1) = Some false /\
  IpoeGateEx.cur_clean IpoeGateEx.iw_rejected 0 = Some true /\
  option_map igen (IpoeGateEx.cur_of IpoeGateEx.iw_pending 0) = Some 1 /\
  IpoeGateEx.final_acc IpoeGateEx.iw_pending (0, 1) = Some false /\
  IpoeGateEx.cur_clean IpoeGateEx.iw_pending 0 = Some true /\
  option_map igen (IpoeGateEx.cur_of IpoeGateEx.iw_served 0) = Some 1 /\
  IpoeGateEx.final_acc IpoeGateEx.iw_served (0, 1) = Some true /\
  IpoeGateEx.cur_clean IpoeGateEx.iw_served 0 = Some false /\
  held (0, 1) (p4 (fst (irun true (iinit 2 8) IpoeGateEx.iw_served))) = 1.
Proof. exact IpoeGateEx.reject_clean_nonvacuous. Qed.
Print Assumptions C03_ipoe_reject_clean_nonvacuous.

(* the same on the state alone, and as the predicate of the bounded sweep, for every history: an attempt that is
   not approved holds nothing *)
Theorem C03_ipoe_unapproved_holds_nothing : forall n4 n6 evs i sl s,
  nth_error (isl (fst (irun true (iinit n4 n6) evs))) i = Some sl -> In s (scur sl :: shist sl) ->
  iappr s = false -> holds_nothing_i (fst (irun true (iinit n4 n6) evs)) (i, igen s) s = true.
Proof. exact IpoeGateMain.ipoe_unapproved_holds_nothing. Qed.
Print Assumptions C03_ipoe_unapproved_holds_nothing.
Theorem C03_ipoe_unapproved_clean : forall n4 n6 evs, unapproved_clean (fst (irun true (iinit n4 n6) evs)) = true.
Proof. exact IpoeGateMain.ipoe_unapproved_clean. Qed.
Print Assumptions C03_ipoe_unapproved_clean.

(* the monitor's verdict is its final state being defined *)
Theorem C03_ipoe_monitor_final : forall tr mn,
  imon_run tr mn = match IpoeGateMain.imon_fin tr mn with Some _ => true | None => false end.
Proof. exact IpoeGateMain.imon_run_fin. Qed.
Print Assumptions C03_ipoe_monitor_final.
