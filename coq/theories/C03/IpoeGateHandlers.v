(* C03/IpoeGateHandlers.v — one specification per handler of IpoeModel.v, for ANY machine state:
     Fr   (approved session, or any session for REQUEST6/RELEASE/RELEASE6/onSessionCreated): same incarnation and
          flags, no AAA request published, nothing of another owner grows;
     US   (client packet on a session that is not approved): stays unapproved, keeps holding nothing, only
          non-service outputs, in-flight iff it was or a request has just been published, queue and pools do not grow;
     and the two effective branches of the repaired handleAAAResponse. *)
From OV Require Import Common.Base C03.IpoeModel C03.IpoeGateBase.

Ltac fr_step :=
  first [ assumption
        | apply Fr_fwd_discover | apply Fr_fwd_request_noack | apply Fr_fwd_request
        | apply Fr_fwd_solicit | apply Fr_fwd_request6
        | apply FrG_emit; [discriminate|]
        | match goal with
          | |- Fr _ _ (if ?c then _ else _) => destruct c
          | |- Fr _ _ (match ?c with _ => _ end) => destruct c
          | |- FrG _ _ _ (if ?c then _ else _) => destruct c
          | |- FrG _ _ _ (match ?c with _ => _ end) => destruct c
          end
        | apply FrG_refl ].

Lemma Fr_enq : forall slot m e, Fr slot m e ->
  Fr slot m (mkIm (jms e) (jpv4 e) (jpv6 e) (jm4 e) (jm6 e) (jmq e ++ [iown slot e]) (jmo e) (jby4 e)).
Proof.
  intros slot m e H. eapply FrG_mk; [..|exact H]; try reflexivity.
  intros o' Hn. cbn [jm4 jm6 jmq]. repeat split; auto.
  rewrite imem_app. cbn. rewrite owner_eqb_neq; auto. rewrite orb_false_r. reflexivity.
Qed.

(* ------------------------------------------------------------------ *)
(* approved sessions *)
Lemma h_discover_Fr : forall slot m, iappr (jms m) = true -> Fr slot m (h_discover slot m).
Proof.
  intros slot m Ha. unfold h_discover. cbv zeta. destruct (iclosing (jms m)); [apply FrG_refl|].
  rewrite Ha. cbn [negb andb].
  match goal with |- context [iupd ?f m] => set (m1 := iupd f m) end.
  assert (K : Fr slot m m1).
  { apply FrG_iupd; [reflexivity|cbn; auto|reflexivity|apply FrG_refl]. }
  clearbody m1. repeat fr_step.
Qed.
Lemma h_request_Fr : forall slot m, iappr (jms m) = true -> Fr slot m (h_request slot m).
Proof.
  intros slot m Ha. unfold h_request. cbv zeta. destruct (iclosing (jms m)); [apply FrG_refl|].
  rewrite Ha. cbn [negb andb].
  match goal with |- context [iupd ?f m] => set (m1 := iupd f m) end.
  assert (K : Fr slot m m1).
  { apply FrG_iupd; [reflexivity|cbn; auto|reflexivity|apply FrG_refl]. }
  clearbody m1. repeat fr_step.
Qed.
Lemma h_solicit_Fr : forall slot m, iappr (jms m) = true -> Fr slot m (h_solicit slot m).
Proof.
  intros slot m Ha. unfold h_solicit. cbv zeta. destruct (iclosing (jms m)); [apply FrG_refl|].
  rewrite Ha. cbn [negb andb].
  match goal with |- context [iupd ?f m] => set (m1 := iupd f m) end.
  assert (K : Fr slot m m1).
  { apply FrG_iupd; [reflexivity|cbn; auto|reflexivity|apply FrG_refl]. }
  clearbody m1. repeat fr_step.
Qed.
Lemma h_request6_Fr : forall slot m, Fr slot m (h_request6 slot m).
Proof.
  intros slot m. unfold h_request6. cbv zeta.
  match goal with |- context [iupd ?f m] => set (m1 := iupd f m) end.
  assert (K : Fr slot m m1).
  { apply FrG_iupd; [reflexivity|reflexivity|reflexivity|apply FrG_refl]. }
  clearbody m1. repeat fr_step.
Qed.
Lemma h_created_Fr : forall slot ok m, Fr slot m (h_created slot ok m).
Proof.
  intros slot ok m. unfold h_created. cbv zeta. destruct (icreated (jms m)); [apply FrG_refl|].
  destruct ok; cbn [negb]; [|apply FrG_refl].
  match goal with |- context [iupd ?f m] => set (m1 := iupd f m) end.
  assert (K : Fr slot m m1).
  { apply FrG_iupd; [reflexivity|reflexivity|reflexivity|apply FrG_refl]. }
  clearbody m1. repeat fr_step.
Qed.

(* ------------------------------------------------------------------ *)
(* the repaired handleAAAResponse with a request in flight *)
Definition f_accept (s : isess) : isess :=
  s_ctx true None None (s_pend false false false false (s_flags (iex s) true false (icreated s) (iclosing s) s)).
Definition f_reject (s : isess) : isess :=
  s_pend false false (ips s) (ipq s) (s_flags false false false (icreated s) true s).
Lemma aaa_reject_eq : forall slot m, iinfl (jms m) = true -> h_aaa true slot false m = iupd f_reject m.
Proof. intros slot m H. unfold h_aaa. rewrite H. reflexivity. Qed.
Lemma aaa_accept_Fr : forall slot m, iinfl (jms m) = true -> Fr slot (iupd f_accept m) (h_aaa true slot true m).
Proof.
  intros slot m H. unfold h_aaa. rewrite H. cbn [andb negb]. cbv zeta.
  change (iupd _ m) with (iupd f_accept m).
  set (m1 := iupd f_accept m). clearbody m1.
  assert (K : Fr slot m1 m1) by apply FrG_refl.
  repeat first [ fr_step | apply Fr_enq ].
Qed.

(* ------------------------------------------------------------------ *)
(* releases: a relation closed under composition that gives both Fr and US *)
Definition Keep (s s' : isess) : Prop :=
  icreated s' = icreated s /\ ipb4 s' = ipb4 s /\ ipb6 s' = ipb6 s /\ ic4 s' = ic4 s /\ ic6 s' = ic6 s /\
  (ib4 s' = None \/ ib4 s' = ib4 s) /\ (ia6 s' = None \/ ia6 s' = ia6 s).
Lemma Keep_refl : forall s, Keep s s.
Proof. intros s. unfold Keep. repeat split; auto. Qed.
Lemma Keep_trans : forall s1 s2 s3, Keep s1 s2 -> Keep s2 s3 -> Keep s1 s3.
Proof.
  intros s1 s2 s3 (a1 & b1 & c1 & d1 & e1 & f1 & g1) (a2 & b2 & c2 & d2 & e2 & f2 & g2).
  unfold Keep. repeat split; try congruence.
  - destruct f2 as [f2|f2]; auto. rewrite f2. exact f1.
  - destruct g2 as [g2|g2]; auto. rewrite g2. exact g1.
Qed.
Record Rl (slot : nat) (m m' : im) : Prop := mkRl {
  rl_fr : FrG Pn slot m m';
  rl_q : jmq m' = jmq m;
  rl_h : forall o, held o (jm4 m') <= held o (jm4 m) /\ held o (jm6 m') <= held o (jm6 m);
  rl_s : Keep (jms m) (jms m') }.
Lemma Rl_refl : forall slot m, Rl slot m m.
Proof. intros. constructor; auto. apply FrG_refl. apply Keep_refl. Qed.
Lemma Rl_trans : forall slot m1 m2 m3, Rl slot m1 m2 -> Rl slot m2 m3 -> Rl slot m1 m3.
Proof.
  intros slot m1 m2 m3 [a1 b1 c1 d1] [a2 b2 c2 d2]. constructor.
  - eapply FrG_trans; eauto.
  - congruence.
  - intros o. destruct (c1 o), (c2 o). split; lia.
  - eapply Keep_trans; eauto.
Qed.
Lemma Rl_emit : forall slot x m m1, Pn x -> Rl slot m m1 -> Rl slot m (iemit slot x m1).
Proof.
  intros slot x m m1 Hx H. eapply Rl_trans; [exact H|]. constructor; auto.
  - apply FrG_emit; auto. apply FrG_refl.
  - apply Keep_refl.
Qed.
Lemma Rl_iupd : forall slot f m m1,
  igen (f (jms m1)) = igen (jms m1) -> iappr (f (jms m1)) = iappr (jms m1) -> iinfl (f (jms m1)) = iinfl (jms m1) ->
  Keep (jms m1) (f (jms m1)) -> Rl slot m m1 -> Rl slot m (iupd f m1).
Proof.
  intros slot f m m1 H1 H2 H3 H4 H. eapply Rl_trans; [exact H|]. constructor; auto.
  apply FrG_iupd; auto. apply FrG_refl.
Qed.
Lemma Rl_pools : forall slot m m1 m2,
  jms m2 = jms m1 -> jmo m2 = jmo m1 -> jmq m2 = jmq m1 ->
  (forall o, held o (jm4 m2) <= held o (jm4 m1) /\ held o (jm6 m2) <= held o (jm6 m1)) ->
  Rl slot m m1 -> Rl slot m m2.
Proof.
  intros slot m m1 m2 H1 H2 H3 H4 H. eapply Rl_trans; [exact H|]. constructor; auto.
  - eapply FrG_mk; [..|apply FrG_refl]; try congruence. intros o' _. destruct (H4 o'). repeat split; auto. congruence.
  - rewrite H1. apply Keep_refl.
Qed.
Lemma Rl_rel_pv4 : forall slot m m1, Rl slot m m1 -> Rl slot m (rel_pv4 m1).
Proof.
  intros slot m m1 H. unfold rel_pv4. destruct (jpv4 m1) as [[id hp]|]; [|exact H].
  eapply Rl_pools; [..|exact H]; try reflexivity. intros o. cbn [jm4 jm6]. split; auto.
  destruct hp; auto. apply held_release_le.
Qed.
Lemma Rl_rel_pv6 : forall slot m m1, Rl slot m m1 -> Rl slot m (rel_pv6 m1).
Proof.
  intros slot m m1 H. unfold rel_pv6. destruct (jpv6 m1) as [[[id ow] hp]|]; [|exact H].
  eapply Rl_pools; [..|exact H]; try reflexivity. intros o. cbn [jm4 jm6]. split; auto.
  destruct hp; auto. apply held_release_le.
Qed.
Lemma Rl_rel4 : forall slot v m m1, Rl slot m m1 -> Rl slot m (rel4 v m1).
Proof.
  intros slot v m m1 H. unfold rel4. destruct v as [id|]; [|exact H].
  eapply Rl_pools; [..|exact H]; try reflexivity. intros o. cbn [jm4 jm6]. split; auto. apply held_release_le.
Qed.
Lemma Rl_rel6 : forall slot v m m1, Rl slot m m1 -> Rl slot m (rel6 v m1).
Proof.
  intros slot v m m1 H. unfold rel6. destruct v as [id|]; [|exact H].
  eapply Rl_pools; [..|exact H]; try reflexivity. intros o. cbn [jm4 jm6]. split; auto. apply held_release_le.
Qed.

Ltac keep_tac := unfold Keep; cbn; repeat split; auto.
Ltac rl_step :=
  first [ assumption
        | apply Rl_emit; [split; [discriminate|reflexivity]|]
        | apply Rl_rel_pv4 | apply Rl_rel_pv6 | apply Rl_rel4 | apply Rl_rel6
        | apply Rl_iupd; [reflexivity|reflexivity|reflexivity|keep_tac|]
        | match goal with
          | |- Rl _ _ (if ?c then _ else _) => destruct c
          | |- Rl _ _ (match ?c with _ => _ end) => destruct c
          end
        | apply Rl_refl ].

Lemma h_release_Rl : forall slot good m, Rl slot m (h_release slot good m).
Proof.
  intros slot good m. unfold h_release. cbv zeta.
  assert (K : Rl slot m m) by apply Rl_refl.
  timeout 120 (repeat rl_step).
Qed.
Lemma h_release6_Rl : forall slot m, Rl slot m (h_release6 slot m).
Proof.
  intros slot m. unfold h_release6. cbv zeta.
  assert (K : Rl slot m m) by apply Rl_refl.
  timeout 120 (repeat rl_step).
Qed.

Lemma Rl_Fr : forall slot m m', Rl slot m m' -> Fr slot m m'.
Proof. intros slot m m' H. eapply FrG_weaken; [apply Pn_Pq|apply (rl_fr _ _ _ H)]. Qed.

(* ------------------------------------------------------------------ *)
(* client packets on a session that is not approved *)
Definition anyIQ (l : list (owner * iout)) : bool := existsb (fun x => isIQ (snd x)) l.
Record US (slot : nat) (m m' : im) : Prop := mkUS {
  us_gen : igen (jms m') = igen (jms m);
  us_appr : iappr (jms m') = false;
  us_noth : Nothing (jms m) -> Nothing (jms m');
  us_outs : forall x, In x (jmo m') -> fst x = iown slot m /\ iservice (snd x) = false;
  us_infl : iinfl (jms m') = iinfl (jms m) || anyIQ (jmo m');
  us_q : jmq m' = jmq m;
  us_h : forall o, held o (jm4 m') <= held o (jm4 m) /\ held o (jm6 m') <= held o (jm6 m) }.

Lemma US_refl : forall slot m, jmo m = [] -> iappr (jms m) = false -> US slot m m.
Proof.
  intros slot m Ho Ha. constructor; auto.
  - rewrite Ho. intros x [].
  - rewrite Ho. cbn. rewrite orb_false_r. reflexivity.
Qed.

Lemma Rl_US : forall slot m m', jmo m = [] -> iappr (jms m) = false -> Rl slot m m' -> US slot m m'.
Proof.
  intros slot m m' Ho Ha [[a b c (n & d & e) f] q h k]. rewrite Ho, app_nil_r in d. subst n.
  constructor; auto.
  - congruence.
  - intros (n1 & n2 & n3 & n4 & n5 & n6 & n7). destruct k as (k1 & k2 & k3 & k4 & k5 & k6 & k7).
    unfold Nothing. repeat split; try congruence.
    + destruct k6; congruence.
    + destruct k7; congruence.
  - intros x Hx. destruct (e x Hx) as [e1 [_ e2]]. auto.
  - rewrite c. assert (Z : anyIQ (jmo m') = false).
    { unfold anyIQ. destruct (existsb _ (jmo m')) eqn:E; auto. apply existsb_exists in E. destruct E as (x & Hx & Hq).
      destruct (e x Hx) as [_ [e1 _]]. destruct (snd x); try discriminate. contradiction. }
    rewrite Z, orb_false_r. reflexivity.
Qed.

Ltac us_open m Ho Ha :=
  destruct m as [s0 a0 b0 c0 d0 e0 f0 g0]; cbn [jms jmo] in Ho, Ha; subst f0; destruct s0; cbn [iappr] in Ha; subst.
Ltac us_close :=
  constructor; cbn; auto;
  repeat match goal with
  | |- forall x : owner * iout, _ => intros x Hx; repeat (destruct Hx as [Hx|Hx]; [subst x; cbn; auto|]); try contradiction
  | |- forall o : owner, _ => intros o; split; lia
  | |- _ = _ || _ => try rewrite orb_false_r; try rewrite orb_true_r; reflexivity
  end.

Lemma h_discover_US : forall slot m, jmo m = [] -> iappr (jms m) = false -> US slot m (h_discover slot m).
Proof.
  intros slot m Ho Ha. us_open m Ho Ha. unfold h_discover, publish_q, iemit, iupd, iown. cbn.
  destruct iclosing; [us_close|]. destruct iinfl; us_close.
Qed.
Lemma h_request_US : forall slot m, jmo m = [] -> iappr (jms m) = false -> US slot m (h_request slot m).
Proof.
  intros slot m Ho Ha. us_open m Ho Ha. unfold h_request, publish_q, iemit, iupd, iown. cbn.
  destruct iclosing; [us_close|]. destruct iinfl; us_close.
Qed.
Lemma h_solicit_US : forall slot m, jmo m = [] -> iappr (jms m) = false -> US slot m (h_solicit slot m).
Proof.
  intros slot m Ho Ha. us_open m Ho Ha. unfold h_solicit, publish_q, iemit, iupd, iown. cbn.
  destruct iclosing; [us_close|]. destruct iinfl; us_close.
Qed.
Lemma h_request6_US : forall slot m, jmo m = [] -> iappr (jms m) = false -> US slot m (h_request6 slot m).
Proof.
  intros slot m Ho Ha. us_open m Ho Ha. unfold h_request6, iupd, iown. cbn. us_close.
Qed.
