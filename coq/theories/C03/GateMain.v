(* C03/GateMain.v — the gate invariant lifted from one handler to the component's step function and to whole
   histories; the unbounded theorems C03_gate, C03_reject_clean_partial, C03_renegotiation_reauth. *)
From OV Require Import Common.Base C03.Model C03.Proofs C03.GateDefs C03.GateInv.

(* ------------------------------------------------------------------ *)
(* list glue *)
Lemma nth_set_nth_eq : forall A (l : list A) n x y, nth_error l n = Some y -> nth_error (set_nth n x l) n = Some x.
Proof. induction l as [|a l IH]; intros [|n] x y H; cbn in *; try discriminate; eauto. Qed.
Lemma nth_set_nth_neq : forall A (l : list A) n k x, n <> k -> nth_error (set_nth n x l) k = nth_error l k.
Proof.
  induction l as [|a l IH]; intros [|n] [|k] x H; cbn; auto; try congruence.
Qed.
Lemma find_idx_spec : forall A (p : A -> bool) l b j,
  find_idx p l b = Some j -> exists x, b <= j /\ nth_error l (j - b) = Some x /\ p x = true.
Proof.
  induction l as [|a l IH]; intros b j H; cbn in H; try discriminate.
  destruct (p a) eqn:E.
  - inversion H; subst. exists a. rewrite Nat.sub_diag. auto.
  - destruct (IH _ _ H) as (x & Hb & Hn & Hp). exists x. split; [lia|]. split; auto.
    replace (j - b) with (S (j - S b)) by lia. exact Hn.
Qed.

Lemma mon_outs_tag_same : forall i l mn, mon_outs i (tag i l) mn = mon_l l mn.
Proof.
  induction l as [|o l IH]; intros mn; cbn; auto. rewrite Nat.eqb_refl.
  change (map (fun o0 : out => (i, o0)) l) with (tag i l). destruct (mon_out o mn); auto.
Qed.
Lemma mon_outs_tag_other : forall i j l mn, i <> j -> mon_outs i (tag j l) mn = Some mn.
Proof.
  induction l as [|o l IH]; intros mn H; cbn; auto. apply Nat.eqb_neq in H. rewrite H.
  apply IH. apply Nat.eqb_neq; auto.
Qed.

(* ------------------------------------------------------------------ *)
(* the invariant of slot i *)
Definition SInv (i : nat) (st : state) (mn : mon) (acc : bool) : Prop :=
  forall s, nth_error (sl st) i = Some s -> Inv acc s mn.

Lemma on_slot_step : forall st j h i acc' mn1,
  (i <> j -> SInv i st mn1 acc') ->
  (i = j -> forall s, nth_error (sl st) i = Some s ->
            W (Inv acc') mn1 (h (mkM s (nreq st) (free st) (queue st) [] (free6 st)))) ->
  exists mn', mon_outs i (snd (on_slot st j h)) mn1 = Some mn' /\ SInv i (fst (on_slot st j h)) mn' acc'.
Proof.
  intros st j h i acc' mn1 Hne Heq. unfold on_slot. destruct (Nat.eq_dec i j) as [E|E].
  - subst j. destruct (nth_error (sl st) i) as [s|] eqn:En; cbn [fst snd].
    + destruct (Heq eq_refl s eq_refl) as (mn' & Hm & HI). exists mn'. rewrite mon_outs_tag_same. split; auto.
      intros s' Hs'. cbn [sl] in Hs'. rewrite (nth_set_nth_eq _ _ _ _ _ En) in Hs'. inversion Hs'; subst. auto.
    + exists mn1. split; auto. intros s' Hs'. congruence.
  - specialize (Hne E). destruct (nth_error (sl st) j) as [s|] eqn:En; cbn [fst snd].
    + exists mn1. rewrite mon_outs_tag_other; auto. split; auto.
      intros s' Hs'. cbn [sl] in Hs'. rewrite nth_set_nth_neq in Hs'; auto.
    + exists mn1. split; auto.
Qed.

(* monotonicity: an event that does not reset slot i's monitor *)
Lemma Inv_acc_mono : forall acc s mn, Inv acc s mn -> Inv (acc || mok mn) s mn.
Proof.
  intros acc s mn K. destruct (mok mn) eqn:E.
  - pose proof (inv_acc _ _ _ K E). subst acc. exact K.
  - rewrite orb_false_r. exact K.
Qed.
Lemma Inv_accept : forall acc s mn, Inv acc s mn -> Inv true s (mkMon (mcur mn) true).
Proof.
  intros acc s mn [[g1 g2 g3 g4 g5] a1 a2]. constructor; [constructor|..]; cbn; auto. discriminate.
Qed.
Lemma Inv_mon_in : forall acc s mn i e,
  (match e with EvOpen j | EvPadt j | EvDead j => i <> j | _ => True end) ->
  Inv acc s mn -> Inv (acc_upd i e mn acc) s (mon_in i e mn).
Proof.
  intros acc s mn i e He K. unfold acc_upd.
  destruct e as [j|j f|k a|j t|j|j| |jh k a| ]; cbn [mon_in]; try (apply Inv_acc_mono; exact K).
  - apply Nat.eqb_neq in He. rewrite He. apply Inv_acc_mono; exact K.
  - destruct (mcur mn) as [k'|] eqn:Ec; [|apply Inv_acc_mono; exact K].
    destruct (Nat.eqb k k' && allowed_of a); [|apply Inv_acc_mono; exact K].
    cbn [mok]. rewrite orb_true_r, <- Ec. eapply Inv_accept; eauto.
  - apply Nat.eqb_neq in He. rewrite He. apply Inv_acc_mono; exact K.
  - apply Nat.eqb_neq in He. rewrite He. apply Inv_acc_mono; exact K.
  - destruct (mcur mn) as [k'|] eqn:Ec; [|apply Inv_acc_mono; exact K].
    destruct (Nat.eqb k k' && allowed_of a); [|apply Inv_acc_mono; exact K].
    cbn [mok]. rewrite orb_true_r, <- Ec. eapply Inv_accept; eauto.
Qed.
Lemma SInv_mon_in : forall i st mn acc e,
  (match e with EvOpen j | EvPadt j | EvDead j => i <> j | _ => True end) ->
  SInv i st mn acc -> SInv i st (mon_in i e mn) (acc_upd i e mn acc).
Proof. intros i st mn acc e He K s Hs. apply Inv_mon_in; auto. Qed.

Lemma W_init : forall (P : sess -> mon -> Prop) mn s n fr q f6, P s mn -> W P mn (mkM s n fr q [] f6).
Proof. intros. exists mn. split; auto. Qed.

(* ------------------------------------------------------------------ *)
(* one step of the component *)
(* an AAA answer applied to slot j, whose session is live and has request k outstanding; [e] is the event that
   carries it (EvAAA k a, or EvAAAHeld j k a): the monitor treats both alike *)
Lemma aaa_slot_step : forall v i st mn acc j k a e sj, vrep v = true -> SInv i st mn acc ->
  (forall mn1, mon_in i e mn1 = mon_in i (EvAAA k a) mn1) ->
  (match e with EvOpen _ | EvPadt _ | EvDead _ => False | _ => True end) ->
  (match e with EvOpen _ => False | _ => True end) ->
  nth_error (sl st) j = Some sj -> pend_matches v k sj = true ->
  exists mn', mon_outs i (snd (on_slot st j (aaa_apply v j a))) (mon_in i e mn) = Some mn' /\
              SInv i (fst (on_slot st j (aaa_apply v j a))) mn' (acc_upd i e mn acc).
Proof.
  intros v i st mn acc j k a e sj Hv HS Hmi He1 He2 Hn Hp.
  destruct (aaa_needs_pending v k sj Hv Hp) as (Hl & Hpe & Hk).
  assert (EA : acc_upd i e mn acc = acc_upd i (EvAAA k a) mn acc).
  { unfold acc_upd. rewrite Hmi. destruct e; try contradiction; reflexivity. }
  rewrite EA, Hmi.
  apply on_slot_step.
  - intros E. apply (SInv_mon_in i st mn acc (EvAAA k a)); auto.
  - intros E s Hs. subst j. rewrite Hn in Hs. inversion Hs; subst sj. clear Hs.
    pose proof (HS s Hn) as K.
    destruct (gi_pend _ _ (inv_gi _ _ _ K) k Hpe) as [L|[Hc Hph]]; [congruence|].
    unfold acc_upd, aaa_apply. cbn [mon_in]. rewrite Hc, Nat.eqb_refl. cbn [andb].
    destruct a; cbn [allowed_of mok].
    + rewrite orb_true_r. rewrite andb_false_r. cbn [andb]. apply on_auth_allowed_Inv. apply W_init. rewrite <- Hc.
      split; [eapply Inv_accept; eauto|]. cbn; auto.
    + rewrite orb_true_r. rewrite andb_false_r. cbn [andb]. apply on_auth_allowed_Inv. apply W_init. rewrite <- Hc.
      split; [eapply Inv_accept; eauto|]. cbn; auto.
    + rewrite Hv. cbn [andb negb].
      assert (D : W (Inv (acc || mok mn)) mn (on_auth_result v i false false (mkM s (nreq st) (free st) (queue st) [] (free6 st))))
        by (apply on_auth_denied_Inv; auto; apply W_init; apply Inv_acc_mono; auto).
      destruct (live (ms (on_auth_result v i false false (mkM s (nreq st) (free st) (queue st) [] (free6 st))))); [|exact D].
      apply terminate_T. exact D.
    + rewrite Hv. cbn [andb negb].
      assert (D : W (Inv (acc || mok mn)) mn (on_auth_result v i false false (mkM s (nreq st) (free st) (queue st) [] (free6 st))))
        by (apply on_auth_denied_Inv; auto; apply W_init; apply Inv_acc_mono; auto).
      destruct (live (ms (on_auth_result v i false false (mkM s (nreq st) (free st) (queue st) [] (free6 st))))); [|exact D].
      apply terminate_T. exact D.
Qed.

Lemma step_Inv : forall v i st e mn acc, vrep v = true -> vhl v = true -> SInv i st mn acc ->
  exists mn', mon_outs i (snd (step v st e)) (mon_in i e mn) = Some mn' /\
              SInv i (fst (step v st e)) mn' (acc_upd i e mn acc).
Proof.
  intros v i st e mn acc Hv Hh HS. destruct e as [j|j f|k a|j t|j|j| |jh k a| ]; cbn [step].
  - (* PADR *)
    apply on_slot_step.
    + intros E. apply SInv_mon_in; auto.
    + intros E s Hs. subst j. unfold acc_upd. cbn [mon_in]. rewrite Nat.eqb_refl. cbn [orb mok mon0].
      apply open_session_Inv; auto.
  - (* frame *)
    apply on_slot_step.
    + intros E. apply SInv_mon_in; auto.
    + intros E s Hs. subst j. cbn [ms]. destruct (live s).
      * assert (K : W (Inv (acc_upd i (EvFrame i f) mn acc)) (mon_in i (EvFrame i f) mn)
                      (handle_frame v i f (mkM s (nreq st) (free st) (queue st) [] (free6 st)))).
        { apply handle_frame_Inv; auto. apply W_init; apply (Inv_mon_in acc s mn i (EvFrame i f) I); auto. }
        destruct (vtd v && in_net (ph s) && existsb is_lcp_down (mo (handle_frame v i f (mkM s (nreq st) (free st) (queue st) [] (free6 st))))); [|exact K].
        apply terminate_T. exact K.
      * apply W_init; apply (Inv_mon_in acc s mn i (EvFrame i f) I); auto.
  - (* AAA answer *)
    destruct (find_idx (pend_matches v k) (sl st) 0) as [j|] eqn:Ef.
    + destruct (find_idx_spec _ _ _ _ _ Ef) as (sj & _ & Hn & Hp). rewrite Nat.sub_0_r in Hn.
      apply (aaa_slot_step v i st mn acc j k a (EvAAA k a) sj); auto.
    + cbn [fst snd mon_outs]. eexists; split; [reflexivity|]. apply SInv_mon_in; auto.
  - (* timer *)
    apply on_slot_step.
    + intros E. apply SInv_mon_in; auto.
    + intros E s Hs. subst j. apply handle_timer_Inv; auto.
      apply W_init; apply (Inv_mon_in acc s mn i (EvTimer i t) I); auto.
  - (* PADT *)
    apply on_slot_step.
    + intros E. apply SInv_mon_in; auto.
    + intros E s Hs. subst j. unfold acc_upd. cbn [mon_in ms]. rewrite Nat.eqb_refl. cbn [mok]. rewrite orb_false_r.
      destruct (live s) eqn:L.
      * eapply terminate_Inv; eauto.
      * apply W_init. eapply Inv_dead_reset; eauto.
  - (* dead peer *)
    apply on_slot_step.
    + intros E. apply SInv_mon_in; auto.
    + intros E s Hs. subst j. unfold acc_upd. cbn [mon_in ms]. rewrite Nat.eqb_refl. cbn [mok]. rewrite orb_false_r.
      destruct (live s) eqn:L.
      * eapply terminate_Inv; eauto.
      * apply W_init. eapply Inv_dead_reset; eauto.
  - (* dataplane completion *)
    assert (K : SInv i st (mon_in i EvSbOk mn) (acc_upd i EvSbOk mn acc)) by (apply SInv_mon_in; auto).
    assert (O : forall x mn1, mon_outs i [(x, OProg)] mn1 = Some mn1).
    { intros x mn1. cbn. destruct (Nat.eqb i x); reflexivity. }
    destruct (queue st) as [|[j g] q]; [eexists; split; [reflexivity|exact K]|].
    destruct (nth_error (sl st) j) as [s|]; [destruct (Nat.eqb (gen s) g)|]; cbn [fst snd];
      eexists; (split; [try apply O; reflexivity|exact K]).
  - (* an answer matched earlier: with [vhl] it is applied only if the session is still live with that request *)
    destruct (nth_error (sl st) jh) as [sj|] eqn:Hn;
      [|cbn [fst snd mon_outs]; eexists; split; [reflexivity|]; apply SInv_mon_in; auto].
    unfold held_matches. rewrite Hh. cbn [negb andb]. rewrite orb_false_r.
    destruct (pend_matches v k sj) eqn:Hp;
      [|cbn [fst snd mon_outs]; eexists; split; [reflexivity|]; apply SInv_mon_in; auto].
    apply (aaa_slot_step v i st mn acc jh k a (EvAAAHeld jh k a) sj); auto.
  - (* dataplane add failed *)
    assert (K : SInv i st (mon_in i EvSbFail mn) (acc_upd i EvSbFail mn acc)) by (apply SInv_mon_in; auto).
    destruct (queue st) as [|[j g] q]; [eexists; split; [reflexivity|exact K]|].
    set (st' := mkSt (sl st) (nreq st) (free st) q (free6 st)).
    assert (K' : SInv i st' (mon_in i EvSbFail mn) (acc_upd i EvSbFail mn acc)) by exact K.
    destruct (nth_error (sl st) j) as [s|] eqn:Hn; [destruct (Nat.eqb (gen s) g)|]; cbn [fst snd].
    + apply on_slot_step; [intros _; exact K'|]. intros E s0 Hs0. apply sb_fail_Inv. apply (K' s0 Hs0).
    + eexists; split; [|exact K']. cbn. destruct (Nat.eqb i nslots); reflexivity.
    + eexists; split; [reflexivity|exact K'].
Qed.

(* ------------------------------------------------------------------ *)
(* whole histories *)
Lemma run_cons : forall v st e r,
  run v st (e :: r) = (fst (run v (fst (step v st e)) r), (e, snd (step v st e)) :: snd (run v (fst (step v st e)) r)).
Proof. intros. cbn [run]. destruct (step v st e) as [st1 o]. cbn [fst snd]. destruct (run v st1 r). reflexivity. Qed.
Lemma run_app : forall v evs1 evs2 st,
  run v st (evs1 ++ evs2) =
  (fst (run v (fst (run v st evs1)) evs2), snd (run v st evs1) ++ snd (run v (fst (run v st evs1)) evs2)).
Proof.
  induction evs1 as [|e r IH]; intros evs2 st.
  - cbn [app run fst snd]. destruct (run v st evs2); reflexivity.
  - cbn [app]. rewrite !run_cons, IH. cbn [fst snd app]. reflexivity.
Qed.
Lemma run_events : forall v evs st, map fst (snd (run v st evs)) = evs.
Proof. induction evs as [|e r IH]; intros st; [reflexivity|]. rewrite run_cons. cbn [snd map fst]. rewrite IH. reflexivity. Qed.

Lemma run_Inv : forall v i evs st mn acc, vrep v = true -> vhl v = true -> SInv i st mn acc ->
  exists mn', mon_run i (snd (run v st evs)) mn = Some mn' /\
              SInv i (fst (run v st evs)) mn' (ever_ok i (snd (run v st evs)) mn acc).
Proof.
  induction evs as [|e r IH]; intros st mn acc Hv Hh HS.
  - exists mn. split; auto.
  - rewrite run_cons. cbn [fst snd mon_run ever_ok].
    destruct (step_Inv v i st e mn acc Hv Hh HS) as (mn1 & Hm & HS1). rewrite Hm.
    apply IH; auto.
Qed.

Lemma SInv_init : forall i pool p6 ppd, SInv i (init3 pool p6 ppd) mon0 false.
Proof.
  intros i pool p6 ppd s Hs. apply nth_error_In in Hs. apply repeat_spec in Hs. subst s.
  constructor; [constructor|..]; cbn; auto; try discriminate. intros [K|K]; discriminate.
Qed.

(* C03_gate *)
Theorem gate : forall v pool p6 ppd evs i, vrep v = true -> vhl v = true ->
  mon_run i (snd (run v (init3 pool p6 ppd) evs)) mon0 <> None.
Proof.
  intros v pool p6 ppd evs i Hv Hh. destruct (run_Inv v i evs (init3 pool p6 ppd) mon0 false Hv Hh (SInv_init i pool p6 ppd)) as (mn' & H & _).
  congruence.
Qed.

(* C03_reject_clean_partial *)
Theorem reject_clean : forall v pool p6 ppd evs i s, vrep v = true -> vhl v = true ->
  nth_error (sl (fst (run v (init3 pool p6 ppd) evs))) i = Some s ->
  ever_ok i (snd (run v (init3 pool p6 ppd) evs)) mon0 false = false ->
  inert s = true.
Proof.
  intros v pool p6 ppd evs i s Hv Hh Hs He.
  destruct (run_Inv v i evs (init3 pool p6 ppd) mon0 false Hv Hh (SInv_init i pool p6 ppd)) as (mn' & _ & HS).
  rewrite He in HS. destruct (HS s Hs) as [[g1 g2 g3 g4 g5] a1 a2].
  destruct (a2 eq_refl) as (A1 & A2 & A3).
  assert (N : in_net (ph s) = false).
  { destruct (in_net (ph s)) eqn:E; auto. specialize (a1 (g1 eq_refl)). discriminate. }
  destruct (g2 N) as [Q1 Q2]. unfold inert, holds_nothing. rewrite A1, A2, A3, N. unfold quietb in Q1, Q2.
  rewrite Q1, Q2. reflexivity.
Qed.

(* ------------------------------------------------------------------ *)
(* pure monitor facts for C03_renegotiation_reauth *)
Lemma mon_outs_quiet : forall i o mn mn', mok mn = false -> mon_outs i o mn = Some mn' ->
  mok mn' = false /\ forallb (fun io => negb (svc_for i io)) o = true.
Proof.
  induction o as [|[j x] o IH]; intros mn mn' Hk H; cbn [mon_outs forallb] in *.
  - inversion H; subst; auto.
  - unfold svc_for at 1. cbn [fst snd]. destruct (Nat.eqb i j); [|cbn [andb negb]; eauto].
    destruct (mon_out x mn) as [mn1|] eqn:Ex; [|discriminate].
    assert (mok mn1 = false /\ service x = false) as [K1 K2].
    { destruct x; cbn in Ex; try rewrite Hk in Ex; inversion Ex; subst; auto. }
    rewrite K2. cbn [andb negb]. eauto.
Qed.
Lemma mon_quiet : forall i tr mn, mok mn = false -> mon_run i tr mn <> None ->
  accepted_in i tr mn = false -> no_service i tr = true.
Proof.
  induction tr as [|[e o] r IH]; intros mn Hk Hr Ha; [reflexivity|].
  cbn [mon_run accepted_in] in *. apply orb_false_iff in Ha. destruct Ha as [Ha1 Ha2].
  destruct (mon_outs i o (mon_in i e mn)) as [mn'|] eqn:Eo; [|congruence].
  destruct (mon_outs_quiet _ _ _ _ Ha1 Eo) as [K1 K2].
  unfold no_service. cbn [forallb snd]. rewrite K2. apply IH with mn'; auto.
Qed.
Lemma mon_outs_down : forall i o mn mn', mon_outs i o mn = Some mn' -> lcp_down_for i o = true -> mok mn' = false.
Proof.
  induction o as [|[j x] o IH]; intros mn mn' H Hd; cbn [mon_outs lcp_down_for existsb fst snd] in *; [discriminate|].
  destruct (Nat.eqb i j); cbn [andb orb] in Hd.
  - destruct (mon_out x mn) as [mn1|] eqn:Ex; [|discriminate].
    destruct x; try (eapply IH; eauto; fail).
    cbn in Ex. inversion Ex; subst. destruct (existsb _ o) eqn:Ed.
    + eapply IH; eauto.
    + destruct (mon_outs_quiet i o mon0 mn' eq_refl H); auto.
  - eapply IH; eauto.
Qed.
Lemma mon_run_app : forall i t1 t2 mn,
  mon_run i (t1 ++ t2) mn = match mon_run i t1 mn with Some mn' => mon_run i t2 mn' | None => None end.
Proof.
  induction t1 as [|[e o] r IH]; intros t2 mn; cbn [app mon_run]; auto.
  destruct (mon_outs i o (mon_in i e mn)); auto.
Qed.
(* no allowed AAA answer, delivered at once or held *)
Definition not_allowed (e : event) : Prop :=
  match e with EvAAA _ a | EvAAAHeld _ _ a => allowed_of a = false | _ => True end.
Lemma accepted_in_none : forall i tr mn, mok mn = false -> mon_run i tr mn <> None ->
  (forall e, In e (map fst tr) -> not_allowed e) -> accepted_in i tr mn = false.
Proof.
  induction tr as [|[e o] r IH]; intros mn Hk Hr Ha; [reflexivity|].
  cbn [mon_run accepted_in map fst] in *.
  assert (K : mok (mon_in i e mn) = false).
  { pose proof (Ha e (or_introl eq_refl)) as Ne.
    destruct e as [j|j f|k a|j t|j|j| |jh k a| ]; cbn [mon_in]; auto; try (destruct (Nat.eqb i j); auto).
    - destruct (mcur mn); auto. cbn in Ne. rewrite Ne, andb_false_r. auto.
    - destruct (mcur mn); auto. cbn in Ne. rewrite Ne, andb_false_r. auto. }
  rewrite K. cbn [orb]. destruct (mon_outs i o (mon_in i e mn)) as [mn'|] eqn:Eo; auto.
  destruct (mon_outs_quiet _ _ _ _ K Eo) as [K1 _]. apply IH; auto. intros e' Hin. apply (Ha e'). right. auto.
Qed.

(* C03_renegotiation_reauth: the monitor state mn1 reached after evs1 holds no accept (in particular:
   LCP has just left Opened, [lcp_down_clears]); until an allowed answer for the slot's current request
   arrives no service output is made for the slot *)
Theorem reauth : forall v pool p6 ppd evs1 evs2 i mn1, vrep v = true -> vhl v = true ->
  mon_run i (snd (run v (init3 pool p6 ppd) evs1)) mon0 = Some mn1 -> mok mn1 = false ->
  accepted_in i (snd (run v (fst (run v (init3 pool p6 ppd) evs1)) evs2)) mn1 = false ->
  no_service i (snd (run v (fst (run v (init3 pool p6 ppd) evs1)) evs2)) = true.
Proof.
  intros v pool p6 ppd evs1 evs2 i mn1 Hv Hh H1 Hk Ha. apply mon_quiet with mn1; auto.
  pose proof (gate v pool p6 ppd (evs1 ++ evs2) i Hv Hh) as G. rewrite run_app in G. cbn [snd] in G.
  rewrite mon_run_app, H1 in G. exact G.
Qed.
Theorem lcp_down_clears : forall v pool p6 ppd evs e i mn1,
  mon_run i (snd (run v (init3 pool p6 ppd) (evs ++ [e]))) mon0 = Some mn1 ->
  lcp_down_for i (snd (step v (fst (run v (init3 pool p6 ppd) evs)) e)) = true -> mok mn1 = false.
Proof.
  intros v pool p6 ppd evs e i mn1 H Hd. rewrite run_app in H. cbn [snd] in H. rewrite mon_run_app in H.
  destruct (mon_run i (snd (run v (init3 pool p6 ppd) evs)) mon0) as [mn|]; [|discriminate].
  rewrite run_cons in H. cbn [snd run mon_run] in H.
  destruct (mon_outs i _ (mon_in i e mn)) as [mn'|] eqn:Eo; [|discriminate].
  inversion H; subst. eapply mon_outs_down; eauto.
Qed.
(* the same with the hypotheses spelled out on the events: LCP of slot i goes down at event e; afterwards no
   allowed AAA answer at all is delivered *)
Theorem reauth_events : forall v pool p6 ppd evs1 e evs2 i, vrep v = true -> vhl v = true ->
  lcp_down_for i (snd (step v (fst (run v (init3 pool p6 ppd) evs1)) e)) = true ->
  (forall e', In e' evs2 -> not_allowed e') ->
  no_service i (snd (run v (fst (run v (init3 pool p6 ppd) (evs1 ++ [e]))) evs2)) = true.
Proof.
  intros v pool p6 ppd evs1 e evs2 i Hv Hh Hd Ha.
  destruct (mon_run i (snd (run v (init3 pool p6 ppd) (evs1 ++ [e]))) mon0) as [mn1|] eqn:E1;
    [|exfalso; eapply gate; eauto].
  pose proof (lcp_down_clears _ _ _ _ _ _ _ _ E1 Hd) as Hk.
  apply reauth with mn1; auto. apply accepted_in_none; auto.
  - pose proof (gate v pool p6 ppd ((evs1 ++ [e]) ++ evs2) i Hv Hh) as G. rewrite run_app in G. cbn [snd] in G.
    rewrite mon_run_app, E1 in G. exact G.
  - rewrite run_events. exact Ha.
Qed.
