(* C03/GateLeakV4.v — the IPv4 part of Model.leaks: invariant over cur4 / assigned4 / acked4 / alloc_pool, threaded like
   GateLeakMain.LV; C03_no_leaks (the whole predicate). *)
From OV Require Import Common.Base C03.Model C03.Proofs C03.GateDefs C03.GateInv C03.GateMain C03.GateReject C03.GateObs C03.GateLeak C03.GateLeakMain.

(* the IPv4 address bookkeeping of a session *)
Definition a4 (s : sess) := (static_attr s, cur4 s, assigned4 s, acked4 s, alloc_pool s).
(* ipcp.peer.Address is nil or the session's address: onIPCPUp then changes nothing *)
Definition Bp (s : sess) : Prop := acked4 s = ANone \/ acked4 s = cur4 s.
Lemma Bp_a4 : forall s s', a4 s' = a4 s -> Bp s -> Bp s'.
Proof. intros s s' E H. unfold a4, Bp in *. inversion E. congruence. Qed.
Definition a4c (m m' : mach) : Prop := Bp (ms m) -> a4 (ms m') = a4 (ms m).
Lemma a4c_refl : forall m, a4c m m. Proof. intros m _; reflexivity. Qed.
Lemma a4c_trans : forall a b c, a4c a b -> a4c b c -> a4c a c.
Proof. intros a b c H1 H2 B. rewrite (H2 (Bp_a4 _ _ (H1 B) B)). apply H1; auto. Qed.
Lemma a4c_emit : forall o m, a4c m (emit o m). Proof. intros o [] _; reflexivity. Qed.
Lemma a4c_upd : forall f m, (forall s, a4 (f s) = a4 s) -> a4c m (upd f m). Proof. intros f [] H _; apply H. Qed.
Lemma a4_on_fam : forall pdf g s, a4 (on_fam pdf g s) = a4 s. Proof. intros pdf g []; reflexivity. Qed.
Lemma check_open_a4c : forall i m, a4c m (check_open i m).
Proof.
  intros i [s n fr q l f6] _. unfold check_open. destruct s. cbn [ms Model.ph Model.ipcp_open Model.ip6cp_open Model.cur4].
  destruct ph; try reflexivity. destruct (ipcp_open || ip6cp_open); try reflexivity. destruct cur4; reflexivity.
Qed.
Lemma ncp_act_a4c : forall i n a m, a4c m (ncp_act i n a m).
Proof.
  intros i n a m. destruct a; cbn [ncp_act]; try apply a4c_refl.
  - apply a4c_emit.
  - destruct n.
    + eapply a4c_trans; [|apply check_open_a4c]. intros B. destruct m as [s ? ? ? ? ?]. destruct s. unfold Bp, a4 in *. cbn in *.
      destruct B as [B|B]; subst; [reflexivity|]. destruct cur4; reflexivity.
    + eapply a4c_trans; [|apply check_open_a4c]. apply a4c_upd; intros []; reflexivity.
  - destruct n; apply a4c_upd; intros []; reflexivity.
Qed.
Lemma ncp_apply_a4c : forall i n g m, a4c m (ncp_apply i n g m).
Proof.
  intros i n g m. unfold ncp_apply. destruct (g (get_ncp n (ms m))) as [f' acts].
  eapply a4c_trans; [apply (a4c_upd (set_ncp n f')); intros []; destruct n; reflexivity|].
  generalize (upd (set_ncp n f') m). clear. induction acts as [|a acts IH]; intros m; cbn [fold_left]; [apply a4c_refl|].
  eapply a4c_trans; [apply ncp_act_a4c|apply IH].
Qed.
Lemma on_lcp_up_a4c : forall m, a4c m (on_lcp_up m).
Proof.
  intros m. unfold on_lcp_up.
  assert (K : a4c m (emit GLcpUp (upd (set_ph PAuth) m))).
  { eapply a4c_trans; [|apply a4c_emit]. apply a4c_upd; intros []; reflexivity. }
  destruct (auth_chap (ms (emit GLcpUp (upd (set_ph PAuth) m)))); [|exact K].
  eapply a4c_trans; [exact K|]. eapply a4c_trans; [|apply a4c_emit]. apply a4c_upd; intros []; reflexivity.
Qed.
Lemma on_lcp_down_a4c : forall v i m, a4c m (on_lcp_down v i m).
Proof.
  intros v i m. unfold on_lcp_down.
  eapply a4c_trans; [|apply a4c_emit]. eapply a4c_trans; [|apply a4c_upd; intros []; reflexivity].
  destruct (vrep v); [|apply a4c_refl].
  eapply a4c_trans; [|apply ncp_apply_a4c]. eapply a4c_trans; [|apply ncp_apply_a4c].
  apply a4c_upd; intros []; reflexivity.
Qed.
Lemma lcp_apply_a4c : forall v i g m, a4c m (lcp_apply v i g m).
Proof.
  intros v i g m. unfold lcp_apply. destruct (g (lcp (ms m))) as [f' acts].
  eapply a4c_trans; [apply (a4c_upd (set_lcp f')); intros []; reflexivity|].
  generalize (upd (set_lcp f') m). clear m.
  induction acts as [|a acts IH]; intros m; cbn [fold_left]; [apply a4c_refl|].
  eapply a4c_trans; [|apply IH].
  destruct a; cbn [lcp_act]; try apply a4c_refl.
  - apply a4c_emit. - apply on_lcp_up_a4c. - apply on_lcp_down_a4c.
Qed.
Lemma publish_aaa_a4c : forall t m, a4c m (publish_aaa t m).
Proof. intros t [s n fr q l f6] _. destruct s; reflexivity. Qed.
Lemma terminate_a4c : forall m, a4c m (terminate (upd (set_live false) m)).
Proof.
  intros [s n fr q l f6] _. unfold terminate. destruct s. cbn.
  match goal with |- context [in_net ?p] => destruct (in_net p) end; reflexivity.
Qed.
Lemma handle_timer_a4c : forall v i t m, a4c m (handle_timer v i t m).
Proof.
  intros v i t m. destruct t; cbn [handle_timer].
  - apply lcp_apply_a4c. - apply ncp_apply_a4c. - apply ncp_apply_a4c.
  - destruct (ph (ms m)); try apply a4c_refl. destruct (10 <=? S (chap_retry (ms m))).
    + eapply a4c_trans; [|apply lcp_apply_a4c]. apply a4c_upd; intros []; reflexivity.
    + eapply a4c_trans; [|apply a4c_emit]. apply a4c_upd; intros []; reflexivity.
Qed.
Lemma a4c_set : forall s' m, a4 s' = a4 (ms m) -> a4c m (upd (fun _ => s') m). Proof. intros s' [] H _; exact H. Qed.
Lemma alloc6_a4c : forall pdf m k m2, alloc6 pdf m = Some (k, m2) -> a4c m m2.
Proof.
  intros pdf m k m2 E _. unfold alloc6 in E. destruct (pool_of pdf (mfree6 m)); [discriminate|]. inversion E; subst; clear E.
  destruct m as [s n0 fr q l f6]. cbn [ms mn mfree mq mo mfree6 emit]. apply a4_on_fam.
Qed.
Lemma resolve6_a4c : forall pdf m, a4c m (fst (resolve6 pdf m)).
Proof.
  intros pdf m. unfold resolve6. destruct (xc (fam_of pdf (v6 (ms m)))); [apply a4c_refl|].
  destruct (alloc6 pdf m) as [[k m2]|] eqn:E; [|apply a4c_refl]. cbn [fst].
  eapply a4c_trans; [eapply alloc6_a4c; eauto|]. apply a4c_upd. intros s. apply a4_on_fam.
Qed.
Lemma dh6_a4c : forall keep req m, a4c m (dh6 keep req m).
Proof.
  intros keep req m. unfold dh6.
  pose proof (resolve6_a4c false m) as H1. destruct (resolve6 false m) as [m1 n_na]. cbn [fst] in H1.
  pose proof (resolve6_a4c true m1) as H2. destruct (resolve6 true m1) as [m2 n_pd]. cbn [fst] in H2.
  eapply a4c_trans; [exact H1|]. eapply a4c_trans; [exact H2|]. clear.
  destruct (xc (na (v6 (ms m2)))), (xc (pd (v6 (ms m2)))); try apply a4c_refl; destruct req.
  all: repeat first
       [ match goal with
         | |- a4c _ (match ?x with Some _ => _ | None => _ end) => destruct x
         | |- a4c _ (if ?x then _ else _) => destruct x
         end
       | (eapply a4c_trans; [|apply a4c_emit]) ].
  all: apply a4c_set; unfold reserve6;
    try (destruct (reserved6 false (ms m2) && reserved6 true (ms m2))); repeat rewrite a4_on_fam; reflexivity.
Qed.

(* ------------------------------------------------------------------ *)
Definition A4 (s : sess) : Prop :=
  (alloc_pool s = true -> cur4 s = APool) /\ Bp s /\ (assigned4 s = ANone \/ assigned4 s = cur4 s).
Lemma A4_a4 : forall s s', a4 s' = a4 s -> A4 s -> A4 s'.
Proof. intros s s' E (h1 & h2 & h3). destruct s, s'. unfold a4, A4, Bp in *. cbn in *. inversion E; subst. repeat split; auto. Qed.
Definition Fresh4 (s : sess) : Prop := a4 s = (false, ANone, ANone, ANone, false).
Lemma Fresh4_A4 : forall s, Fresh4 s -> A4 s.
Proof. intros s E. unfold Fresh4, a4, A4, Bp in *. inversion E. repeat split; auto. intros; congruence. Qed.
Definition LV4 (s : sess) : Prop := A4 s /\ (live s = true -> in_net (ph s) = false -> Fresh4 s).
Lemma a4c_A4 : forall m m', a4c m m' -> A4 (ms m) -> A4 (ms m').
Proof. intros m m' K H. eapply A4_a4; [apply K; apply H|exact H]. Qed.
Lemma LV4_dead : forall s, A4 s -> live s = false -> LV4 s.
Proof. intros s H L. split; auto. intros K. congruence. Qed.
Lemma LV4_terminate : forall m, A4 (ms m) -> LV4 (ms (terminate (upd (set_live false) m))).
Proof. intros m H. apply LV4_dead; [eapply a4c_A4; [apply terminate_a4c|exact H]|apply terminate_dead]. Qed.

Lemma handle_frame_A4 : forall v i f m, A4 (ms m) -> A4 (ms (handle_frame v i f m)).
Proof.
  intros v i f m H.
  assert (K : forall m', a4c m m' -> A4 (ms m')) by (intros m' E; eapply a4c_A4; eauto).
  destruct f as [c|x|c|c| | | | | | | | | | | | | ]; cbn [handle_frame]; try (apply K; apply a4c_refl).
  - apply K. apply lcp_apply_a4c.
  - destruct x; try (apply K; apply a4c_refl).
    + destruct (fs (lcp (ms m))); apply K; try apply a4c_refl; apply a4c_emit.
    + apply K. apply ncp_apply_a4c.
    + apply K. apply ncp_apply_a4c.
    + apply K. apply lcp_apply_a4c.
    + apply K. eapply a4c_trans; [|apply lcp_apply_a4c]. apply a4c_upd; intros []; reflexivity.
    + apply K. eapply a4c_trans; [|apply lcp_apply_a4c]. apply a4c_upd; intros []; reflexivity.
  - destruct (in_net (ph (ms m))); [|apply K; apply a4c_refl].
    destruct c as [q| | | | | | | | ]; try (apply K; apply ncp_apply_a4c).
    destruct q; try (apply K; apply ncp_apply_a4c).
    eapply a4c_A4; [apply ncp_apply_a4c|]. destruct m as [s ? ? ? ? ?]. destruct H as (h1 & h2 & h3). destruct s.
    unfold A4, Bp in *. cbn in *. repeat split; auto.
  - destruct (in_net (ph (ms m))); apply K; [apply ncp_apply_a4c|apply a4c_refl].
  - destruct (ph (ms m)); apply K; try apply a4c_refl; apply publish_aaa_a4c.
  - destruct (ph (ms m)); apply K; try apply a4c_refl; apply publish_aaa_a4c.
  - destruct (in_net (ph (ms m))); [|apply K; apply a4c_refl].
    destruct (fs (ip6cp (ms m))); apply K; try apply a4c_refl; apply a4c_emit.
  - destruct (in_net (ph (ms m))); [|apply K; apply a4c_refl].
    destruct (fs (ip6cp (ms m))); apply K; try apply a4c_refl; apply a4c_emit.
  - apply K. apply a4c_emit.
  - destruct (in_net (ph (ms m))); [|apply K; apply a4c_refl].
    destruct (fs (ip6cp (ms m))); try (apply K; apply a4c_refl).
    destruct (ip6cp_open (ms m)); apply K; [apply dh6_a4c|apply a4c_refl].
  - destruct (in_net (ph (ms m))); [|apply K; apply a4c_refl].
    destruct (fs (ip6cp (ms m))); try (apply K; apply a4c_refl).
    destruct (ip6cp_open (ms m)); apply K; [apply dh6_a4c|apply a4c_refl].
Qed.
Lemma handle_frame_a4c_out : forall v i f m, in_net (ph (ms m)) = false -> a4c m (handle_frame v i f m).
Proof.
  intros v i f m Hn.
  destruct f as [c|x|c|c| | | | | | | | | | | | | ]; cbn [handle_frame]; try rewrite Hn; try apply a4c_refl.
  - apply lcp_apply_a4c.
  - destruct x; try rewrite Hn; try apply a4c_refl.
    + destruct (fs (lcp (ms m))); try apply a4c_refl; apply a4c_emit.
    + apply ncp_apply_a4c.
    + apply ncp_apply_a4c.
    + apply lcp_apply_a4c.
    + eapply a4c_trans; [|apply lcp_apply_a4c]. apply a4c_upd; intros []; reflexivity.
    + eapply a4c_trans; [|apply lcp_apply_a4c]. apply a4c_upd; intros []; reflexivity.
  - destruct (ph (ms m)); try apply a4c_refl; apply publish_aaa_a4c.
  - destruct (ph (ms m)); try apply a4c_refl; apply publish_aaa_a4c.
  - apply a4c_emit.
Qed.
Lemma frame_LV4 : forall v i f s n fr q f6, vtd v = true -> G12 s -> LV4 s ->
  LV4 (ms (frame_h v i f (mkM s n fr q [] f6))).
Proof.
  intros v i f s n fr q f6 Ht [G1 _] [Hv Hl]. unfold frame_h. cbn [ms]. destruct (live s) eqn:L; [|apply LV4_dead; auto].
  set (m := mkM s n fr q [] f6).
  assert (K : A4 (ms (handle_frame v i f m))) by (apply handle_frame_A4; auto).
  rewrite Ht. cbn [andb]. destruct (in_net (ph s)) eqn:N; cbn [andb].
  - destruct (existsb is_lcp_down (mo (handle_frame v i f m))) eqn:E; [apply LV4_terminate; exact K|].
    split; [exact K|]. intros _ N'. exfalso.
    destruct (handle_frame_sod v i f m N (G1 eq_refl)) as [S|S]; [congruence|].
    assert (X : existsb is_lcp_down (mo (handle_frame v i f m)) = true) by (apply existsb_exists; exists GLcpDown; auto).
    congruence.
  - split; [exact K|]. intros _ _. unfold Fresh4. rewrite (handle_frame_a4c_out v i f m N (proj1 (proj2 Hv))). apply Hl; auto.
Qed.
Lemma timer_LV4 : forall v i t s n fr q f6, G12 s -> LV4 s -> LV4 (ms (handle_timer v i t (mkM s n fr q [] f6))).
Proof.
  intros v i t s n fr q f6 [G1 _] [Hv Hl]. set (m := mkM s n fr q [] f6).
  split; [eapply a4c_A4; [apply handle_timer_a4c|exact Hv]|].
  intros L N'. unfold Fresh4. rewrite (handle_timer_a4c v i t m (proj1 (proj2 Hv))). rewrite handle_timer_live in L. apply Hl; auto.
  destruct (in_net (ph s)) eqn:N; auto. exfalso.
  pose proof (handle_timer_ink v i t m (G1 eq_refl) N). congruence.
Qed.

(* the accept on a session without IPv4 bookkeeping *)
Definition P3 (t : bool * addr * addr * addr * bool) : Prop :=
  exists b, t = (b, ANone, ANone, ANone, false) \/ t = (b, AStatic, ANone, ANone, false) \/ t = (b, APool, ANone, ANone, true).
Lemma P3_Bp : forall s, P3 (a4 s) -> Bp s.
Proof. intros s (b & [E|[E|E]]); unfold a4, Bp in *; inversion E; auto. Qed.
Lemma P3_A4 : forall s, P3 (a4 s) -> A4 s.
Proof. intros s (b & [E|[E|E]]); unfold a4, A4, Bp in *; inversion E; repeat split; auto; intros; congruence. Qed.
Lemma start_v4_P3 : forall m, P3 (a4 (ms m)) -> P3 (a4 (ms (start_v4 m))).
Proof.
  intros [s n fr q l f6] (b & H). unfold start_v4. cbn [ms mfree mn mq mo mfree6]. destruct s. unfold a4 in *. cbn in *.
  destruct H as [E|[E|E]]; inversion E; subst; cbn.
  - destruct fr; cbn; exists b; auto.
  - exists b; auto.
  - destruct live; [exists b; auto|]. destruct fr; cbn; exists b; auto.
Qed.
Lemma rereserve6_a4c : forall pdf m, a4c m (rereserve6 pdf m).
Proof. intros pdf m _. unfold rereserve6. destruct (pool_of pdf (mfree6 m)); [reflexivity|]. destruct m; reflexivity. Qed.
Lemma start_na_a4c : forall m, a4c m (start_na m).
Proof.
  intros m. unfold start_na. destruct (xs (na (v6 (ms m)))).
  - destruct (live (ms m)); [apply a4c_refl|apply rereserve6_a4c].
  - destruct (alloc6 false m) as [[k m2]|] eqn:E; [|apply a4c_refl].
    eapply a4c_trans; [eapply alloc6_a4c; eauto|]. apply a4c_upd. intros s. apply a4_on_fam.
Qed.
Lemma start_pd_a4c : forall m, a4c m (start_pd m).
Proof.
  intros m. unfold start_pd. destruct (xs (pd (v6 (ms m)))); [|apply a4c_refl].
  destruct (live (ms m)); [apply a4c_refl|apply rereserve6_a4c].
Qed.
Lemma start_ncps_A4 : forall v i m, P3 (a4 (ms m)) -> A4 (ms (start_ncps v i m)).
Proof.
  intros v i m H. unfold start_ncps.
  eapply a4c_A4; [eapply a4c_trans; [apply ncp_apply_a4c|apply ncp_apply_a4c]|].
  destruct (cur4 (ms m)) eqn:Ec; try (apply P3_A4; exact H).
  all: eapply a4c_A4; [eapply a4c_trans; [apply ncp_apply_a4c|apply ncp_apply_a4c]|].
  all: destruct m as [s ? ? ? ? ?]; destruct s; destruct H as (b & [E|[E|E]]); unfold a4, A4, Bp in *; cbn in *;
       inversion E; subst; try discriminate; repeat split; auto; intros; congruence.
Qed.
Lemma on_auth_allowed_A4 : forall v i st m, Fresh4 (ms m) -> A4 (ms (on_auth_result v i true st m)).
Proof.
  intros v i st m F. unfold on_auth_result.
  eapply a4c_A4; [apply a4c_upd; intros []; reflexivity|]. unfold start_ncp.
  match goal with |- A4 (ms (start_ncps v i (start_pd (start_na (start_v4 ?x))))) => set (mX := x) end.
  assert (PX : P3 (a4 (ms mX))).
  { unfold mX, new_ctx. destruct m as [s ? ? ? ? ?]. destruct s. unfold Fresh4, a4 in F. cbn in F. inversion F; subst.
    exists st. destruct st; cbn; destruct pty; cbn; auto. }
  pose proof (start_v4_P3 mX PX) as P1.
  assert (P2 : P3 (a4 (ms (start_pd (start_na (start_v4 mX)))))).
  { assert (E : a4 (ms (start_pd (start_na (start_v4 mX)))) = a4 (ms (start_v4 mX))).
    { apply (a4c_trans _ _ _ (start_na_a4c _) (start_pd_a4c _)). apply P3_Bp; exact P1. }
    rewrite E. exact P1. }
  apply start_ncps_A4. exact P2.
Qed.
Lemma on_auth_denied_a4c : forall v i st m, a4c m (on_auth_result v i false st m).
Proof.
  intros v i st m. unfold on_auth_result.
  eapply a4c_trans; [|apply a4c_upd; intros []; reflexivity].
  eapply a4c_trans; [|apply lcp_apply_a4c].
  destruct (pty (ms m)); try apply a4c_refl; apply a4c_emit.
Qed.
Lemma aaa_LV4 : forall v i k a s n fr q f6, vrep v = true -> pend_matches v k s = true -> G12 s -> LV4 s ->
  LV4 (ms (aaa_apply v i a (mkM s n fr q [] f6))).
Proof.
  intros v i k a s n fr q f6 Hr Hp [_ G2] [Hv Hl]. set (m := mkM s n fr q [] f6).
  destruct (aaa_needs_pending v k s Hr Hp) as (L & Pe & _).
  assert (F : Fresh4 s).
  { apply Hl; auto. destruct (G2 k Pe) as [X|X]; [congruence|]. rewrite X. reflexivity. }
  unfold aaa_apply. destruct (allowed_of a) eqn:Ea.
  - rewrite andb_false_r. cbn [andb]. split; [apply on_auth_allowed_A4; exact F|].
    intros _ N. rewrite on_auth_allowed_in_net in N. discriminate.
  - rewrite Hr. cbn [andb negb].
    rewrite (proj1 (on_auth_denied_keep v i match a with AAccIp => true | _ => false end m)). cbn [ms m]. rewrite L.
    apply LV4_terminate. eapply a4c_A4; [apply on_auth_denied_a4c|exact Hv].
Qed.

(* ------------------------------------------------------------------ *)
Definition allLV4 (st : state) : Prop := forall j s, nth_error (sl st) j = Some s -> LV4 s.
Lemma on_slot_allLV4 : forall st i h,
  (forall s, nth_error (sl st) i = Some s -> LV4 s -> LV4 (ms (h (mkM s (nreq st) (free st) (queue st) [] (free6 st))))) ->
  allLV4 st -> allLV4 (fst (on_slot st i h)).
Proof.
  intros st i h Hh Ha j s Hs. unfold on_slot in Hs. destruct (nth_error (sl st) i) as [si|] eqn:Ei; cbn [fst sl] in Hs.
  - destruct (Nat.eq_dec i j) as [E|E].
    + subst j. rewrite (nth_set_nth_eq _ _ _ _ _ Ei) in Hs. inversion Hs; subst. apply Hh; [auto|exact (Ha i si Ei)].
    + rewrite nth_set_nth_neq in Hs; auto. apply (Ha j s Hs).
  - apply (Ha j s Hs).
Qed.
Lemma open_session_fresh4 : forall v i m, Fresh4 (ms (open_session v i m)).
Proof.
  intros v i m. unfold open_session, Fresh4.
  rewrite (a4c_trans _ _ _ (lcp_apply_a4c v i fsm_up _) (lcp_apply_a4c v i (fsm_open (vrfc v)) _)).
  - rewrite ms_emit. reflexivity.
  - rewrite ms_emit. left. reflexivity.
Qed.
Lemma LV4_fresh : forall s, Fresh4 s -> LV4 s.
Proof. intros s F. split; [apply Fresh4_A4; exact F|auto]. Qed.

Theorem step_LV4 : forall v st e, good v -> allInv st -> allLV4 st -> allLV4 (fst (step v st e)).
Proof.
  intros v st e (Hr & Hh & Ht & Hn) HI Ha. destruct e as [j|j f|k a|j t|j|j| |jh k a| ]; cbn [step].
  - apply on_slot_allLV4; auto. intros s _ _. apply LV4_fresh. apply open_session_fresh4.
  - apply on_slot_allLV4; auto. intros s Hs H. apply (frame_LV4 v j f s); auto. eapply slot_G12; eauto.
  - destruct (find_idx (pend_matches v k) (sl st) 0) as [j|] eqn:Ef; [|exact Ha].
    destruct (find_idx_spec _ _ _ _ _ Ef) as (sj & _ & Hnj & Hp). rewrite Nat.sub_0_r in Hnj.
    apply on_slot_allLV4; auto. intros s Hs H. rewrite Hnj in Hs. inversion Hs; subst sj.
    apply (aaa_LV4 v j k a s); auto. eapply slot_G12; eauto.
  - apply on_slot_allLV4; auto. intros s Hs H. apply timer_LV4; auto. eapply slot_G12; eauto.
  - apply on_slot_allLV4; auto. intros s _ H. cbn [ms]. destruct (live s); auto. apply LV4_terminate. apply H.
  - apply on_slot_allLV4; auto. intros s _ H. cbn [ms]. destruct (live s); auto. apply LV4_terminate. apply H.
  - destruct (queue st) as [|[j g] q]; [exact Ha|].
    destruct (nth_error (sl st) j) as [s|]; [destruct (Nat.eqb (gen s) g)|]; exact Ha.
  - destruct (nth_error (sl st) jh) as [sj|] eqn:Ej; [|exact Ha].
    unfold held_matches. rewrite Hh. cbn [negb andb]. rewrite orb_false_r.
    destruct (pend_matches v k sj) eqn:Hp; [|exact Ha].
    apply on_slot_allLV4; auto. intros s Hs H. rewrite Ej in Hs. inversion Hs; subst sj.
    apply (aaa_LV4 v jh k a s); auto. eapply slot_G12; eauto.
  - destruct (queue st) as [|[j g] q]; [exact Ha|].
    destruct (nth_error (sl st) j) as [s|] eqn:Ej; [destruct (Nat.eqb (gen s) g)|]; try exact Ha.
    apply (on_slot_allLV4 (mkSt (sl st) (nreq st) (free st) q (free6 st)) j (sb_fail v)); auto.
    intros s0 _ H. unfold sb_fail. cbn [ms]. destruct (live s0) eqn:L.
    + rewrite ms_emit. apply LV4_terminate. rewrite ms_emit. apply H.
    + destruct (vsf v); exact H.
Qed.
Lemma run_LV4 : forall v evs st, good v -> allInv st -> allLV4 st -> allLV4 (fst (run v st evs)).
Proof.
  induction evs as [|e r IH]; intros st Hg HI Ha; [exact Ha|].
  rewrite run_cons. cbn [fst]. apply IH; auto; [apply step_allInv; auto|apply step_LV4; auto].
Qed.
Lemma init3_allLV4 : forall pool p6 ppd, allLV4 (init3 pool p6 ppd).
Proof. intros pool p6 ppd j s Hs. apply nth_error_In in Hs. apply repeat_spec in Hs. subst s. apply LV4_fresh. reflexivity. Qed.

(* the whole [leaks] predicate: on the repaired code no session, after any history, owns anything that its teardown does
   not (did not) return — IPv4 pool lease, IA_NA addresses, delegated prefixes *)
Theorem no_leaks : forall v pool p6 ppd evs i s, good v ->
  nth_error (sl (fst (run v (init3 pool p6 ppd) evs))) i = Some s -> leaks s = false.
Proof.
  intros v pool p6 ppd evs i s Hg Hs.
  destruct (teardown_no_leak v pool p6 ppd evs i s Hg Hs) as (e1 & e2 & _).
  destruct (run_LV4 v evs (init3 pool p6 ppd) Hg (init3_allInv pool p6 ppd) (init3_allLV4 pool p6 ppd) i s Hs) as [(h1 & _ & _) _].
  unfold leaks. rewrite <- e1, <- e2, !Nat.eqb_refl. cbn [negb orb]. rewrite !orb_false_r.
  destruct (alloc_pool s); [|reflexivity]. rewrite (h1 eq_refl). reflexivity.
Qed.
