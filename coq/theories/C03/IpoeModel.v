(* C03/IpoeModel.v — executable model of the IPoE gate (unified session mode, DHCP server mode), definitions only.

   Transcribes internal/ipoe:
     dhcpv4.go   handleDiscover, handleRequest, handleRelease, handleAck (server-sourced messages are dropped)
     dhcpv6.go   handleDHCPv6Solicit, handleDHCPv6Request (also Renew), handleDHCPv6Release, forwardDHCPv6ToProvider,
                 handleDHCPv6Reply
     setup.go    handleAAAResponse, setupSession (fresh), onSessionCreated
     pending.go  forwardPendingDHCPv4, forwardPendingDHCPv6, forwardLatePendingPackets
   together with what they reach in pkg/dhcp (ResolveV4/ResolveV6: one allocation per allocator context), the
   allocator pools (LIFO free list, lease owner = session id) and the lease tables of the local DHCPv4/DHCPv6
   providers as far as they decide whether a message is answered and whether a release gives the address back.
   Addresses are opaque numbers.  [rep] = true: handleAAAResponse ignores an answer when no request is in flight
   (= /repo HEAD since 671f51c); false: the code before that fix. *)
From OV Require Import Common.Base.

Definition owner := (nat * nat)%type.            (* subscriber slot, incarnation (one per session id) *)
Definition owner_eqb (a b : owner) : bool := Nat.eqb (fst a) (fst b) && Nat.eqb (snd a) (snd b).

(* pkg/allocator/pool.go *)
Record pool := mkP { pfree : list nat; pleased : list (nat * owner) }.
Definition pool_init (n : nat) : pool := mkP (seq 1 n) [].
Definition lease_of (id : nat) (p : pool) : option owner :=
  match find (fun x => Nat.eqb (fst x) id) (pleased p) with Some x => Some (snd x) | None => None end.
Definition pool_alloc (o : owner) (p : pool) : option (nat * pool) :=
  match pfree p with
  | id :: r => Some (id, mkP r ((id, o) :: pleased p))
  | [] => None
  end.
Definition pool_release (id : nat) (p : pool) : pool :=
  match lease_of id p with
  | Some _ => mkP (id :: pfree p) (filter (fun x => negb (Nat.eqb (fst x) id)) (pleased p))
  | None => p
  end.
Definition pool_reserve (id : nat) (o : owner) (p : pool) : option pool :=
  match lease_of id p with
  | Some o' => if owner_eqb o o' then Some p else None
  | None => Some (mkP (filter (fun x => negb (Nat.eqb x id)) (pfree p)) ((id, o) :: pleased p))
  end.
Definition held (o : owner) (p : pool) : nat := length (filter (fun x => owner_eqb (snd x) o) (pleased p)).

Record isess := mkI {
  iex : bool;                (* present in c.sessions / c.sessionIndex *)
  igen : nat;
  iappr : bool; iinfl : bool; icreated : bool; iclosing : bool;
  ipd : bool; ipr : bool; ips : bool; ipq : bool;   (* PendingDHCPDiscover / Request / v6 Solicit / v6 Request *)
  ictx : bool;               (* AllocCtx != nil *)
  ic4 : option nat; ic6 : option nat;               (* AllocCtx.IPv4Address / IPv6Address *)
  ib4 : option nat; ibound : bool;                  (* sess.IPv4; State == "bound" *)
  ib6 : bool; ia6 : option nat;                     (* IPv6Bound; sess.IPv6Address *)
  ipb4 : option nat; ipb6 : option nat;             (* PendingIPv4Binding / PendingIPv6Binding *)
  iduid : bool; ill : bool                          (* DHCPv6DUID set; ClientLinkLocal set *)
}.
Definition isess0 : isess :=
  mkI false 0 false false false false false false false false false None None None false false None None None false false.

(* one subscriber (MAC): current session object, earlier ones (async callbacks still refer to them), and the
   provider lease tables, which are keyed by MAC / DUID and outlive sessions *)
Record islot := mkSl {
  scur : isess;
  shist : list isess;
  pv4 : option (nat * bool);            (* local DHCPv4 provider lease: address, PoolName != "" *)
  pv6 : option (nat * owner * bool)     (* local DHCPv6 provider IA_NA lease: address, session, PoolName != "" *)
}.
Definition islot0 := mkSl isess0 [] None None.

Inductive iout :=
| IQ | IOffer | IAck | IAdv | IReply | IRelReply
| ISbAdd | ISbDel | ISb4 (add : bool) | ISb6 (add : bool)
| ILifeA | ILifeR | IProg
| IExh6.     (* the model does not follow the provider's own allocation when the IA_NA registry pool is exhausted *)
Definition iservice (o : iout) : bool :=
  match o with
  | IOffer | IAck | IAdv | IReply | ISbAdd | ISb4 true | ISb6 true | ILifeA | IProg => true
  | _ => false
  end.

Record ist := mkIst { isl : list islot; p4 : pool; p6 : pool; iq : list owner;
                      by4 : list (nat * nat) (* local DHCPv4 provider leasesByIP: address -> subscriber slot *) }.
Definition iinit (n4 n6 : nat) : ist := mkIst (repeat islot0 3) (pool_init n4) (pool_init n6) [] [].

(* machine for one handler run on one session object of one slot *)
Record im := mkIm { jms : isess; jpv4 : option (nat * bool); jpv6 : option (nat * owner * bool);
                    jm4 : pool; jm6 : pool; jmq : list owner; jmo : list (owner * iout); jby4 : list (nat * nat) }.
Definition iown (slot : nat) (m : im) : owner := (slot, igen (jms m)).
Definition iemit (slot : nat) (o : iout) (m : im) : im :=
  mkIm (jms m) (jpv4 m) (jpv6 m) (jm4 m) (jm6 m) (jmq m) ((iown slot m, o) :: jmo m) (jby4 m).
Definition iupd (f : isess -> isess) (m : im) : im := mkIm (f (jms m)) (jpv4 m) (jpv6 m) (jm4 m) (jm6 m) (jmq m) (jmo m) (jby4 m).

(* field updates *)
Definition s_flags ex ap inf cr cl (s : isess) := mkI ex (igen s) ap inf cr cl (ipd s) (ipr s) (ips s) (ipq s) (ictx s) (ic4 s) (ic6 s)
  (ib4 s) (ibound s) (ib6 s) (ia6 s) (ipb4 s) (ipb6 s) (iduid s) (ill s).
Definition s_pend d r sl q (s : isess) := mkI (iex s) (igen s) (iappr s) (iinfl s) (icreated s) (iclosing s) d r sl q (ictx s) (ic4 s) (ic6 s)
  (ib4 s) (ibound s) (ib6 s) (ia6 s) (ipb4 s) (ipb6 s) (iduid s) (ill s).
Definition s_ctx cx c4 c6 (s : isess) := mkI (iex s) (igen s) (iappr s) (iinfl s) (icreated s) (iclosing s) (ipd s) (ipr s) (ips s) (ipq s) cx c4 c6
  (ib4 s) (ibound s) (ib6 s) (ia6 s) (ipb4 s) (ipb6 s) (iduid s) (ill s).
Definition s_v4 b4 bd pb4 (s : isess) := mkI (iex s) (igen s) (iappr s) (iinfl s) (icreated s) (iclosing s) (ipd s) (ipr s) (ips s) (ipq s) (ictx s) (ic4 s) (ic6 s)
  b4 bd (ib6 s) (ia6 s) pb4 (ipb6 s) (iduid s) (ill s).
Definition s_v6 b6 a6 pb6 du ll (s : isess) := mkI (iex s) (igen s) (iappr s) (iinfl s) (icreated s) (iclosing s) (ipd s) (ipr s) (ips s) (ipq s) (ictx s) (ic4 s) (ic6 s)
  (ib4 s) (ibound s) b6 a6 (ipb4 s) pb6 du ll.

(* pkg/dhcp ResolveV4 on the session's allocator context: Some (address, allocated-in-this-call) *)
Definition resolve4 (slot : nat) (m : im) : option (nat * bool) * im :=
  let s := jms m in
  if negb (ictx s) then (None, m) else
  match ic4 s with
  | None =>
    match pool_alloc (iown slot m) (jm4 m) with
    | Some (id, p') => (Some (id, true), mkIm (s_ctx true (Some id) (ic6 s) s) (jpv4 m) (jpv6 m) p' (jm6 m) (jmq m) (jmo m) (jby4 m))
    | None => (None, m)
    end
  | Some id =>
    match pool_reserve id (iown slot m) (jm4 m) with
    | Some p' => (Some (id, false), mkIm s (jpv4 m) (jpv6 m) p' (jm6 m) (jmq m) (jmo m) (jby4 m))
    | None => (None, m)
    end
  end.
Definition resolve6 (slot : nat) (m : im) : option (nat * bool) * im :=
  let s := jms m in
  if negb (ictx s) then (None, m) else
  match ic6 s with
  | None =>
    match pool_alloc (iown slot m) (jm6 m) with
    | Some (id, p') => (Some (id, true), mkIm (s_ctx true (ic4 s) (Some id) s) (jpv4 m) (jpv6 m) (jm4 m) p' (jmq m) (jmo m) (jby4 m))
    | None => (None, m)
    end
  | Some id =>
    match pool_reserve id (iown slot m) (jm6 m) with
    | Some p' => (Some (id, false), mkIm s (jpv4 m) (jpv6 m) (jm4 m) p' (jmq m) (jmo m) (jby4 m))
    | None => (None, m)
    end
  end.

(* plugins/dhcp4/local: reserveIP + reply.  [isreq]: REQUEST (ACK) or DISCOVER (OFFER).
   leasesByIP: an entry for the address under the same MAC only refreshes it; under another MAC (never expired
   here) the packet is refused; otherwise a new lease replaces the MAC's lease (the old leasesByIP entry stays). *)
Definition by_find (id : nat) (l : list (nat * nat)) : option nat :=
  match find (fun x => Nat.eqb (fst x) id) l with Some x => Some (snd x) | None => None end.
Definition by_del (id : nat) (l : list (nat * nat)) : list (nat * nat) := filter (fun x => negb (Nat.eqb (fst x) id)) l.
Definition prov4 (slot : nat) (isreq : bool) (r : option (nat * bool)) (m : im) : option nat * im :=
  match r with
  | Some (id, hp) =>
    let reply m' := (Some id, iemit slot (if isreq then IAck else IOffer) m') in
    match by_find id (jby4 m) with
    | Some sl' => if Nat.eqb sl' slot then reply m else (None, m)
    | None => reply (mkIm (jms m) (Some (id, hp)) (jpv6 m) (jm4 m) (jm6 m) (jmq m) (jmo m) ((id, slot) :: jby4 m))
    end
  | None => (None, m)      (* since d5fadd1 (handleResolvedV4) an unresolved DISCOVER / REQUEST is not handed to the provider *)
  end.

(* dhcpv4.go handleAck *)
Definition handle_ack (slot : nat) (id : nat) (m : im) : im :=
  let m1 :=
    if icreated (jms m) then iemit slot IProg (iemit slot (ISb4 true) (iupd (fun s => s_v4 (Some id) true (ipb4 s) s) m))
    else iupd (fun s => s_v4 (Some id) true (Some id) s) m in
  iemit slot ILifeA m1.

(* dhcpv6.go handleDHCPv6Reply *)
Definition handle_reply6 (slot : nat) (id : nat) (m : im) : im :=
  let v4bound := ibound (jms m) && match ib4 (jms m) with Some _ => true | None => false end in
  let m1 :=
    if icreated (jms m) then iemit slot (ISb6 true) (iupd (fun s => s_v6 true (Some id) (ipb6 s) (iduid s) (ill s) s) m)
    else iupd (fun s => s_v6 true (Some id) (Some id) (iduid s) (ill s) s) m in
  if v4bound then iemit slot ILifeA m1 else m1.

(* plugins/dhcp6/local with a resolved address; solicit keeps a lease this session already has *)
Definition prov6 (slot : nat) (isreq : bool) (r : option (nat * bool)) (m : im) : im :=
  match r with
  | Some (id, hp) =>
    let o := iown slot m in
    let keep := negb isreq && match jpv6 m with Some (_, o', _) => owner_eqb o o' | None => false end in
    (* 277708f: re-reserving the same address for the same session keeps the pool name the lease already knows *)
    let hp' := hp || match jpv6 m with Some (id', o', hp0) => Nat.eqb id id' && owner_eqb o o' && hp0 | None => false end in
    let pv := if keep then jpv6 m else Some (id, o, hp') in
    let m1 := mkIm (jms m) (jpv4 m) pv (jm4 m) (jm6 m) (jmq m) (jmo m) (jby4 m) in
    if isreq then handle_reply6 slot id (iemit slot IReply m1) else iemit slot IAdv m1
  | None => m              (* since d5fadd1 (handleResolvedV6): no resolved binding, no answer (the provider no longer
                              allocates on its own outside the registry) *)
  end.

Definition fwd_discover (slot : nat) (m : im) : im := let '(r, m1) := resolve4 slot m in snd (prov4 slot false r m1).
(* forwardPending*/forwardLatePending*: since b04c868 the ACK of a replayed REQUEST is recorded through
   recordAck -> handleAck as well, unless the session is closing *)
Definition fwd_request_noack (slot : nat) (m : im) : im :=
  let '(r, m1) := resolve4 slot m in
  match prov4 slot true r m1 with
  | (Some id, m2) => if iclosing (jms m2) then m2 else handle_ack slot id m2
  | (None, m2) => m2
  end.
Definition fwd_request (slot : nat) (m : im) : im :=
  let '(r, m1) := resolve4 slot m in
  match prov4 slot true r m1 with
  | (Some id, m2) => handle_ack slot id m2
  | (None, m2) => m2
  end.
Definition fwd_solicit (slot : nat) (m : im) : im := let '(r, m1) := resolve6 slot m in prov6 slot false r m1.
Definition fwd_request6 (slot : nat) (m : im) : im := let '(r, m1) := resolve6 slot m in prov6 slot true r m1.

Definition publish_q (slot : nat) (m : im) : im := iemit slot IQ m.

(* handleDiscover on the session stored for the key (created by the caller when absent) *)
Definition h_discover (slot : nat) (m : im) : im :=
  let s := jms m in
  if iclosing s then m else
  let ap := iappr s in let cr := icreated s in let inf := iinfl s in
  let m1 := iupd (fun s => s_pend true (ipr s) (ips s) (ipq s) (s_flags (iex s) ap (if negb ap && negb inf then true else inf) cr (iclosing s) s)) m in
  if ap && cr then fwd_discover slot m1
  else if ap then m1
  else if inf then m1
  else publish_q slot m1.

Definition h_request (slot : nat) (m : im) : im :=
  let s := jms m in
  if iclosing s then m else
  let ap := iappr s in let inf := iinfl s in
  let m1 := iupd (fun s => s_pend (ipd s) true (ips s) (ipq s) (s_v4 (ib4 s) false (ipb4 s)
                    (s_flags (iex s) ap (if negb ap && negb inf then true else inf) (icreated s) (iclosing s) s))) m in
  if ap then fwd_request slot m1
  else if inf then m1
  else publish_q slot m1.

Definition h_solicit (slot : nat) (m : im) : im :=
  let s := jms m in
  if iclosing s then m else
  let ap := iappr s in let cr := icreated s in let inf := iinfl s in
  let m1 := iupd (fun s => s_v6 (ib6 s) (ia6 s) (ipb6 s) true true
                  (s_pend (ipd s) (ipr s) true (ipq s) (s_flags (iex s) ap (if negb ap && negb inf then true else inf) cr (iclosing s) s))) m in
  if ap && cr then fwd_solicit slot m1
  else if ap then m1
  else if inf then m1
  else publish_q slot m1.

Definition h_request6 (slot : nat) (m : im) : im :=
  let s := jms m in
  let m1 := iupd (fun s => s_v6 (ib6 s) (ia6 s) (ipb6 s) (iduid s) true (s_pend (ipd s) (ipr s) (ips s) true s)) m in
  if iappr s && icreated s then fwd_request6 slot m1 else m1.

(* provider ReleaseLease(mac) / ReleaseLease(duid) *)
Definition rel_pv4 (m : im) : im :=
  match jpv4 m with
  | Some (id, hp) => mkIm (jms m) None (jpv6 m) (if hp then pool_release id (jm4 m) else jm4 m) (jm6 m) (jmq m) (jmo m) (by_del id (jby4 m))
  | None => m
  end.
Definition rel_pv6 (m : im) : im :=
  match jpv6 m with
  | Some (id, _, hp) => mkIm (jms m) (jpv4 m) None (jm4 m) (if hp then pool_release id (jm6 m) else jm6 m) (jmq m) (jmo m) (jby4 m)
  | None => m
  end.
Definition rel4 (o : option nat) (m : im) : im :=
  match o with Some id => mkIm (jms m) (jpv4 m) (jpv6 m) (pool_release id (jm4 m)) (jm6 m) (jmq m) (jmo m) (jby4 m) | None => m end.
Definition rel6 (o : option nat) (m : im) : im :=
  match o with Some id => mkIm (jms m) (jpv4 m) (jpv6 m) (jm4 m) (pool_release id (jm6 m)) (jmq m) (jmo m) (jby4 m) | None => m end.

(* handleRelease; [good]: ciaddr equals the bound address (or the session has none) *)
Definition h_release (slot : nat) (good : bool) (m : im) : im :=
  let s := jms m in
  match ib4 s, good with
  | Some _, false => m                                     (* anti-spoof: ciaddr mismatch *)
  | _, _ =>
    let v4 := ib4 s in
    let del := negb (ib6 s) in
    let m1 := iupd (fun s => s_v4 None false (ipb4 s) s) m in
    let m2 := if del then iupd (fun s => s_v6 false None (ipb6 s) (iduid s) (ill s) (s_flags false (iappr s) (iinfl s) (icreated s) true s)) m1 else m1 in
    let m3 := rel_pv4 (rel4 v4 m2) in
    let m4' := if del && iduid s then rel_pv6 m3 else m3 in
    let m5 := if icreated s then
                let a := match v4 with Some _ => iemit slot (ISb4 false) m4' | None => m4' end in
                if del then iemit slot ISbDel a else a
              else m4' in
    iemit slot ILifeR m5
  end.

(* handleDHCPv6Release *)
Definition h_release6 (slot : nat) (m : im) : im :=
  let s := jms m in
  let v6 := ia6 s in
  let del := match ib4 s with Some _ => false | None => true end in
  let m1 := iupd (fun s => s_v6 false None (ipb6 s) (iduid s) (ill s) s) m in
  let m2 := if del then iupd (fun s => s_v4 None (ibound s) (ipb4 s) (s_flags false (iappr s) (iinfl s) (icreated s) true s)) m1 else m1 in
  let m3 := rel_pv6 m2 in
  let m3' := if ill s then iemit slot IRelReply m3 else m3 in
  let m4' := rel6 v6 m3' in
  let m5 := if del then rel_pv4 m4' else m4' in
  if icreated s then
    let a := match v6 with Some _ => iemit slot (ISb6 false) m5 | None => m5 end in
    if del then iemit slot ISbDel a else a
  else m5.

(* setup.go handleAAAResponse on the session found in sessionIndex *)
Definition h_aaa (rep : bool) (slot : nat) (allowed : bool) (m : im) : im :=
  let s := jms m in
  if rep && negb (iinfl s) then m else
  if negb allowed then
    iupd (fun s => s_pend false false (ips s) (ipq s) (s_flags false false false (icreated s) true s)) m
  else
    let pd := ipd s in let pr := ipr s in let psol := ips s in let pq := ipq s in
    let m1 := iupd (fun s => s_ctx true None None (s_pend false false false false (s_flags (iex s) true false (icreated s) (iclosing s) s))) m in
    let m2 := if icreated s then m1
              else let e := iemit slot ISbAdd m1 in mkIm (jms e) (jpv4 e) (jpv6 e) (jm4 e) (jm6 e) (jmq e ++ [iown slot e]) (jmo e) (jby4 e) in
    let m3 := if pd then fwd_discover slot m2 else m2 in
    let m4' := if pr then fwd_request_noack slot m3 else m3 in
    let m5 := if psol then fwd_solicit slot m4' else m4' in
    if pq then fwd_request6 slot m5 else m5.

(* setup.go onSessionCreated *)
Definition h_created (slot : nat) (ok : bool) (m : im) : im :=
  let s := jms m in
  if icreated s then m else
  if negb ok then m else
  let pb4 := ipb4 s in let pb6 := ipb6 s in
  let pd := ipd s in let pr := ipr s in let psol := ips s in let pq := ipq s in
  let m1 := iupd (fun s => s_v6 (ib6 s) (ia6 s) None (iduid s) (ill s) (s_v4 (ib4 s) (ibound s) None
                   (s_pend false false false false (s_flags (iex s) (iappr s) (iinfl s) true (iclosing s) s)))) m in
  let m2 := match pb4 with Some _ => iemit slot IProg (iemit slot (ISb4 true) m1) | None => m1 end in
  let m3 := match pb6 with Some _ => iemit slot (ISb6 true) m2 | None => m2 end in
  let m4' := if pd then fwd_discover slot m3 else m3 in
  let m5 := if pr then fwd_request_noack slot m4' else m4' in
  let m6' := if psol then fwd_solicit slot m5 else m5 in
  if pq then fwd_request6 slot m6' else m6'.

(* ------------------------------------------------------------------ *)
Inductive aref := RCur | ROld | RUnk.
Inductive ievent :=
| IeDiscover (i : nat) | IeRequest (i : nat) | IeRelease (i : nat) (good : bool) | IeServerMsg (i : nat)
| IeSolicit (i : nat) | IeRequest6 (i : nat) | IeRelease6 (i : nat)
| IeAAA (i : nat) (r : aref) (allowed : bool) | IeCreated (ok : bool).

Fixpoint iset_nth {A} (n : nat) (x : A) (l : list A) : list A :=
  match l, n with
  | [], _ => []
  | _ :: r, O => x :: r
  | y :: r, S n => y :: iset_nth n x r
  end.

(* run h on the current session of slot i; [mk]: create a new session object first when none is stored *)
Definition on_cur (st : ist) (i : nat) (mk : bool) (h : im -> im) : ist * list (owner * iout) :=
  match nth_error (isl st) i with
  | None => (st, [])
  | Some sl =>
    let need := negb (iex (scur sl)) in
    if need && negb mk then (st, []) else
    let fresh := mkI true (S (igen (scur sl))) false false false false false false false false false None None None false false None None None false false in
    let s0 := if need then fresh else scur sl in
    let hist := if need && negb (Nat.eqb (igen (scur sl)) 0) then scur sl :: shist sl else shist sl in
    let m := h (mkIm s0 (pv4 sl) (pv6 sl) (p4 st) (p6 st) (iq st) [] (by4 st)) in
    (mkIst (iset_nth i (mkSl (jms m) hist (jpv4 m) (jpv6 m)) (isl st)) (jm4 m) (jm6 m) (jmq m) (jby4 m), rev (jmo m))
  end.

Fixpoint upd_hist (g : nat) (f : isess -> isess) (l : list isess) : list isess :=
  match l with
  | [] => []
  | s :: r => if Nat.eqb (igen s) g then f s :: r else s :: upd_hist g f r
  end.

(* the queued AddIPoESessionAsync callback runs on the session object it was created for *)
Definition on_owner (st : ist) (o : owner) (h : im -> im) : ist * list (owner * iout) :=
  let '(i, g) := o in
  match nth_error (isl st) i with
  | None => (st, [])
  | Some sl =>
    if Nat.eqb (igen (scur sl)) g then
      let m := h (mkIm (scur sl) (pv4 sl) (pv6 sl) (p4 st) (p6 st) (iq st) [] (by4 st)) in
      (mkIst (iset_nth i (mkSl (jms m) (shist sl) (jpv4 m) (jpv6 m)) (isl st)) (jm4 m) (jm6 m) (jmq m) (jby4 m), rev (jmo m))
    else
      match find (fun s => Nat.eqb (igen s) g) (shist sl) with
      | None => (st, [])
      | Some s =>
        let m := h (mkIm s (pv4 sl) (pv6 sl) (p4 st) (p6 st) (iq st) [] (by4 st)) in
        (mkIst (iset_nth i (mkSl (scur sl) (upd_hist g (fun _ => jms m) (shist sl)) (jpv4 m) (jpv6 m)) (isl st)) (jm4 m) (jm6 m) (jmq m) (jby4 m), rev (jmo m))
      end
  end.

Definition istep (rep : bool) (st : ist) (e : ievent) : ist * list (owner * iout) :=
  match e with
  | IeDiscover i => on_cur st i true (h_discover i)
  | IeRequest i => on_cur st i true (h_request i)
  | IeRelease i good => on_cur st i false (h_release i good)
  | IeServerMsg _ => (st, [])
  | IeSolicit i => on_cur st i true (h_solicit i)
  | IeRequest6 i => on_cur st i false (h_request6 i)
  | IeRelease6 i => on_cur st i false (h_release6 i)
  | IeAAA i RCur allowed => on_cur st i false (h_aaa rep i allowed)
  | IeAAA _ _ _ => (st, [])
  | IeCreated ok =>
    match iq st with
    | [] => (st, [])
    | o :: q => on_owner (mkIst (isl st) (p4 st) (p6 st) q (by4 st)) o (h_created (fst o) ok)
    end
  end.

Fixpoint irun (rep : bool) (st : ist) (evs : list ievent) : ist * list (ievent * owner * list (owner * iout)) :=
  match evs with
  | [] => (st, [])
  | e :: r =>
    let cur := match e with
               | IeAAA i RCur _ => match nth_error (isl st) i with Some sl => (i, igen (scur sl)) | None => (i, 0) end
               | _ => (0, 0)
               end in
    let '(st1, o) := istep rep st e in
    let '(st2, tr) := irun rep st1 r in
    (st2, (e, cur, o) :: tr)
  end.

(* the property as a monitor over the trace.  [macc]: attempts (slot, incarnation) whose AAA request was answered
   with an accept; [mout]: attempts with a request published and not yet answered.  An answer is addressed to the
   attempt whose session id it carries ([cur] in the trace element) and counts only while that attempt's request
   is outstanding.  Every service output of an attempt needs the attempt in [macc]. *)
Record imon := mkIM { macc : list owner; mout : list owner }.
Definition imon0 := mkIM [] [].
Definition imem (o : owner) (l : list owner) : bool := existsb (owner_eqb o) l.
Definition irem (o : owner) (l : list owner) : list owner := filter (fun x => negb (owner_eqb x o)) l.
Definition imon_in (e : ievent) (cur : owner) (mn : imon) : imon :=
  match e with
  | IeAAA _ RCur allowed =>
    if imem cur (mout mn) then mkIM (if allowed then cur :: macc mn else irem cur (macc mn)) (irem cur (mout mn)) else mn
  | _ => mn
  end.
(* None = violation *)
Fixpoint imon_outs (l : list (owner * iout)) (mn : imon) : option imon :=
  match l with
  | [] => Some mn
  | (o, IQ) :: r => imon_outs r (mkIM (macc mn) (o :: mout mn))
  | (o, x) :: r => if negb (iservice x) || imem o (macc mn) then imon_outs r mn else None
  end.
Fixpoint imon_run (tr : list (ievent * owner * list (owner * iout))) (mn : imon) : bool :=
  match tr with
  | [] => true
  | (e, cur, o) :: r =>
    match imon_outs o (imon_in e cur mn) with
    | Some mn' => imon_run r mn'
    | None => false
    end
  end.

(* what a never-accepted attempt may hold: nothing *)
Definition holds_nothing_i (st : ist) (o : owner) (s : isess) : bool :=
  Nat.eqb (held o (p4 st)) 0 && Nat.eqb (held o (p6 st)) 0 && negb (icreated s) && negb (existsb (owner_eqb o) (iq st))
  && match ib4 s, ia6 s, ipb4 s, ipb6 s, ic4 s, ic6 s with None, None, None, None, None, None => true | _, _, _, _, _, _ => false end.
