(* C03/GateDefs.v — definitions used in the statements of the unbounded gate theorems (trace predicates only;
   the model itself is C03/Model.v). *)
From OV Require Import Common.Base C03.Model.

(* Sticky ghost over the trace of slot i: "since the slot's last PADR the monitor has held an accept", i.e. an
   allowed AAA answer arrived for the request the slot had most recently published and no authentication reset
   lay in between.  [acc_upd] is its update on one event; [ever_ok] runs it along the monitor. *)
Definition acc_upd (i : nat) (e : event) (mn : mon) (acc : bool) : bool :=
  (match e with EvOpen j => if Nat.eqb i j then false else acc | _ => acc end) || mok (mon_in i e mn).
Fixpoint ever_ok (i : nat) (tr : list (event * list (nat * out))) (mn : mon) (acc : bool) : bool :=
  match tr with
  | [] => acc
  | (e, o) :: r =>
    match mon_outs i o (mon_in i e mn) with
    | Some mn' => ever_ok i r mn' (acc_upd i e mn acc)
    | None => true
    end
  end.

(* some event of the trace is an allowed AAA answer for the request slot i has most recently published *)
Fixpoint accepted_in (i : nat) (tr : list (event * list (nat * out))) (mn : mon) : bool :=
  match tr with
  | [] => false
  | (e, o) :: r =>
    mok (mon_in i e mn) ||
    match mon_outs i o (mon_in i e mn) with
    | Some mn' => accepted_in i r mn'
    | None => false
    end
  end.

(* no service output for slot i anywhere in the trace *)
Definition svc_for (i : nat) (io : nat * out) : bool := Nat.eqb i (fst io) && service (snd io).
Definition no_service (i : nat) (tr : list (event * list (nat * out))) : bool :=
  forallb (fun eo => forallb (fun io => negb (svc_for i io)) (snd eo)) tr.

(* the outputs of one event contain "LCP left Opened" for slot i *)
Definition lcp_down_for (i : nat) (o : list (nat * out)) : bool :=
  existsb (fun io => Nat.eqb i (fst io) && match snd io with GLcpDown => true | _ => false end) o.

(* what a never-authorised subscriber may hold (Model.holds_nothing) and, in addition, may do: nothing *)
Definition inert (s : sess) : bool :=
  holds_nothing s
  && match fs (ipcp s) with Initial | Starting | Closed => true | _ => false end
  && match fs (ip6cp s) with Initial | Starting | Closed => true | _ => false end.
