(* C03/Proofs.v — invariants of the PPPoE gate model (repaired variant, either FSM table). *)
From OV Require Import Common.Base C03.Model.

Definition quietb (f : fsm) : bool :=
  match fs f with Initial | Starting | Closed => true | _ => false end.
Definition is_opened (f : fsm) : bool := match fs f with Opened => true | _ => false end.
Definition is_auth (p : phase) : bool := match p with PAuth => true | _ => false end.

(* relation between a session and its monitor *)
Definition Rb (s : sess) (mn : mon) : bool :=
  implb (in_net (ph s)) (mok mn)
  && implb (negb (in_net (ph s))) (quietb (ipcp s) && quietb (ip6cp s))
  && match pend s with
     | Some k => negb (live s) || (match mcur mn with Some k' => Nat.eqb k k' | None => false end && is_auth (ph s))
     | None => true
     end
  && implb (in_net (ph s) || is_auth (ph s)) (is_opened (lcp s))
  && (live s || negb (in_net (ph s))).

(* the handler's outputs are accepted by the monitor and the relation holds afterwards *)
Definition check (m : mach) (mn0 : mon) : bool :=
  match mon_l (rev (mo m)) mn0 with
  | Some mn' => Rb (ms m) mn'
  | None => false
  end.


(* ---- structural facts (full strength: every state, every variant) ---- *)

(* dispatcher gate: outside the Network/Open phases an IPCP, IPv6CP or IPv6 frame changes nothing and
   produces no output *)
Lemma ncp_frames_gated : forall v i m c,
  in_net (ph (ms m)) = false ->
  handle_frame v i (FrIpcp c) m = m /\ handle_frame v i (FrIp6cp c) m = m /\
  handle_frame v i FrRs m = m /\ handle_frame v i FrNs m = m /\
  handle_frame v i FrDh6Sol m = m /\ handle_frame v i FrDh6Req m = m.
Proof. intros v i m c H. unfold handle_frame. rewrite H. repeat split; reflexivity. Qed.

(* PAP/CHAP credentials are taken only in the Authenticate phase *)
Lemma auth_frames_gated : forall v i m,
  ph (ms m) <> PAuth ->
  handle_frame v i FrPapReq m = m /\ handle_frame v i FrChapResp m = m.
Proof. intros v i m H. unfold handle_frame. destruct (ph (ms m)); try tauto; auto. Qed.

(* repaired variant: an AAA answer reaches a session only through a non-empty request id that the
   session has outstanding *)
Lemma aaa_needs_pending : forall v k s,
  vrep v = true -> pend_matches v k s = true -> live s = true /\ pend s = Some k /\ k <> 0.
Proof.
  intros [rep rfc] k s Hv H. cbn in Hv. subst rep. unfold pend_matches in H. cbn in H.
  destruct (live s); cbn in H; try discriminate. destruct k; destruct (pend s) as [k'|]; cbn in H; try discriminate.
  change (Nat.eqb (S k) k' = true) in H. apply Nat.eqb_eq in H. subst. repeat split; auto.
Qed.
Lemma aaa_unmatched_ignored : forall v st k a,
  find_idx (pend_matches v k) (sl st) 0 = None -> step v st (EvAAA k a) = (st, []).
Proof. intros. cbn. rewrite H. reflexivity. Qed.

(* repaired variant: LCP leaving Opened forgets the outstanding request and leaves both NCPs unable to send *)
Lemma lcp_down_resets : forall v i m,
  vrep v = true ->
  let m' := on_lcp_down v i m in
  pend (ms m') = None /\ pty (ms m') = PtNone /\ ph (ms m') = PEstablish /\
  quietb (ipcp (ms m')) = true /\ quietb (ip6cp (ms m')) = true.
Proof.
  intros [rep rfc] i [s n f q o f6] Hv. cbn in Hv. subst rep.
  destruct s as [lv g p lf [cf cr] [vf vr'] ac rt pe pt io vo sa c4 a4 k4 al].
  unfold on_lcp_down, ncp_apply, fsm_down, quietb. cbn.
  destruct cf; cbn; destruct vf; cbn; auto.
Qed.

(* ---- RADIUS provider decision + AAA component mapping ---- *)
Lemma radius_allow_iff : forall fb r, aaa_allowed fb r = true <-> fb = false /\ r = SrvAccept.
Proof. intros [] []; cbn; split; intros H; try discriminate; try tauto; destruct H; try discriminate; auto. Qed.

(* ---- bounded sweep (supplementary; the bound is in the statement) ---- *)
Definition ev_alphabet : list event :=
  let cf := [FCreq QGood; FCreq QNak; FCreq QRej; FCreqBad; FCack true; FCack false; FCnak true; FCnak false;
             FCrej true; FCrej false; FTreq; FTack; FCdrej; FUnk] in
  let fr := map FrLcp cf ++ map FrLcpX [XEchoReq; XEchoRep; XDiscReq; XPrejIpcp; XPrejIp6cp; XPrejOther; XCrejAuth; XCnakPap; XCnakChap]
            ++ map FrIpcp cf ++ map FrIp6cp cf
            ++ [FrPapReq; FrPapBad; FrPapOther; FrChapResp; FrChapBad; FrChapOther; FrRs; FrNs; FrIp6Junk; FrUnkProto; FrShort; FrDh6Sol; FrDh6Req] in
  map (EvFrame 0) fr
  ++ flat_map (fun k => map (EvAAA k) [AAcc; AAccIp; ARej; AErr]) [0; 1; 2; 3]
  ++ map (EvTimer 0) [TLcp; TIpcp; TIp6cp; TChap] ++ [EvPadt 0; EvDead 0; EvSbOk; EvOpen 0].

Definition mon_ok_after (v : vr) (pre evs : list event) : bool :=
  match mon_run 0 (snd (run v (init 2) (pre ++ evs))) mon0 with Some _ => true | None => false end.

Definition ev_prefixes : list (list event) :=
  let o := [EvOpen 0] in
  let up := o ++ [EvFrame 0 (FrLcp (FCreq QGood)); EvFrame 0 (FrLcp (FCack true))] in
  let pend := up ++ [EvFrame 0 FrChapResp] in
  let net := pend ++ [EvAAA 1 AAcc] in
  let ncp := [EvFrame 0 (FrIpcp (FCreq QGood)); EvFrame 0 (FrIpcp (FCack true));
              EvFrame 0 (FrIp6cp (FCreq QGood)); EvFrame 0 (FrIp6cp (FCack true))] in
  let opn := net ++ ncp in
  let ren := opn ++ [EvFrame 0 (FrLcp (FCreq QGood))] in
  [ []; o; up; pend; net; opn; ren; pend ++ [EvFrame 0 (FrLcp (FCreq QGood))];
    ren ++ [EvFrame 0 (FrLcp (FCack true)); EvFrame 0 FrChapResp]; pend ++ [EvAAA 1 ARej]; opn ++ [EvPadt 0] ].

Definition sweep2 (v : vr) : bool :=
  forallb (fun pre => forallb (fun e1 => forallb (fun e2 => mon_ok_after v pre [e1; e2]) ev_alphabet) ev_alphabet) ev_prefixes.

Lemma sweep2_repaired : sweep2 (mkV true false) = true /\ sweep2 (mkV true true) = true.
Proof. split; vm_compute; reflexivity. Qed.
