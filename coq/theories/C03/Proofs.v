From OV Require Import Common.Base C03.Model.
