(* C03/IpoeProofs.v — the IPoE gate.  Every proof here is cheap (seconds); the brute-force handler specifications
   that were tried first needed minutes and tens of GB and were removed.  What is proved at full strength are the
   per-handler gates (any machine state); the statement over all event sequences is a bounded sweep only. *)
From OV Require Import Common.Base C03.IpoeModel.

Definition nosvc (l : list (owner * iout)) : Prop := forall x, In x l -> iservice (snd x) = false.

Ltac open m := destruct m as [s0 a0 b0 c0 d0 e0 f0 g0]; destruct s0; simpl in *; subst.
Ltac emitted := unfold nosvc in *; simpl in *; intros;
  repeat match goal with H : _ \/ _ |- _ => destruct H end; subst; simpl; auto; try contradiction.

(* --- a client packet handled for a session that is not approved produces no service output --- *)
Lemma discover_unapproved : forall slot m, iappr (jms m) = false -> nosvc (jmo m) -> nosvc (jmo (h_discover slot m)).
Proof.
  intros slot m Ha Hn. open m. unfold h_discover, publish_q, iemit, iupd. simpl.
  destruct iclosing; simpl; auto. destruct iinfl; simpl; auto. emitted.
Qed.
Lemma request_unapproved : forall slot m, iappr (jms m) = false -> nosvc (jmo m) -> nosvc (jmo (h_request slot m)).
Proof.
  intros slot m Ha Hn. open m. unfold h_request, publish_q, iemit, iupd. simpl.
  destruct iclosing; simpl; auto. destruct iinfl; simpl; auto. emitted.
Qed.
Lemma solicit_unapproved : forall slot m, iappr (jms m) = false -> nosvc (jmo m) -> nosvc (jmo (h_solicit slot m)).
Proof.
  intros slot m Ha Hn. open m. unfold h_solicit, publish_q, iemit, iupd. simpl.
  destruct iclosing; simpl; auto. destruct iinfl; simpl; auto. emitted.
Qed.
Lemma request6_unapproved : forall slot m, iappr (jms m) = false -> nosvc (jmo m) -> nosvc (jmo (h_request6 slot m)).
Proof. intros slot m Ha Hn. open m. unfold h_request6, iupd. simpl. auto. Qed.

(* --- releases never produce a service output, approved or not --- *)
Lemma nosvc_emit : forall slot x m, iservice x = false -> nosvc (jmo m) -> nosvc (jmo (iemit slot x m)).
Proof. unfold nosvc, iemit. simpl. intros slot x m Hx Hn y [Hy|Hy]; subst; auto. Qed.
Lemma jmo_iupd : forall f m, jmo (iupd f m) = jmo m. Proof. reflexivity. Qed.
Lemma jmo_rel_pv4 : forall m, jmo (rel_pv4 m) = jmo m.
Proof. intros m. unfold rel_pv4. destruct (jpv4 m) as [[? ?]|]; reflexivity. Qed.
Lemma jmo_rel_pv6 : forall m, jmo (rel_pv6 m) = jmo m.
Proof. intros m. unfold rel_pv6. destruct (jpv6 m) as [[[? ?] ?]|]; reflexivity. Qed.
Lemma jmo_rel4 : forall o m, jmo (rel4 o m) = jmo m. Proof. intros [?|] m; reflexivity. Qed.
Lemma jmo_rel6 : forall o m, jmo (rel6 o m) = jmo m. Proof. intros [?|] m; reflexivity. Qed.
Ltac rel_tac :=
  cbv zeta;
  repeat match goal with
  | |- context [match ?x with _ => _ end] => destruct x
  | |- context [if ?x then _ else _] => destruct x
  end;
  auto; repeat (apply nosvc_emit; [reflexivity|]);
  repeat (rewrite jmo_rel_pv4 || rewrite jmo_rel_pv6 || rewrite jmo_rel4 || rewrite jmo_rel6 || rewrite jmo_iupd ||
          (apply nosvc_emit; [reflexivity|])); auto.
Lemma release_nosvc : forall slot good m, nosvc (jmo m) -> nosvc (jmo (h_release slot good m)).
Proof. intros slot good m Hn. unfold h_release. timeout 60 rel_tac. Qed.
Lemma release6_nosvc : forall slot m, nosvc (jmo m) -> nosvc (jmo (h_release6 slot m)).
Proof. intros slot m Hn. unfold h_release6. timeout 60 rel_tac. Qed.

(* --- the AAA answer (repaired) --- *)
(* ignored unless the session has a request in flight: duplicates, late and unsolicited answers change nothing *)
Lemma aaa_needs_inflight : forall slot allowed m, iinfl (jms m) = false -> h_aaa true slot allowed m = m.
Proof. intros slot allowed m H. unfold h_aaa. rewrite H. reflexivity. Qed.
(* a reject or error emits nothing, queues nothing, allocates nothing and leaves the session unapproved and gone *)
Lemma aaa_reject : forall slot m,
  let m' := h_aaa true slot false m in
  jmo m' = jmo m /\ jmq m' = jmq m /\ jm4 m' = jm4 m /\ jm6 m' = jm6 m /\ jpv4 m' = jpv4 m /\ jpv6 m' = jpv6 m /\
  (iinfl (jms m) = true -> iappr (jms m') = false /\ iex (jms m') = false /\
     ic4 (jms m') = ic4 (jms m) /\ ib4 (jms m') = ib4 (jms m) /\ icreated (jms m') = icreated (jms m)).
Proof.
  intros slot m. open m. unfold h_aaa, iupd. destruct iinfl; simpl; repeat split; auto; intros; try discriminate; repeat split; auto.
Qed.
(* approval comes only from an accept that finds a request in flight *)
Lemma aaa_approves : forall slot allowed m,
  iappr (jms (h_aaa true slot allowed m)) = true -> iappr (jms m) = true \/ (allowed = true /\ iinfl (jms m) = true).
Proof.
  intros slot allowed m. unfold h_aaa. destruct (iinfl (jms m)) eqn:E; simpl; auto.
  destruct allowed; simpl; auto.
Qed.
(* answers carrying an earlier or an unknown session id reach nobody *)
Lemma aaa_foreign_ignored : forall rep st i a, istep rep st (IeAAA i ROld a) = (st, []) /\ istep rep st (IeAAA i RUnk a) = (st, []).
Proof. intros. split; reflexivity. Qed.
(* no stored session: the answer (and REQUEST6 / RELEASE / RELEASE6) changes nothing *)
Lemma no_session_no_effect : forall rep st i sl a,
  nth_error (isl st) i = Some sl -> iex (scur sl) = false ->
  istep rep st (IeAAA i RCur a) = (st, []) /\ istep rep st (IeRequest6 i) = (st, []) /\
  istep rep st (IeRelease6 i) = (st, []) /\ (forall g, istep rep st (IeRelease i g) = (st, [])).
Proof. intros rep st i sl a Hn He. unfold istep, on_cur. rewrite Hn, He. simpl. repeat split. Qed.

(* --- bounded sweep (supplementary; the bounds are in the statement) --- *)
Definition iev_alphabet : list ievent :=
  [IeDiscover 0; IeRequest 0; IeRelease 0 true; IeRelease 0 false; IeServerMsg 0; IeSolicit 0; IeRequest6 0; IeRelease6 0;
   IeAAA 0 RCur true; IeAAA 0 RCur false; IeAAA 0 ROld true; IeAAA 0 RUnk true; IeCreated true; IeCreated false].
Definition iev_prefixes : list (list ievent) :=
  let acc := IeAAA 0 RCur true in
  [ []; [IeDiscover 0]; [IeRequest 0]; [IeSolicit 0]; [IeDiscover 0; IeRequest 0; IeSolicit 0; IeRequest6 0];
    [IeDiscover 0; acc]; [IeDiscover 0; acc; IeDiscover 0; IeRequest 0; IeSolicit 0; IeRequest6 0];
    [IeDiscover 0; acc; IeCreated true]; [IeDiscover 0; acc; IeCreated true; IeRequest 0];
    [IeDiscover 0; acc; IeCreated true; IeRequest 0; IeSolicit 0; IeRequest6 0];
    [IeSolicit 0; acc; IeCreated true; IeRequest6 0]; [IeDiscover 0; IeAAA 0 RCur false];
    [IeDiscover 0; IeAAA 0 RCur false; IeDiscover 0]; [IeDiscover 0; acc; IeCreated true; IeRequest 0; IeRelease 0 true];
    [IeDiscover 0; acc; IeCreated false] ].
(* gate: the monitor accepts the trace; reject-clean: every attempt that is not approved at the end holds nothing *)
Definition unapproved_clean (st : ist) : bool :=
  forallb (fun isl' => let '(i, sl) := isl' in
     forallb (fun s => iappr s || Nat.eqb (igen s) 0 || holds_nothing_i st (i, igen s) s) (scur sl :: shist sl))
    (combine (seq 0 3) (isl st)).
Definition iok (pre evs : list ievent) : bool :=
  let r := irun true (iinit 2 8) (pre ++ evs) in
  imon_run (snd r) imon0 && unapproved_clean (fst r).
Definition isweep3 : bool :=
  forallb (fun pre => forallb (fun e1 => forallb (fun e2 => forallb (fun e3 => iok pre [e1; e2; e3]) iev_alphabet) iev_alphabet) iev_alphabet) iev_prefixes.
Lemma isweep3_ok : isweep3 = true.
Proof. vm_compute. reflexivity. Qed.

(* the code before 671f51c (rep = false): the two witnesses *)
Definition iw_reject_after_bind := [IeDiscover 0; IeAAA 0 RCur true; IeCreated true; IeRequest 0; IeAAA 0 RCur false].
Definition iw_second_accept := [IeDiscover 0; IeAAA 0 RCur true; IeCreated true; IeAAA 0 RCur true; IeDiscover 0].
Lemma ipoe_refuted :
  unapproved_clean (fst (irun false (iinit 2 8) iw_reject_after_bind)) = false /\
  length (pfree (p4 (fst (irun false (iinit 2 8) iw_second_accept)))) = 0 /\
  unapproved_clean (fst (irun true (iinit 2 8) iw_reject_after_bind)) = true /\
  length (pfree (p4 (fst (irun true (iinit 2 8) iw_second_accept)))) = 1.
Proof. vm_compute. auto. Qed.
