(* C03/IpoeGateMain.v — the IPoE gate invariant lifted from one handler to the component's step function
   (IpoeModel.istep, repaired variant rep = true) and to ALL event sequences; theorems ipoe_gate,
   ipoe_reject_clean, ipoe_unapproved_clean. *)
From OV Require Import Common.Base C03.IpoeModel C03.IpoeProofs C03.IpoeGateBase C03.IpoeGateHandlers.

(* ------------------------------------------------------------------ *)
(* list glue *)
Lemma nth_iset_eq : forall A (l : list A) n x y, nth_error l n = Some y -> nth_error (iset_nth n x l) n = Some x.
Proof. induction l as [|a l IH]; intros [|n] x y H; cbn in *; try discriminate; eauto. Qed.
Lemma nth_iset_neq : forall A (l : list A) n k x, n <> k -> nth_error (iset_nth n x l) k = nth_error l k.
Proof. induction l as [|a l IH]; intros [|n] [|k] x H; cbn; auto; try congruence. Qed.
Lemma iset_iset : forall A (l : list A) n x y, iset_nth n x (iset_nth n y l) = iset_nth n x l.
Proof. induction l as [|a l IH]; intros [|n] x y; cbn; auto. rewrite IH. reflexivity. Qed.

(* incarnations of one subscriber: strictly decreasing down the history *)
Fixpoint desc (g : nat) (l : list isess) : Prop :=
  match l with [] => True | s :: r => igen s < g /\ desc (igen s) r end.
Lemma desc_weaken : forall l g g', desc g l -> g <= g' -> desc g' l.
Proof. destruct l as [|s r]; cbn; auto. intros g g' [H1 H2] H. split; auto. lia. Qed.
Lemma desc_lt : forall l g s, desc g l -> In s l -> igen s < g.
Proof.
  induction l as [|a l IH]; intros g s H Hi; [destruct Hi|]. destruct H as [H1 H2]. destruct Hi as [Hi|Hi].
  - subst. exact H1.
  - specialize (IH _ _ H2 Hi). lia.
Qed.
Lemma find_gen : forall g l s, find (fun s => Nat.eqb (igen s) g) l = Some s -> In s l /\ igen s = g.
Proof. intros g l s H. apply find_some in H. destruct H as [H1 H2]. apply Nat.eqb_eq in H2. auto. Qed.
Lemma upd_hist_in : forall g f l g0, desc g0 l -> forall x, In x (upd_hist g f l) ->
  (exists y, In y l /\ igen y = g /\ x = f y) \/ (In x l /\ igen x <> g).
Proof.
  induction l as [|a l IH]; intros g0 H x Hx; cbn in Hx; [destruct Hx|]. destruct H as [H1 H2].
  destruct (Nat.eqb (igen a) g) eqn:E.
  - apply Nat.eqb_eq in E. destruct Hx as [Hx|Hx].
    + left. exists a. split; [left; auto|]. auto.
    + right. split; [right; auto|]. pose proof (desc_lt _ _ _ H2 Hx). lia.
  - apply Nat.eqb_neq in E. destruct Hx as [Hx|Hx].
    + right. subst x. split; [left; auto|auto].
    + destruct (IH _ H2 x Hx) as [(y & Y1 & Y2 & Y3)|[Y1 Y2]].
      * left. exists y. split; [right; auto|auto].
      * right. split; [right; auto|auto].
Qed.
Lemma desc_upd : forall g f l g0, (forall y, igen y = g -> igen (f y) = g) -> desc g0 l -> desc g0 (upd_hist g f l).
Proof.
  induction l as [|a l IH]; intros g0 Hf H; cbn; auto. destruct H as [H1 H2].
  destruct (Nat.eqb (igen a) g) eqn:E; cbn.
  - apply Nat.eqb_eq in E. rewrite (Hf a E). rewrite <- E. auto.
  - split; auto.
Qed.

(* ------------------------------------------------------------------ *)
(* views of an owner; the invariant of a slot and of the component *)
Definition VLe (o : owner) (st : ist) (mn : imon) (st' : ist) (mn' : imon) : Prop :=
  (imem o (macc mn) = true -> imem o (macc mn') = true) /\
  imem o (mout mn') = imem o (mout mn) /\
  (imem o (iq st') = true -> imem o (iq st) = true) /\
  held o (p4 st') <= held o (p4 st) /\ held o (p6 st') <= held o (p6 st).
Definition SIv (i : nat) (s : isess) (st : ist) (mn : imon) : Prop :=
  SI s (imem (i, igen s) (macc mn)) (imem (i, igen s) (mout mn)) (imem (i, igen s) (iq st))
       (held (i, igen s) (p4 st)) (held (i, igen s) (p6 st)).
Lemma SIv_mono : forall i s st mn st' mn', SIv i s st mn -> VLe (i, igen s) st mn st' mn' -> SIv i s st' mn'.
Proof.
  intros i s st mn st' mn' H (v1 & v2 & v3 & v4 & v5). unfold SIv in *. eapply SI_mono; eauto.
Qed.

Record SlotInv (i : nat) (sl : islot) (st : ist) (mn : imon) : Prop := mkSlotInv {
  sl_all : forall s, In s (scur sl :: shist sl) -> SIv i s st mn;
  sl_b2 : iex (scur sl) = true -> iinfl (scur sl) = true -> imem (i, igen (scur sl)) (mout mn) = true;
  sl_desc : desc (igen (scur sl)) (shist sl);
  sl_fut : forall g, igen (scur sl) < g ->
           imem (i, g) (mout mn) = false /\ imem (i, g) (iq st) = false /\ held (i, g) (p4 st) = 0 /\ held (i, g) (p6 st) = 0 }.
Definition GInv (st : ist) (mn : imon) : Prop := forall i sl, nth_error (isl st) i = Some sl -> SlotInv i sl st mn.

Lemma fut_mono : forall o st mn st' mn', VLe o st mn st' mn' ->
  imem o (mout mn) = false /\ imem o (iq st) = false /\ held o (p4 st) = 0 /\ held o (p6 st) = 0 ->
  imem o (mout mn') = false /\ imem o (iq st') = false /\ held o (p4 st') = 0 /\ held o (p6 st') = 0.
Proof.
  intros o st mn st' mn' (v1 & v2 & v3 & v4 & v5) (a & b & c & d). split; [congruence|].
  split; [destruct (imem o (iq st')); auto; specialize (v3 eq_refl); congruence|]. split; lia.
Qed.
Lemma SlotInv_mono : forall i sl st mn st' mn', SlotInv i sl st mn -> (forall g, VLe (i, g) st mn st' mn') -> SlotInv i sl st' mn'.
Proof.
  intros i sl st mn st' mn' [A B D F] V. constructor; auto.
  - intros s Hs. eapply SIv_mono; eauto.
  - intros He Hi. destruct (V (igen (scur sl))) as (_ & v2 & _). rewrite v2. auto.
  - intros g Hg. eapply fut_mono; eauto.
Qed.

Lemma glue : forall st mn st' mn' i sl sl' o,
  GInv st mn -> nth_error (isl st) i = Some sl -> isl st' = iset_nth i sl' (isl st) -> fst o = i ->
  (forall o', o' <> o -> VLe o' st mn st' mn') -> SlotInv i sl' st' mn' -> GInv st' mn'.
Proof.
  intros st mn st' mn' i sl sl' o G Hn Hs Ho V S i2 sl2 H2. rewrite Hs in H2. destruct (Nat.eq_dec i i2) as [E|E].
  - subst i2. rewrite (nth_iset_eq _ _ _ _ _ Hn) in H2. inversion H2; subst. exact S.
  - rewrite nth_iset_neq in H2; auto. eapply SlotInv_mono; [apply G; exact H2|].
    intros g. apply V. intros C. subst o. cbn in Ho. congruence.
Qed.

Lemma slot_cur : forall i sl st mn st' mn' s' a b,
  SlotInv i sl st mn -> igen s' = igen (scur sl) ->
  (forall o', o' <> (i, igen (scur sl)) -> VLe o' st mn st' mn') ->
  SIv i s' st' mn' ->
  (iex s' = true -> iinfl s' = true -> imem (i, igen s') (mout mn') = true) ->
  SlotInv i (mkSl s' (shist sl) a b) st' mn'.
Proof.
  intros i sl st mn st' mn' s' a b [A B D F] Hg V S B2. constructor; cbn [scur shist].
  - intros s [Hs|Hs]; [subst; exact S|]. eapply SIv_mono; [apply A; right; exact Hs|].
    apply V. intros C. inversion C. pose proof (desc_lt _ _ _ D Hs). lia.
  - exact B2.
  - rewrite Hg. exact D.
  - intros g Hg2. rewrite Hg in Hg2. eapply fut_mono; [|apply F; exact Hg2]. apply V. intros C. inversion C. lia.
Qed.

Lemma slot_hist : forall i sl st mn st' mn' s s' g a b,
  SlotInv i sl st mn -> find (fun s => Nat.eqb (igen s) g) (shist sl) = Some s -> igen s' = g ->
  (forall o', o' <> (i, g) -> VLe o' st mn st' mn') ->
  SIv i s' st' mn' ->
  SlotInv i (mkSl (scur sl) (upd_hist g (fun _ => s') (shist sl)) a b) st' mn'.
Proof.
  intros i sl st mn st' mn' s s' g a b [A B D F] Hf Hg V S.
  destruct (find_gen _ _ _ Hf) as [Hin Hgs]. pose proof (desc_lt _ _ _ D Hin) as Hlt.
  assert (Vc : VLe (i, igen (scur sl)) st mn st' mn') by (apply V; intros C; inversion C; lia).
  constructor; cbn [scur shist].
  - intros x [Hx|Hx].
    + subst x. eapply SIv_mono; [apply A; left; reflexivity|exact Vc].
    + destruct (upd_hist_in _ _ _ _ D x Hx) as [(y & Y1 & Y2 & Y3)|[Y1 Y2]].
      * subst x. exact S.
      * eapply SIv_mono; [apply A; right; exact Y1|]. apply V. intros C. inversion C. contradiction.
  - intros He Hi. destruct Vc as (_ & v2 & _). rewrite v2. auto.
  - apply desc_upd; auto.
  - intros g2 Hg2. eapply fut_mono; [|apply F; exact Hg2]. apply V. intros C. inversion C. lia.
Qed.

(* ------------------------------------------------------------------ *)
(* a handler run on an approved attempt (any handler that is Fr) *)
Lemma in_rev_iff : forall A (l : list A) x, In x (rev l) -> In x l.
Proof. intros. apply in_rev. exact H. Qed.

Lemma appr_run : forall i st mn s a b c m',
  SIv i s st mn -> iappr s = true -> Fr i (mkIm s a b (p4 st) (p6 st) (iq st) [] c) m' ->
  imon_outs (rev (jmo m')) mn = Some mn /\ igen (jms m') = igen s /\ iappr (jms m') = true /\ iinfl (jms m') = false /\
  (forall X Y o', o' <> (i, igen s) -> VLe o' st mn (mkIst X (jm4 m') (jm6 m') (jmq m') Y) mn).
Proof.
  intros i st mn s a b c m' [s1 s2 s3 s4] Ha [fg fa fi (new & fo & fn) foth].
  cbn [jms jmo jm4 jm6 jmq iown] in *. rewrite app_nil_r in fo. subst new.
  split; [|split; [|split; [|split]]]; auto; try congruence.
  - apply imon_outs_acc with (i, igen s); auto. intros x Hx. apply in_rev_iff in Hx. apply fn. exact Hx.
  - rewrite fi. destruct (iinfl s); auto. specialize (s3 eq_refl). congruence.
  - intros X Y o' Ho. destruct (foth o' Ho) as (h1 & h2 & h3). unfold VLe. cbn [p4 p6 iq].
    repeat split; auto. rewrite h3. auto.
Qed.

Lemma SI_appr : forall s acc outm inq h4 h6, iappr s = true -> iinfl s = false -> acc = true -> outm = false -> SI s acc outm inq h4 h6.
Proof. intros. constructor; intros; congruence. Qed.

(* the handled session is the subscriber's current one *)
Lemma cur_commit : forall st mn i sl s' a b p4' p6' q' by' mn',
  GInv st mn -> nth_error (isl st) i = Some sl ->
  igen s' = igen (scur sl) ->
  (forall o', o' <> (i, igen (scur sl)) -> VLe o' st mn (mkIst (iset_nth i (mkSl s' (shist sl) a b) (isl st)) p4' p6' q' by') mn') ->
  SI s' (imem (i, igen (scur sl)) (macc mn')) (imem (i, igen (scur sl)) (mout mn')) (imem (i, igen (scur sl)) q')
     (held (i, igen (scur sl)) p4') (held (i, igen (scur sl)) p6') ->
  (iex s' = true -> iinfl s' = true -> imem (i, igen (scur sl)) (mout mn') = true) ->
  GInv (mkIst (iset_nth i (mkSl s' (shist sl) a b) (isl st)) p4' p6' q' by') mn'.
Proof.
  intros st mn i sl s' a b p4' p6' q' by' mn' G Hn Hg V S B2.
  eapply glue with (o := (i, igen (scur sl))) (sl := sl) (sl' := mkSl s' (shist sl) a b);
    [exact G|exact Hn|reflexivity|reflexivity|exact V|].
  eapply slot_cur; [apply G; exact Hn|exact Hg|exact V|..].
  - unfold SIv. cbn [p4 p6 iq]. rewrite Hg. exact S.
  - rewrite Hg. exact B2.
Qed.

Lemma cur_step_gen : forall st mn i sl m',
  GInv st mn -> nth_error (isl st) i = Some sl ->
  (iappr (scur sl) = true -> Fr i (mkIm (scur sl) (pv4 sl) (pv6 sl) (p4 st) (p6 st) (iq st) [] (by4 st)) m') ->
  (iappr (scur sl) = false -> iex (scur sl) = true /\ US i (mkIm (scur sl) (pv4 sl) (pv6 sl) (p4 st) (p6 st) (iq st) [] (by4 st)) m') ->
  exists mn', imon_outs (rev (jmo m')) mn = Some mn' /\
    GInv (mkIst (iset_nth i (mkSl (jms m') (shist sl) (jpv4 m') (jpv6 m')) (isl st)) (jm4 m') (jm6 m') (jmq m') (jby4 m')) mn'.
Proof.
  intros st mn i sl m' G Hn HF HU. pose proof (G i sl Hn) as S. pose proof (sl_all _ _ _ _ S (scur sl) (or_introl eq_refl)) as K.
  destruct (iappr (scur sl)) eqn:Ea.
  - destruct (appr_run _ _ _ _ _ _ _ _ K Ea (HF eq_refl)) as (M & Hg & Hap & Hin & V).
    exists mn. split; auto. eapply cur_commit; eauto.
    + destruct K as [k1 k2 k3 k4]. apply SI_appr; auto.
      destruct (imem (i, igen (scur sl)) (mout mn)); auto. specialize (k2 eq_refl). specialize (k3 k2). congruence.
    + intros _ C. congruence.
  - destruct (HU eq_refl) as [Hex [ug ua un uo ui uq uh]]. cbn [jms jmo jm4 jm6 jmq iown] in *.
    destruct (imon_outs_ns (i, igen (scur sl)) (rev (jmo m')) mn) as (mn' & M1 & M2 & M3 & M4).
    { intros x Hx. apply in_rev_iff in Hx. apply uo. exact Hx. }
    assert (Eq : existsb (fun x => isIQ (snd x)) (rev (jmo m')) = anyIQ (jmo m')).
    { unfold anyIQ. destruct (existsb _ (jmo m')) eqn:E.
      - apply existsb_exists in E. destruct E as (x & X1 & X2). apply existsb_exists. exists x. split; auto. apply in_rev in X1. exact X1.
      - destruct (existsb _ (rev (jmo m'))) eqn:E2; auto. apply existsb_exists in E2. destruct E2 as (x & X1 & X2).
        apply in_rev_iff in X1. assert (existsb (fun x => isIQ (snd x)) (jmo m') = true) by (apply existsb_exists; eauto). congruence. }
    rewrite Eq in M4.
    exists mn'. split; auto. destruct K as [k1 k2 k3 k4]. destruct (k4 Ea) as (c1 & c2 & c3 & c4).
    eapply cur_commit; eauto.
    + intros o' Ho. unfold VLe. cbn [p4 p6 iq]. rewrite M2, uq. destruct (uh o'). repeat split; auto.
    + constructor.
      * intros C. congruence.
      * rewrite M4, ui. intros C. apply orb_true_iff in C. destruct C as [C|C]; [rewrite C, orb_true_r; auto|].
        rewrite (k2 C). reflexivity.
      * intros _. exact ua.
      * intros _. rewrite uq. destruct (uh (i, igen (scur sl))).
        split; [exact c1|]. split; [lia|]. split; [lia|]. apply un. exact c4.
    + intros _ Hi. rewrite M4. rewrite ui in Hi. apply orb_true_iff in Hi. destruct Hi as [Hi|Hi]; [|rewrite Hi; auto].
      rewrite (sl_b2 _ _ _ _ S Hex Hi). apply orb_true_r.
Qed.

(* the handled session is an earlier incarnation (queued dataplane callback) *)
Lemma hist_step_gen : forall st mn i sl g s m',
  GInv st mn -> nth_error (isl st) i = Some sl ->
  find (fun s => Nat.eqb (igen s) g) (shist sl) = Some s -> iappr s = true ->
  Fr i (mkIm s (pv4 sl) (pv6 sl) (p4 st) (p6 st) (iq st) [] (by4 st)) m' ->
  imon_outs (rev (jmo m')) mn = Some mn /\
  GInv (mkIst (iset_nth i (mkSl (scur sl) (upd_hist g (fun _ => jms m') (shist sl)) (jpv4 m') (jpv6 m')) (isl st))
              (jm4 m') (jm6 m') (jmq m') (jby4 m')) mn.
Proof.
  intros st mn i sl g s m' G Hn Hf Ha HF. pose proof (G i sl Hn) as S.
  destruct (find_gen _ _ _ Hf) as [Hin Hgs].
  pose proof (sl_all _ _ _ _ S s (or_intror Hin)) as K.
  destruct (appr_run _ _ _ _ _ _ _ _ K Ha HF) as (M & Hg & Hap & Hinf & V). split; auto.
  subst g.
  eapply glue with (o := (i, igen s)) (sl := sl)
    (sl' := mkSl (scur sl) (upd_hist (igen s) (fun _ => jms m') (shist sl)) (jpv4 m') (jpv6 m'));
    [exact G|exact Hn|reflexivity|reflexivity|apply V|].
  eapply slot_hist; [exact S|exact Hf|exact Hg|apply V|].
  unfold SIv. cbn [p4 p6 iq]. rewrite Hg. destruct K as [k1 k2 k3 k4]. apply SI_appr; auto.
  destruct (imem (i, igen s) (mout mn)); auto. specialize (k2 eq_refl). specialize (k3 k2). congruence.
Qed.

(* ------------------------------------------------------------------ *)
(* on_cur unfolded *)
Definition fresh_of (sl : islot) : isess :=
  mkI true (S (igen (scur sl))) false false false false false false false false false None None None false false None None None false false.
Definition hist_of (sl : islot) : list isess :=
  if negb (Nat.eqb (igen (scur sl)) 0) then scur sl :: shist sl else shist sl.
Definition cur_res (st : ist) (i : nat) (sl : islot) (s0 : isess) (hist : list isess) (h : im -> im) : ist * list (owner * iout) :=
  let m := h (mkIm s0 (pv4 sl) (pv6 sl) (p4 st) (p6 st) (iq st) [] (by4 st)) in
  (mkIst (iset_nth i (mkSl (jms m) hist (jpv4 m) (jpv6 m)) (isl st)) (jm4 m) (jm6 m) (jmq m) (jby4 m), rev (jmo m)).
Lemma on_cur_ex : forall st i mk h sl, nth_error (isl st) i = Some sl -> iex (scur sl) = true ->
  on_cur st i mk h = cur_res st i sl (scur sl) (shist sl) h.
Proof. intros st i mk h sl Hn He. unfold on_cur. rewrite Hn, He. reflexivity. Qed.
Lemma on_cur_noex : forall st i h sl, nth_error (isl st) i = Some sl -> iex (scur sl) = false -> on_cur st i false h = (st, []).
Proof. intros st i h sl Hn He. unfold on_cur. rewrite Hn, He. reflexivity. Qed.
Lemma on_cur_none : forall st i mk h, nth_error (isl st) i = None -> on_cur st i mk h = (st, []).
Proof. intros st i mk h Hn. unfold on_cur. rewrite Hn. reflexivity. Qed.
Definition st_fresh (st : ist) (i : nat) (sl : islot) : ist :=
  mkIst (iset_nth i (mkSl (fresh_of sl) (hist_of sl) (pv4 sl) (pv6 sl)) (isl st)) (p4 st) (p6 st) (iq st) (by4 st).
Lemma on_cur_fresh : forall st i h sl, nth_error (isl st) i = Some sl -> iex (scur sl) = false ->
  on_cur st i true h = cur_res (st_fresh st i sl) i (mkSl (fresh_of sl) (hist_of sl) (pv4 sl) (pv6 sl)) (fresh_of sl) (hist_of sl) h.
Proof.
  intros st i h sl Hn He. unfold on_cur. rewrite Hn, He. cbn [negb andb]. unfold cur_res, st_fresh. cbn [isl p4 p6 iq by4 pv4 pv6].
  rewrite iset_iset. reflexivity.
Qed.

Lemma VLe_refl_fields : forall o st mn st', p4 st' = p4 st -> p6 st' = p6 st -> iq st' = iq st -> VLe o st mn st' mn.
Proof. intros o st mn st' H1 H2 H3. unfold VLe. rewrite H1, H2, H3. repeat split; auto. Qed.

Lemma fresh_GInv : forall st mn i sl, GInv st mn -> nth_error (isl st) i = Some sl -> iex (scur sl) = false ->
  GInv (st_fresh st i sl) mn.
Proof.
  intros st mn i sl G Hn He. pose proof (G i sl Hn) as [A B D F].
  assert (V : forall o, VLe o st mn (st_fresh st i sl) mn) by (intros; apply VLe_refl_fields; reflexivity).
  eapply glue with (o := (i, 0)); eauto; [reflexivity|].
  constructor; cbn [scur shist].
  - intros s [Hs|Hs].
    + subst s. unfold SIv. cbn [igen fresh_of]. destruct (F (S (igen (scur sl))) (Nat.lt_succ_diag_r _)) as (f1 & f2 & f3 & f4).
      cbn [st_fresh p4 p6 iq]. rewrite f1, f2, f3, f4. constructor; cbn; try discriminate. intros _. unfold Nothing. cbn. repeat split; auto.
    + eapply SIv_mono; [|apply V]. apply A. unfold hist_of in Hs. destruct (negb _); [exact Hs|right; exact Hs].
  - cbn. discriminate.
  - cbn [igen fresh_of]. unfold hist_of. destruct (Nat.eqb (igen (scur sl)) 0) eqn:E; cbn [negb].
    + eapply desc_weaken; [exact D|lia].
    + cbn. split; auto.
  - cbn [igen fresh_of]. intros g Hg. eapply fut_mono; [apply V|]. apply F. lia.
Qed.

(* a client packet *)
Lemma client_step : forall st mn i mk h,
  GInv st mn ->
  (forall m, iappr (jms m) = true -> Fr i m (h m)) ->
  (forall m, jmo m = [] -> iappr (jms m) = false -> US i m (h m)) ->
  exists mn', imon_outs (snd (on_cur st i mk h)) mn = Some mn' /\ GInv (fst (on_cur st i mk h)) mn'.
Proof.
  intros st mn i mk h G HF HU. destruct (nth_error (isl st) i) as [sl|] eqn:Hn.
  2:{ rewrite on_cur_none; auto. exists mn. split; auto. }
  destruct (iex (scur sl)) eqn:He.
  - rewrite (on_cur_ex _ _ _ _ _ Hn He). unfold cur_res. cbn [fst snd].
    apply cur_step_gen; auto.
  - destruct mk.
    + rewrite (on_cur_fresh _ _ _ _ Hn He). unfold cur_res. cbn [fst snd].
      pose proof (fresh_GInv _ _ _ _ G Hn He) as G2.
      assert (Hn2 : nth_error (isl (st_fresh st i sl)) i = Some (mkSl (fresh_of sl) (hist_of sl) (pv4 sl) (pv6 sl))).
      { unfold st_fresh. cbn [isl]. eapply nth_iset_eq; eauto. }
      apply (cur_step_gen _ _ _ _ _ G2 Hn2); cbn [scur pv4 pv6]; auto.
    + rewrite (on_cur_noex _ _ _ _ Hn He). exists mn. split; auto.
Qed.

(* ------------------------------------------------------------------ *)
(* the AAA answer *)
Lemma mon_only : forall st mn c (allowed : bool),
  GInv st mn -> imem c (mout mn) = true ->
  (forall sl, nth_error (isl st) (fst c) = Some sl -> igen (scur sl) = snd c -> iex (scur sl) = false) ->
  GInv st (mkIM (if allowed then c :: macc mn else irem c (macc mn)) (irem c (mout mn))).
Proof.
  intros st mn c allowed G Hc Hx i sl Hn. destruct (G i sl Hn) as [A B D F]. constructor; cbn [macc mout].
  - intros s Hs. destruct (A s Hs) as [a b c' d]. unfold SIv. cbn [macc mout].
    destruct (owner_dec (i, igen s) c) as [E|E].
    + rewrite E in *. pose proof (b Hc) as Hi. pose proof (c' Hi) as Hap. constructor.
      * intros C. congruence.
      * rewrite imem_irem_same. discriminate.
      * exact c'.
      * exact d.
    + constructor.
      * intros C. specialize (a C). destruct allowed; [rewrite imem_cons_other; auto|rewrite imem_irem_other; auto].
      * rewrite imem_irem_other; auto.
      * exact c'.
      * exact d.
  - intros He Hi. destruct (owner_dec (i, igen (scur sl)) c) as [E|E].
    + subst c. cbn [fst snd] in Hx. rewrite (Hx sl Hn eq_refl) in He. discriminate.
    + rewrite imem_irem_other; auto.
  - exact D.
  - intros g Hg. destruct (F g Hg) as (f1 & f2 & f3 & f4). repeat split; auto.
    destruct (imem (i, g) (irem c (mout mn))) eqn:E; auto. apply imem_irem_le in E. congruence.
Qed.

Lemma Nothing_reject : forall s, Nothing s -> Nothing (f_reject s).
Proof. intros s H. exact H. Qed.

Lemma aaa_step : forall st mn i allowed,
  GInv st mn ->
  let cur := match nth_error (isl st) i with Some sl => (i, igen (scur sl)) | None => (i, 0) end in
  exists mn', imon_outs (snd (on_cur st i false (h_aaa true i allowed))) (imon_in (IeAAA i RCur allowed) cur mn) = Some mn' /\
              GInv (fst (on_cur st i false (h_aaa true i allowed))) mn'.
Proof.
  intros st mn i allowed G. cbv zeta. destruct (nth_error (isl st) i) as [sl|] eqn:Hn.
  2:{ rewrite on_cur_none; auto. cbn [fst snd imon_outs imon_in]. eexists. split; [reflexivity|].
      destruct (imem (i, 0) (mout mn)) eqn:E; auto. apply mon_only; auto. cbn [fst]. intros sl Hs. congruence. }
  destruct (iex (scur sl)) eqn:He.
  2:{ rewrite (on_cur_noex _ _ _ _ Hn He). cbn [fst snd imon_outs imon_in]. eexists. split; [reflexivity|].
      destruct (imem (i, igen (scur sl)) (mout mn)) eqn:E; auto. apply mon_only; auto. cbn [fst snd]. intros sl2 Hs _.
      rewrite Hn in Hs. inversion Hs; subst. exact He. }
  rewrite (on_cur_ex _ _ _ _ _ Hn He). unfold cur_res. cbn [fst snd].
  pose proof (G i sl Hn) as S. pose proof (sl_all _ _ _ _ S (scur sl) (or_introl eq_refl)) as K.
  set (m0 := mkIm (scur sl) (pv4 sl) (pv6 sl) (p4 st) (p6 st) (iq st) [] (by4 st)).
  destruct (iinfl (scur sl)) eqn:Hi.
  - (* a request is in flight *)
    pose proof (sl_b2 _ _ _ _ S He Hi) as Hm. pose proof (si_infl _ _ _ _ _ _ K Hi) as Hap.
    destruct (si_clean _ _ _ _ _ _ K Hap) as (c1 & c2 & c3 & c4).
    cbn [imon_in]. rewrite Hm.
    destruct allowed.
    + pose proof (aaa_accept_Fr i m0 Hi) as HF. set (m' := h_aaa true i true m0) in *. clearbody m'.
      destruct HF as [fg fa fi (new & fo & fn) foth].
      cbn [m0 iupd jms jmo jm4 jm6 jmq iown f_accept s_ctx s_pend s_flags igen iappr iinfl] in *.
      rewrite app_nil_r in fo. subst new.
      eexists. split.
      * apply imon_outs_acc with (i, igen (scur sl)); [|cbn [macc]; apply imem_cons_same].
        intros x Hx. apply in_rev_iff in Hx. apply fn. exact Hx.
      * eapply cur_commit; eauto; cbn [macc mout].
        -- intros o' Ho. destruct (foth o' Ho) as (h1 & h2 & h3). unfold VLe. cbn [p4 p6 iq macc mout].
           rewrite imem_cons_other by auto. rewrite imem_irem_other by auto. rewrite h3. repeat split; auto.
        -- apply SI_appr; auto. apply imem_cons_same. apply imem_irem_same.
        -- intros _ C. congruence.
    + rewrite (aaa_reject_eq i m0 Hi). cbn [m0 iupd jms jmo jpv4 jpv6 jm4 jm6 jmq jby4 rev imon_outs].
      eexists. split; [reflexivity|].
      eapply cur_commit; eauto; cbn [macc mout].
      * intros o' Ho. unfold VLe. cbn [p4 p6 iq macc mout]. rewrite !imem_irem_other by auto. repeat split; auto.
      * constructor.
        -- cbn. discriminate.
        -- rewrite imem_irem_same. discriminate.
        -- cbn. discriminate.
        -- intros _. split; [exact c1|]. split; [exact c2|]. split; [exact c3|]. exact c4.
      * cbn. discriminate.
  - (* none in flight: the answer is ignored by the component, and by the monitor *)
    assert (Hm : imem (i, igen (scur sl)) (mout mn) = false).
    { destruct (imem _ (mout mn)) eqn:E; auto. pose proof (si_out _ _ _ _ _ _ K E). congruence. }
    cbn [imon_in]. rewrite Hm.
    assert (Hid : h_aaa true i allowed m0 = m0) by (apply aaa_needs_inflight; exact Hi).
    rewrite Hid. apply cur_step_gen; auto.
    + intros _. apply FrG_refl.
    + intros Ha. split; auto. apply US_refl; auto.
Qed.

(* ------------------------------------------------------------------ *)
(* the dataplane completion callback *)
Lemma created_step : forall st mn ok,
  GInv st mn ->
  exists mn', imon_outs (snd (istep true st (IeCreated ok))) mn = Some mn' /\ GInv (fst (istep true st (IeCreated ok))) mn'.
Proof.
  intros st mn ok G. cbn [istep]. destruct (iq st) as [|[i g] q] eqn:Eq.
  { exists mn. split; auto. }
  set (st0 := mkIst (isl st) (p4 st) (p6 st) q (by4 st)).
  assert (V0 : forall o, VLe o st mn st0 mn).
  { intros o. unfold VLe. cbn [st0 p4 p6 iq]. rewrite Eq. repeat split; auto. intros H. rewrite imem_cons, H. apply orb_true_r. }
  assert (G0 : GInv st0 mn).
  { intros i2 sl2 H2. eapply SlotInv_mono; [apply G; exact H2|]. intros; apply V0. }
  assert (Appr : forall sl s, nth_error (isl st) i = Some sl -> In s (scur sl :: shist sl) -> igen s = g -> iappr s = true).
  { intros sl s Hn Hs Hg. pose proof (sl_all _ _ _ _ (G i sl Hn) s Hs) as K. destruct (iappr s) eqn:E; auto.
    destruct (si_clean _ _ _ _ _ _ K E) as (c1 & _). rewrite Eq, Hg, imem_cons_same in c1. discriminate. }
  unfold on_owner. cbn [fst]. change (isl st0) with (isl st).
  destruct (nth_error (isl st) i) as [sl|] eqn:Hn.
  2:{ exists mn. split; auto. }
  destruct (Nat.eqb (igen (scur sl)) g) eqn:Eg.
  - apply Nat.eqb_eq in Eg. cbn [fst snd].
    apply (cur_step_gen st0 mn i sl); auto.
    + intros _. apply h_created_Fr.
    + intros C. rewrite (Appr sl (scur sl) eq_refl (or_introl eq_refl) Eg) in C. discriminate.
  - destruct (find (fun s => Nat.eqb (igen s) g) (shist sl)) as [s|] eqn:Ef.
    2:{ exists mn. split; auto. }
    cbn [fst snd]. destruct (find_gen _ _ _ Ef) as [Hin Hgs].
    destruct (hist_step_gen st0 mn i sl g s (h_created i ok (mkIm s (pv4 sl) (pv6 sl) (p4 st0) (p6 st0) (iq st0) [] (by4 st0))) G0 Hn Ef)
      as [M G1].
    + apply (Appr sl s eq_refl (or_intror Hin) Hgs).
    + apply h_created_Fr.
    + exists mn. split; [exact M|exact G1].
Qed.

(* ------------------------------------------------------------------ *)
(* one step, whole histories *)
Definition ev_cur (st : ist) (e : ievent) : owner :=
  match e with
  | IeAAA i RCur _ => match nth_error (isl st) i with Some sl => (i, igen (scur sl)) | None => (i, 0) end
  | _ => (0, 0)
  end.

Lemma istep_Inv : forall st e mn, GInv st mn ->
  exists mn', imon_outs (snd (istep true st e)) (imon_in e (ev_cur st e) mn) = Some mn' /\ GInv (fst (istep true st e)) mn'.
Proof.
  intros st e mn G. destruct e as [i|i|i good|i|i|i|i|i r allowed|ok].
  - cbn [istep imon_in]. apply client_step; auto; intros; [apply h_discover_Fr|apply h_discover_US]; auto.
  - cbn [istep imon_in]. apply client_step; auto; intros; [apply h_request_Fr|apply h_request_US]; auto.
  - cbn [istep imon_in]. apply client_step; auto; intros; [apply Rl_Fr|apply Rl_US; auto]; apply h_release_Rl.
  - cbn [istep imon_in fst snd imon_outs]. exists mn. split; auto.
  - cbn [istep imon_in]. apply client_step; auto; intros; [apply h_solicit_Fr|apply h_solicit_US]; auto.
  - cbn [istep imon_in]. apply client_step; auto; intros; [apply h_request6_Fr|apply h_request6_US]; auto.
  - cbn [istep imon_in]. apply client_step; auto; intros; [apply Rl_Fr|apply Rl_US; auto]; apply h_release6_Rl.
  - destruct r; try (cbn [istep imon_in fst snd imon_outs]; exists mn; split; auto; fail).
    cbn [istep ev_cur]. apply aaa_step. exact G.
  - cbn [imon_in]. apply created_step. exact G.
Qed.

Lemma irun_cons : forall rep st e r,
  irun rep st (e :: r) =
  (fst (irun rep (fst (istep rep st e)) r), (e, ev_cur st e, snd (istep rep st e)) :: snd (irun rep (fst (istep rep st e)) r)).
Proof.
  intros. cbn [irun]. fold (ev_cur st e). destruct (istep rep st e) as [st1 o]. cbn [fst snd].
  destruct (irun rep st1 r). reflexivity.
Qed.

(* the monitor's final state (imon_run only says whether it got there) *)
Fixpoint imon_fin (tr : list (ievent * owner * list (owner * iout))) (mn : imon) : option imon :=
  match tr with
  | [] => Some mn
  | (e, cur, o) :: r =>
    match imon_outs o (imon_in e cur mn) with
    | Some mn' => imon_fin r mn'
    | None => None
    end
  end.
Lemma imon_run_fin : forall tr mn, imon_run tr mn = match imon_fin tr mn with Some _ => true | None => false end.
Proof.
  induction tr as [|[[e cur] o] r IH]; intros mn; cbn [imon_run imon_fin]; auto.
  destruct (imon_outs o (imon_in e cur mn)); auto.
Qed.

Lemma irun_Inv : forall evs st mn, GInv st mn ->
  exists mn', imon_fin (snd (irun true st evs)) mn = Some mn' /\ GInv (fst (irun true st evs)) mn'.
Proof.
  induction evs as [|e r IH]; intros st mn G.
  - exists mn. split; auto.
  - rewrite irun_cons. cbn [fst snd imon_fin].
    destruct (istep_Inv st e mn G) as (mn1 & M & G1). rewrite M. apply IH. exact G1.
Qed.

Lemma GInv_init : forall n4 n6, GInv (iinit n4 n6) imon0.
Proof.
  intros n4 n6 i sl Hn. unfold iinit in Hn. cbn [isl] in Hn. apply nth_error_In in Hn. apply repeat_spec in Hn. subst sl.
  constructor; cbn [scur shist islot0].
  - intros s [Hs|[]]. subst s. unfold SIv. cbn. constructor; try discriminate. intros _. unfold Nothing. cbn. repeat split; auto.
  - cbn. discriminate.
  - cbn. exact I.
  - intros g _. cbn. auto.
Qed.

(* ------------------------------------------------------------------ *)
(* theorems *)

(* C03_ipoe_gate: over every event sequence from the initial state the gate monitor never flags *)
Theorem ipoe_gate : forall n4 n6 evs, imon_run (snd (irun true (iinit n4 n6) evs)) imon0 = true.
Proof.
  intros n4 n6 evs. rewrite imon_run_fin.
  destruct (irun_Inv evs _ _ (GInv_init n4 n6)) as (mn' & M & _). rewrite M. reflexivity.
Qed.

Lemma SI_holds_nothing : forall st i s mn, SIv i s st mn -> iappr s = false -> holds_nothing_i st (i, igen s) s = true.
Proof.
  intros st i s mn K Ha. destruct (si_clean _ _ _ _ _ _ K Ha) as (c1 & c2 & c3 & n1 & n2 & n3 & n4 & n5 & n6 & n7).
  unfold holds_nothing_i. unfold imem in c1. rewrite c1, c2, c3, n1, n2, n3, n4, n5, n6, n7. reflexivity.
Qed.

(* C03_ipoe_reject_clean: an attempt (session object s of subscriber i) the monitor holds no accept for at the end of
   the history — its request was answered reject / error last, is still unanswered, or was never made — is not
   approved and holds nothing: no IPv4 / IPv6 registry lease, no address in session, pending binding or allocator
   context, no dataplane session, no queued dataplane add *)
Theorem ipoe_reject_clean : forall n4 n6 evs mn i sl s,
  imon_fin (snd (irun true (iinit n4 n6) evs)) imon0 = Some mn ->
  nth_error (isl (fst (irun true (iinit n4 n6) evs))) i = Some sl -> In s (scur sl :: shist sl) ->
  imem (i, igen s) (macc mn) = false ->
  iappr s = false /\ holds_nothing_i (fst (irun true (iinit n4 n6) evs)) (i, igen s) s = true.
Proof.
  intros n4 n6 evs mn i sl s M Hn Hs Hm.
  destruct (irun_Inv evs _ _ (GInv_init n4 n6)) as (mn' & M' & G). rewrite M in M'. inversion M'; subst mn'.
  pose proof (sl_all _ _ _ _ (G i sl Hn) s Hs) as K.
  assert (Ha : iappr s = false).
  { destruct (iappr s) eqn:E; auto. pose proof (si_acc _ _ _ _ _ _ K E). congruence. }
  split; auto. eapply SI_holds_nothing; eauto.
Qed.

(* state-only form: every attempt that is not approved holds nothing *)
Theorem ipoe_unapproved_holds_nothing : forall n4 n6 evs i sl s,
  nth_error (isl (fst (irun true (iinit n4 n6) evs))) i = Some sl -> In s (scur sl :: shist sl) ->
  iappr s = false -> holds_nothing_i (fst (irun true (iinit n4 n6) evs)) (i, igen s) s = true.
Proof.
  intros n4 n6 evs i sl s Hn Hs Ha.
  destruct (irun_Inv evs _ _ (GInv_init n4 n6)) as (mn' & _ & G).
  eapply SI_holds_nothing; eauto. apply (sl_all _ _ _ _ (G i sl Hn) s Hs).
Qed.

Lemma combine_seq_nth : forall A (l : list A) a n i x, In (i, x) (combine (seq a n) l) -> a <= i /\ nth_error l (i - a) = Some x.
Proof.
  induction l as [|y l IH]; intros a n i x H; destruct n; cbn in H; try contradiction.
  destruct H as [H|H].
  - inversion H; subst. rewrite Nat.sub_diag. auto.
  - destruct (IH _ _ _ _ H) as [H1 H2]. split; [lia|]. replace (i - a) with (S (i - S a)) by lia. exact H2.
Qed.

(* the predicate of the bounded sweep (IpoeProofs.unapproved_clean), now for every history *)
Theorem ipoe_unapproved_clean : forall n4 n6 evs, unapproved_clean (fst (irun true (iinit n4 n6) evs)) = true.
Proof.
  intros n4 n6 evs. unfold unapproved_clean. apply forallb_forall. intros [i sl] Hin.
  apply combine_seq_nth in Hin. destruct Hin as [_ Hn]. rewrite Nat.sub_0_r in Hn.
  apply forallb_forall. intros s Hs. destruct (iappr s) eqn:Ea; auto. cbn [orb].
  rewrite (ipoe_unapproved_holds_nothing n4 n6 evs i sl s Hn Hs Ea). apply orb_true_r.
Qed.
