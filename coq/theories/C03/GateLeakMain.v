(* C03/GateLeakMain.v — discharging the proviso of GateLeak.v: phase lemmas (a handler in Network/Open with LCP Opened stays
   there or emits GLcpDown; Timeout in LCP Opened does nothing; the accept ends in Network/Open), the invariant LV threaded with
   GateInv.Inv through the step, and C03_teardown_no_leak. *)
From OV Require Import Common.Base C03.Model C03.Proofs C03.GateDefs C03.GateInv C03.GateMain C03.GateReject C03.GateObs C03.GateLeak.

(* ------------------------------------------------------------------ *)
(* handlers that leave the phase alone *)
Definition phs (m m' : mach) : Prop := ph (ms m') = ph (ms m).
Lemma phs_refl : forall m, phs m m. Proof. reflexivity. Qed.
Lemma phs_trans : forall a b c, phs a b -> phs b c -> phs a c. Proof. unfold phs; intros; congruence. Qed.
Lemma phs_emit : forall o m, phs m (emit o m). Proof. intros o []; reflexivity. Qed.
Lemma phs_upd : forall f m, (forall s, ph (f s) = ph s) -> phs m (upd f m). Proof. intros f [] H; apply H. Qed.
Lemma ph_on_fam : forall pdf g s, ph (on_fam pdf g s) = ph s. Proof. intros pdf g []; reflexivity. Qed.
Lemma phs_set : forall s' m, ph s' = ph (ms m) -> phs m (upd (fun _ => s') m). Proof. intros s' [] H; exact H. Qed.
Lemma alloc6_phs : forall pdf m k m2, alloc6 pdf m = Some (k, m2) -> phs m m2.
Proof.
  intros pdf m k m2 E. unfold alloc6 in E. destruct (pool_of pdf (mfree6 m)); [discriminate|]. inversion E; subst; clear E.
  destruct m as [s n0 fr q l f6]. unfold phs. cbn [ms mn mfree mq mo mfree6 emit]. apply ph_on_fam.
Qed.
Lemma resolve6_phs : forall pdf m, phs m (fst (resolve6 pdf m)).
Proof.
  intros pdf m. unfold resolve6. destruct (xc (fam_of pdf (v6 (ms m)))); [apply phs_refl|].
  destruct (alloc6 pdf m) as [[k m2]|] eqn:E; [|apply phs_refl]. cbn [fst].
  eapply phs_trans; [eapply alloc6_phs; eauto|]. apply phs_upd. intros s. apply ph_on_fam.
Qed.
Lemma dh6_phs : forall keep req m, phs m (dh6 keep req m).
Proof.
  intros keep req m. unfold dh6.
  pose proof (resolve6_phs false m) as H1. destruct (resolve6 false m) as [m1 n_na]. cbn [fst] in H1.
  pose proof (resolve6_phs true m1) as H2. destruct (resolve6 true m1) as [m2 n_pd]. cbn [fst] in H2.
  eapply phs_trans; [exact H1|]. eapply phs_trans; [exact H2|]. clear.
  destruct (xc (na (v6 (ms m2)))), (xc (pd (v6 (ms m2)))); try apply phs_refl; destruct req.
  all: repeat first
       [ match goal with
         | |- phs _ (match ?x with Some _ => _ | None => _ end) => destruct x
         | |- phs _ (if ?x then _ else _) => destruct x
         end
       | (eapply phs_trans; [|apply phs_emit]) ].
  all: apply phs_set; unfold reserve6;
    try (destruct (reserved6 false (ms m2) && reserved6 true (ms m2))); repeat rewrite ph_on_fam; reflexivity.
Qed.

(* handlers that do not leave Network/Open *)
Definition ink (m m' : mach) : Prop := in_net (ph (ms m)) = true -> in_net (ph (ms m')) = true.
Lemma ink_refl : forall m, ink m m. Proof. intros m H; exact H. Qed.
Lemma ink_trans : forall a b c, ink a b -> ink b c -> ink a c. Proof. unfold ink; auto. Qed.
Lemma phs_ink : forall m m', phs m m' -> ink m m'. Proof. unfold phs, ink. intros m m' E H. rewrite E. exact H. Qed.
Lemma check_open_ink : forall i m, ink m (check_open i m).
Proof.
  intros i [s n fr q l f6]. unfold check_open, ink. destruct s. cbn [ms Model.ph Model.ipcp_open Model.ip6cp_open Model.cur4].
  destruct ph; cbn; auto. destruct (ipcp_open || ip6cp_open); cbn; auto. destruct cur4; cbn; auto.
Qed.
Lemma ncp_act_ink : forall i n a m, ink m (ncp_act i n a m).
Proof.
  intros i n a m. destruct a; cbn [ncp_act]; try apply ink_refl.
  - apply phs_ink, phs_emit.
  - destruct n; (eapply ink_trans; [|apply check_open_ink]); apply phs_ink, phs_upd; intros []; reflexivity.
  - destruct n; apply phs_ink, phs_upd; intros []; reflexivity.
Qed.
Lemma ncp_apply_ink : forall i n g m, ink m (ncp_apply i n g m).
Proof.
  intros i n g m. unfold ncp_apply. destruct (g (get_ncp n (ms m))) as [f' acts].
  eapply ink_trans; [apply phs_ink; apply (phs_upd (set_ncp n f')); intros []; destruct n; reflexivity|].
  generalize (upd (set_ncp n f') m). clear. induction acts as [|a acts IH]; intros m; cbn [fold_left]; [apply ink_refl|].
  eapply ink_trans; [apply ncp_act_ink|apply IH].
Qed.
Lemma start_ncp_ink : forall v i m, ink m (start_ncp v i m).
Proof.
  intros v i m. unfold start_ncp.
  assert (A : phs m (start_v4 m)).
  { unfold start_v4. destruct m as [s n fr q l f6]. cbn [ms mfree mn mq mo mfree6]. destruct (cur4 s); try apply phs_refl.
    - destruct fr; [apply phs_refl|]. destruct s; reflexivity.
    - destruct (live s); [apply phs_refl|]. destruct fr; [apply phs_refl|reflexivity]. }
  assert (R : forall pdf m0, phs m0 (rereserve6 pdf m0)).
  { intros pdf m0. unfold rereserve6. destruct (pool_of pdf (mfree6 m0)); [apply phs_refl|]. destruct m0; reflexivity. }
  assert (B : forall m0, phs m0 (start_na m0)).
  { intros m0. unfold start_na. destruct (xs (na (v6 (ms m0)))).
    - destruct (live (ms m0)); [apply phs_refl|apply R].
    - destruct (alloc6 false m0) as [[k m2]|] eqn:E; [|apply phs_refl].
      eapply phs_trans; [eapply alloc6_phs; eauto|]. apply phs_upd. intros s. apply ph_on_fam. }
  assert (C : forall m0, phs m0 (start_pd m0)).
  { intros m0. unfold start_pd. destruct (xs (pd (v6 (ms m0)))); [|apply phs_refl].
    destruct (live (ms m0)); [apply phs_refl|apply R]. }
  assert (D : forall m0, ink m0 (start_ncps v i m0)).
  { intros m0. unfold start_ncps.
    eapply ink_trans; [|apply ncp_apply_ink]. eapply ink_trans; [|apply ncp_apply_ink].
    destruct (cur4 (ms m0)); try apply ink_refl;
      (eapply ink_trans; [|apply ncp_apply_ink]); (eapply ink_trans; [|apply ncp_apply_ink]);
      apply phs_ink, phs_upd; intros []; reflexivity. }
  eapply ink_trans; [apply phs_ink; eapply phs_trans; [apply A|eapply phs_trans; [apply B|apply C]]|apply D].
Qed.
(* (c) the accept ends in Network/Open *)
Lemma on_auth_allowed_in_net : forall v i st m, in_net (ph (ms (on_auth_result v i true st m))) = true.
Proof.
  intros v i st m. unfold on_auth_result.
  match goal with |- in_net (ph (ms (upd ?f (start_ncp v i ?x)))) = true =>
    assert (E : ph (ms (upd f (start_ncp v i x))) = ph (ms (start_ncp v i x))) by (destruct (start_ncp v i x) as [s ? ? ? ? ?]; destruct s; reflexivity);
    rewrite E; apply (start_ncp_ink v i x) end.
  match goal with |- in_net (ph (ms (upd (set_ph PNetwork) ?y))) = true => destruct y as [s ? ? ? ? ?]; destruct s; reflexivity end.
Qed.

(* ------------------------------------------------------------------ *)
(* (a) in Network/Open with LCP Opened, a handler either stays there or emits GLcpDown *)
Lemma lcp_fold_neutral_phs : forall v i acts m, forallb neutral acts = true ->
  phs m (fold_left (fun m a => lcp_act v i a m) acts m).
Proof.
  induction acts as [|a acts IH]; intros m H; cbn [fold_left]; [apply phs_refl|].
  cbn [forallb] in H. apply andb_true_iff in H. destruct H as [Ha H].
  eapply phs_trans; [|apply IH; auto].
  destruct a; try discriminate; cbn [lcp_act]; try apply phs_refl. apply phs_emit.
Qed.
Lemma lcp_apply_stay : forall v i g m, lcp_okg g -> lopen m = true -> lopen (lcp_apply v i g m) = true ->
  phs m (lcp_apply v i g m).
Proof.
  intros v i g m Hg Ha Hb. unfold lcp_apply in *. pose proof (Hg (lcp (ms m))) as C.
  destruct (g (lcp (ms m))) as [f' acts] eqn:Eg. cbn [fst snd] in C.
  set (m1 := upd (set_lcp f') m) in *.
  assert (L1 : lcp (ms m1) = f') by (destruct m as [s n fr q l f6]; destruct s; reflexivity).
  assert (P1 : phs m m1) by (apply phs_upd; intros []; reflexivity).
  destruct (lcp_fold_same v i acts m1) as (s1 & _ & _).
  unfold lopen in Ha, Hb. rewrite s1, L1 in Hb. unfold lcp_class in C. rewrite Ha, Hb in C.
  eapply phs_trans; [exact P1|]. apply lcp_fold_neutral_phs. exact C.
Qed.
Definition stay_or_down (m m' : mach) : Prop :=
  in_net (ph (ms m)) = true -> lopen m = true -> in_net (ph (ms m')) = true \/ In GLcpDown (mo m').
Lemma lcp_apply_sod : forall v i g m, lcp_okg g -> stay_or_down m (lcp_apply v i g m).
Proof.
  intros v i g m Hg Hn Ho. destruct (lopen (lcp_apply v i g m)) eqn:E.
  - left. rewrite (lcp_apply_stay v i g m Hg Ho E). exact Hn.
  - right. destruct (lcp_apply_marks v i g m Hg) as (_ & K & _). apply K; auto.
Qed.
Lemma ink_sod : forall m m', ink m m' -> stay_or_down m m'. Proof. intros m m' K Hn _. left. apply K. exact Hn. Qed.
Lemma upd_then_sod : forall f m m', (forall s, ph (f s) = ph s /\ lcp (f s) = lcp s) ->
  stay_or_down (upd f m) m' -> stay_or_down m m'.
Proof.
  intros f [s n fr q l f6] m' Hf K Hn Ho. destruct (Hf s) as [e1 e2]. unfold stay_or_down, lopen in *. cbn [upd ms] in *.
  apply K; [rewrite e1; exact Hn|rewrite e2; exact Ho].
Qed.
Lemma handle_frame_sod : forall v i f m, stay_or_down m (handle_frame v i f m).
Proof.
  intros v i f m. destruct f as [c|x|c|c| | | | | | | | | | | | | ]; cbn [handle_frame];
    try (apply ink_sod; apply ink_refl).
  - apply lcp_apply_sod. apply fsm_input_ok.
  - destruct x; try (apply ink_sod; apply ink_refl).
    + destruct (fs (lcp (ms m))); apply ink_sod; try apply ink_refl; apply phs_ink, phs_emit.
    + apply ink_sod, ncp_apply_ink.
    + apply ink_sod, ncp_apply_ink.
    + apply lcp_apply_sod. apply fsm_input_ok.
    + eapply upd_then_sod; [|apply lcp_apply_sod; apply fsm_input_ok]. intros []; split; reflexivity.
    + eapply upd_then_sod; [|apply lcp_apply_sod; apply fsm_input_ok]. intros []; split; reflexivity.
  - destruct (in_net (ph (ms m))); [|apply ink_sod; apply ink_refl]. apply ink_sod.
    eapply ink_trans; [|apply ncp_apply_ink].
    destruct c as [q| | | | | | | | ]; try apply ink_refl. destruct q; try apply ink_refl.
    apply phs_ink, phs_upd; intros []; reflexivity.
  - destruct (in_net (ph (ms m))); apply ink_sod; [apply ncp_apply_ink|apply ink_refl].
  - intros Hn _. left. destruct (ph (ms m)) eqn:E; try discriminate; rewrite E; exact Hn.
  - intros Hn _. left. destruct (ph (ms m)) eqn:E; try discriminate; rewrite E; exact Hn.
  - destruct (in_net (ph (ms m))); [|apply ink_sod; apply ink_refl].
    destruct (fs (ip6cp (ms m))); apply ink_sod; try apply ink_refl; apply phs_ink, phs_emit.
  - destruct (in_net (ph (ms m))); [|apply ink_sod; apply ink_refl].
    destruct (fs (ip6cp (ms m))); apply ink_sod; try apply ink_refl; apply phs_ink, phs_emit.
  - apply ink_sod, phs_ink, phs_emit.
  - destruct (in_net (ph (ms m))); [|apply ink_sod; apply ink_refl].
    destruct (fs (ip6cp (ms m))); try (apply ink_sod; apply ink_refl).
    destruct (ip6cp_open (ms m)); apply ink_sod; [apply phs_ink, dh6_phs|apply ink_refl].
  - destruct (in_net (ph (ms m))); [|apply ink_sod; apply ink_refl].
    destruct (fs (ip6cp (ms m))); try (apply ink_sod; apply ink_refl).
    destruct (ip6cp_open (ms m)); apply ink_sod; [apply phs_ink, dh6_phs|apply ink_refl].
Qed.

(* (b) Timeout in LCP Opened does nothing to the automaton state; timers keep Network/Open *)
Lemma fsm_timeout_opened : forall f, opb (fs f) = true -> opb (fs (fst (fsm_timeout f))) = true.
Proof. intros [s rc]; destruct s, rc; cbn; auto. Qed.
Lemma handle_timer_ink : forall v i t m, lopen m = true -> ink m (handle_timer v i t m).
Proof.
  intros v i t m Ho. destruct t; cbn [handle_timer].
  - apply phs_ink. apply lcp_apply_stay; [apply fsm_timeout_ok|exact Ho|].
    unfold lcp_apply. destruct (fsm_timeout (lcp (ms m))) as [f' acts] eqn:E.
    destruct (lcp_fold_same v i acts (upd (set_lcp f') m)) as (s1 & _ & _). unfold lopen. rewrite s1.
    assert (L1 : lcp (ms (upd (set_lcp f') m)) = f') by (destruct m as [s n fr q l f6]; destruct s; reflexivity).
    rewrite L1. pose proof (fsm_timeout_opened (lcp (ms m)) Ho) as K. rewrite E in K. exact K.
  - apply ncp_apply_ink. - apply ncp_apply_ink.
  - intros Hn. destruct (ph (ms m)) eqn:E; try discriminate; rewrite E; exact Hn.
Qed.

(* ------------------------------------------------------------------ *)
(* the invariant: the per-family lease invariant, and a live session outside Network/Open has no IPv6 lease state *)
Definition LV (s : sess) : Prop :=
  v6ok (v6 s) /\ (live s = true -> in_net (ph s) = false -> v6 s = v60).
(* what is needed of GateInv.Inv *)
Definition G12 (s : sess) : Prop :=
  (in_net (ph s) = true -> opb (fs (lcp s)) = true) /\
  (forall k, pend s = Some k -> live s = false \/ ph s = PAuth).
Lemma Inv_G12 : forall acc s mn, Inv acc s mn -> G12 s.
Proof.
  intros acc s mn [[g1 g2 g3 g4 g5] a1 a2]. split.
  - intros H. rewrite g4; auto.
  - intros k Hk. destruct (g3 k Hk) as [L|[_ L]]; auto.
Qed.
Lemma LV_fresh : forall s, v6 s = v60 -> LV s.
Proof. intros s E. split; [rewrite E; split; apply famok0|auto]. Qed.
Lemma terminate_dead : forall m, live (ms (terminate (upd (set_live false) m))) = false.
Proof.
  intros [s n fr q l f6]. unfold terminate. destruct s. cbn.
  match goal with |- context [in_net ?p] => destruct (in_net p) end; reflexivity.
Qed.
Lemma LV_dead : forall s, v6ok (v6 s) -> live s = false -> LV s.
Proof. intros s H L. split; auto. intros K. congruence. Qed.
Lemma LV_terminate : forall m, v6ok (v6 (ms m)) -> LV (ms (terminate (upd (set_live false) m))).
Proof. intros m H. apply LV_dead; [eapply v6k_ok; [apply terminate_v6k|exact H]|apply terminate_dead]. Qed.

Lemma handle_frame_v6k_out : forall v i f m, in_net (ph (ms m)) = false -> v6k m (handle_frame v i f m).
Proof.
  intros v i f m Hn.
  destruct f as [c|x|c|c| | | | | | | | | | | | | ]; cbn [handle_frame]; try rewrite Hn; try apply v6k_refl.
  - apply lcp_apply_v6k.
  - destruct x; try rewrite Hn; try apply v6k_refl.
    + destruct (fs (lcp (ms m))); try apply v6k_refl; apply v6k_emit.
    + apply ncp_apply_v6k.
    + apply ncp_apply_v6k.
    + apply lcp_apply_v6k.
    + eapply v6k_trans; [|apply lcp_apply_v6k]. apply v6k_upd; intros []; reflexivity.
    + eapply v6k_trans; [|apply lcp_apply_v6k]. apply v6k_upd; intros []; reflexivity.
  - destruct (ph (ms m)); try apply v6k_refl; apply publish_aaa_v6k.
  - destruct (ph (ms m)); try apply v6k_refl; apply publish_aaa_v6k.
  - apply v6k_emit.
Qed.

Definition frame_h (v : vr) (i : nat) (f : frame) (m : mach) : mach :=
  if live (ms m) then
    let m1 := handle_frame v i f m in
    if vtd v && in_net (ph (ms m)) && existsb is_lcp_down (mo m1) then terminate (upd (set_live false) m1) else m1
  else m.
Lemma frame_LV : forall v i f s n fr q f6, vtd v = true -> vnm v = true -> G12 s -> LV s ->
  LV (ms (frame_h v i f (mkM s n fr q [] f6))).
Proof.
  intros v i f s n fr q f6 Ht Hn [G1 _] [Hv Hl]. unfold frame_h. cbn [ms]. destruct (live s) eqn:L; [|apply LV_dead; auto].
  set (m := mkM s n fr q [] f6).
  assert (K : v6ok (v6 (ms (handle_frame v i f m)))) by (apply handle_frame_v6ok; auto).
  rewrite Ht. cbn [andb]. destruct (in_net (ph s)) eqn:N; cbn [andb].
  - destruct (existsb is_lcp_down (mo (handle_frame v i f m))) eqn:E; [apply LV_terminate; exact K|].
    split; [exact K|]. intros _ N'. exfalso.
    destruct (handle_frame_sod v i f m N (G1 eq_refl)) as [S|S]; [congruence|].
    assert (X : existsb is_lcp_down (mo (handle_frame v i f m)) = true) by (apply existsb_exists; exists GLcpDown; auto).
    congruence.
  - split; [exact K|]. intros _ _. rewrite (handle_frame_v6k_out v i f m N). apply Hl; auto.
Qed.
Lemma timer_LV : forall v i t s n fr q f6, G12 s -> LV s -> LV (ms (handle_timer v i t (mkM s n fr q [] f6))).
Proof.
  intros v i t s n fr q f6 [G1 _] [Hv Hl]. set (m := mkM s n fr q [] f6).
  split; [eapply v6k_ok; [apply handle_timer_v6k|exact Hv]|].
  intros L N'. rewrite (handle_timer_v6k v i t m). rewrite handle_timer_live in L. apply Hl; auto.
  destruct (in_net (ph s)) eqn:N; auto. exfalso.
  pose proof (handle_timer_ink v i t m (G1 eq_refl) N). congruence.
Qed.
Lemma aaa_LV : forall v i k a s n fr q f6, vrep v = true -> pend_matches v k s = true -> G12 s -> LV s ->
  LV (ms (aaa_apply v i a (mkM s n fr q [] f6))).
Proof.
  intros v i k a s n fr q f6 Hr Hp [_ G2] [Hv Hl]. set (m := mkM s n fr q [] f6).
  destruct (aaa_needs_pending v k s Hr Hp) as (L & Pe & _).
  assert (F : v6 s = v60).
  { apply Hl; auto. destruct (G2 k Pe) as [X|X]; [congruence|]. rewrite X. reflexivity. }
  unfold aaa_apply. destruct (allowed_of a) eqn:Ea.
  - rewrite andb_false_r. cbn [andb]. split; [apply on_auth_allowed_v6ok; exact F|].
    intros _ N. rewrite on_auth_allowed_in_net in N. discriminate.
  - rewrite Hr. cbn [andb negb].
    rewrite (proj1 (on_auth_denied_keep v i match a with AAccIp => true | _ => false end m)). cbn [ms m]. rewrite L.
    apply LV_terminate. eapply v6k_ok; [apply on_auth_denied_v6k|exact Hv].
Qed.

(* ------------------------------------------------------------------ *)
(* the component step and whole histories *)
Definition good (v : vr) : Prop := vrep v = true /\ vhl v = true /\ vtd v = true /\ vnm v = true.
Definition allLV (st : state) : Prop := forall j s, nth_error (sl st) j = Some s -> LV s.
Definition allInv (st : state) : Prop := forall i, exists mn acc, SInv i st mn acc.
Lemma on_slot_allLV : forall st i h,
  (forall s, nth_error (sl st) i = Some s -> LV s -> LV (ms (h (mkM s (nreq st) (free st) (queue st) [] (free6 st))))) ->
  allLV st -> allLV (fst (on_slot st i h)).
Proof.
  intros st i h Hh Ha j s Hs. unfold on_slot in Hs. destruct (nth_error (sl st) i) as [si|] eqn:Ei; cbn [fst sl] in Hs.
  - destruct (Nat.eq_dec i j) as [E|E].
    + subst j. rewrite (nth_set_nth_eq _ _ _ _ _ Ei) in Hs. inversion Hs; subst. apply Hh; [auto|exact (Ha i si Ei)].
    + rewrite nth_set_nth_neq in Hs; auto. apply (Ha j s Hs).
  - apply (Ha j s Hs).
Qed.
Lemma open_session_v60 : forall v i m, v6 (ms (open_session v i m)) = v60.
Proof.
  intros v i m. unfold open_session.
  rewrite (lcp_apply_v6k v i (fsm_open (vrfc v)) _), (lcp_apply_v6k v i fsm_up _). rewrite ms_emit. reflexivity.
Qed.
Lemma slot_G12 : forall st j s, allInv st -> nth_error (sl st) j = Some s -> G12 s.
Proof. intros st j s HI Hs. destruct (HI j) as (mn & acc & HS). eapply Inv_G12. apply (HS s Hs). Qed.

Theorem step_LV : forall v st e, good v -> allInv st -> allLV st -> allLV (fst (step v st e)).
Proof.
  intros v st e (Hr & Hh & Ht & Hn) HI Ha. destruct e as [j|j f|k a|j t|j|j| |jh k a| ]; cbn [step].
  - apply on_slot_allLV; auto. intros s _ _. apply LV_fresh. apply open_session_v60.
  - apply on_slot_allLV; auto. intros s Hs H. apply (frame_LV v j f s); auto. eapply slot_G12; eauto.
  - destruct (find_idx (pend_matches v k) (sl st) 0) as [j|] eqn:Ef; [|exact Ha].
    destruct (find_idx_spec _ _ _ _ _ Ef) as (sj & _ & Hnj & Hp). rewrite Nat.sub_0_r in Hnj.
    apply on_slot_allLV; auto. intros s Hs H. rewrite Hnj in Hs. inversion Hs; subst sj.
    apply (aaa_LV v j k a s); auto. eapply slot_G12; eauto.
  - apply on_slot_allLV; auto. intros s Hs H. apply timer_LV; auto. eapply slot_G12; eauto.
  - apply on_slot_allLV; auto. intros s _ H. cbn [ms]. destruct (live s); auto. apply LV_terminate. apply H.
  - apply on_slot_allLV; auto. intros s _ H. cbn [ms]. destruct (live s); auto. apply LV_terminate. apply H.
  - destruct (queue st) as [|[j g] q]; [exact Ha|].
    destruct (nth_error (sl st) j) as [s|]; [destruct (Nat.eqb (gen s) g)|]; exact Ha.
  - destruct (nth_error (sl st) jh) as [sj|] eqn:Ej; [|exact Ha].
    unfold held_matches. rewrite Hh. cbn [negb andb]. rewrite orb_false_r.
    destruct (pend_matches v k sj) eqn:Hp; [|exact Ha].
    apply on_slot_allLV; auto. intros s Hs H. rewrite Ej in Hs. inversion Hs; subst sj.
    apply (aaa_LV v jh k a s); auto. eapply slot_G12; eauto.
  - destruct (queue st) as [|[j g] q]; [exact Ha|].
    destruct (nth_error (sl st) j) as [s|] eqn:Ej; [destruct (Nat.eqb (gen s) g)|]; try exact Ha.
    apply (on_slot_allLV (mkSt (sl st) (nreq st) (free st) q (free6 st)) j (sb_fail v)); auto.
    intros s0 _ H. unfold sb_fail. cbn [ms]. destruct (live s0) eqn:L.
    + rewrite ms_emit. apply LV_terminate. rewrite ms_emit. apply H.
    + destruct (vsf v); exact H.
Qed.

Lemma step_allInv : forall v st e, good v -> allInv st -> allInv (fst (step v st e)).
Proof.
  intros v st e (Hr & Hh & _) HI i. destruct (HI i) as (mn & acc & HS).
  destruct (step_Inv v i st e mn acc Hr Hh HS) as (mn' & _ & HS'). eauto.
Qed.
Lemma run_LV : forall v evs st, good v -> allInv st -> allLV st -> allLV (fst (run v st evs)).
Proof.
  induction evs as [|e r IH]; intros st Hg HI Ha; [exact Ha|].
  rewrite run_cons. cbn [fst]. apply IH; auto; [apply step_allInv; auto|apply step_LV; auto].
Qed.
Lemma init3_allInv : forall pool p6 ppd, allInv (init3 pool p6 ppd).
Proof. intros pool p6 ppd i. exists mon0, false. apply SInv_init. Qed.
Lemma init3_allLV : forall pool p6 ppd, allLV (init3 pool p6 ppd).
Proof. intros pool p6 ppd j s Hs. apply nth_error_In in Hs. apply repeat_spec in Hs. subst s. apply LV_fresh. reflexivity. Qed.

(* C03_teardown_no_leak: on the repaired code, after ANY history, every session — live, torn down, at the very moment of
   its teardown — satisfies the per-family invariant, so terminate + ReleaseLease return exactly the IPv6 addresses and
   prefixes it took; and a live session outside Network/Open has none *)
Theorem teardown_no_leak : forall v pool p6 ppd evs i s, good v ->
  nth_error (sl (fst (run v (init3 pool p6 ppd) evs))) i = Some s ->
  xn (na (v6 s)) = released (na (v6 s)) /\ xn (pd (v6 s)) = released (pd (v6 s)) /\
  (live s = true -> in_net (ph s) = false -> v6 s = v60).
Proof.
  intros v pool p6 ppd evs i s Hg Hs.
  destruct (run_LV v evs (init3 pool p6 ppd) Hg (init3_allInv pool p6 ppd) (init3_allLV pool p6 ppd) i s Hs) as [Hv Hl].
  destruct (v6ok_no_leak s Hv) as [A B]. auto.
Qed.
