(* C03/IpoeGateBase.v — vocabulary for the unbounded IPoE gate proof: owners, pools, the monitor on one handler's
   outputs, the per-attempt invariant [SI], and the frame relation [FrG] on handler machines with one lemma per
   primitive of IpoeModel.v.  IpoeModel.v is untouched. *)
From OV Require Import Common.Base C03.IpoeModel.

(* ------------------------------------------------------------------ *)
(* owners, membership *)
Lemma owner_eqb_eq : forall a b, owner_eqb a b = true <-> a = b.
Proof.
  intros [a1 a2] [b1 b2]. unfold owner_eqb. cbn [fst snd]. rewrite andb_true_iff, !Nat.eqb_eq.
  split; [intros [? ?]; subst; auto | intros H; inversion H; auto].
Qed.
Lemma owner_eqb_refl : forall a, owner_eqb a a = true.
Proof. intros a. apply owner_eqb_eq. reflexivity. Qed.
Lemma owner_eqb_neq : forall a b, a <> b -> owner_eqb a b = false.
Proof. intros a b H. destruct (owner_eqb a b) eqn:E; auto. apply owner_eqb_eq in E. contradiction. Qed.
Lemma owner_eqb_sym : forall a b, owner_eqb a b = owner_eqb b a.
Proof.
  intros a b. destruct (owner_eqb b a) eqn:E.
  - apply owner_eqb_eq in E. subst. apply owner_eqb_refl.
  - destruct (owner_eqb a b) eqn:E2; auto. apply owner_eqb_eq in E2. subst. rewrite owner_eqb_refl in E. discriminate.
Qed.
Lemma owner_dec : forall a b : owner, {a = b} + {a <> b}.
Proof. decide equality; apply Nat.eq_dec. Qed.

Lemma imem_cons : forall o x l, imem o (x :: l) = owner_eqb o x || imem o l.
Proof. reflexivity. Qed.
Lemma imem_cons_other : forall o x l, o <> x -> imem o (x :: l) = imem o l.
Proof. intros. rewrite imem_cons, owner_eqb_neq; auto. Qed.
Lemma imem_cons_same : forall o l, imem o (o :: l) = true.
Proof. intros. rewrite imem_cons, owner_eqb_refl. reflexivity. Qed.
Lemma imem_app : forall o l l', imem o (l ++ l') = imem o l || imem o l'.
Proof. intros. unfold imem. apply existsb_app. Qed.
Lemma imem_irem_same : forall o l, imem o (irem o l) = false.
Proof.
  intros o l. unfold imem, irem. induction l as [|x l IH]; cbn [filter existsb]; auto.
  destruct (owner_eqb x o) eqn:E; cbn [negb existsb]; auto.
  rewrite owner_eqb_sym, E. exact IH.
Qed.
Lemma imem_irem_other : forall o c l, o <> c -> imem o (irem c l) = imem o l.
Proof.
  intros o c l H. unfold imem, irem. induction l as [|x l IH]; cbn [filter existsb]; auto.
  destruct (owner_eqb x c) eqn:E; cbn [negb existsb].
  - apply owner_eqb_eq in E. subst x. rewrite owner_eqb_neq; auto.
  - rewrite IH. reflexivity.
Qed.
Lemma imem_irem_le : forall o c l, imem o (irem c l) = true -> imem o l = true.
Proof.
  intros o c l H. destruct (owner_dec o c) as [E|E].
  - subst. rewrite imem_irem_same in H. discriminate.
  - rewrite imem_irem_other in H; auto.
Qed.

(* ------------------------------------------------------------------ *)
(* pools: what an owner holds *)
Lemma filter_filter_le : forall A (f g : A -> bool) l, length (filter f (filter g l)) <= length (filter f l).
Proof.
  induction l as [|a l IH]; cbn; auto. destruct (g a); cbn; destruct (f a); cbn; lia.
Qed.
Lemma held_release_le : forall o id p, held o (pool_release id p) <= held o p.
Proof.
  intros o id p. unfold pool_release. destruct (lease_of id p); auto. unfold held. cbn [pleased]. apply filter_filter_le.
Qed.
Lemma held_alloc_other : forall o o' p id p', pool_alloc o p = Some (id, p') -> o' <> o -> held o' p' = held o' p.
Proof.
  intros o o' p id p' H Hn. unfold pool_alloc in H. destruct (pfree p); inversion H; subst.
  unfold held. cbn [pleased filter snd]. rewrite owner_eqb_neq; auto.
Qed.
Lemma held_reserve_other : forall o o' p id p', pool_reserve id o p = Some p' -> o' <> o -> held o' p' = held o' p.
Proof.
  intros o o' p id p' H Hn. unfold pool_reserve in H. destruct (lease_of id p) as [o2|].
  - destruct (owner_eqb o o2); inversion H; subst; auto.
  - inversion H; subst. unfold held. cbn [pleased filter snd]. rewrite owner_eqb_neq; auto.
Qed.

(* ------------------------------------------------------------------ *)
(* the monitor on the outputs of one handler run (all of one owner) *)
Definition isIQ (x : iout) : bool := match x with IQ => true | _ => false end.

Lemma imon_outs_acc : forall o l mn,
  (forall x, In x l -> fst x = o /\ snd x <> IQ) -> imem o (macc mn) = true -> imon_outs l mn = Some mn.
Proof.
  induction l as [|[o1 x1] l IH]; intros mn H Ha; [reflexivity|].
  destruct (H (o1, x1) (or_introl eq_refl)) as [E1 E2]. cbn [fst snd] in E1, E2. subst o1.
  assert (K : imon_outs l mn = Some mn) by (apply IH; auto; intros; apply H; right; auto).
  destruct x1; cbn [imon_outs]; try contradiction; rewrite Ha, orb_true_r; exact K.
Qed.

Lemma imon_outs_ns : forall o l mn,
  (forall x, In x l -> fst x = o /\ iservice (snd x) = false) ->
  exists mn', imon_outs l mn = Some mn' /\ macc mn' = macc mn /\
              (forall o', o' <> o -> imem o' (mout mn') = imem o' (mout mn)) /\
              imem o (mout mn') = existsb (fun x => isIQ (snd x)) l || imem o (mout mn).
Proof.
  induction l as [|[o1 x1] l IH]; intros mn H.
  - exists mn. cbn. auto.
  - destruct (H (o1, x1) (or_introl eq_refl)) as [E1 E2]. cbn [fst snd] in E1, E2. subst o1.
    assert (H' : forall x, In x l -> fst x = o /\ iservice (snd x) = false) by (intros; apply H; right; auto).
    destruct x1; cbn [imon_outs existsb snd isIQ]; try discriminate E2; cbn [iservice negb orb];
      try (destruct (IH mn H') as (mn' & A & B & C & D); exists mn'; repeat split; auto; fail).
    + (* IQ *)
      destruct (IH (mkIM (macc mn) (o :: mout mn)) H') as (mn' & A & B & C & D). exists mn'. cbn [macc mout] in *.
      split; auto. split; auto. split.
      * intros o' Ho. rewrite C; auto. apply imem_cons_other; auto.
      * rewrite D, imem_cons_same, orb_true_r. reflexivity.
    + destruct add; try discriminate E2. destruct (IH mn H') as (mn' & A & B & C & D); exists mn'; repeat split; auto.
    + destruct add; try discriminate E2. destruct (IH mn H') as (mn' & A & B & C & D); exists mn'; repeat split; auto.
Qed.

(* ------------------------------------------------------------------ *)
(* the invariant of one attempt (session object s of slot i, owner o = (i, igen s)), over the monitor's and the
   component's view of o:  acc = o in macc, outm = o in mout, inq = o queued for the dataplane, h4/h6 = leases *)
Definition Nothing (s : isess) : Prop :=
  icreated s = false /\ ib4 s = None /\ ia6 s = None /\ ipb4 s = None /\ ipb6 s = None /\ ic4 s = None /\ ic6 s = None.

Record SI (s : isess) (acc outm inq : bool) (h4 h6 : nat) : Prop := mkSI {
  si_acc : iappr s = true -> acc = true;
  si_out : outm = true -> iinfl s = true;
  si_infl : iinfl s = true -> iappr s = false;
  si_clean : iappr s = false -> inq = false /\ h4 = 0 /\ h6 = 0 /\ Nothing s }.

Lemma SI_mono : forall s acc outm inq h4 h6 acc' outm' inq' h4' h6',
  SI s acc outm inq h4 h6 ->
  (acc = true -> acc' = true) -> (outm' = true -> outm = true) -> (inq' = true -> inq = true) ->
  h4' <= h4 -> h6' <= h6 -> SI s acc' outm' inq' h4' h6'.
Proof.
  intros s acc outm inq h4 h6 acc' outm' inq' h4' h6' [a b c d] H1 H2 H3 H4 H5. constructor; auto.
  intros Hn. destruct (d Hn) as (d1 & d2 & d3 & d4).
  split; [destruct inq'; auto; specialize (H3 eq_refl); congruence|].
  split; [lia|]. split; [lia|]. exact d4.
Qed.

(* ------------------------------------------------------------------ *)
(* frame relation between the machine before and after (part of) a handler: same incarnation, same approval and
   in-flight flags, new outputs all of this owner and all in P, nothing of any OTHER owner grows *)
Definition others_le (o : owner) (m m' : im) : Prop :=
  forall o', o' <> o -> held o' (jm4 m') <= held o' (jm4 m) /\ held o' (jm6 m') <= held o' (jm6 m) /\
                        imem o' (jmq m') = imem o' (jmq m).
Record FrG (P : iout -> Prop) (slot : nat) (m m' : im) : Prop := mkFr {
  fr_gen : igen (jms m') = igen (jms m);
  fr_appr : iappr (jms m') = iappr (jms m);
  fr_infl : iinfl (jms m') = iinfl (jms m);
  fr_outs : exists new, jmo m' = new ++ jmo m /\ forall x, In x new -> fst x = iown slot m /\ P (snd x);
  fr_oth : others_le (iown slot m) m m' }.

Lemma FrG_refl : forall P slot m, FrG P slot m m.
Proof.
  intros. constructor; auto.
  - exists []. split; auto. intros x [].
  - intros o' _. auto.
Qed.
Lemma iown_gen : forall slot m m', igen (jms m') = igen (jms m) -> iown slot m' = iown slot m.
Proof. intros. unfold iown. congruence. Qed.
Lemma FrG_trans : forall P slot m1 m2 m3, FrG P slot m1 m2 -> FrG P slot m2 m3 -> FrG P slot m1 m3.
Proof.
  intros P slot m1 m2 m3 [a1 b1 c1 (n1 & d1 & e1) f1] [a2 b2 c2 (n2 & d2 & e2) f2].
  pose proof (iown_gen slot m1 m2 a1) as Ho. rewrite Ho in *.
  constructor; try congruence.
  - exists (n2 ++ n1). split; [rewrite d2, d1, app_assoc; reflexivity|].
    intros x Hx. apply in_app_or in Hx. destruct Hx; auto.
  - intros o' Hn. destruct (f1 o' Hn) as (x1 & y1 & z1). destruct (f2 o' Hn) as (x2 & y2 & z2).
    repeat split; try lia. congruence.
Qed.
Lemma FrG_weaken : forall (P Q : iout -> Prop) slot m m', (forall x, P x -> Q x) -> FrG P slot m m' -> FrG Q slot m m'.
Proof.
  intros P Q slot m m' H [a b c (n & d & e) f]. constructor; auto. exists n. split; auto.
  intros x Hx. destruct (e x Hx). auto.
Qed.

(* primitives, in "then" form: Fr m m1 -> Fr m (prim m1) *)
Lemma FrG_emit : forall (P : iout -> Prop) slot x m m1, P x -> FrG P slot m m1 -> FrG P slot m (iemit slot x m1).
Proof.
  intros P slot x m m1 Hx H. eapply FrG_trans; [exact H|]. constructor; auto.
  - exists [(iown slot m1, x)]. split; auto. intros y [Hy|[]]. subst y. auto.
  - intros o' _. auto.
Qed.
Lemma FrG_iupd : forall P slot f m m1,
  igen (f (jms m1)) = igen (jms m1) -> iappr (f (jms m1)) = iappr (jms m1) -> iinfl (f (jms m1)) = iinfl (jms m1) ->
  FrG P slot m m1 -> FrG P slot m (iupd f m1).
Proof.
  intros P slot f m m1 H1 H2 H3 H. eapply FrG_trans; [exact H|]. constructor; auto.
  - exists []. split; auto. intros x [].
  - intros o' _. auto.
Qed.
(* a machine that differs in session fields other than the flags, provider tables and pools only *)
Lemma FrG_mk : forall P slot m m1 m2,
  igen (jms m2) = igen (jms m1) -> iappr (jms m2) = iappr (jms m1) -> iinfl (jms m2) = iinfl (jms m1) ->
  jmo m2 = jmo m1 -> others_le (iown slot m1) m1 m2 ->
  FrG P slot m m1 -> FrG P slot m m2.
Proof.
  intros P slot m m1 m2 H1 H2 H3 H4 H5 H. eapply FrG_trans; [exact H|]. constructor; auto.
  exists []. split; auto. intros x [].
Qed.

Lemma FrG_resolve4 : forall P slot m m1, FrG P slot m m1 -> FrG P slot m (snd (resolve4 slot m1)).
Proof.
  intros P slot m m1 H. unfold resolve4. destruct (negb (ictx (jms m1))); [exact H|].
  destruct (ic4 (jms m1)) as [id|].
  - destruct (pool_reserve id (iown slot m1) (jm4 m1)) as [p'|] eqn:E; cbn [snd]; [|exact H].
    eapply FrG_mk; [..|exact H]; try reflexivity. intros o' Hn. cbn [jm4 jm6 jmq]. repeat split; auto.
    erewrite held_reserve_other; eauto.
  - destruct (pool_alloc (iown slot m1) (jm4 m1)) as [[id p']|] eqn:E; cbn [snd]; [|exact H].
    eapply FrG_mk; [..|exact H]; try reflexivity. intros o' Hn. cbn [jm4 jm6 jmq]. repeat split; auto.
    erewrite held_alloc_other; eauto.
Qed.
Lemma FrG_resolve6 : forall P slot m m1, FrG P slot m m1 -> FrG P slot m (snd (resolve6 slot m1)).
Proof.
  intros P slot m m1 H. unfold resolve6. destruct (negb (ictx (jms m1))); [exact H|].
  destruct (ic6 (jms m1)) as [id|].
  - destruct (pool_reserve id (iown slot m1) (jm6 m1)) as [p'|] eqn:E; cbn [snd]; [|exact H].
    eapply FrG_mk; [..|exact H]; try reflexivity. intros o' Hn. cbn [jm4 jm6 jmq]. repeat split; auto.
    erewrite held_reserve_other; eauto.
  - destruct (pool_alloc (iown slot m1) (jm6 m1)) as [[id p']|] eqn:E; cbn [snd]; [|exact H].
    eapply FrG_mk; [..|exact H]; try reflexivity. intros o' Hn. cbn [jm4 jm6 jmq]. repeat split; auto.
    erewrite held_alloc_other; eauto.
Qed.

Definition Pq (x : iout) : Prop := x <> IQ.                               (* anything but a published AAA request *)
Definition Pn (x : iout) : Prop := x <> IQ /\ iservice x = false.         (* non-service, no request *)
Definition Fr := FrG Pq.
Lemma Pn_Pq : forall x, Pn x -> Pq x. Proof. intros x [H _]. exact H. Qed.

Lemma Fr_prov4 : forall slot isreq r m m1, Fr slot m m1 -> Fr slot m (snd (prov4 slot isreq r m1)).
Proof.
  intros slot isreq r m m1 H. unfold prov4. destruct r as [[id hp]|].
  - destruct (by_find id (jby4 m1)) as [sl'|].
    + destruct (Nat.eqb sl' slot); cbn [snd]; [|exact H]. apply FrG_emit; auto. destruct isreq; discriminate.
    + cbn [snd]. apply FrG_emit; [destruct isreq; discriminate|].
      eapply FrG_mk; [..|exact H]; try reflexivity. intros o' _. auto.
  - exact H.
Qed.
Lemma Fr_handle_ack : forall slot id m m1, Fr slot m m1 -> Fr slot m (handle_ack slot id m1).
Proof.
  intros slot id m m1 H. unfold handle_ack. apply FrG_emit; [discriminate|].
  destruct (icreated (jms m1)).
  - apply FrG_emit; [discriminate|]. apply FrG_emit; [discriminate|]. apply FrG_iupd; auto.
  - apply FrG_iupd; auto.
Qed.
Lemma Fr_handle_reply6 : forall slot id m m1, Fr slot m m1 -> Fr slot m (handle_reply6 slot id m1).
Proof.
  intros slot id m m1 H. unfold handle_reply6.
  assert (K : Fr slot m (if icreated (jms m1)
       then iemit slot (ISb6 true) (iupd (fun s => s_v6 true (Some id) (ipb6 s) (iduid s) (ill s) s) m1)
       else iupd (fun s => s_v6 true (Some id) (Some id) (iduid s) (ill s) s) m1)).
  { destruct (icreated (jms m1)); [apply FrG_emit; [discriminate|]|]; apply FrG_iupd; auto. }
  destruct (ibound (jms m1) && _); [apply FrG_emit; [discriminate|]|]; exact K.
Qed.
Lemma Fr_prov6 : forall slot isreq r m m1, Fr slot m m1 -> Fr slot m (prov6 slot isreq r m1).
Proof.
  intros slot isreq r m m1 H. unfold prov6. destruct r as [[id hp]|]; [|exact H].
  cbv zeta.
  match goal with |- context [mkIm (jms m1) (jpv4 m1) ?pv _ _ _ _ _] => set (PV := pv) end.
  assert (K : Fr slot m (mkIm (jms m1) (jpv4 m1) PV (jm4 m1) (jm6 m1) (jmq m1) (jmo m1) (jby4 m1))).
  { eapply FrG_mk; [..|exact H]; try reflexivity. intros o' _. auto. }
  destruct isreq.
  - apply Fr_handle_reply6. apply FrG_emit; [discriminate|exact K].
  - apply FrG_emit; [discriminate|exact K].
Qed.

Lemma Fr_fwd_discover : forall slot m m1, Fr slot m m1 -> Fr slot m (fwd_discover slot m1).
Proof.
  intros slot m m1 H. unfold fwd_discover. destruct (resolve4 slot m1) as [r m2] eqn:E.
  apply Fr_prov4. replace m2 with (snd (resolve4 slot m1)) by (rewrite E; reflexivity). apply FrG_resolve4. exact H.
Qed.
Lemma Fr_fwd_request : forall slot m m1, Fr slot m m1 -> Fr slot m (fwd_request slot m1).
Proof.
  intros slot m m1 H. unfold fwd_request. destruct (resolve4 slot m1) as [r m2] eqn:E.
  assert (K : Fr slot m m2).
  { replace m2 with (snd (resolve4 slot m1)) by (rewrite E; reflexivity). apply FrG_resolve4. exact H. }
  pose proof (Fr_prov4 slot true r m m2 K) as K2. destruct (prov4 slot true r m2) as [[id|] m3]; cbn [snd] in K2; auto.
  apply Fr_handle_ack. exact K2.
Qed.
Lemma Fr_fwd_request_noack : forall slot m m1, Fr slot m m1 -> Fr slot m (fwd_request_noack slot m1).
Proof.
  intros slot m m1 H. unfold fwd_request_noack. destruct (resolve4 slot m1) as [r m2] eqn:E.
  assert (K : Fr slot m m2).
  { replace m2 with (snd (resolve4 slot m1)) by (rewrite E; reflexivity). apply FrG_resolve4. exact H. }
  pose proof (Fr_prov4 slot true r m m2 K) as K2. destruct (prov4 slot true r m2) as [[id|] m3]; cbn [snd] in K2; auto.
  destruct (iclosing (jms m3)); auto. apply Fr_handle_ack. exact K2.
Qed.
Lemma Fr_fwd_solicit : forall slot m m1, Fr slot m m1 -> Fr slot m (fwd_solicit slot m1).
Proof.
  intros slot m m1 H. unfold fwd_solicit. destruct (resolve6 slot m1) as [r m2] eqn:E.
  apply Fr_prov6. replace m2 with (snd (resolve6 slot m1)) by (rewrite E; reflexivity). apply FrG_resolve6. exact H.
Qed.
Lemma Fr_fwd_request6 : forall slot m m1, Fr slot m m1 -> Fr slot m (fwd_request6 slot m1).
Proof.
  intros slot m m1 H. unfold fwd_request6. destruct (resolve6 slot m1) as [r m2] eqn:E.
  apply Fr_prov6. replace m2 with (snd (resolve6 slot m1)) by (rewrite E; reflexivity). apply FrG_resolve6. exact H.
Qed.
