From Coq Require Import Extraction ExtrOcamlBasic.
From OV Require Import Common.Base C03.Model C03.IpoeModel.
Extraction Language OCaml.
Extraction "C03_model.ml" N.add Z.add init init3 holds6 leaks find_idx pend_matches step run mon_run mon0 service fstate_num holds_nothing radius_decide aaa_allowed
  iinit istep irun imon0 imon_in imon_outs imon_run iservice holds_nothing_i held.
