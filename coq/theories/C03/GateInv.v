(* C03/GateInv.v — the inductive invariant of the PPPoE gate model (repaired variant, either FSM table) and its
   preservation by every handler.  The argument is compositional: a small Hoare logic over the machine that is
   threaded through one session's handlers ([W], [T]), one lemma per sub-handler, one per event class.

   Invariant [GI s mn] relating a session [s] and the monitor state [mn] of its slot:
     in Network/Open              -> the monitor holds an accept (mok)
     not in Network/Open          -> both NCP automata are in Initial/Starting/Closed (cannot send)
     a request k is outstanding   -> session dead, or (monitor's current request is k and phase is Authenticate)
     Authenticate/Network/Open    -> LCP is Opened
     dead                         -> not in Network/Open
   [Inv acc s mn] adds the sticky ghost [acc] ("an accept was honoured since the last PADR"):
     mok -> acc,   and   not acc -> no pool lease, no IPv4 address and no IPv6 lease state at all. *)
From OV Require Import Common.Base C03.Model C03.Proofs.

(* ------------------------------------------------------------------ *)
(* monitor facts *)
Lemma mon_l_app : forall l1 l2 mn,
  mon_l (l1 ++ l2) mn = match mon_l l1 mn with Some mn' => mon_l l2 mn' | None => None end.
Proof.
  induction l1 as [|o l1 IH]; intros l2 mn; cbn [mon_l app]; auto.
  destruct (mon_out o mn); auto.
Qed.

(* outputs the monitor ignores *)
Definition plain (o : out) : bool :=
  match o with GLcpDown | OReq _ => false | _ => negb (service o) end.
Lemma mon_out_plain : forall o mn, plain o = true -> mon_out o mn = Some mn.
Proof. intros [] mn H; cbn in *; try discriminate; reflexivity. Qed.
Lemma mon_out_svc : forall o mn, service o = true -> mok mn = true -> mon_out o mn = Some mn.
Proof. intros [] mn H K; cbn in *; try discriminate; rewrite K; reflexivity. Qed.

(* [Wl P mn0 s l]: the monitor, started in mn0, accepts the (reversed) output list l and ends in a state
   related by P to the session s *)
Definition Wl (P : sess -> mon -> Prop) (mn0 : mon) (s : sess) (l : list out) : Prop :=
  exists mn, mon_l (rev l) mn0 = Some mn /\ P s mn.
Definition W (P : sess -> mon -> Prop) (mn0 : mon) (m : mach) : Prop := Wl P mn0 (ms m) (mo m).
Definition T (P : sess -> mon -> Prop) (h : mach -> mach) (Q : sess -> mon -> Prop) : Prop :=
  forall mn0 m, W P mn0 m -> W Q mn0 (h m).

Lemma Wl_cons : forall (P : sess -> mon -> Prop) mn0 s l o,
  Wl (fun s mn => exists mn', mon_out o mn = Some mn' /\ P s mn') mn0 s l -> Wl P mn0 s (o :: l).
Proof.
  intros P mn0 s l o (mn & H & mn' & Ho & HP). exists mn'. cbn [rev]. rewrite mon_l_app, H.
  cbn [mon_l]. rewrite Ho. auto.
Qed.
Lemma Wl_plain : forall (P : sess -> mon -> Prop) mn0 s l o, plain o = true -> Wl P mn0 s l -> Wl P mn0 s (o :: l).
Proof.
  intros P mn0 s l o Ho (mn & H & HP). apply Wl_cons. exists mn. split; auto. exists mn. split; auto.
  apply mon_out_plain; auto.
Qed.
Lemma Wl_svc : forall (P : sess -> mon -> Prop) mn0 s l o,
  service o = true -> (forall mn, P s mn -> mok mn = true) -> Wl P mn0 s l -> Wl P mn0 s (o :: l).
Proof.
  intros P mn0 s l o Ho Hk (mn & H & HP). apply Wl_cons. exists mn. split; auto. exists mn. split; auto.
  apply mon_out_svc; auto.
Qed.
Lemma Wl_imp : forall (P Q : sess -> mon -> Prop) mn0 s s' l,
  Wl P mn0 s l -> (forall mn, P s mn -> Q s' mn) -> Wl Q mn0 s' l.
Proof. intros P Q mn0 s s' l (mn & H & HP) K. exists mn. auto. Qed.

Lemma W_emit_plain : forall P mn0 m o, plain o = true -> W P mn0 m -> W P mn0 (emit o m).
Proof. intros. destruct m. apply Wl_plain; auto. Qed.
Lemma W_emit_svc : forall (P : sess -> mon -> Prop) mn0 m o,
  service o = true -> (forall mn, P (ms m) mn -> mok mn = true) -> W P mn0 m -> W P mn0 (emit o m).
Proof. intros. destruct m. apply Wl_svc; auto. Qed.
Lemma W_upd : forall (P Q : sess -> mon -> Prop) mn0 m f,
  W P mn0 m -> (forall mn, P (ms m) mn -> Q (f (ms m)) mn) -> W Q mn0 (upd f m).
Proof. intros. destruct m. eapply Wl_imp; eauto. Qed.
Lemma W_imp : forall (P Q : sess -> mon -> Prop) mn0 m,
  W P mn0 m -> (forall mn, P (ms m) mn -> Q (ms m) mn) -> W Q mn0 m.
Proof. intros. destruct m. eapply Wl_imp; eauto. Qed.

(* ------------------------------------------------------------------ *)
(* the invariant *)
Record GI (s : sess) (mn : mon) : Prop := mkGI {
  gi_net : in_net (ph s) = true -> mok mn = true;
  gi_quiet : in_net (ph s) = false -> quietb (ipcp s) = true /\ quietb (ip6cp s) = true;
  gi_pend : forall k, pend s = Some k -> live s = false \/ (mcur mn = Some k /\ ph s = PAuth);
  gi_lcp : in_net (ph s) = true \/ ph s = PAuth -> fs (lcp s) = Opened;
  gi_live : live s = true \/ in_net (ph s) = false }.
Record Inv (acc : bool) (s : sess) (mn : mon) : Prop := mkInv {
  inv_gi : GI s mn;
  inv_acc : mok mn = true -> acc = true;
  inv_none : acc = false -> alloc_pool s = false /\ cur4 s = ANone /\ v6 s = v60 }.

(* what the invariant looks at *)
Definition core (s : sess) :=
  (live s, ph s, lcp s, ipcp s, ip6cp s, pend s, cur4 s, alloc_pool s, v6 s).
Lemma Inv_core : forall acc s s' mn, core s' = core s -> Inv acc s mn -> Inv acc s' mn.
Proof.
  intros acc s s' mn E [[g1 g2 g3 g4 g5] a1 a2]. destruct s, s'. unfold core in E. cbn in *.
  inversion E; subst. constructor; [constructor|..]; cbn; auto.
Qed.

(* inside Network/Open the invariant is this: *)
Definition Rn (pe : option nat) (s : sess) (mn : mon) : Prop :=
  mok mn = true /\ in_net (ph s) = true /\ fs (lcp s) = Opened /\ live s = true /\ pend s = pe.
Lemma Inv_Rn : forall acc s mn, Inv acc s mn -> in_net (ph s) = true -> Rn None s mn /\ acc = true.
Proof.
  intros acc s mn [[g1 g2 g3 g4 g5] a1 a2] E. unfold Rn. repeat split; auto.
  - destruct g5 as [g5|g5]; auto. congruence.
  - destruct (pend s) as [k|] eqn:Ep; auto. destruct (g3 k eq_refl) as [K|[_ K]].
    + destruct g5; congruence.
    + rewrite K in E. discriminate.
Qed.
Lemma Rn_Inv : forall s mn, Rn None s mn -> Inv true s mn.
Proof.
  intros s mn (r1 & r2 & r3 & r4 & r5). constructor; [constructor|..]; intros; auto; try congruence.
Qed.

(* ------------------------------------------------------------------ *)
(* facts about the automaton pkg/ppp/fsm.go (both tables) *)
Definition silent_a (a : act) : bool := match a with Send _ | Tlu => false | _ => true end.
Definition neutral (a : act) : bool := match a with Tlu | Tld => false | _ => true end.
Definition opb (a : fstate) : bool := match a with Opened => true | _ => false end.

(* Down: always ends in Initial/Starting, never sends, never signals up *)
Lemma fsm_down_quiet : forall f, quietb (fst (fsm_down f)) = true /\ forallb silent_a (snd (fsm_down f)) = true.
Proof. intros [s rc]; destruct s; cbn; auto. Qed.
Lemma fsm_kill_quiet : forall f, quietb (fsm_kill f) = true.
Proof. reflexivity. Qed.

(* from Initial/Starting/Closed neither Close nor Timeout sends anything *)
Definition quiet_safe (g : fsm -> fsm * list act) : Prop :=
  forall f, quietb f = true -> quietb (fst (g f)) = true /\ forallb silent_a (snd (g f)) = true.
Lemma fsm_close_qs : quiet_safe fsm_close.
Proof. intros [s rc]; destruct s; cbn; intros; try discriminate; auto. Qed.
Lemma fsm_timeout_qs : quiet_safe fsm_timeout.
Proof. intros [s rc]; destruct s, rc; cbn; intros; try discriminate; auto. Qed.

(* shape of the action list against entering / leaving Opened *)
Definition lcp_class (a b : fstate) (acts : list act) : bool :=
  match opb a, opb b with
  | true, false => match acts with Tld :: r => forallb neutral r | _ => false end
  | false, true => match acts with [Tlu] | [Send _; Tlu] => true | _ => false end
  | _, _ => forallb neutral acts
  end.
Definition lcp_okg (g : fsm -> fsm * list act) : Prop :=
  forall f, lcp_class (fs f) (fs (fst (g f))) (snd (g f)) = true.
Lemma fsm_up_ok : lcp_okg fsm_up.
Proof. intros [s rc]; destruct s; reflexivity. Qed.
Lemma fsm_open_ok : forall rfc, lcp_okg (fsm_open rfc).
Proof. intros rfc [s rc]; destruct rfc, s; reflexivity. Qed.
Lemma fsm_close_ok : lcp_okg fsm_close.
Proof. intros [s rc]; destruct s; reflexivity. Qed.
Lemma fsm_timeout_ok : lcp_okg fsm_timeout.
Proof. intros [s rc]; destruct s, rc; reflexivity. Qed.
Lemma fsm_input_ok : forall rfc c, lcp_okg (fsm_input rfc c).
Proof.
  intros rfc c [s rc].
  destruct c as [q| |b|b|b| | | | ]; try destruct q; try destruct b; destruct rfc, s; reflexivity.
Qed.

(* ------------------------------------------------------------------ *)
(* NCP handlers *)

(* (B) an action list without Send / This-Layer-Up outputs nothing and touches only the open flag *)
Lemma ncp_fold_silent : forall i n acts m, forallb silent_a acts = true ->
  mo (fold_left (fun m a => ncp_act i n a m) acts m) = mo m /\
  core (ms (fold_left (fun m a => ncp_act i n a m) acts m)) = core (ms m).
Proof.
  induction acts as [|a acts IH]; intros m H; cbn [fold_left]; auto.
  cbn [forallb] in H. apply andb_true_iff in H. destruct H as [Ha H].
  destruct (IH (ncp_act i n a m) H) as [E1 E2]. rewrite E1, E2.
  destruct a; try discriminate; cbn [ncp_act]; auto.
  destruct m as [s ? ? ? ? ?], s, n; cbn; auto.
Qed.
Lemma ncp_apply_silent : forall i n g m, forallb silent_a (snd (g (get_ncp n (ms m)))) = true ->
  mo (ncp_apply i n g m) = mo m /\
  core (ms (ncp_apply i n g m)) = core (set_ncp n (fst (g (get_ncp n (ms m)))) (ms m)).
Proof.
  intros i n g m H. unfold ncp_apply. destruct (g (get_ncp n (ms m))) as [f' acts]. cbn [fst snd] in *.
  destruct (ncp_fold_silent i n acts (upd (set_ncp n f') m) H) as [E1 E2]. rewrite E1, E2.
  destruct m; cbn; auto.
Qed.

(* (A) with an accept in hand everything an NCP does is allowed and leaves the gate facts alone *)
Lemma check_open_Rn : forall i pe, T (Rn pe) (check_open i) (Rn pe).
Proof.
  intros i pe mn0 m H. unfold check_open. destruct (ph (ms m)) eqn:Ep; auto.
  destruct (ipcp_open (ms m) || ip6cp_open (ms m)); auto.
  assert (H1 : W (Rn pe) mn0 (emit OLifeA (upd (set_ph POpen) m))).
  { apply W_emit_svc; [reflexivity| |].
    - intros mn K; apply K.
    - eapply W_upd; [exact H|]. intros mn (r1 & r2 & r3 & r4 & r5). destruct (ms m); cbn in *. subst. repeat split; auto. }
  destruct (cur4 (ms m)); auto.
  all: apply (W_emit_svc (Rn pe) mn0 _ OSbAdd) in H1; [|reflexivity|intros mn K; apply K]; exact H1.
Qed.
Lemma ncp_act_Rn : forall i n a pe, T (Rn pe) (ncp_act i n a) (Rn pe).
Proof.
  intros i n a pe mn0 m H. destruct a; cbn [ncp_act]; auto.
  - apply W_emit_svc; auto. destruct n; reflexivity. intros mn K; apply K.
  - destruct n; apply check_open_Rn; (eapply W_upd; [exact H|]); intros mn K; destruct (ms m); exact K.
  - destruct n; (eapply W_upd; [exact H|]); intros mn K; destruct (ms m); exact K.
Qed.
Lemma ncp_apply_Rn : forall i n g pe, T (Rn pe) (ncp_apply i n g) (Rn pe).
Proof.
  intros i n g pe mn0 m H. unfold ncp_apply. destruct (g (get_ncp n (ms m))) as [f' acts].
  assert (H1 : W (Rn pe) mn0 (upd (set_ncp n f') m)).
  { eapply W_upd; [exact H|]. intros mn K. destruct n, (ms m); exact K. }
  clear H. revert H1. generalize (upd (set_ncp n f') m). clear m.
  induction acts as [|a acts IH]; intros m H; cbn [fold_left]; auto.
  apply IH. apply ncp_act_Rn; auto.
Qed.

(* any NCP transition taken in Network/Open, and Close/Timeout/Down-like transitions anywhere *)
Lemma ncp_apply_Inv_net : forall i n g acc,
  T (fun s mn => Inv acc s mn /\ in_net (ph s) = true) (ncp_apply i n g) (Inv acc).
Proof.
  intros i n g acc mn0 m H.
  assert (Ha : acc = true).
  { destruct H as (mn & _ & K & E). apply (Inv_Rn _ _ _ K E). }
  subst acc.
  eapply W_imp; [apply (ncp_apply_Rn i n g None)|].
  - eapply W_imp; [exact H|]. intros mn [K E]. apply (Inv_Rn _ _ _ K E).
  - intros mn K. apply Rn_Inv; auto.
Qed.
Lemma Inv_set_ncp_quiet : forall acc n f s mn,
  quietb f = true -> Inv acc s mn -> Inv acc (set_ncp n f s) mn.
Proof.
  intros acc n f s mn Q [[g1 g2 g3 g4 g5] a1 a2]. destruct n, s; cbn in *.
  all: constructor; [constructor|..]; cbn; auto; intros E; destruct (g2 E); auto.
Qed.
Lemma ncp_apply_Inv_qs : forall i n g acc, quiet_safe g -> T (Inv acc) (ncp_apply i n g) (Inv acc).
Proof.
  intros i n g acc Hg mn0 m H. destruct (in_net (ph (ms m))) eqn:E.
  - apply ncp_apply_Inv_net. eapply W_imp; [exact H|]. auto.
  - assert (Q : quietb (get_ncp n (ms m)) = true).
    { destruct H as (mn & _ & [[g1 g2 g3 g4 g5] a1 a2]). destruct (g2 E). destruct n; auto. }
    destruct (Hg _ Q) as [Q1 Q2]. destruct (ncp_apply_silent i n g m Q2) as [E1 E2].
    unfold W. rewrite E1. eapply Wl_imp; [exact H|]. intros mn K.
    eapply Inv_core; [exact E2|]. apply Inv_set_ncp_quiet; auto.
Qed.

(* ------------------------------------------------------------------ *)
(* LCP handlers (repaired session logic) *)
Lemma lcp_fold_neutral : forall v i (P : sess -> mon -> Prop) mn0 acts m,
  forallb neutral acts = true -> W P mn0 m -> W P mn0 (fold_left (fun m a => lcp_act v i a m) acts m).
Proof.
  induction acts as [|a acts IH]; intros m H K; cbn [fold_left]; auto.
  cbn [forallb] in H. apply andb_true_iff in H. destruct H as [Ha H]. apply IH; auto.
  destruct a; try discriminate; cbn [lcp_act]; auto. apply W_emit_plain; auto.
Qed.

(* onLCPDown establishes the invariant from (almost) nothing *)
Lemma on_lcp_down_T : forall rfc td hl sf nm i acc,
  T (fun s mn => acc = false -> alloc_pool s = false /\ cur4 s = ANone /\ v6 s = v60) (on_lcp_down (mkVr true rfc td hl sf nm) i) (Inv acc).
Proof.
  intros rfc td hl sf nm i acc mn0 m H. unfold on_lcp_down. cbn [vrep].
  set (m0 := upd (set_pend None PtNone) m).
  set (m1 := ncp_apply i Ipcp fsm_down m0).
  set (m2 := ncp_apply i Ip6cp fsm_down m1).
  destruct (ncp_apply_silent i Ipcp fsm_down m0 (proj2 (fsm_down_quiet _))) as [A1 A2].
  destruct (ncp_apply_silent i Ip6cp fsm_down m1 (proj2 (fsm_down_quiet _))) as [B1 B2].
  fold m1 in A1, A2, B1, B2. fold m2 in B1, B2.
  pose proof (proj1 (fsm_down_quiet (get_ncp Ipcp (ms m0)))) as Q1.
  pose proof (proj1 (fsm_down_quiet (get_ncp Ip6cp (ms m1)))) as Q2.
  revert A2 B2 Q1 Q2. generalize (fst (fsm_down (get_ncp Ipcp (ms m0)))) (fst (fsm_down (get_ncp Ip6cp (ms m1)))).
  intros f1 f2 A2 B2 Q1 Q2.
  assert (M : mo m2 = mo m) by (rewrite B1, A1; destruct m; reflexivity).
  destruct H as (mn & Hm & HP).
  unfold W. destruct m2 as [s2 n2 fr2 q2 o2] eqn:E2. cbn [emit upd ms mo]. cbn [mo] in M. subst o2.
  apply Wl_cons. exists mn. split; auto. exists mon0. split; [reflexivity|].
  cbn [ms] in B2.
  destruct m as [s n fr q o]. destruct m1 as [s1 n1 fr1 q1 o1]. cbn [ms mo upd] in *.
  destruct s, s1, s2. unfold core in *. cbn in *. inversion A2; inversion B2; subst.
  constructor; [constructor|..]; cbn; auto; try discriminate.
  intros [K|K]; discriminate.
Qed.

Lemma Inv_set_lcp : forall acc f s mn,
  (opb (fs f) = true \/ opb (fs (lcp s)) = false) -> Inv acc s mn -> Inv acc (set_lcp f s) mn.
Proof.
  intros acc f s mn Hf [[g1 g2 g3 g4 g5] a1 a2]. destruct s; cbn in *.
  constructor; [constructor|..]; cbn; auto.
  intros K. destruct Hf as [Hf|Hf].
  - destruct (fs f); try discriminate; auto.
  - rewrite (g4 K) in Hf. discriminate.
Qed.

(* onLCPUp: LCP has just reached Opened from a state in which it was not *)
Lemma on_lcp_up_T : forall acc f',
  fs f' = Opened ->
  T (fun s mn => opb (fs (lcp s)) = false /\ Inv acc s mn) (fun m => on_lcp_up (upd (set_lcp f') m)) (Inv acc).
Proof.
  intros acc f' Hf mn0 m H. unfold on_lcp_up.
  assert (H1 : W (Inv acc) mn0 (emit GLcpUp (upd (set_ph PAuth) (upd (set_lcp f') m)))).
  { apply W_emit_plain; [reflexivity|]. destruct m as [s n fr q o]. cbn [upd]. eapply Wl_imp; [exact H|].
    intros mn [Ho [[g1 g2 g3 g4 g5] a1 a2]]. destruct s; cbn in *.
    assert (N : in_net ph = false).
    { destruct (in_net ph) eqn:E; auto. rewrite g4 in Ho; auto. }
    assert (N2 : ph <> PAuth).
    { intros E. rewrite g4 in Ho; auto. cbn in Ho. discriminate. }
    constructor; [constructor|..]; cbn; auto; try discriminate.
    intros k K. destruct (g3 k K) as [L|[_ L]]; auto. contradiction. }
  destruct (auth_chap (ms (emit GLcpUp (upd (set_ph PAuth) (upd (set_lcp f') m))))); auto.
  apply W_emit_plain; [reflexivity|]. eapply W_upd; [exact H1|]. intros mn K.
  eapply Inv_core; [|exact K]. destruct m as [s ? ? ? ? ?], s; reflexivity.
Qed.

Lemma lcp_apply_Inv : forall v i g acc, vrep v = true -> lcp_okg g -> T (Inv acc) (lcp_apply v i g) (Inv acc).
Proof.
  intros [rep rfc td] i g acc Hv Hg mn0 m H. cbn in Hv. subst rep. unfold lcp_apply.
  specialize (Hg (lcp (ms m))). destruct (g (lcp (ms m))) as [f' acts]. cbn [fst snd] in Hg.
  unfold lcp_class in Hg. destruct (opb (fs (lcp (ms m)))) eqn:Ea, (opb (fs f')) eqn:Eb.
  - apply lcp_fold_neutral; auto. eapply W_upd; [exact H|]. intros mn K. apply Inv_set_lcp; auto.
  - destruct acts as [|[] r]; try discriminate. cbn [fold_left lcp_act].
    apply lcp_fold_neutral; auto. apply on_lcp_down_T. eapply W_upd; [exact H|].
    intros mn K. destruct (ms m); cbn. apply (inv_none _ _ _ K).
  - assert (Hf : fs f' = Opened) by (destruct (fs f'); try discriminate; auto).
    destruct acts as [|[] [|[] [|]]]; try discriminate; cbn [fold_left lcp_act].
    + apply (on_lcp_up_T acc f' Hf mn0 (emit (OLcp code) m)). apply W_emit_plain; [reflexivity|].
      eapply W_imp; [exact H|]. auto.
      (* on_lcp_up (emit _ (upd _ m)) and on_lcp_up (upd _ (emit _ m)) are convertible *)
    + apply (on_lcp_up_T acc f' Hf mn0 m). eapply W_imp; [exact H|]. auto.
  - apply lcp_fold_neutral; auto. eapply W_upd; [exact H|]. intros mn K. apply Inv_set_lcp; auto.
Qed.

(* ------------------------------------------------------------------ *)
(* authentication *)
Lemma publish_aaa_Inv : forall t acc,
  T (fun s mn => Inv acc s mn /\ ph s = PAuth) (publish_aaa t) (Inv acc).
Proof.
  intros t acc mn0 [s n fr q o] H. unfold publish_aaa, W. cbn [emit ms mo mn].
  apply Wl_cons. eapply Wl_imp; [exact H|]. intros mn [[[g1 g2 g3 g4 g5] a1 a2] Ep].
  exists (mkMon (Some (S n)) (mok mn)). split; [reflexivity|]. destruct s; cbn in *.
  constructor; [constructor|..]; cbn; auto.
Qed.

(* the IPv6 lease state is invisible to Rn *)
Lemma Rn_set_v6 : forall pe s mn x, Rn pe s mn -> Rn pe (set_v6 x s) mn.
Proof. intros pe s mn x K. destruct s; exact K. Qed.
Lemma Rn_on_fam : forall pe s mn pdf g, Rn pe s mn -> Rn pe (on_fam pdf g s) mn.
Proof. intros. unfold on_fam. apply Rn_set_v6; auto. Qed.
Lemma W_on_fam_Rn : forall pe mn0 m pdf g, W (Rn pe) mn0 m -> W (Rn pe) mn0 (upd (on_fam pdf g) m).
Proof. intros. eapply W_upd; [eassumption|]. intros mn K. apply Rn_on_fam; auto. Qed.
Lemma alloc6_Rn : forall pe pdf mn0 m k m2,
  W (Rn pe) mn0 m -> alloc6 pdf m = Some (k, m2) -> W (Rn pe) mn0 m2.
Proof.
  intros pe pdf mn0 m k m2 H E. unfold alloc6 in E. destruct (pool_of pdf (mfree6 m)); [discriminate|].
  inversion E; subst; clear E.
  apply W_emit_svc; [reflexivity|intros mn K; apply K|].
  destruct m as [s n0 fr0 q0 o0 f60]. unfold W. cbn [ms mo]. eapply Wl_imp; [exact H|].
  intros mn K. apply Rn_on_fam; auto.
Qed.

Lemma start_v4_Rn : forall pe, T (Rn pe) start_v4 (Rn pe).
Proof.
  intros pe mn0 m H. unfold start_v4.
  destruct (cur4 (ms m)); auto.
  - destruct (mfree m); auto.
    apply W_emit_svc; [reflexivity|intros mn K; apply K|].
    destruct m as [s n0 fr0 q0 o0 f60]. unfold W. cbn [ms mo]. eapply Wl_imp; [exact H|].
    intros mn K. destruct s; exact K.
  - destruct (live (ms m)); auto. destruct (mfree m); auto.
    apply W_emit_svc; [reflexivity|intros mn K; apply K|].
    destruct m as [s n0 fr0 q0 o0 f60]. exact H.
Qed.
Lemma rereserve6_Rn : forall pe pdf, T (Rn pe) (rereserve6 pdf) (Rn pe).
Proof.
  intros pe pdf mn0 m H. unfold rereserve6. destruct (pool_of pdf (mfree6 m)); auto.
  apply W_emit_svc; [reflexivity|intros mn K; apply K|].
  destruct m as [s n0 fr0 q0 o0 f60]. exact H.
Qed.
Lemma start_na_Rn : forall pe, T (Rn pe) start_na (Rn pe).
Proof.
  intros pe mn0 m H. unfold start_na.
  destruct (xs (na (v6 (ms m)))).
  - destruct (live (ms m)); auto. apply rereserve6_Rn; auto.
  - destruct (alloc6 false m) as [[k m2]|] eqn:E; auto.
    apply W_on_fam_Rn. eapply alloc6_Rn; eauto.
Qed.
Lemma start_pd_Rn : forall pe, T (Rn pe) start_pd (Rn pe).
Proof.
  intros pe mn0 m H. unfold start_pd.
  destruct (xs (pd (v6 (ms m)))); auto. destruct (live (ms m)); auto. apply rereserve6_Rn; auto.
Qed.
Lemma start_ncps_Rn : forall v i pe, T (Rn pe) (start_ncps v i) (Rn pe).
Proof.
  intros v i pe mn0 m1 H1. unfold start_ncps.
  apply ncp_apply_Rn. apply ncp_apply_Rn.
  destruct (cur4 (ms m1)); auto.
  all: apply ncp_apply_Rn; apply ncp_apply_Rn; (eapply W_upd; [exact H1|]); intros mn K; destruct (ms m1); exact K.
Qed.
Lemma start_ncp_Rn : forall v i pe, T (Rn pe) (start_ncp v i) (Rn pe).
Proof.
  intros v i pe mn0 m H. unfold start_ncp.
  apply start_ncps_Rn. apply start_pd_Rn. apply start_na_Rn. apply start_v4_Rn. exact H.
Qed.

Lemma Inv_set_pend_none : forall acc s mn, Inv acc s mn -> Inv acc (set_pend None PtNone s) mn.
Proof.
  intros acc s mn [[g1 g2 g3 g4 g5] a1 a2]. destruct s; cbn in *.
  constructor; [constructor|..]; cbn; auto. discriminate.
Qed.

(* an accept delivered to a session that is authenticating, the monitor having seen the accept *)
Lemma on_auth_allowed_Inv : forall v i static acc,
  T (fun s mn => Inv acc s mn /\ mok mn = true /\ ph s = PAuth /\ live s = true)
    (on_auth_result v i true static) (Inv acc).
Proof.
  intros v i static acc mn0 m H. unfold on_auth_result.
  assert (Ha : acc = true).
  { destruct H as (mn & _ & K & E & _). apply (inv_acc _ _ _ K E). }
  subst acc.
  set (P0 := fun pe (s : sess) (mn : mon) =>
                mok mn = true /\ fs (lcp s) = Opened /\ live s = true /\ pend s = pe).
  set (m1 := upd _ m).
  assert (H1 : W (P0 (pend (ms m))) mn0 m1).
  { unfold m1. eapply W_upd; [exact H|]. intros mn ([[g1 g2 g3 g4 g5] a1 a2] & K & Ep & L).
    destruct (ms m); cbn in *. subst. unfold P0; cbn. repeat split; auto. }
  assert (Epe : pend (ms m1) = pend (ms m)) by (unfold m1; destruct m as [s n0 fr0 q0 o0], s; reflexivity).
  rewrite <- Epe in H1. clearbody m1. clear Epe.
  assert (H1b : W (P0 (pend (ms (new_ctx m1)))) mn0 (new_ctx m1)).
  { unfold new_ctx. replace (pend (ms (upd _ (upd _ m1)))) with (pend (ms m1))
      by (destruct m1 as [s1 ? ? ? ? ?], s1; reflexivity).
    assert (V : forall pe s mn x, P0 pe s mn -> P0 pe (set_v6 x s) mn) by (intros pe s mn x K; destruct s; exact K).
    eapply (W_upd (P0 (pend (ms m1))) (P0 (pend (ms m1)))); [eapply (W_upd (P0 (pend (ms m1))) (P0 (pend (ms m1)))); [exact H1|]|];
      intros mn K; unfold on_fam; apply V; exact K. }
  clear H1. revert H1b. generalize (new_ctx m1). clear m1. intros m1 H1.
  set (m2 := match pty (ms m1) with PtPap => emit (OPap 2) m1 | PtChap => emit (OChap 3) m1 | PtNone => m1 end).
  assert (H2 : W (P0 (pend (ms m1))) mn0 m2).
  { unfold m2. destruct (pty (ms m1)); auto; apply W_emit_plain; auto. }
  clearbody m2.
  eapply W_upd; [apply (start_ncp_Rn v i (pend (ms m1))); eapply W_upd; [exact H2|]|].
  - intros mn (r1 & r3 & r4 & r5). destruct (ms m2); cbn in *. unfold Rn; cbn. repeat split; eauto.
  - intros mn (r1 & r2 & r3 & r4 & r5). apply Rn_Inv. destruct (ms (start_ncp v i _)); cbn in *.
    unfold Rn; cbn. repeat split; auto.
Qed.

(* a reject / error: LCP is closed, which resets the monitor through onLCPDown *)
Lemma on_auth_denied_Inv : forall v i static acc, vrep v = true ->
  T (Inv acc) (on_auth_result v i false static) (Inv acc).
Proof.
  intros v i static acc Hv mn0 m H. unfold on_auth_result.
  eapply W_upd; [apply (lcp_apply_Inv v i fsm_close acc Hv fsm_close_ok)|].
  - destruct (pty (ms m)); auto; apply W_emit_plain; auto.
  - intros mn K. apply Inv_set_pend_none; auto.
Qed.

(* ------------------------------------------------------------------ *)
(* termination (PADT, dead peer): the monitor has been reset *)
Lemma terminate_Inv : forall acc s mn1 n fr q f6,
  Inv acc s mn1 -> W (Inv acc) mon0 (terminate (upd (set_live false) (mkM s n fr q [] f6))).
Proof.
  intros acc s mn1 n fr q f6 [[g1 g2 g3 g4 g5] a1 a2]. unfold terminate, W. cbn [upd emit ms mo mn mfree mq].
  apply Wl_plain; [reflexivity|]. apply Wl_plain; [reflexivity|]. exists mon0. split; [reflexivity|].
  destruct s; cbn in *. destruct (in_net ph) eqn:E; cbn.
  all: constructor; [constructor|..]; cbn; auto; try discriminate.
  intros [K|K]; discriminate.
  intros [K|K]; discriminate.
Qed.
(* the teardown that follows a rejected authentication, inside the same handler run: whatever the monitor state *)
Lemma terminate_T : forall acc, T (Inv acc) (fun m => terminate (upd (set_live false) m)) (Inv acc).
Proof.
  intros acc mn0 m (mx & Hm & [[g1 g2 g3 g4 g5] a1 a2]). unfold terminate, W. cbn [upd emit ms mo mn mfree mq].
  apply Wl_plain; [reflexivity|]. apply Wl_plain; [reflexivity|]. exists mx. split; [exact Hm|].
  destruct m as [s n0 fr q o f6]; destruct s; cbn in *. destruct (in_net ph) eqn:E; cbn.
  all: constructor; [constructor|..]; cbn; auto; try discriminate.
  all: try (intros [K|K]; discriminate).
Qed.
Lemma Inv_dead_reset : forall acc s mn, live s = false -> Inv acc s mn -> Inv acc s mon0.
Proof.
  intros acc s mn L [[g1 g2 g3 g4 g5] a1 a2].
  assert (N : in_net (ph s) = false) by (destruct g5; congruence).
  constructor; [constructor|..]; cbn; auto; try congruence.
Qed.

(* the dataplane add failed: the session is torn down, the monitor forgets the accept *)
Lemma sb_fail_Inv : forall v acc s mn1 n fr q f6,
  Inv acc s mn1 -> W (Inv acc) mn1 (sb_fail v (mkM s n fr q [] f6)).
Proof.
  intros v acc s mn1 n fr q f6 K. unfold sb_fail. cbn [ms]. destruct (live s) eqn:L.
  - assert (T1 : W (Inv acc) mn1 (terminate (upd (set_live false) (emit OLifeR (mkM s n fr q [] f6))))).
    { apply terminate_T. apply W_emit_plain; [reflexivity|]. exists mn1. split; [reflexivity|exact K]. }
    destruct T1 as (mx & Hm & HI). unfold W. cbn [emit ms mo]. apply Wl_cons. exists mx. split; [exact Hm|].
    exists mon0. split; [reflexivity|]. eapply Inv_dead_reset; [|exact HI].
    unfold terminate. destruct s. cbn.
    match goal with |- context [in_net ?p] => destruct (in_net p) end; reflexivity.
  - destruct (vsf v); [exists mn1; split; [reflexivity|exact K]|].
    repeat (apply W_emit_plain; [reflexivity|]). exists mn1. split; [reflexivity|exact K].
Qed.

(* ------------------------------------------------------------------ *)
(* one lemma per event class *)
Lemma Inv_core_upd : forall acc (f : sess -> sess) mn0 m,
  (forall s, core (f s) = core s) -> W (Inv acc) mn0 m -> W (Inv acc) mn0 (upd f m).
Proof. intros acc f mn0 m Hf H. eapply W_upd; [exact H|]. intros mn K. eapply Inv_core; [apply Hf|exact K]. Qed.

(* DHCPv6 over PPP in Network/Open: allocations, answers and dataplane bindings are service of an accepted session;
   the IPv6 lease state is invisible to Rn *)
Lemma resolve6_Rn : forall pe pdf mn0 m, W (Rn pe) mn0 m -> W (Rn pe) mn0 (fst (resolve6 pdf m)).
Proof.
  intros pe pdf mn0 m H. unfold resolve6. destruct (xc (fam_of pdf (v6 (ms m)))); auto.
  destruct (alloc6 pdf m) as [[k m2]|] eqn:E; auto. cbn [fst].
  apply W_on_fam_Rn. eapply alloc6_Rn; eauto.
Qed.
Lemma Rn_reserve6 : forall pe s mn keep pdf named, Rn pe s mn -> Rn pe (reserve6 keep pdf named s) mn.
Proof. intros. unfold reserve6. apply Rn_on_fam; auto. Qed.
Lemma W_set_Rn : forall pe mn0 m s', (forall mn, Rn pe (ms m) mn -> Rn pe s' mn) ->
  W (Rn pe) mn0 m -> W (Rn pe) mn0 (upd (fun _ => s') m).
Proof. intros pe mn0 m s' K H. eapply W_upd; [exact H|]. exact K. Qed.
Ltac rn_emits :=
  repeat first [ apply W_emit_svc; [reflexivity | (let K := fresh in intros ? K; apply K) |]
               | apply W_emit_plain; [reflexivity|] ].
Lemma dh6_Rn : forall pe keep req, T (Rn pe) (dh6 keep req) (Rn pe).
Proof.
  intros pe keep req mn0 m H. unfold dh6.
  pose proof (resolve6_Rn pe false mn0 m H) as H1.
  destruct (resolve6 false m) as [m1 n_na]. cbn [fst] in H1.
  pose proof (resolve6_Rn pe true mn0 m1 H1) as H2.
  destruct (resolve6 true m1) as [m2 n_pd]. cbn [fst] in H2. clear H H1.
  assert (S1 : forall mn, Rn pe (ms m2) mn -> Rn pe (reserve6 keep true n_pd (reserve6 keep false n_na (ms m2))) mn)
    by (intros; repeat apply Rn_reserve6; auto).
  destruct (xc (na (v6 (ms m2)))), (xc (pd (v6 (ms m2)))); auto; destruct req.
  all: repeat first
       [ match goal with
         | |- W _ _ (match ?x with Some _ => _ | None => _ end) => destruct x
         | |- W _ _ (if ?x then _ else _) => destruct x
         end
       | apply W_emit_svc; [reflexivity | (let K := fresh in intros ? K; apply K) |]
       | apply W_emit_plain; [reflexivity|] ].
  all: apply W_set_Rn; auto.
  all: intros mn K; repeat apply Rn_on_fam; auto.
  all: destruct (reserved6 false (ms m2) && reserved6 true (ms m2)); auto.
Qed.

Lemma handle_frame_Inv : forall v i f acc, vrep v = true ->
  T (Inv acc) (handle_frame v i f) (Inv acc).
Proof.
  intros v i f acc Hv mn0 m H. unfold handle_frame. destruct f as [c|x|c|c| | | | | | | | | | | | | ]; auto.
  - (* LCP control frame *) apply lcp_apply_Inv; auto. apply fsm_input_ok.
  - (* LCP codes handled by the dispatcher / option handler *)
    destruct x; auto.
    + destruct (fs (lcp (ms m))); auto; apply W_emit_plain; auto.
    + apply ncp_apply_Inv_qs; auto. apply fsm_close_qs.
    + apply ncp_apply_Inv_qs; auto. apply fsm_close_qs.
    + apply lcp_apply_Inv; auto. apply fsm_input_ok.
    + apply lcp_apply_Inv; auto. apply fsm_input_ok. apply Inv_core_upd; auto.
    + apply lcp_apply_Inv; auto. apply fsm_input_ok. apply Inv_core_upd; auto.
  - (* IPCP *)
    destruct (in_net (ph (ms m))) eqn:E; auto. apply ncp_apply_Inv_net.
    assert (H1 : W (fun s mn => Inv acc s mn /\ in_net (ph s) = true) mn0 m) by (eapply W_imp; [exact H|]; auto).
    assert (U : forall g : sess -> sess, (forall s, core (g s) = core s) ->
                W (fun s mn => Inv acc s mn /\ in_net (ph s) = true) mn0 (upd g m)).
    { intros g Hg. eapply W_upd; [exact H1|]. intros mn [K1 K2]. split.
      - eapply Inv_core; [apply Hg|exact K1].
      - pose proof (Hg (ms m)) as Q. unfold core in Q. inversion Q. congruence. }
    destruct c as [[]| | | | | | | | ]; auto.
  - (* IPv6CP *)
    destruct (in_net (ph (ms m))) eqn:E; auto. apply ncp_apply_Inv_net. eapply W_imp; [exact H|]; auto.
  - (* PAP request *)
    destruct (ph (ms m)) eqn:E; auto. apply publish_aaa_Inv. eapply W_imp; [exact H|]; auto.
  - (* CHAP response *)
    destruct (ph (ms m)) eqn:E; auto. apply publish_aaa_Inv. eapply W_imp; [exact H|]; auto.
  - (* RS *)
    destruct (in_net (ph (ms m))) eqn:E; auto. destruct (fs (ip6cp (ms m))); auto.
    apply W_emit_svc; auto. intros mn K. apply (gi_net _ _ (inv_gi _ _ _ K) E).
  - (* NS *)
    destruct (in_net (ph (ms m))) eqn:E; auto. destruct (fs (ip6cp (ms m))); auto.
    apply W_emit_svc; auto. intros mn K. apply (gi_net _ _ (inv_gi _ _ _ K) E).
  - (* unknown protocol *) apply W_emit_plain; auto.
  - (* DHCPv6 SOLICIT over PPP *)
    destruct (in_net (ph (ms m))) eqn:E; auto. destruct (fs (ip6cp (ms m))); auto. destruct (ip6cp_open (ms m)); auto.
    destruct H as (mn & Hm & K). destruct (Inv_Rn _ _ _ K E) as [R Ha]. subst acc.
    eapply W_imp; [apply (dh6_Rn None (vnm v) false); exists mn; split; eauto|]. intros; apply Rn_Inv; auto.
  - (* DHCPv6 REQUEST over PPP *)
    destruct (in_net (ph (ms m))) eqn:E; auto. destruct (fs (ip6cp (ms m))); auto. destruct (ip6cp_open (ms m)); auto.
    destruct H as (mn & Hm & K). destruct (Inv_Rn _ _ _ K E) as [R Ha]. subst acc.
    eapply W_imp; [apply (dh6_Rn None (vnm v) true); exists mn; split; eauto|]. intros; apply Rn_Inv; auto.
Qed.

Lemma handle_timer_Inv : forall v i t acc, vrep v = true ->
  T (Inv acc) (handle_timer v i t) (Inv acc).
Proof.
  intros v i t acc Hv mn0 m H. unfold handle_timer. destruct t.
  - apply lcp_apply_Inv; auto. apply fsm_timeout_ok.
  - apply ncp_apply_Inv_qs; auto. apply fsm_timeout_qs.
  - apply ncp_apply_Inv_qs; auto. apply fsm_timeout_qs.
  - destruct (ph (ms m)); auto.
    assert (H1 : W (Inv acc) mn0 (upd (set_retry (S (chap_retry (ms m)))) m)).
    { apply Inv_core_upd; auto. }
    destruct (10 <=? S (chap_retry (ms m))).
    + apply lcp_apply_Inv; auto. apply fsm_close_ok.
    + apply W_emit_plain; auto.
Qed.

(* PADR: a fresh session; the monitor and the ghost have been reset *)
Lemma open_session_Inv : forall v i s n fr q f6, vrep v = true ->
  W (Inv false) mon0 (open_session v i (mkM s n fr q [] f6)).
Proof.
  intros v i s n fr q f6 Hv. unfold open_session.
  apply lcp_apply_Inv; auto. apply fsm_open_ok. apply lcp_apply_Inv; auto. apply fsm_up_ok.
  apply W_emit_plain; [reflexivity|]. exists mon0. split; [reflexivity|]. cbn.
  constructor; [constructor|..]; cbn; auto; try discriminate.
  intros [K|K]; discriminate.
Qed.
