From Coq Require Import Extraction ExtrOcamlBasic.
From OV Require Import Common.Base C15.Model.
Extraction Language OCaml.
Extraction "C15_model.ml" repaired defective effective configure step cstep comp_init stats
  mon_disjoint mon_range mon_limit mon_paired mon_trace rev_lookup all_blocks blocks_of
  mconfigure configure_all mstep mon_xdisjoint pool_ok setup pools_valid dispatch estep ecomp_init db_step pstep.
